import FpgoVerif.Proofs.C19Sort
/-! Helper lemmas for C19: the judge's executable checks (`acceptsB`) accept exactly the model's answer. -/
namespace FpgoVerif.C19

variable {β : Type}

theorem pairwiseB_iff (r : β → β → Bool) : ∀ l : List β,
    pairwiseB r l = true ↔ l.Pairwise (fun a b => r a b = true)
  | [] => by simp [pairwiseB]
  | a :: t => by simp [pairwiseB, pairwiseB_iff r t, List.pairwise_cons]

theorem allSome_eq_some : ∀ (l : List (Option β)) (out : List β), allSome l = some out ↔ l = out.map some
  | [], out => by cases out <;> simp [allSome]
  | none :: t, out => by cases out <;> simp [allSome]
  | some x :: t, out => by
    cases out with
    | nil => simp [allSome]
    | cons y out' =>
      simp only [allSome, Option.map_eq_some_iff, List.map_cons, List.cons.injEq, Option.some.injEq]
      constructor
      · rintro ⟨o, ho, h1, h2⟩
        exact ⟨h1, by subst h2; exact (allSome_eq_some t o).mp ho⟩
      · rintro ⟨h1, h2⟩
        exact ⟨out', (allSome_eq_some t out').mpr h2, h1, rfl⟩

/-- the tagged element at position `i`, if any -/
def tagAt (recs : List β) (i : Nat) : Option (Nat × β) := (recs[i]?).map (fun r => (i, r))

theorem lookupAll_eq (recs : List β) (ids : List Nat) : lookupAll recs ids = allSome (ids.map (tagAt recs)) := rfl

theorem tag_length (recs : List β) : (tag recs).length = recs.length := by simp [tag]

theorem tag_getElem (recs : List β) (i : Nat) (hi : i < recs.length) :
    (tag recs)[i]'(by simp [tag_length, hi]) = (i, recs[i]) := by
  simp [tag]

theorem tag_map_some (recs : List β) : (tag recs).map some = (List.range recs.length).map (tagAt recs) := by
  apply List.ext_getElem
  · simp [tag_length]
  · intro i h1 h2
    have hi : i < recs.length := by simpa [tag_length] using h1
    simp [tagAt, tag, hi]

theorem tag_map_fst (recs : List β) : (tag recs).map (·.1) = List.range recs.length := by
  apply List.ext_getElem
  · simp [tag_length]
  · intro i h1 h2
    simp [tag]

theorem tag_pairwise (recs : List β) : (tag recs).Pairwise (fun a b => a.1 < b.1) := by
  have := List.pairwise_lt_range (n := recs.length)
  rw [← tag_map_fst recs, List.pairwise_map] at this
  exact this

theorem mem_tag {recs : List β} {p : Nat × β} (hp : p ∈ tag recs) : tagAt recs p.1 = some p := by
  obtain ⟨i, hi, rfl⟩ := List.mem_iff_getElem.mp hp
  have hi' : i < recs.length := by simpa [tag_length] using hi
  simp [tag_getElem recs i hi', tagAt, hi']

theorem tagAt_some {recs : List β} {i : Nat} {p : Nat × β} (h : tagAt recs i = some p) :
    p.1 = i ∧ i < recs.length := by
  unfold tagAt at h
  cases hr : recs[i]? with
  | none => simp [hr] at h
  | some r =>
    simp [hr] at h
    have := List.getElem?_eq_some_iff.mp hr
    exact ⟨by rw [← h], this.1⟩

/-- a successful lookup returns the tagged elements of `ids`, in that order -/
theorem lookupAll_some {recs : List β} {ids : List Nat} {out : List (Nat × β)}
    (h : lookupAll recs ids = some out) :
    out.map (·.1) = ids ∧ (∀ i ∈ ids, i < recs.length) ∧ out = (ids.map (tagAt recs)).filterMap id := by
  rw [lookupAll_eq, allSome_eq_some] at h
  refine ⟨?_, ?_, ?_⟩
  · have : ∀ (ids : List Nat) (out : List (Nat × β)), ids.map (tagAt recs) = out.map some → out.map (·.1) = ids := by
      intro ids
      induction ids with
      | nil => intro out h; cases out <;> simp at h ⊢
      | cons i t ih =>
        intro out h
        cases out with
        | nil => simp at h
        | cons p out' =>
          simp only [List.map_cons, List.cons.injEq] at h ⊢
          exact ⟨(tagAt_some h.1).1, ih out' h.2⟩
    exact this ids out h
  · intro i hi
    have : tagAt recs i ∈ ids.map (tagAt recs) := List.mem_map_of_mem hi
    rw [h] at this
    obtain ⟨p, _, hp⟩ := List.mem_map.mp this
    exact (tagAt_some hp.symm).2
  · rw [h]; simp [List.filterMap_map]

theorem tag_eq_filterMap (recs : List β) :
    tag recs = ((List.range recs.length).map (tagAt recs)).filterMap id := by
  rw [← tag_map_some]; simp [List.filterMap_map]

theorem lookupAll_of_mem_tag (recs : List β) : ∀ (out : List (Nat × β)), (∀ p ∈ out, p ∈ tag recs) →
    lookupAll recs (out.map (·.1)) = some out
  | [], _ => rfl
  | p :: t, h => by
    have ih := lookupAll_of_mem_tag recs t (fun q hq => h q (List.mem_cons_of_mem _ hq))
    have hp := mem_tag (h p List.mem_cons_self)
    rw [lookupAll_eq] at ih ⊢
    simp only [List.map_cons, allSome, hp, ih, Option.map_some]

theorem count_fst (out : List (Nat × β)) (i : Nat) :
    (out.filter (fun p => p.1 == i)).length = List.count i (out.map (·.1)) := by
  rw [List.count_eq_countP, List.countP_map, List.countP_eq_length_filter]
  rfl

/-- `isPermB` + successful lookup: the output is a permutation of the tagged input -/
theorem perm_tag_of_isPermB {recs : List β} {ids : List Nat} {out : List (Nat × β)}
    (h : lookupAll recs ids = some out) (hp : isPermB recs.length out = true) : out.Perm (tag recs) := by
  obtain ⟨h1, h2, h3⟩ := lookupAll_some h
  have hids : ids.Perm (List.range recs.length) := by
    rw [List.perm_iff_count]
    intro a
    rw [List.count_range]
    by_cases ha : a < recs.length
    · simp only [isPermB, Bool.and_eq_true, List.all_eq_true, List.mem_range, beq_iff_eq] at hp
      rw [← h1, ← count_fst, hp.2 a ha]; simp [ha]
    · simp only [ha, if_false]
      exact List.count_eq_zero.mpr (fun hm => ha (h2 a hm))
  rw [h3, tag_eq_filterMap]
  exact (hids.map _).filterMap _

theorem isPermB_of_perm_tag {recs : List β} {out : List (Nat × β)} (h : out.Perm (tag recs)) :
    isPermB recs.length out = true := by
  simp only [isPermB, Bool.and_eq_true, List.all_eq_true, List.mem_range, beq_iff_eq]
  refine ⟨by rw [h.length_eq, tag_length], ?_⟩
  intro i hi
  rw [(h.filter _).length_eq, count_fst, tag_map_fst, List.count_range]
  simp [hi]

theorem liftLess_strictWeak {less : β → β → Bool} (h : StrictWeak less) : StrictWeak (liftLess less) :=
  ⟨fun a => h.irrefl a.2, fun _ _ _ => h.trans, fun _ _ c => h.negTrans c.2⟩

/-- The oracle (permutation ∧ ordered ∧ stable, evaluated on the observed id sequence) accepts exactly
    the model's answer. -/
theorem acceptsB_iff {less : β → β → Bool} (h : StrictWeak less) (recs : List β) (ids : List Nat) :
    acceptsB less recs ids = true ↔ ids = modelIds less recs := by
  have hL := liftLess_strictWeak h
  constructor
  · intro ha
    unfold acceptsB at ha
    cases hlk : lookupAll recs ids with
    | none => simp [hlk] at ha
    | some out =>
      simp only [hlk, Bool.and_eq_true] at ha
      obtain ⟨⟨hp, ho⟩, hs⟩ := ha
      have hperm := perm_tag_of_isPermB hlk hp
      have hord : out.Pairwise (fun a b => liftLess less b a = false) := by
        have := (pairwiseB_iff _ _).mp ho
        exact this.imp (by intro a b hab; simpa [liftLess] using hab)
      have hst : out.Pairwise (fun a b => equivBy (liftLess less) a b = true → a.1 < b.1) := by
        have := (pairwiseB_iff _ _).mp hs
        refine this.imp ?_
        intro a b hab he
        have he' : equivBy less a.2 b.2 = true := he
        simpa [he'] using hab
      have hfil := filter_equiv_of_stable_idx hL (·.1) (tag recs) out (tag_pairwise recs) hperm hst
      have := stable_sorted_unique hL out (sortBy (liftLess less) (tag recs))
        (hperm.trans (sortBy_perm _ _).symm) hord (sortBy_pairwise hL _)
        (fun x => (hfil x).trans (sortBy_filter_equiv hL _ x).symm)
      rw [modelIds, sort, ← this, (lookupAll_some hlk).1]
  · intro hids
    subst hids
    have hmem : ∀ p ∈ sortBy (liftLess less) (tag recs), p ∈ tag recs :=
      fun p hp => (sortBy_perm _ _).subset hp
    unfold acceptsB modelIds sort
    rw [lookupAll_of_mem_tag recs _ hmem]
    simp only [Bool.and_eq_true]
    refine ⟨⟨isPermB_of_perm_tag (sortBy_perm _ _), ?_⟩, ?_⟩
    · rw [orderedB, pairwiseB_iff]
      exact (sortBy_pairwise hL (tag recs)).imp (by intro a b hab; simpa [liftLess] using hab)
    · rw [stableB, pairwiseB_iff]
      refine (sortBy_stable_idx hL (·.1) (tag recs) (tag_pairwise recs)).imp ?_
      intro a b hab
      by_cases he : equivBy less a.2 b.2 = true
      · have := hab he; simp [this]
      · simp [he]

theorem verdict_allowed_iff (less : β → β → Bool) (recs : List β) (ids : List Nat) :
    verdict less recs ids = "allowed ordered stable permutation" ↔ acceptsB less recs ids = true := by
  unfold verdict acceptsB
  cases lookupAll recs ids with
  | none => simp
  | some out =>
    cases h1 : isPermB recs.length out <;> cases h2 : orderedB less out <;> cases h3 : stableB less out <;>
      simp [h1, h2, h3]

end FpgoVerif.C19
