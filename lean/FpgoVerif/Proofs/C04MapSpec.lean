import FpgoVerif.Proofs.C04Content
/-! C04 — key/value semantics of the association-list functions the Set operations are built from
    (`lookup`-level laws), and the map a Set operation's result holds. -/
namespace FpgoVerif.C04
open World
namespace Spec
variable {β : Type}

theorem lookup_insert (k k' : Int) (v : β) (m : List (Int × β)) :
    lookup k (insert k' v m) = if k' = k then some v else lookup k m := by
  induction m with
  | nil => simp [insert, lookup]
  | cons a t ih =>
    obtain ⟨ka, va⟩ := a
    simp only [insert]
    by_cases h : ka = k'
    · subst h; simp only [if_true, lookup]
      by_cases h2 : ka = k <;> simp [h2]
    · simp only [h, if_false, lookup, ih]
      by_cases h2 : ka = k
      · subst h2
        have : ¬ k' = ka := fun e => h e.symm
        simp [this]
      · simp [h2]

theorem lookup_append (k : Int) (a b : List (Int × β)) :
    lookup k (a ++ b) = match lookup k a with | some v => some v | none => lookup k b := by
  induction a with
  | nil => simp [lookup]
  | cons x t ih =>
    obtain ⟨kx, vx⟩ := x
    simp only [List.cons_append, lookup]
    by_cases h : kx = k <;> simp [h, ih]

/-- successive assignments: the LAST assignment to a key wins, keys never assigned keep the old entry -/
theorem lookup_foldl_insert (k : Int) (l : List (Int × β)) :
    ∀ acc : List (Int × β), lookup k (l.foldl (fun r kv => insert kv.1 kv.2 r) acc)
      = match lookup k l.reverse with | some v => some v | none => lookup k acc := by
  induction l with
  | nil => intro acc; simp [lookup]
  | cons a t ih =>
    intro acc
    simp only [List.foldl_cons, List.reverse_cons]
    rw [ih, lookup_append, lookup_insert]
    cases h : lookup k t.reverse with
    | some v => rfl
    | none =>
      simp only [lookup]
      by_cases h2 : a.1 = k <;> simp [h2]

/-- `Merge(m₁, m₂)` (what `Union` stores): the ARGUMENT wins on common keys, all other entries of both kept -/
theorem lookup_merge (k : Int) (m₁ m₂ : List (Int × β)) :
    lookup k (merge m₁ m₂) = match lookup k m₂.reverse with | some v => some v | none => lookup k m₁ :=
  lookup_foldl_insert k m₂ m₁

theorem lookup_insertIfAbsent (k k' : Int) (v : β) (m : List (Int × β)) :
    lookup k (insertIfAbsent k' v m) = match lookup k m with
      | some x => some x
      | none => if k' = k then some v else none := by
  unfold insertIfAbsent hasKey
  cases hk' : lookup k' m with
  | some x =>
    simp only [Option.isSome_some, if_true]
    cases hk : lookup k m with
    | some y => rfl
    | none =>
      by_cases h : k' = k
      · subst h; rw [hk] at hk'; cases hk'
      · simp [h]
  | none =>
    simp only [Option.isSome_none, Bool.false_eq_true, if_false, lookup_insert]
    by_cases h : k' = k
    · subst h; simp [hk']
    · simp only [h, if_false]; cases lookup k m <;> rfl

/-- `Add(items...)`: existing entries untouched; every missing item gets the zero value -/
theorem lookup_add (k : Int) (zero : β) (items : List Int) :
    ∀ m : List (Int × β), lookup k (items.foldl (fun m k => insertIfAbsent k zero m) m) = match lookup k m with
      | some x => some x
      | none => if items.contains k then some zero else none := by
  induction items with
  | nil => intro m; cases h : lookup k m <;> simp [h]
  | cons a t ih =>
    intro m
    simp only [List.foldl_cons]
    rw [ih, lookup_insertIfAbsent]
    cases lookup k m with
    | some x => rfl
    | none =>
      by_cases h : a = k
      · subst h; simp
      · have hk : ¬ k = a := fun e => h e.symm
        simp [h, hk]

/-- filters that look at the key only (`RemoveKeys`, `Intersection`, `Minus`) -/
theorem lookup_filter_key (k : Int) (p : Int → Bool) (m : List (Int × β)) :
    lookup k (m.filter (fun kv => p kv.1)) = if p k then lookup k m else none := by
  induction m with
  | nil => simp [lookup]
  | cons a t ih =>
    obtain ⟨ka, va⟩ := a
    simp only [List.filter_cons]
    by_cases hp : p ka
    · simp only [hp, if_true, lookup, ih]
      by_cases h : ka = k
      · subst h; simp [hp]
      · simp [h]
    · simp only [hp, Bool.false_eq_true, if_false, ih, lookup]
      by_cases h : ka = k
      · subst h; simp [hp]
      · simp [h]

theorem lookup_removeKeys (k : Int) (m : List (Int × β)) (ks : List Int) :
    lookup k (removeKeys m ks) = if ks.contains k then none else lookup k m := by
  unfold removeKeys
  rw [lookup_filter_key k (fun x => !ks.contains x)]
  by_cases h : ks.contains k <;> simp [h]

theorem lookup_interByKey (k : Int) (m₁ m₂ : List (Int × β)) :
    lookup k (interByKey m₁ m₂) = if hasKey k m₂ then lookup k m₁ else none :=
  lookup_filter_key k (fun x => hasKey x m₂) m₁

theorem lookup_minusByKey (k : Int) (m₁ m₂ : List (Int × β)) :
    lookup k (minusByKey m₁ m₂) = if hasKey k m₂ then none else lookup k m₁ := by
  unfold minusByKey
  rw [lookup_filter_key k (fun x => !hasKey x m₂)]
  by_cases h : hasKey k m₂ <;> simp [h]

theorem lookup_mapVals (k : Int) (f : β → β) (m : List (Int × β)) :
    lookup k (mapVals f m) = (lookup k m).map f := by
  induction m with
  | nil => simp [mapVals, lookup]
  | cons a t ih =>
    obtain ⟨ka, va⟩ := a
    simp only [mapVals, List.map_cons, lookup] at ih ⊢
    by_cases h : ka = k <;> simp [h, ih]

end Spec

/-! ### what the result of a Set operation holds -/

theorem setMap_newSet (w : World) (m : AMap) : (w.newSet m).1.setMap (w.newSet m).2 = m := by
  simp [newSet, allocMap, allocSet, setMap, mapAt, List.getD_eq_getElem?_getD]

theorem setMap_newNilSet (w : World) : w.newNilSet.1.setMap w.newNilSet.2 = [] := by
  simp [newNilSet, allocSet, setMap, List.getD_eq_getElem?_getD]

/-- the argument's map (`nil` argument = no entries) -/
def argMap (w : World) : Option Nat → AMap
  | none => []
  | some q => w.setMap q

theorem merge_nil {β} (m : List (Int × β)) : Spec.merge m [] = m := rfl

theorem filter_const_true {α} (l : List α) : l.filter (fun _ => true) = l := by
  induction l with
  | nil => rfl
  | cons a t ih => simp [List.filter_cons, ih]

theorem isEmpty_eq_nil {α} {l : List α} (h : l.isEmpty = true) : l = [] := by cases l <;> simp_all

end FpgoVerif.C04

namespace FpgoVerif.C04
namespace Spec
variable {β : Type}

theorem insert_of_lookup_none (k : Int) (v : β) (m : List (Int × β)) (h : lookup k m = none) :
    insert k v m = m ++ [(k, v)] := by
  induction m with
  | nil => rfl
  | cons a t ih =>
    obtain ⟨ka, va⟩ := a
    simp only [lookup] at h
    by_cases hk : ka = k
    · simp [hk] at h
    · simp only [hk, if_false] at h
      simp [insert, hk, ih h]

theorem foldl_insert_fresh (f : Int → Int) (l : List (Int × β)) :
    ∀ acc : List (Int × β), (∀ kv ∈ l, lookup (f kv.1) acc = none) → (l.map (fun kv => f kv.1)).Nodup →
      l.foldl (fun r kv => insert (f kv.1) kv.2 r) acc = acc ++ l.map (fun kv => (f kv.1, kv.2)) := by
  induction l with
  | nil => intro acc _ _; simp
  | cons a t ih =>
    intro acc hacc hnd
    simp only [List.map_cons, List.nodup_cons] at hnd
    simp only [List.foldl_cons, List.map_cons]
    rw [insert_of_lookup_none _ _ _ (hacc a (List.mem_cons_self ..))]
    rw [ih _ ?_ hnd.2]
    · simp
    · intro kv hkv
      rw [lookup_append, hacc kv (List.mem_cons_of_mem _ hkv)]
      simp only [lookup]
      have : f a.1 ≠ f kv.1 := by
        intro e
        apply hnd.1
        rw [e]
        exact List.mem_map.mpr ⟨kv, hkv, rfl⟩
      simp [this]

/-- `MapKey(f)` when the transformed keys are pairwise distinct (e.g. `f` injective on a map, whose keys are
    distinct): every entry keeps its value under the transformed key, in order -/
theorem mapKeys_of_nodup (f : Int → Int) (m : List (Int × β)) (h : (m.map (fun kv => f kv.1)).Nodup) :
    mapKeys f m = m.map (fun kv => (f kv.1, kv.2)) := by
  unfold mapKeys
  rw [foldl_insert_fresh f m [] (fun _ _ => rfl) h]; rfl

theorem keyFn_injective (k : Nat) : Function.Injective (keyFn k) := by
  intro a b h
  match k with
  | 0 => simp only [keyFn] at h; omega
  | 1 => simp only [keyFn] at h; omega
  | n + 2 => simp only [keyFn] at h; omega

end Spec
end FpgoVerif.C04
