import FpgoVerif.Proofs.C10Log
/-! C10 — Map(fn) as a system of two publishers.

    Origin `P` and derived publisher `Q = P.Map(fn)`: `Map` subscribes to `P` a forwarding subscription `x` whose
    callback is `Q.Publish(fn v)` (closing theorem `C10_skel_Map`).  `MapSys` runs the two publisher transition
    systems of `Model/C10Core.lean` side by side — every action of either one is a `step true` of that publisher,
    so all single-publisher theorems apply to `P` and to `Q` — and adds the one coupling: each delivery of `P` to `x`
    creates the obligation to begin `Q.Publish(fn v)`; it is discharged by `fwdBegin`, which any goroutine may perform
    at any later time and in any order relative to other obligations (an over-approximation of "the goroutine that
    runs the callback", sound for the counting statements proved here). -/
namespace FpgoVerif.C10

/-- what one step does to the delivery log and to the id counter -/
theorem step_log {fixed : Bool} {grow : Nat → Nat} {s s' : State} {a : Act} (hs : step fixed grow s a = some s') :
    s.nextId ≤ s'.nextId ∧ s.nextPid ≤ s'.nextPid ∧
    (s'.log = s.log ∨ ∃ t f rest b, a = .deliver t ∧ s.stacks t = .pub f :: rest ∧ f.k < f.h.len ∧
      s'.log = (f.pid, readCell s.heap f.h f.k, f.val, b) :: s.log) := by
  cases a <;> simp only [step] at hs
  case subscribe t => split at hs <;> cases hs; exact ⟨Nat.le_succ _, Nat.le_refl _, Or.inl rfl⟩
  case subscribeNil t => split at hs <;> cases hs; exact ⟨Nat.le_succ _, Nat.le_refl _, Or.inl rfl⟩
  case unsubBegin t x => split at hs <;> cases hs; exact ⟨Nat.le_refl _, Nat.le_refl _, Or.inl rfl⟩
  case unsubStep t =>
    split at hs
    · split at hs
      · cases fixed <;> cases hs <;> exact ⟨Nat.le_refl _, Nat.le_refl _, Or.inl rfl⟩
      · cases hs; exact ⟨Nat.le_refl _, Nat.le_refl _, Or.inl rfl⟩
    · cases hs
  case pubBegin t v => split at hs <;> cases hs; exact ⟨Nat.le_refl _, Nat.le_succ _, Or.inl rfl⟩
  case deliver t =>
    split at hs
    · rename_i f rest hst
      split at hs
      · rename_i hk
        split at hs
        · cases hs; exact ⟨Nat.le_refl _, Nat.le_refl _, Or.inl rfl⟩
        · split at hs <;> cases hs
          · exact ⟨Nat.le_refl _, Nat.le_refl _, Or.inr ⟨t, f, rest, true, rfl, hst, hk, rfl⟩⟩
          · exact ⟨Nat.le_refl _, Nat.le_refl _, Or.inr ⟨t, f, rest, false, rfl, hst, hk, rfl⟩⟩
      · cases hs
    · cases hs
  case cbReturn t => split at hs <;> cases hs; exact ⟨Nat.le_refl _, Nat.le_refl _, Or.inl rfl⟩
  case pubEnd t =>
    split at hs
    · split at hs <;> cases hs; exact ⟨Nat.le_refl _, Nat.le_refl _, Or.inl rfl⟩
    · cases hs
  case setSubOn t b => split at hs <;> cases hs; exact ⟨Nat.le_refl _, Nat.le_refl _, Or.inl rfl⟩
  case hrun t => split at hs <;> cases hs; exact ⟨Nat.le_refl _, Nat.le_refl _, Or.inl rfl⟩

/-- every logged delivery went to a subscription id that had been handed out -/
theorem log_sid_lt (grow : Nat → Nat) {s : State} (r : Reach grow s) : ∀ e ∈ s.log, 0 < e.2.1 ∧ e.2.1 < s.nextId := by
  induction r with
  | init => intro e h; simp [init] at h
  | @step s s' a hr hs ih =>
    obtain ⟨hn, _, hl⟩ := step_log hs
    rcases hl with hl | ⟨t, f, rest, b, _, hst, hk, hl⟩
    · intro e h; rw [hl] at h; exact ⟨(ih e h).1, Nat.lt_of_lt_of_le (ih e h).2 hn⟩
    · intro e h
      rw [hl] at h
      rcases List.mem_cons.mp h with h | h
      · subst h
        have ok : PubOK s.heap s.subs s.nextId s.silent f :=
          (Inv_reach grow hr).frames t (.pub f) (by rw [hst]; simp)
        have hmem : readCell s.heap f.h f.k ∈ f.snap := by
          have h1 := readCell_of_content ok.same hk ok.len
          have : readCell s.heap f.h f.k ∈ f.snap.take (f.k + 1) := by rw [h1]; simp
          exact List.mem_of_mem_take this
        have h2 := ok.static.old _ hmem
        have := ok.n0_le
        show 0 < readCell s.heap f.h f.k ∧ readCell s.heap f.h f.k < s'.nextId
        omega
      · exact ⟨(ih e h).1, Nat.lt_of_lt_of_le (ih e h).2 hn⟩

theorem mem_upd_cases {st : Nat → List Frame} {t : Nat} {new : List Frame} {u : Nat} {fr : Frame}
    (h : fr ∈ upd st t new u) : (u = t ∧ fr ∈ new) ∨ (u ≠ t ∧ fr ∈ st u) := by
  by_cases hu : u = t
  · subst hu; rw [upd_same] at h; exact Or.inl ⟨rfl, h⟩
  · rw [upd_other _ _ _ _ hu] at h; exact Or.inr ⟨hu, h⟩

/-- a publish frame of the new state is a frame of the same goroutine in the old state with the same call id and
    value, or the frame of the Publish call this very step began -/
theorem frames_step {fixed : Bool} {grow : Nat → Nat} {s s' : State} {a : Act} (hs : step fixed grow s a = some s') :
    ∀ u f', .pub f' ∈ s'.stacks u →
      (∃ f, .pub f ∈ s.stacks u ∧ f.pid = f'.pid ∧ f.val = f'.val) ∨
      (f'.pid = s.nextPid ∧ a = .pubBegin u f'.val) := by
  intro u f' hm
  cases a <;> simp only [step] at hs
  case subscribe t => split at hs <;> cases hs; exact Or.inl ⟨f', hm, rfl, rfl⟩
  case subscribeNil t => split at hs <;> cases hs; exact Or.inl ⟨f', hm, rfl, rfl⟩
  case unsubBegin t x =>
    split at hs <;> cases hs
    rcases mem_upd_cases hm with ⟨rfl, h⟩ | ⟨_, h⟩
    · simp at h; exact Or.inl ⟨f', h, rfl, rfl⟩
    · exact Or.inl ⟨f', h, rfl, rfl⟩
  case unsubStep t =>
    split at hs
    · rename_i x rest hst
      split at hs
      · cases fixed <;> cases hs <;> exact Or.inl ⟨f', hm, rfl, rfl⟩
      · cases hs
        rcases mem_upd_cases hm with ⟨rfl, h⟩ | ⟨_, h⟩
        · exact Or.inl ⟨f', by rw [hst]; exact List.mem_cons_of_mem _ h, rfl, rfl⟩
        · exact Or.inl ⟨f', h, rfl, rfl⟩
    · cases hs
  case pubBegin t v =>
    split at hs <;> cases hs
    rcases mem_upd_cases hm with ⟨rfl, h⟩ | ⟨_, h⟩
    · rcases List.mem_cons.mp h with h | h
      · injection h with h; subst h; exact Or.inr ⟨rfl, rfl⟩
      · exact Or.inl ⟨f', h, rfl, rfl⟩
    · exact Or.inl ⟨f', h, rfl, rfl⟩
  case deliver t =>
    split at hs
    · rename_i f rest hst
      split at hs
      · split at hs
        · cases hs
          rcases mem_upd_cases hm with ⟨rfl, h⟩ | ⟨_, h⟩
          · rcases List.mem_cons.mp h with h | h
            · injection h with h; subst h; exact Or.inl ⟨f, by rw [hst]; simp, rfl, rfl⟩
            · exact Or.inl ⟨f', by rw [hst]; exact List.mem_cons_of_mem _ h, rfl, rfl⟩
          · exact Or.inl ⟨f', h, rfl, rfl⟩
        · split at hs <;> cases hs
          · rcases mem_upd_cases hm with ⟨rfl, h⟩ | ⟨_, h⟩
            · rcases List.mem_cons.mp h with h | h
              · injection h with h; subst h; exact Or.inl ⟨f, by rw [hst]; simp, rfl, rfl⟩
              · exact Or.inl ⟨f', by rw [hst]; exact List.mem_cons_of_mem _ h, rfl, rfl⟩
            · exact Or.inl ⟨f', h, rfl, rfl⟩
          · rcases mem_upd_cases hm with ⟨rfl, h⟩ | ⟨_, h⟩
            · rcases List.mem_cons.mp h with h | h
              · cases h
              · rcases List.mem_cons.mp h with h | h
                · injection h with h; subst h; exact Or.inl ⟨f, by rw [hst]; simp, rfl, rfl⟩
                · exact Or.inl ⟨f', by rw [hst]; exact List.mem_cons_of_mem _ h, rfl, rfl⟩
            · exact Or.inl ⟨f', h, rfl, rfl⟩
      · cases hs
    · cases hs
  case cbReturn t =>
    split at hs
    · rename_i rest hst
      cases hs
      rcases mem_upd_cases hm with ⟨rfl, h⟩ | ⟨_, h⟩
      · exact Or.inl ⟨f', by rw [hst]; exact List.mem_cons_of_mem _ h, rfl, rfl⟩
      · exact Or.inl ⟨f', h, rfl, rfl⟩
    · cases hs
  case pubEnd t =>
    split at hs
    · rename_i f rest hst
      split at hs <;> cases hs
      rcases mem_upd_cases hm with ⟨rfl, h⟩ | ⟨_, h⟩
      · exact Or.inl ⟨f', by rw [hst]; exact List.mem_cons_of_mem _ h, rfl, rfl⟩
      · exact Or.inl ⟨f', h, rfl, rfl⟩
    · cases hs
  case setSubOn t b => split at hs <;> cases hs; exact Or.inl ⟨f', hm, rfl, rfl⟩
  case hrun t =>
    split at hs
    · cases hs
      rcases mem_upd_cases hm with ⟨rfl, h⟩ | ⟨_, h⟩
      · simp at h
      · exact Or.inl ⟨f', h, rfl, rfl⟩
    · cases hs

/-- a finished call of the new state was finished before, or was a running call of the old state -/
theorem ended_step {fixed : Bool} {grow : Nat → Nat} {s s' : State} {a : Act} (hs : step fixed grow s a = some s') :
    ∀ r ∈ s'.ended, r ∈ s.ended ∨ ∃ u, .pub r.f ∈ s.stacks u := by
  intro r hm
  cases a <;> simp only [step] at hs
  case pubEnd t =>
    split at hs
    · rename_i f rest hst
      split at hs <;> cases hs
      rcases List.mem_cons.mp hm with h | h
      · subst h; exact Or.inr ⟨t, by rw [hst]; simp⟩
      · exact Or.inl h
    · cases hs
  case unsubStep t =>
    split at hs
    · split at hs
      · cases fixed <;> cases hs <;> exact Or.inl hm
      · cases hs; exact Or.inl hm
    · cases hs
  case deliver t =>
    split at hs
    · split at hs
      · split at hs
        · cases hs; exact Or.inl hm
        · split at hs <;> cases hs <;> exact Or.inl hm
      · cases hs
    · cases hs
  all_goals (split at hs <;> cases hs; exact Or.inl hm)

/-! ### the two-publisher system -/

structure MapSys where
  P : State                      -- the origin
  Q : State                      -- the derived publisher `P.Map(fn)`
  x : Nat                        -- id (on P) of the forwarding subscription; 0 = Map has not been called yet
  pend : List (Nat × Int)        -- deliveries of P to x whose `Q.Publish(fn v)` has not begun yet: (call id on P, v)
  fwd : List (Nat × Int × Nat)   -- ghost: forwards begun: (call id on P, v, call id on Q), newest first

def MapSys.init : MapSys := ⟨C10.init, C10.init, 0, [], []⟩

inductive MAct
  | map (t : Nat)                          -- `P.Map(fn)`: subscribe the forwarding subscription
  | p (a : Act)                            -- any action on the origin
  | q (a : Act)                            -- any action on the derived publisher
  | fwdBegin (t : Nat) (p : Nat) (v : Int) -- the callback of x for the delivery (p, v) calls `Q.Publish(fn v)`

/-- the deliveries to subscription `x` recorded in a log, as (call id, value) -/
def xlog (x : Nat) (log : List (Nat × Nat × Int × Bool)) : List (Nat × Int) :=
  (log.filter (fun e => e.2.1 = x)).map (fun e => (e.1, e.2.2.1))

def mstep (grow : Nat → Nat) (fn : Int → Int) (m : MapSys) : MAct → Option MapSys
  | .map t =>
    if m.x = 0 then (step true grow m.P (.subscribe t)).map (fun P' => { m with P := P', x := m.P.nextId }) else none
  | .p a => (step true grow m.P a).map fun P' =>
      { m with P := P', pend := m.pend ++ xlog m.x (P'.log.take (P'.log.length - m.P.log.length)) }
  | .q a => (step true grow m.Q a).map fun Q' => { m with Q := Q' }
  | .fwdBegin t p v =>
    if (p, v) ∈ m.pend then (step true grow m.Q (.pubBegin t (fn v))).map fun Q' =>
        { m with Q := Q', pend := m.pend.erase (p, v), fwd := (p, v, m.Q.nextPid) :: m.fwd }
    else none

inductive MReach (grow : Nat → Nat) (fn : Int → Int) : MapSys → Prop
  | init : MReach grow fn MapSys.init
  | step {m m' : MapSys} (a : MAct) : MReach grow fn m → mstep grow fn m a = some m' → MReach grow fn m'

theorem xlog_append (x : Nat) (a b : List (Nat × Nat × Int × Bool)) : xlog x (a ++ b) = xlog x a ++ xlog x b := by
  simp [xlog]

structure MInv (grow : Nat → Nat) (fn : Int → Int) (m : MapSys) : Prop where
  rp : Reach grow m.P
  rq : Reach grow m.Q
  xlt : m.x < m.P.nextId
  perm : (xlog m.x m.P.log).Perm (m.pend ++ m.fwd.map (fun e => (e.1, e.2.1)))
  qlt : ∀ e ∈ m.fwd, e.2.2 < m.Q.nextPid
  qnd : (m.fwd.map (fun e => e.2.2)).Nodup
  qlive : ∀ e ∈ m.fwd, ∀ u f, .pub f ∈ m.Q.stacks u → f.pid = e.2.2 → f.val = fn e.2.1
  qfin : ∀ e ∈ m.fwd, ∀ r ∈ m.Q.ended, r.f.pid = e.2.2 → r.f.val = fn e.2.1

theorem MInv_init (grow : Nat → Nat) (fn : Int → Int) : MInv grow fn MapSys.init :=
  ⟨.init, .init, by simp [MapSys.init, C10.init], by simp [MapSys.init, C10.init, xlog], by simp [MapSys.init],
   by simp [MapSys.init], by simp [MapSys.init], by simp [MapSys.init]⟩

/-- a step of the derived publisher keeps the value bookkeeping of the forwards already begun -/
theorem qfacts_step {grow : Nat → Nat} {fn : Int → Int} {Q Q' : State} {a : Act} {fwd : List (Nat × Int × Nat)}
    (hs : step true grow Q a = some Q')
    (qlt : ∀ e ∈ fwd, e.2.2 < Q.nextPid)
    (qlive : ∀ e ∈ fwd, ∀ u f, .pub f ∈ Q.stacks u → f.pid = e.2.2 → f.val = fn e.2.1)
    (qfin : ∀ e ∈ fwd, ∀ r ∈ Q.ended, r.f.pid = e.2.2 → r.f.val = fn e.2.1) :
    (∀ e ∈ fwd, e.2.2 < Q'.nextPid) ∧
    (∀ e ∈ fwd, ∀ u f, .pub f ∈ Q'.stacks u → f.pid = e.2.2 → f.val = fn e.2.1) ∧
    (∀ e ∈ fwd, ∀ r ∈ Q'.ended, r.f.pid = e.2.2 → r.f.val = fn e.2.1) := by
  have hmono := (step_log hs).2.1
  refine ⟨fun e he => Nat.lt_of_lt_of_le (qlt e he) hmono, ?_, ?_⟩
  · intro e he u f' hf' hpid
    rcases frames_step hs u f' hf' with ⟨f, hf, hp, hv⟩ | ⟨hp, _⟩
    · rw [← hv]; exact qlive e he u f hf (hp.trans hpid)
    · have := qlt e he; omega
  · intro e he r hr hpid
    rcases ended_step hs r hr with h | ⟨u, h⟩
    · exact qfin e he r h hpid
    · exact qlive e he u r.f h hpid

theorem MInv_step {grow : Nat → Nat} {fn : Int → Int} {m m' : MapSys} (a : MAct) (inv : MInv grow fn m)
    (hs : mstep grow fn m a = some m') : MInv grow fn m' := by
  cases a with
  | map t =>
    simp only [mstep] at hs
    split at hs
    · rename_i hx0
      cases hP : step true grow m.P (.subscribe t) with
      | none => rw [hP] at hs; cases hs
      | some P' =>
        rw [hP] at hs; simp at hs; subst hs
        have hlog : P'.log = m.P.log ∧ P'.nextId = m.P.nextId + 1 := by
          simp only [step] at hP
          split at hP <;> cases hP
          exact ⟨rfl, rfl⟩
        have hnil : xlog m.P.nextId m.P.log = [] := by
          unfold xlog
          rw [List.filter_eq_nil_iff.mpr]; · rfl
          intro e he h
          have := (log_sid_lt grow inv.rp e he).2
          simp at h; omega
        have hold : xlog 0 m.P.log = [] := by
          unfold xlog
          rw [List.filter_eq_nil_iff.mpr]; · rfl
          intro e he h
          have := (log_sid_lt grow inv.rp e he).1
          simp at h; omega
        have hp := inv.perm
        rw [hx0, hold] at hp
        have hemp := List.Perm.eq_nil (hp.symm)
        have h1 : m.pend = [] := (List.append_eq_nil_iff.mp hemp).1
        have h2 : m.fwd = [] := by
          have := (List.append_eq_nil_iff.mp hemp).2
          simpa using this
        refine ⟨Reach.step _ inv.rp hP, inv.rq, by show m.P.nextId < P'.nextId; omega, ?_, inv.qlt, inv.qnd, inv.qlive, inv.qfin⟩
        show (xlog m.P.nextId P'.log).Perm (m.pend ++ _)
        rw [hlog.1, hnil, h1, h2]; simp
    · cases hs
  | p a =>
    simp only [mstep] at hs
    cases hP : step true grow m.P a with
    | none => rw [hP] at hs; cases hs
    | some P' =>
      rw [hP] at hs; simp at hs; subst hs
      obtain ⟨hn, _, hl⟩ := step_log hP
      refine ⟨Reach.step _ inv.rp hP, inv.rq, Nat.lt_of_lt_of_le inv.xlt hn, ?_, inv.qlt, inv.qnd, inv.qlive, inv.qfin⟩
      show (xlog m.x P'.log).Perm ((m.pend ++ xlog m.x (P'.log.take (P'.log.length - m.P.log.length))) ++ _)
      rcases hl with hl | ⟨t, f, rest, b, _, _, _, hl⟩
      · rw [hl]; simp [xlog]; exact inv.perm
      · rw [hl]
        have : ((f.pid, readCell m.P.heap f.h f.k, f.val, b) :: m.P.log).take
            (((f.pid, readCell m.P.heap f.h f.k, f.val, b) :: m.P.log).length - m.P.log.length) =
            [(f.pid, readCell m.P.heap f.h f.k, f.val, b)] := by
          simp
        rw [this]
        have hc : xlog m.x ((f.pid, readCell m.P.heap f.h f.k, f.val, b) :: m.P.log) =
            xlog m.x [(f.pid, readCell m.P.heap f.h f.k, f.val, b)] ++ xlog m.x m.P.log := by
          rw [← xlog_append]; rfl
        rw [hc]
        generalize xlog m.x [(f.pid, readCell m.P.heap f.h f.k, f.val, b)] = A
        have h1 : (A ++ xlog m.x m.P.log).Perm (A ++ (m.pend ++ m.fwd.map (fun e => (e.1, e.2.1)))) :=
          List.Perm.append_left A inv.perm
        refine h1.trans ?_
        rw [← List.append_assoc]
        exact List.Perm.append_right _ List.perm_append_comm
  | q a =>
    simp only [mstep] at hs
    cases hQ : step true grow m.Q a with
    | none => rw [hQ] at hs; cases hs
    | some Q' =>
      rw [hQ] at hs; simp at hs; subst hs
      obtain ⟨h1, h2, h3⟩ := qfacts_step (fn := fn) hQ inv.qlt inv.qlive inv.qfin
      exact ⟨inv.rp, Reach.step _ inv.rq hQ, inv.xlt, inv.perm, h1, inv.qnd, h2, h3⟩
  | fwdBegin t p v =>
    simp only [mstep] at hs
    split at hs
    · rename_i hmem
      cases hQ : step true grow m.Q (.pubBegin t (fn v)) with
      | none => rw [hQ] at hs; cases hs
      | some Q' =>
        rw [hQ] at hs; simp at hs; subst hs
        obtain ⟨h1, h2, h3⟩ := qfacts_step (fn := fn) hQ inv.qlt inv.qlive inv.qfin
        have hnp : Q'.nextPid = m.Q.nextPid + 1 := by
          simp only [step] at hQ
          split at hQ <;> cases hQ
          rfl
        have pinv := PInv_reach grow inv.rq
        refine ⟨inv.rp, Reach.step _ inv.rq hQ, inv.xlt, ?_, ?_, ?_, ?_, ?_⟩
        · show (xlog m.x m.P.log).Perm (m.pend.erase (p, v) ++ ((p, v) :: m.fwd.map (fun e => (e.1, e.2.1))))
          refine inv.perm.trans ?_
          have hpe : m.pend.Perm ((p, v) :: m.pend.erase (p, v)) := List.perm_cons_erase hmem
          refine (List.Perm.append_right _ hpe).trans ?_
          simp only [List.cons_append]
          exact (List.perm_middle).symm
        · intro e he
          rcases List.mem_cons.mp he with rfl | he
          · show m.Q.nextPid < Q'.nextPid; omega
          · exact h1 e he
        · show ((m.Q.nextPid) :: m.fwd.map (fun e => e.2.2)).Nodup
          refine List.nodup_cons.mpr ⟨?_, inv.qnd⟩
          intro hm
          obtain ⟨e, he, heq⟩ := List.mem_map.mp hm
          have := inv.qlt e he
          omega
        · intro e he u f' hf' hpid
          rcases List.mem_cons.mp he with rfl | he
          · rcases frames_step hQ u f' hf' with ⟨f, hf, hp, _⟩ | ⟨_, ha⟩
            · have := pinv.lt u f.pid (mem_framePids hf)
              simp only at hpid; omega
            · injection ha with _ hv; exact hv.symm
          · exact h2 e he u f' hf' hpid
        · intro e he r hr hpid
          rcases List.mem_cons.mp he with rfl | he
          · rcases ended_step hQ r hr with h | ⟨u, h⟩
            · have := pinv.recLt r h
              simp only at hpid; omega
            · have := pinv.lt u r.f.pid (mem_framePids h)
              simp only at hpid; omega
          · exact h3 e he r hr hpid
    · cases hs

theorem MInv_reach {grow : Nat → Nat} {fn : Int → Int} {m : MapSys} (h : MReach grow fn m) : MInv grow fn m := by
  induction h with
  | init => exact MInv_init grow fn
  | step a _ hs ih => exact MInv_step a ih hs

/-- how often the delivery (p, v) to `x` occurs in a log -/
theorem count_xlog (x p : Nat) (v : Int) (log : List (Nat × Nat × Int × Bool)) :
    (xlog x log).count (p, v) =
      ((log.filter (fun e => e.1 = p ∧ e.2.1 = x)).map (fun e => e.2.2.1)).count v := by
  induction log with
  | nil => rfl
  | cons e l ih =>
    obtain ⟨a, b, c, d⟩ := e
    unfold xlog at ih ⊢
    by_cases hb : b = x <;> by_cases ha : a = p <;> by_cases hc : c = v <;>
      simp [List.filter_cons, hb, ha, hc, List.count_cons] <;> simp [List.filter_cons] at ih <;> omega

/-- run a schedule of the two-publisher system; `none` if some action is not enabled -/
def mrun (grow : Nat → Nat) (fn : Int → Int) : MapSys → List MAct → Option MapSys
  | m, [] => some m
  | m, a :: as => match mstep grow fn m a with
    | some m' => mrun grow fn m' as
    | none => none

theorem mreach_of_run (grow : Nat → Nat) (fn : Int → Int) (acts : List MAct) :
    ∀ m0 m, MReach grow fn m0 → mrun grow fn m0 acts = some m → MReach grow fn m := by
  induction acts with
  | nil => intro m0 m r h; simp [mrun] at h; exact h ▸ r
  | cons a as ih =>
    intro m0 m r h
    simp only [mrun] at h
    cases hs : mstep grow fn m0 a with
    | none => rw [hs] at h; cases h
    | some m1 => rw [hs] at h; exact ih m1 m (MReach.step a r hs) h

/-- (x, pending forwards, begun forwards, (value, deliveries) of Q's finished calls, Q's delivery log) -/
def msummary (o : Option MapSys) :
    Option (Nat × List (Nat × Int) × List (Nat × Int × Nat) × List (Int × List Nat) × List (Nat × Nat × Int × Bool)) :=
  o.map (fun m => (m.x, m.pend, m.fwd, m.Q.ended.map (fun r => (r.f.val, r.f.dl)), m.Q.log))

end FpgoVerif.C10
