import FpgoVerif.Proofs.C06Ops
/-! The loops: Clear, putAllIntoPool (ClearNodePool / KeepNodePoolCount), VerifNodeCount.
    Under the representation invariant none of them runs out of fuel, and each has a closed form. -/
namespace FpgoVerif.C06
local notation "Addr" => Nat

/-- clear a heap component on the addresses in `l` -/
def zeroOn {β} (l : List Addr) (f : Addr → Option β) : Addr → Option β := fun a => if a ∈ l then none else f a

theorem zeroOn_mem {β} {l : List Addr} {f : Addr → Option β} {a} (h : a ∈ l) : zeroOn l f a = none := by simp [zeroOn, h]
theorem zeroOn_not_mem {β} {l : List Addr} {f : Addr → Option β} {a} (h : a ∉ l) : zeroOn l f a = f a := by simp [zeroOn, h]
theorem zeroOn_nil {β} (f : Addr → Option β) : zeroOn [] f = f := by funext a; simp [zeroOn]
theorem zeroOn_upd {β} (l : List Addr) (f : Addr → Option β) (n : Addr) : zeroOn l (upd f n none) = zeroOn (n :: l) f := by
  funext a
  by_cases h1 : a = n
  · subst h1; simp [zeroOn, upd]
  · simp [zeroOn, upd, h1]

theorem clearWalk_spec (fuel : Nat) {q : Q} {o l} (hs : Seg q.next o l) (hf : l.length < fuel) :
    clearWalk fuel q o = some { q with val := zeroOn l q.val, prev := zeroOn l q.prev } := by
  induction fuel generalizing q o l with
  | zero => omega
  | succ fuel ih =>
    cases hs with
    | nil => simp [clearWalk, zeroOn_nil]
    | cons n l' hs' =>
      simp only [clearWalk]
      have := ih (q := { q with val := upd q.val n none, prev := upd q.prev n none }) hs' (by simp at hf; omega)
      rw [this]
      simp [zeroOn_upd]

theorem putAllIntoPool_spec (fuel : Nat) {q : Q} {o l} (hs : Seg q.next o l) (hnd : l.Nodup) (hf : l.length < fuel) :
    putAllIntoPool fuel q o = some { q with val := zeroOn l q.val, prev := zeroOn l q.prev, next := zeroOn l q.next,
                                            gc := l.reverse ++ q.gc } := by
  induction fuel generalizing q o l with
  | zero => omega
  | succ fuel ih =>
    cases hs with
    | nil => simp [putAllIntoPool, zeroOn_nil]
    | cons n l' hs' =>
      simp only [putAllIntoPool]
      have hn : n ∉ l' := (List.nodup_cons.mp hnd).1
      have := ih (q := { q with val := upd q.val n none, prev := upd q.prev n none, next := upd q.next n none, gc := n :: q.gc })
        (hs'.frame n none hn) (List.nodup_cons.mp hnd).2 (by simp at hf; omega)
      rw [this]
      simp [zeroOn_upd]

theorem walkLen_spec (fuel : Nat) {f : Addr → Option Addr} {o l} (hs : Seg f o l) (hf : l.length < fuel) :
    walkLen fuel f o = some l.length := by
  induction fuel generalizing o l with
  | zero => omega
  | succ fuel ih =>
    cases hs with
    | nil => simp [walkLen]
    | cons n l' hs' =>
      simp only [walkLen]
      rw [ih hs' (by simp at hf; omega)]
      simp

theorem Rep0.chain_len_lt {q vs chain pool} (h : Rep0 q vs chain pool) : chain.length < q.fresh + 1 := by
  have := nodup_bound q.fresh chain h.chain_nodup (fun a ha => h.lt a (List.mem_append_left _ ha))
  omega
theorem Rep0.pool_len_lt {q vs chain pool} (h : Rep0 q vs chain pool) : pool.length < q.fresh + 1 := by
  have := nodup_bound q.fresh pool h.pool_nodup (fun a ha => h.lt a (List.mem_append_right _ ha))
  omega

/-- Clear never hangs; afterwards the sequence is empty and the old chain is the free list -/
theorem clear_rep {q : Q} {vs chain pool} (h : Rep q vs chain pool) :
    ∃ q', clear q = some q' ∧ Rep q' [] [] chain := by
  have hw := clearWalk_spec (q.fresh + 1) (q := { q with poolFirst := q.first, nodeCount := q.count }) h.hnext h.chain_len_lt
  refine ⟨_, by simp only [clear]; rw [hw]; rfl, ?_⟩
  refine ⟨⟨.nil, .nil, h.hnext, by simpa using h.chain_nodup, ?_, rfl, rfl, h.gnd, ?_, h.glt, ?_⟩, h.hcount⟩
  · intro a ha; exact h.lt a (List.mem_append_left _ (by simpa using ha))
  · intro a ha hm; exact h.gdisj a ha (List.mem_append_left _ (by simpa using hm))
  · intro a ha
    have hnc : a ∉ chain := fun hm => h.gdisj a ha (List.mem_append_left _ hm)
    have := h.gzero a ha
    simp only [zeroOn_not_mem hnc]; exact this

theorem put_gc {q : Q} {vs chain pre suf} (h : Rep0 q vs chain (pre ++ suf)) :
    (suf.reverse ++ q.gc).Nodup ∧ (∀ a ∈ suf.reverse ++ q.gc, a ∉ chain ++ pre) ∧
    (∀ a ∈ suf.reverse ++ q.gc, a < q.fresh) ∧
    (∀ a ∈ suf.reverse ++ q.gc, zeroOn suf q.next a = none ∧ zeroOn suf q.prev a = none ∧ zeroOn suf q.val a = none) := by
  have hpn := List.nodup_append.mp h.pool_nodup
  refine ⟨?_, ?_, ?_, ?_⟩
  · refine List.nodup_append.mpr ⟨nodup_reverse' hpn.2.1, h.gnd, ?_⟩
    intro a ha b hb e
    subst e
    exact h.gdisj a hb (List.mem_append_right _ (List.mem_append_right _ (List.mem_reverse.mp ha)))
  · intro a ha hm
    rcases List.mem_append.mp ha with ha | ha
    · have has : a ∈ suf := List.mem_reverse.mp ha
      rcases List.mem_append.mp hm with hm | hm
      · exact h.disj hm (List.mem_append_right _ has)
      · exact hpn.2.2 a hm a has rfl
    · apply h.gdisj a ha
      rcases List.mem_append.mp hm with hm | hm
      · exact List.mem_append_left _ hm
      · exact List.mem_append_right _ (List.mem_append_left _ hm)
  · intro a ha
    rcases List.mem_append.mp ha with ha | ha
    · exact h.lt a (List.mem_append_right _ (List.mem_append_right _ (List.mem_reverse.mp ha)))
    · exact h.glt a ha
  · intro a ha
    by_cases hs : a ∈ suf
    · simp [zeroOn_mem hs]
    · rcases List.mem_append.mp ha with ha | ha
      · exact absurd (List.mem_reverse.mp ha) hs
      · simp only [zeroOn_not_mem hs]; exact h.gzero a ha

/-- ClearNodePool never hangs and leaves the stored sequence alone -/
theorem clearNodePool_rep {q : Q} {vs chain pool} (h : Rep0 q vs chain pool) :
    ∃ q', clearNodePool q = some q' ∧ Rep q' vs chain [] := by
  have hw := putAllIntoPool_spec (q.fresh + 1) h.hpool h.pool_nodup h.pool_len_lt
  refine ⟨_, by simp only [clearNodePool]; rw [hw]; rfl, ?_⟩
  obtain ⟨g1, g2, g3, g4⟩ := put_gc (pre := []) (suf := pool) (by simpa using h)
  have hcp : ∀ a ∈ chain, a ∉ pool := fun a ha => h.disj ha
  refine ⟨⟨?_, ?_, .nil, by simpa using h.chain_nodup, ?_, ?_, h.hcount, g1, g2, g3, g4⟩, rfl⟩
  · exact h.hnext.congr (fun a ha => zeroOn_not_mem (hcp a ha))
  · exact h.hprev.congr (fun a ha => zeroOn_not_mem (hcp a (List.mem_reverse.mp ha)))
  · intro a ha; exact h.lt a (List.mem_append_left _ (by simpa using ha))
  · show chain.map (zeroOn pool q.val) = _
    rw [← h.hval]
    exact List.map_congr_left (fun a ha => zeroOn_not_mem (hcp a ha))

/-- the tail end of KeepNodePoolCount: everything behind `a` goes to the sync.Pool, `a` becomes the last node -/
theorem put_cut {q : Q} {vs chain pre a suf} (h : Rep0 q vs chain (pre ++ a :: suf)) :
    ∃ q', putAllIntoPool (q.fresh + 1) q (q.next a) = some q' ∧
      Rep0 { q' with next := upd q'.next a none } vs chain (pre ++ [a]) ∧ q'.nodeCount = q.nodeCount := by
  have hpn := h.pool_nodup
  have hsn : suf.Nodup := (List.nodup_cons.mp (List.nodup_append.mp hpn).2.1).2
  have hlen : suf.length < q.fresh + 1 := by
    have := h.pool_len_lt; simp at this; omega
  have hw := putAllIntoPool_spec (q.fresh + 1) h.hpool.drop hsn hlen
  refine ⟨_, hw, ?_, rfl⟩
  have h' : Rep0 q vs chain ((pre ++ [a]) ++ suf) := by simpa using h
  obtain ⟨g1, g2, g3, g4⟩ := put_gc h'
  have hcs : ∀ x ∈ chain, x ∉ suf := fun x hx hm => h.disj hx (by simp [hm])
  have hca : ∀ x ∈ chain, x ≠ a := fun x hx e => h.disj hx (by simp [e])
  have hps : ∀ x ∈ pre, x ∉ suf := by
    intro x hx hm
    exact (List.nodup_append.mp hpn).2.2 x hx x (List.mem_cons_of_mem _ hm) rfl
  have hpa : ∀ x ∈ pre, x ≠ a := by
    intro x hx e
    exact (List.nodup_append.mp hpn).2.2 x hx a List.mem_cons_self e
  refine ⟨?_, ?_, ?_, ?_, ?_, ?_, h.hcount, g1, g2, g3, ?_⟩
  · refine h.hnext.congr (fun x hx => ?_)
    show upd (zeroOn suf q.next) a none x = _
    rw [upd_other _ _ _ _ (hca x hx), zeroOn_not_mem (hcs x hx)]
  · exact h.hprev.congr (fun x hx => zeroOn_not_mem (hcs x (List.mem_reverse.mp hx)))
  · refine h.hpool.cut (fun x hx => ?_) (by simp)
    show upd (zeroOn suf q.next) a none x = _
    rw [upd_other _ _ _ _ (hpa x hx), zeroOn_not_mem (hps x hx)]
  · have := h'.nd
    rw [← List.append_assoc] at this
    exact (List.nodup_append.mp this).1
  · intro x hx; apply h.lt x
    rcases List.mem_append.mp hx with hx | hx
    · exact List.mem_append_left _ hx
    · refine List.mem_append_right _ ?_
      rcases List.mem_append.mp hx with hx | hx
      · exact List.mem_append_left _ hx
      · simp at hx; subst hx; simp
  · show chain.map (zeroOn suf q.val) = _
    rw [← h.hval]
    exact List.map_congr_left (fun x hx => zeroOn_not_mem (hcs x hx))
  · intro x hx
    obtain ⟨z1, z2, z3⟩ := g4 x hx
    refine ⟨?_, z2, z3⟩
    show upd (zeroOn suf q.next) a none x = none
    by_cases e : x = a
    · subst e; simp
    · rw [upd_other _ _ _ _ e]; exact z1

theorem Same.refl (q : Q) : Same q q := ⟨rfl, rfl, rfl, rfl, rfl⟩
theorem Same.trans {a b c : Q} (h1 : Same a b) (h2 : Same b c) : Same a c :=
  ⟨h2.first.trans h1.first, h2.last.trans h1.last, h2.count.trans h1.count, h2.poolFirst.trans h1.poolFirst,
   h2.nodeCount.trans h1.nodeCount⟩

/-- the `for n > 0` loop of KeepNodePoolCount walks/extends the free list by exactly `k` nodes -/
theorem keepLoop_spec (k : Nat) {q : Q} {vs chain pre a suf} (h : Rep0 q vs chain (pre ++ a :: suf)) (q' : Q) (a' : Addr)
    (hk : keepLoop k q a = (q', a')) :
    ∃ pre' suf', Rep0 q' vs chain (pre' ++ a' :: suf') ∧ Same q q' ∧ pre'.length = pre.length + k := by
  induction k generalizing q pre a suf with
  | zero =>
    simp only [keepLoop, Prod.mk.injEq] at hk
    obtain ⟨rfl, rfl⟩ := hk
    exact ⟨pre, suf, h, Same.refl _, rfl⟩
  | succ k ih =>
    have hd : Seg q.next (q.next a) suf := h.hpool.drop
    cases hnx : q.next a with
    | some nx =>
      simp only [keepLoop, hnx] at hk
      cases suf with
      | nil => have := (hnx ▸ hd).head; simp at this
      | cons x suf2 =>
        have hx : x = nx := by have := (hnx ▸ hd).head; simpa using this.symm
        subst hx
        have h2 : Rep0 q vs chain ((pre ++ [a]) ++ x :: suf2) := by simpa using h
        obtain ⟨pre', suf', hr, hs, hl⟩ := ih h2 hk
        exact ⟨pre', suf', hr, hs, by simp at hl; omega⟩
    | none =>
      have hsuf : suf = [] := (hnx ▸ hd).nil_of_none
      subst hsuf
      simp only [keepLoop, hnx] at hk
      cases hg : poolGet q with
      | mk q1 f =>
      rw [hg] at hk
      simp only at hk
      obtain ⟨h1, hs1, hfn, hfg, hflt, hfn1, hfp1, hfv1⟩ := poolGet_spec h q1 f hg
      have hac : a ∉ chain := fun hm => h.disj hm (by simp)
      have hag : a ∉ q1.gc := fun hm => h1.gdisj a hm (by simp)
      have hfpool : f ∉ pre ++ [a] := fun hm => hfn (List.mem_append_right _ hm)
      have hfchain : f ∉ chain := fun hm => hfn (List.mem_append_left _ hm)
      have h2 : Rep0 { q1 with next := upd q1.next a (some f) } vs chain ((pre ++ [a]) ++ f :: []) := by
        refine ⟨h1.hnext.frame _ _ hac, h1.hprev, ?_, ?_, ?_, h1.hval, h1.hcount, h1.gnd, ?_, h1.glt, ?_⟩
        · exact h1.hpool.snoc f a hfpool hfn1 h1.pool_nodup (by simp)
        · have := nodup_snoc_pool (chain := chain ++ (pre ++ [a])) (pool := []) (n := f) (by simpa using h1.nd) (by simpa using hfn)
          simpa using this
        · intro x hx
          have : x ∈ chain ++ (pre ++ [a]) ∨ x = f := by
            simp at hx ⊢
            rcases hx with hx | hx | hx | hx
            · exact Or.inl (Or.inl hx)
            · exact Or.inl (Or.inr (Or.inl hx))
            · exact Or.inl (Or.inr (Or.inr hx))
            · exact Or.inr hx
          rcases this with hx | hx
          · exact h1.lt x hx
          · subst hx; exact hflt
        · intro x hx hm
          have : x ∈ chain ++ (pre ++ [a]) ∨ x = f := by
            simp at hm ⊢
            rcases hm with hm | hm | hm | hm
            · exact Or.inl (Or.inl hm)
            · exact Or.inl (Or.inr (Or.inl hm))
            · exact Or.inl (Or.inr (Or.inr hm))
            · exact Or.inr hm
          rcases this with hm | hm
          · exact h1.gdisj x hx hm
          · subst hm; exact hfg hx
        · intro x hx
          have hne : x ≠ a := fun e => hag (e ▸ hx)
          have := h1.gzero x hx
          simp only [upd_other _ _ _ _ hne]; exact this
      obtain ⟨pre', suf', hr, hs, hl⟩ := ih h2 hk
      refine ⟨pre', suf', hr, ?_, by simp at hl; omega⟩
      exact hs1.trans ⟨hs.first, hs.last, hs.count, hs.poolFirst, hs.nodeCount⟩

theorem keepStart_spec {q : Q} {vs chain pool} (h : Rep0 q vs chain pool) :
    ∃ suf, Rep0 (keepStart q).1 vs chain ([] ++ (keepStart q).2 :: suf) ∧ (keepStart q).1.nodeCount = q.nodeCount := by
  cases hp : q.poolFirst with
  | some l =>
    have hpool := hp ▸ h.hpool
    cases hpool with
    | cons _ suf hs =>
      refine ⟨suf, ?_, ?_⟩ <;> simp only [keepStart, hp]
      simpa using h
  | none =>
    have hpl : pool = [] := (hp ▸ h.hpool).nil_of_none
    subst hpl
    cases hg : poolGet q with
    | mk q1 f =>
    obtain ⟨h1, hs1, hfn, hfg, hflt, hfn1, hfp1, hfv1⟩ := poolGet_spec h q1 f hg
    refine ⟨[], ?_, ?_⟩ <;> simp only [keepStart, hp, hg]
    · refine ⟨h1.hnext, h1.hprev, ?_, ?_, ?_, h1.hval, h1.hcount, h1.gnd, ?_, h1.glt, h1.gzero⟩
      · exact .cons f [] (by simp only; rw [hfn1]; exact .nil)
      · have := nodup_snoc_pool (chain := chain) (pool := []) (n := f) (by simpa using h1.nd) hfn
        simpa using this
      · intro x hx
        simp at hx
        rcases hx with hx | hx
        · exact h1.lt x (by simpa using hx)
        · subst hx; exact hflt
      · intro x hx hm
        simp at hm
        rcases hm with hm | hm
        · exact h1.gdisj x hx (by simpa using hm)
        · subst hm; exact hfg hx
    · exact hs1.nodeCount

/-- KeepNodePoolCount(n), n > 0: never hangs, the free list has exactly n nodes afterwards, the stored
    sequence is untouched -/
theorem keep_pos_rep {q : Q} {vs chain pool} (h : Rep0 q vs chain pool) (n : Int) (hn : 0 < n) :
    ∃ q' pool', keepNodePoolCount q n = some q' ∧ Rep q' vs chain pool' ∧ pool'.length = n.toNat := by
  have hn' : ¬ n ≤ 0 := by omega
  have h0 : Rep0 { q with nodeCount := n } vs chain pool :=
    ⟨h.hnext, h.hprev, h.hpool, h.nd, h.lt, h.hval, h.hcount, h.gnd, h.gdisj, h.glt, h.gzero⟩
  obtain ⟨suf, hr1, hnc1⟩ := keepStart_spec h0
  cases hk : keepLoop (n - 1).toNat (keepStart { q with nodeCount := n }).1 (keepStart { q with nodeCount := n }).2 with
  | mk q2 a2 =>
  obtain ⟨pre', suf', hr2, hs2, hl2⟩ := keepLoop_spec _ hr1 q2 a2 hk
  obtain ⟨q3, hput, hr3, hnc3⟩ := put_cut hr2
  refine ⟨{ q3 with next := upd q3.next a2 none }, pre' ++ [a2], ?_, ⟨hr3, ?_⟩, ?_⟩
  · simp only [keepNodePoolCount, hn', if_false, hk, hput, Option.map_some]
  · show q3.nodeCount = _
    rw [hnc3, hs2.nodeCount, hnc1]; simp at hl2 ⊢; omega
  · simp at hl2 ⊢; omega

end FpgoVerif.C06
