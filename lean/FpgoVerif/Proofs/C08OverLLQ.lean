import FpgoVerif.Props.C06
import FpgoVerif.Proofs.C08Lin
/-! C08 over the POINTER-LEVEL LinkedListQueue of C06: the generic `Sys σ Op Ret` instantiated with
    σ := `C06.Q` (heap of nodes, first/last/count, free list), apply := `C06.step`, Ret := `C06.Obs`, and the
    simulation of its sequential runs by the ideal deque (`qApply` / `sApply`) through `C06_step_refines`. -/
namespace FpgoVerif.C08
open FpgoVerif

theorem llqQueueSys_excl (pick : Nat → Nat) : ∀ op, (llqQueueSys pick).mode op = .excl := fun _ => rfl
theorem llqStackSys_excl (pick : Nat → Nat) : ∀ op, (llqStackSys pick).mode op = .excl := fun _ => rfl

/-- how the ideal deque's results read as LinkedListQueue observations -/
def obsOfRet : Ret → C06.Obs
  | .nil => .nil
  | .ok v => .ok v
  | .empty => .empty
  | .full => .bad      -- never produced by the unbounded deque

theorem obsOfRet_ne (r : Ret) : obsOfRet r ≠ .panic ∧ obsOfRet r ≠ .hang := by
  cases r <;> simp [obsOfRet]

/-- one call: the pointer-level step is simulated by the ideal (items, spare) step under `Abs` -/
theorem seqRun_refines {Op' : Type} (f : Op' → C06.Op) (ops : List Op') :
    ∀ {q : C06.Q} {i : C06.Ideal}, C06.Abs q i →
      (seqRun (fun q op => C06.step q (f op)) q ops).2 = (seqRun (fun i op => C06.specStep i (f op)) i ops).2 ∧
      C06.Abs (seqRun (fun q op => C06.step q (f op)) q ops).1 (seqRun (fun i op => C06.specStep i (f op)) i ops).1 := by
  induction ops with
  | nil => intro q i h; exact ⟨rfl, h⟩
  | cons op ops ih =>
    intro q i h
    obtain ⟨ho, ha⟩ := C06.C06_step_refines h (f op)
    obtain ⟨h2, h1⟩ := ih ha
    simp only [seqRun]
    exact ⟨by rw [ho, h2], h1⟩

/-- the (items, spare) spec restricted to the wrapper's methods is the ideal deque `ap` on the items -/
theorem ideal_seqRun {Op' : Type} (f : Op' → C06.Op) (ap : List Int → Op' → List Int × Ret)
    (hs : ∀ (i : C06.Ideal) op, (C06.specStep i (f op)).1.items = (ap i.items op).1 ∧
      (C06.specStep i (f op)).2 = obsOfRet (ap i.items op).2) (ops : List Op') :
    ∀ i : C06.Ideal,
      (seqRun (fun i op => C06.specStep i (f op)) i ops).2 = (seqRun ap i.items ops).2.map obsOfRet ∧
      (seqRun (fun i op => C06.specStep i (f op)) i ops).1.items = (seqRun ap i.items ops).1 := by
  induction ops with
  | nil => intro i; simp [seqRun]
  | cons op ops ih =>
    intro i
    obtain ⟨h1, h2⟩ := hs i op
    obtain ⟨r1, r2⟩ := ih (C06.specStep i (f op)).1
    simp only [seqRun, List.map_cons]
    rw [h1] at r1 r2
    exact ⟨by rw [h2, r1], r2⟩

theorem spec_q (i : C06.Ideal) (op : QOp) :
    (C06.specStep i (llqOpQ op)).1.items = (qApply i.items op).1 ∧
    (C06.specStep i (llqOpQ op)).2 = obsOfRet (qApply i.items op).2 := by
  cases op with
  | put v => simp [C06.specStep, llqOpQ, qApply, obsOfRet]
  | offer v => simp [C06.specStep, llqOpQ, qApply, obsOfRet]
  | take => cases h : i.items <;> simp [C06.specStep, llqOpQ, qApply, obsOfRet, h]
  | poll => cases h : i.items <;> simp [C06.specStep, llqOpQ, qApply, obsOfRet, h]

theorem spec_s (i : C06.Ideal) (op : SOp) :
    (C06.specStep i (llqOpS op)).1.items = (sApply i.items op).1 ∧
    (C06.specStep i (llqOpS op)).2 = obsOfRet (sApply i.items op).2 := by
  cases op with
  | push v => simp [C06.specStep, llqOpS, sApply, obsOfRet]
  | pop => cases h : i.items.getLast? <;> simp [C06.specStep, llqOpS, sApply, obsOfRet, h]

/-- a sequential history of wrapper calls on the pointer-level queue, started in `NewLinkedListQueue()`:
    returns = the ideal deque's, final heap represents the ideal content -/
theorem llq_seq {Op' : Type} (f : Op' → C06.Op) (ap : List Int → Op' → List Int × Ret)
    (hs : ∀ (i : C06.Ideal) op, (C06.specStep i (f op)).1.items = (ap i.items op).1 ∧
      (C06.specStep i (f op)).2 = obsOfRet (ap i.items op).2) (pick : Nat → Nat) (ops : List Op') :
    (seqRun (fun q op => C06.step q (f op)) (C06.initWith pick) ops).2 = (seqRun ap [] ops).2.map obsOfRet ∧
    ∃ spare, C06.Abs (seqRun (fun q op => C06.step q (f op)) (C06.initWith pick) ops).1 ⟨(seqRun ap [] ops).1, spare⟩ := by
  obtain ⟨h1, h2⟩ := seqRun_refines f ops (C06.abs_init pick)
  obtain ⟨g1, g2⟩ := ideal_seqRun f ap hs ops C06.ideal0
  have e : C06.ideal0.items = [] := rfl
  rw [e] at g1 g2
  refine ⟨by rw [h1, g1], (seqRun (fun i op => C06.specStep i (f op)) C06.ideal0 ops).1.spare, ?_⟩
  have : (seqRun (fun i op => C06.specStep i (f op)) C06.ideal0 ops).1 =
      ⟨(seqRun ap [] ops).1, (seqRun (fun i op => C06.specStep i (f op)) C06.ideal0 ops).1.spare⟩ := by
    rw [← g2]
  rw [← this]; exact h2

end FpgoVerif.C08
