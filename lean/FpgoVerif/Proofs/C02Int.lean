import FpgoVerif.Model.C02Core
/-! C02 — reflective checker for the integer → integer cells of the extracted conversion table, and its
    soundness proof (for every value of the source type). -/
namespace FpgoVerif.C02

/-! ### evaluation lemmas -/

theorem conv_succ (sc : Strconv) (tbl : List Case) (n : Nat) (tgt : Ty) (k : Kind) (x : Val) :
    conv sc tbl (n + 1) tgt k x =
    evalBody (fun s => match s with
      | .self m => conv sc tbl n m k x
      | .parseInt bits => sc.parseInt bits (strOf x)
      | .parseUint bits => sc.parseUint bits (strOf x)
      | .parseFloat bits => sc.parseFloat bits (strOf x)
      | .atoi => sc.atoi (strOf x)
      | .parseBool => sc.parseBool (strOf x)
      | .untranslatable _ => Res.garbage) x (lookup tbl tgt k) := rfl

/-- the `case T:` clause of the method with result type `T` is `return ref.(T), nil` -/
def selfIdent (tbl : List Case) (m : Ty) : Bool := lookup tbl m (.ty m) == Body.ident

theorem conv_self (sc : Strconv) (tbl : List Case) (n : Nat) (m : Ty) (x : Val)
    (h : selfIdent tbl m = true) : conv sc tbl (n + 1) m (.ty m) x = ⟨x, .ok⟩ := by
  unfold selfIdent at h
  have h' : lookup tbl m (.ty m) = Body.ident := by simpa using h
  rw [conv_succ, h']
  rfl

/-! ### guards over an integer variable -/

/-- does `z` pass the optional bounds -/
def passB (l h : Option Int) (z : Int) : Bool :=
  (match l with | none => true | some c => decide (c ≤ z)) &&
  (match h with | none => true | some c => decide (z ≤ c))

def optMax : Option Int → Option Int → Option Int
  | none, b => b
  | a, none => a
  | some a, some b => some (max a b)

def optMin : Option Int → Option Int → Option Int
  | none, b => b
  | a, none => a
  | some a, some b => some (min a b)

/-- guards of the fragment: conjunctions of `v >= c`, `v <= c`, and `T(v) <= c` with `c ≥ max T` (always true) -/
def intBounds : C → Option (Option Int × Option Int)
  | .ge .v (.lit c) => some (some c, none)
  | .le .v (.lit c) => some (none, some c)
  | .le (.cast t .v) (.lit c) =>
    match t.range with
    | some (lo, hi) => if lo ≤ hi ∧ hi ≤ c then some (none, none) else none
    | none => none
  | .and a b =>
    match intBounds a, intBounds b with
    | some (l1, h1), some (l2, h2) => some (optMax l1 l2, optMin h1 h2)
    | _, _ => none
  | _ => none

theorem passB_and (l1 h1 l2 h2 : Option Int) (z : Int) :
    passB (optMax l1 l2) (optMin h1 h2) z = (passB l1 h1 z && passB l2 h2 z) := by
  cases l1 <;> cases l2 <;> cases h1 <;> cases h2 <;> simp [passB, optMax, optMin] <;> (try omega)
  all_goals (apply Bool.eq_iff_iff.mpr; simp; omega)

theorem intBounds_sound (g : C) (l h : Option Int) (z : Int) (hg : intBounds g = some (l, h)) :
    evalC (.i z) g = some (passB l h z) := by
  induction g generalizing l h with
  | ge a b =>
    cases a <;> cases b <;> simp [intBounds] at hg
    obtain ⟨rfl, rfl⟩ := hg
    simp [evalC, evalE, cmpV, passB]
  | le a b =>
    cases a with
    | v =>
      cases b <;> simp [intBounds] at hg
      obtain ⟨rfl, rfl⟩ := hg
      simp [evalC, evalE, cmpV, passB]
    | cast t e =>
      cases e <;> cases b <;> simp [intBounds] at hg
      rename_i c
      cases hr : t.range with
      | none => simp [hr] at hg
      | some p =>
        obtain ⟨lo, hi⟩ := p
        simp [hr] at hg
        obtain ⟨⟨h1, h2⟩, rfl, rfl⟩ := hg
        have := wrap_mem lo hi z h1
        simp [evalC, evalE, cmpV, passB, castTo, hr]
        omega
    | _ => simp [intBounds] at hg
  | and a b iha ihb =>
    simp only [intBounds] at hg
    cases ha : intBounds a with
    | none => simp [ha] at hg
    | some pa =>
      cases hb : intBounds b with
      | none => simp [ha, hb] at hg
      | some pb =>
        obtain ⟨l1, h1⟩ := pa
        obtain ⟨l2, h2⟩ := pb
        simp [ha, hb] at hg
        obtain ⟨rfl, rfl⟩ := hg
        rw [passB_and]
        simp only [evalC, iha l1 h1 ha, ihb l2 h2 hb]
        cases passB l1 h1 z <;> simp
  | _ => simp [intBounds] at hg

end FpgoVerif.C02

namespace FpgoVerif.C02

/-! ### the interval check (pure arithmetic) -/

/-- source range `[slo, shi]`, guard bounds `l`, `h`, target range `[lo, hi]`, must-succeed range `[mlo, mhi]`:
    (a) every source value that passes the guard is inside the target range,
    (b) every source value inside the must-succeed range passes the guard -/
def ivOK (slo shi : Int) (l h : Option Int) (lo hi mlo mhi : Int) : Bool :=
  let effLo := match l with | none => slo | some c => max c slo
  let effHi := match h with | none => shi | some c => min c shi
  (decide (effLo > effHi) || (decide (lo ≤ effLo) && decide (effHi ≤ hi))) &&
  (decide (max mlo slo > min mhi shi) || (decide (effLo ≤ max mlo slo) && decide (min mhi shi ≤ effHi)))

theorem ivOK_sound {slo shi : Int} {l h : Option Int} {lo hi mlo mhi : Int}
    (hk : ivOK slo shi l h lo hi mlo mhi = true) (z : Int) (h1 : slo ≤ z) (h2 : z ≤ shi) :
    (passB l h z = true → lo ≤ z ∧ z ≤ hi) ∧ (mlo ≤ z → z ≤ mhi → passB l h z = true) := by
  unfold ivOK at hk
  cases l <;> cases h <;> simp [passB] at hk ⊢ <;> omega

/-! ### the cell checker -/

/-- the syntactic shapes of an integer → integer clause -/
def intBodyOK (tbl : List Case) (tgt src : Ty) (body : Body) : Bool :=
  match tgt.range, tgt.must, src.range with
  | some (lo, hi), some (mlo, mhi), some (slo, shi) =>
    match body with
    | .ident => tgt == src && decide (lo ≤ slo ∧ shi ≤ hi)
    | .bind (.self m) none ⟨.cast t .v, .fromCall⟩ _ =>
      m == src && t == tgt && selfIdent tbl src && ivOK slo shi none none lo hi mlo mhi
    | .bind (.self m) (some g) ⟨.cast t .v, .fromCall⟩ (some ⟨_, .overflow⟩) =>
      m == src && t == tgt && selfIdent tbl src &&
      (match intBounds g with
       | some (l, h) => ivOK slo shi l h lo hi mlo mhi
       | none => false)
    | _ => false
  | _, _, _ => false

theorem must_sub_range {t : Ty} {lo hi mlo mhi : Int} (hr : t.range = some (lo, hi)) (hm : t.must = some (mlo, mhi)) :
    lo ≤ mlo ∧ mhi ≤ hi ∧ lo ≤ hi := by
  cases t <;> simp [Ty.range, Ty.must, p63, p64] at hr hm <;> omega

/-- the spec of an integer result, unfolded -/
theorem specNum_int {tgt : Ty} {lo hi mlo mhi : Int} (hr : tgt.range = some (lo, hi)) (hm : tgt.must = some (mlo, mhi))
    (z : Int) (r : Res) :
    specNum tgt (.i z) r =
      ((r.err != .ok || (r.val == .i z && decide (lo ≤ z ∧ z ≤ hi))) &&
       (!decide (mlo ≤ z ∧ z ≤ mhi) || r.err == .ok)) := by
  simp [specNum, hr, hm, exactInt, fitsInt]

theorem intBodyOK_sound (sc : Strconv) (tbl : List Case) (n : Nat) (tgt src : Ty) (slo shi : Int)
    (hs : src.range = some (slo, shi))
    (hk : intBodyOK tbl tgt src (lookup tbl tgt (.ty src)) = true)
    (z : Int) (h1 : slo ≤ z) (h2 : z ≤ shi) :
    specNum tgt (.i z) (conv sc tbl (n + 2) tgt (.ty src) (.i z)) = true := by
  unfold intBodyOK at hk
  cases hr : tgt.range with
  | none => simp [hr] at hk
  | some p =>
    obtain ⟨lo, hi⟩ := p
    cases hm : tgt.must with
    | none => simp [hr, hm] at hk
    | some q =>
      obtain ⟨mlo, mhi⟩ := q
      have hsub := must_sub_range hr hm
      simp only [hr, hm, hs] at hk
      rw [specNum_int hr hm, conv_succ]
      generalize hb : lookup tbl tgt (.ty src) = body at hk
      match body, hk with
      | .ident, hk =>
        simp at hk
        simp [evalBody]
        omega
      | .bind (.self m) none ⟨.cast t .v, .fromCall⟩ _, hk =>
        simp at hk
        obtain ⟨⟨⟨rfl, rfl⟩, hsi⟩, hiv⟩ := hk
        have ⟨ha, _⟩ := ivOK_sound hiv z h1 h2
        have hz := ha (by simp [passB])
        simp [evalBody, conv_self sc tbl n m (.i z) hsi, evalR, evalE, castTo, hr, errOf,
          wrap_of_mem lo hi z hz.1 hz.2]
        omega
      | .bind (.self m) (some g) ⟨.cast t .v, .fromCall⟩ (some ⟨fe, .overflow⟩), hk =>
        simp at hk
        obtain ⟨⟨⟨rfl, rfl⟩, hsi⟩, hiv⟩ := hk
        cases hg : intBounds g with
        | none => simp [hg] at hiv
        | some lh =>
          obtain ⟨l, h⟩ := lh
          simp [hg] at hiv
          have ⟨ha, hbb⟩ := ivOK_sound hiv z h1 h2
          simp only [evalBody, conv_self sc tbl n m (.i z) hsi, intBounds_sound g l h z hg]
          cases hp : passB l h z with
          | true =>
            have hz := ha hp
            simp [evalR, evalE, castTo, hr, errOf, wrap_of_mem lo hi z hz.1 hz.2]
            omega
          | false =>
            simp [evalR, errOf]
            by_cases hm1 : mlo ≤ z
            · by_cases hm2 : z ≤ mhi
              · have := hbb hm1 hm2
                simp [hp] at this
              · omega
            · omega

/-- the cell (method `tgt`, `case src`) of the table passes the integer checker -/
def intCellOK (tbl : List Case) (tgt src : Ty) : Bool := intBodyOK tbl tgt src (lookup tbl tgt (.ty src))

def intTys : List Ty := [.int, .int8, .int16, .int32, .int64, .uint, .uint8, .uint16, .uint32, .uint64, .uintptr]

theorem intTys_range {t : Ty} (h : t ∈ intTys) : ∃ lo hi, t.range = some (lo, hi) := by
  simp [intTys] at h
  rcases h with rfl | rfl | rfl | rfl | rfl | rfl | rfl | rfl | rfl | rfl | rfl <;> simp [Ty.range]

end FpgoVerif.C02
