import FpgoVerif.Proofs.C03Basic
/-! Loop lemmas for C03: each `Impl.*Loop` computes the corresponding list function (generalised over
    the accumulators so that the induction goes through). -/
namespace FpgoVerif.C03
variable {α β κ ν : Type}

theorem reduceLoop_spec (fn : β → α → β) (pre rest : List α) (m : β) :
    Impl.reduceLoop fn (pre ++ rest) rest.length pre.length m = .ok (rest.foldl fn m) := by
  induction rest generalizing pre m with
  | nil => simp [Impl.reduceLoop]
  | cons x t ih =>
    have := ih (pre ++ [x]) (fn m x)
    simp at this
    simp [Impl.reduceLoop, getN_append_cons, this]

theorem dropEqLoop_spec [DecidableEq α] (num : α) (xs acc : List α) :
    Impl.dropEqLoop num xs acc = acc ++ xs.filter (fun v => v ≠ num) := by
  induction xs generalizing acc with
  | nil => simp [Impl.dropEqLoop]
  | cons x t ih => by_cases h : x = num <;> simp [Impl.dropEqLoop, h, ih]

theorem everyLoop_eq (f : α → Bool) (xs : List α) : Impl.everyLoop f xs = xs.all f := by
  induction xs with
  | nil => rfl
  | cons v t ih => cases h : f v <;> simp [Impl.everyLoop, h, ih]

theorem someLoop_eq (f : α → Bool) (xs : List α) : Impl.someLoop f xs = xs.any f := by
  induction xs with
  | nil => rfl
  | cons v t ih => cases h : f v <;> simp [Impl.someLoop, h, ih]

theorem partitionLoop_spec (p : α → Bool) (xs a b : List α) :
    Impl.partitionLoop p xs a b = [a ++ xs.filter p, b ++ xs.filter (fun x => !p x)] := by
  induction xs generalizing a b with
  | nil => simp [Impl.partitionLoop]
  | cons x t ih => cases h : p x <;> simp [Impl.partitionLoop, h, ih]

theorem isDistinctLoop_spec [DecidableEq α] (xs s : List α) :
    Impl.isDistinctLoop xs s = decide (xs.Nodup ∧ ∀ x ∈ xs, x ∉ s) := by
  induction xs generalizing s with
  | nil => simp [Impl.isDistinctLoop]
  | cons v t ih =>
    by_cases h : v ∈ s
    · simp [Impl.isDistinctLoop, h]
    · simp only [Impl.isDistinctLoop, List.contains_iff_mem, h, if_false, ih, Bool.false_eq_true]
      simp only [List.nodup_cons, List.mem_cons, decide_eq_decide]
      constructor
      · rintro ⟨hn, hs⟩
        refine ⟨⟨fun hv => (hs v hv) (Or.inl rfl), hn⟩, ?_⟩
        intro x hx
        rcases hx with rfl | hx
        · exact h
        · exact fun hxs => hs x hx (Or.inr hxs)
      · rintro ⟨⟨hv, hn⟩, hs⟩
        refine ⟨hn, ?_⟩
        intro x hx hxs
        rcases hxs with rfl | hxs
        · exact hv hx
        · exact hs x (Or.inr hx) hxs

theorem isEqualLoop_spec [DecidableEq α] (p1 p2 r1 r2 : List α) (hp : p1.length = p2.length)
    (hr : r1.length = r2.length) :
    Impl.isEqualLoop (p1 ++ r1) (p2 ++ r2) r1.length p1.length = .ok (decide (r1 = r2)) := by
  induction r1 generalizing p1 p2 r2 with
  | nil => cases r2 <;> simp_all [Impl.isEqualLoop]
  | cons a t ih =>
    cases r2 with
    | nil => simp at hr
    | cons b u =>
      have h2 : getN (p2 ++ b :: u) p1.length = .ok b := by rw [hp]; exact getN_append_cons _ _ _
      simp only [Impl.isEqualLoop, getN_append_cons, h2, bind_ok, List.length_cons]
      by_cases hab : a = b
      · subst hab
        have := ih (p1 ++ [a]) (p2 ++ [a]) u (by simp [hp]) (by simpa using hr)
        simp at this
        simp [this]
      · simp [hab]

theorem uniqByLoop_spec [DecidableEq κ] (g : α → κ) (xs : List α) (ids : List κ) (acc : List α) :
    Impl.uniqByLoop g xs ids acc
      = acc ++ (xs.filter (fun x => decide (g x ∉ ids))).eraseDupsBy (fun a b => decide (g a = g b)) := by
  induction xs generalizing ids acc with
  | nil => simp [Impl.uniqByLoop, List.eraseDupsBy_nil]
  | cons v t ih =>
    by_cases h : g v ∈ ids
    · simp [Impl.uniqByLoop, h, ih]
    · have hf : List.filter (fun b => decide (decide (g b = g v) = false)) (List.filter (fun x => decide (g x ∉ ids)) t)
          = List.filter (fun x => decide (g x ∉ g v :: ids)) t := by
        rw [List.filter_filter]
        apply List.filter_congr
        intro x _
        simp
      simp [Impl.uniqByLoop, h, ih, List.eraseDupsBy_cons, hf]

theorem distinctLoop_spec [DecidableEq α] (xs s pre pad : List α) (h : xs.length ≤ pad.length) :
    Impl.distinctLoop xs s pre.length (pre ++ pad)
      = .ok (pre.length + ((xs.filter (fun x => decide (x ∉ s))).eraseDups).length,
             pre ++ (xs.filter (fun x => decide (x ∉ s))).eraseDups
               ++ pad.drop ((xs.filter (fun x => decide (x ∉ s))).eraseDups).length) := by
  induction xs generalizing s pre pad with
  | nil => simp [Impl.distinctLoop]
  | cons v t ih =>
    by_cases hv : v ∈ s
    · have := ih s pre pad (by simp at h; omega)
      simp [Impl.distinctLoop, hv, this]
    · cases pad with
      | nil => simp at h
      | cons p pad' =>
        have hf : List.filter (fun b => !b == v) (List.filter (fun x => decide (x ∉ s)) t)
            = List.filter (fun x => decide (x ∉ v :: s)) t := by
          rw [List.filter_filter]
          apply List.filter_congr
          intro x _
          simp [Bool.beq_eq_decide_eq]
        have hc : (!s.contains v) = true := by simp [hv]
        have ih' := ih (v :: s) (pre ++ [v]) pad' (by simpa using h)
        have hfil : List.filter (fun x => decide (x ∉ s)) (v :: t) = v :: List.filter (fun x => decide (x ∉ s)) t := by
          simp [hv]
        simp only [Impl.distinctLoop, hc, if_true, setN_append_cons, bind_ok]
        rw [hfil, List.eraseDups_cons, hf]
        have e : pre ++ v :: pad' = (pre ++ [v]) ++ pad' := by simp
        have hl : pre.length + 1 = (pre ++ [v]).length := by simp
        rw [e, hl, ih']
        simp
        omega

theorem setI_append_cons (pre : List α) (a v : α) (post : List α) (n : Int) (hn : n = (pre.length : Int) + 1) :
    setI (pre ++ a :: post) (n - 1) v = .ok (pre ++ v :: post) := by
  subst hn
  have h1 : ¬ ((pre.length : Int) + 1 - 1 < 0) := by omega
  have h2 : ((pre.length : Int) + 1 - 1).toNat = pre.length := by omega
  simp only [setI, h1, if_false, h2, setN_append_cons]

theorem reslice_prefix (a b : List α) :
    (Sl.mk (a ++ b) []).reslice 0 (a.length : Int) = .ok ⟨a, b⟩ := by
  have hc : (0:Int) ≤ 0 ∧ (0:Int) ≤ (a.length : Int) ∧ (a.length : Int) ≤ (Sl.mk (a ++ b) []).cap := by
    simp [Sl.cap]; omega
  simp only [Sl.reslice, hc, and_self, if_true]
  simp

theorem filterLoop_spec (fn : α → Nat → Bool) (xs : List α) (i : Nat) (pre pad : List α)
    (h : xs.length ≤ pad.length) :
    Impl.filterLoop fn xs i (pre.length : Int) (pre ++ pad)
      = .ok (((pre.length + (((xs.zipIdx i).filter (fun xi => fn xi.1 xi.2)).map (·.1)).length : Nat) : Int),
             pre ++ ((xs.zipIdx i).filter (fun xi => fn xi.1 xi.2)).map (·.1)
               ++ pad.drop (((xs.zipIdx i).filter (fun xi => fn xi.1 xi.2)).map (·.1)).length) := by
  induction xs generalizing i pre pad with
  | nil => simp [Impl.filterLoop]
  | cons v t ih =>
    by_cases hv : fn v i = true
    · cases pad with
      | nil => simp at h
      | cons p pad' =>
        have ih' := ih (i + 1) (pre ++ [v]) pad' (by simpa using h)
        have e : pre ++ v :: pad' = (pre ++ [v]) ++ pad' := by simp
        have hl : (pre.length : Int) + 1 = ((pre ++ [v]).length : Int) := by simp
        simp only [Impl.filterLoop, hv, if_true, setI_append_cons pre p v pad' _ rfl, bind_ok]
        rw [e, hl, ih']
        simp [List.zipIdx_cons, hv]
        omega
    · have ih' := ih (i + 1) pre pad (by simp at h; omega)
      simp only [Impl.filterLoop, hv, if_false, ih', Bool.false_eq_true]
      simp [List.zipIdx_cons, hv]

end FpgoVerif.C03
