import FpgoVerif.Proofs.C03Basic
import FpgoVerif.Proofs.C03Maps
/-! Loop lemmas for C03: each `Impl.*Loop` computes the corresponding list function (generalised over
    the accumulators so that the induction goes through). -/
namespace FpgoVerif.C03
variable {α β κ ν : Type}

theorem reduceLoop_spec (fn : β → α → β) (pre rest : List α) (m : β) :
    Impl.reduceLoop fn (pre ++ rest) rest.length pre.length m = .ok (rest.foldl fn m) := by
  induction rest generalizing pre m with
  | nil => simp [Impl.reduceLoop]
  | cons x t ih =>
    have := ih (pre ++ [x]) (fn m x)
    simp at this
    simp [Impl.reduceLoop, getN_append_cons, this]

theorem dropEqLoop_spec [DecidableEq α] (num : α) (xs acc : List α) :
    Impl.dropEqLoop num xs acc = acc ++ xs.filter (fun v => v ≠ num) := by
  induction xs generalizing acc with
  | nil => simp [Impl.dropEqLoop]
  | cons x t ih => by_cases h : x = num <;> simp [Impl.dropEqLoop, h, ih]

theorem everyLoop_eq (f : α → Bool) (xs : List α) : Impl.everyLoop f xs = xs.all f := by
  induction xs with
  | nil => rfl
  | cons v t ih => cases h : f v <;> simp [Impl.everyLoop, h, ih]

theorem someLoop_eq (f : α → Bool) (xs : List α) : Impl.someLoop f xs = xs.any f := by
  induction xs with
  | nil => rfl
  | cons v t ih => cases h : f v <;> simp [Impl.someLoop, h, ih]

theorem partitionLoop_spec (p : α → Bool) (xs a b : List α) :
    Impl.partitionLoop p xs a b = [a ++ xs.filter p, b ++ xs.filter (fun x => !p x)] := by
  induction xs generalizing a b with
  | nil => simp [Impl.partitionLoop]
  | cons x t ih => cases h : p x <;> simp [Impl.partitionLoop, h, ih]

theorem isDistinctLoop_spec [DecidableEq α] (xs s : List α) :
    Impl.isDistinctLoop xs s = decide (xs.Nodup ∧ ∀ x ∈ xs, x ∉ s) := by
  induction xs generalizing s with
  | nil => simp [Impl.isDistinctLoop]
  | cons v t ih =>
    by_cases h : v ∈ s
    · simp [Impl.isDistinctLoop, h]
    · simp only [Impl.isDistinctLoop, List.contains_iff_mem, h, if_false, ih, Bool.false_eq_true]
      simp only [List.nodup_cons, List.mem_cons, decide_eq_decide]
      constructor
      · rintro ⟨hn, hs⟩
        refine ⟨⟨fun hv => (hs v hv) (Or.inl rfl), hn⟩, ?_⟩
        intro x hx
        rcases hx with rfl | hx
        · exact h
        · exact fun hxs => hs x hx (Or.inr hxs)
      · rintro ⟨⟨hv, hn⟩, hs⟩
        refine ⟨hn, ?_⟩
        intro x hx hxs
        rcases hxs with rfl | hxs
        · exact hv hx
        · exact hs x (Or.inr hx) hxs

theorem isEqualLoop_spec [DecidableEq α] (p1 p2 r1 r2 : List α) (hp : p1.length = p2.length)
    (hr : r1.length = r2.length) :
    Impl.isEqualLoop (p1 ++ r1) (p2 ++ r2) r1.length p1.length = .ok (decide (r1 = r2)) := by
  induction r1 generalizing p1 p2 r2 with
  | nil => cases r2 <;> simp_all [Impl.isEqualLoop]
  | cons a t ih =>
    cases r2 with
    | nil => simp at hr
    | cons b u =>
      have h2 : getN (p2 ++ b :: u) p1.length = .ok b := by rw [hp]; exact getN_append_cons _ _ _
      simp only [Impl.isEqualLoop, getN_append_cons, h2, bind_ok, List.length_cons]
      by_cases hab : a = b
      · subst hab
        have := ih (p1 ++ [a]) (p2 ++ [a]) u (by simp [hp]) (by simpa using hr)
        simp at this
        simp [this]
      · simp [hab]

theorem uniqByLoop_spec [DecidableEq κ] (g : α → κ) (xs : List α) (ids : List κ) (acc : List α) :
    Impl.uniqByLoop g xs ids acc
      = acc ++ (xs.filter (fun x => decide (g x ∉ ids))).eraseDupsBy (fun a b => decide (g a = g b)) := by
  induction xs generalizing ids acc with
  | nil => simp [Impl.uniqByLoop, List.eraseDupsBy_nil]
  | cons v t ih =>
    by_cases h : g v ∈ ids
    · simp [Impl.uniqByLoop, h, ih]
    · have hf : List.filter (fun b => decide (decide (g b = g v) = false)) (List.filter (fun x => decide (g x ∉ ids)) t)
          = List.filter (fun x => decide (g x ∉ g v :: ids)) t := by
        rw [List.filter_filter]
        apply List.filter_congr
        intro x _
        simp
      simp [Impl.uniqByLoop, h, ih, List.eraseDupsBy_cons, hf]

theorem distinctLoop_spec [DecidableEq α] (xs s pre pad : List α) (h : xs.length ≤ pad.length) :
    Impl.distinctLoop xs s pre.length (pre ++ pad)
      = .ok (pre.length + ((xs.filter (fun x => decide (x ∉ s))).eraseDups).length,
             pre ++ (xs.filter (fun x => decide (x ∉ s))).eraseDups
               ++ pad.drop ((xs.filter (fun x => decide (x ∉ s))).eraseDups).length) := by
  induction xs generalizing s pre pad with
  | nil => simp [Impl.distinctLoop]
  | cons v t ih =>
    by_cases hv : v ∈ s
    · have := ih s pre pad (by simp at h; omega)
      simp [Impl.distinctLoop, hv, this]
    · cases pad with
      | nil => simp at h
      | cons p pad' =>
        have hf : List.filter (fun b => !b == v) (List.filter (fun x => decide (x ∉ s)) t)
            = List.filter (fun x => decide (x ∉ v :: s)) t := by
          rw [List.filter_filter]
          apply List.filter_congr
          intro x _
          simp [Bool.beq_eq_decide_eq]
        have hc : (!s.contains v) = true := by simp [hv]
        have ih' := ih (v :: s) (pre ++ [v]) pad' (by simpa using h)
        have hfil : List.filter (fun x => decide (x ∉ s)) (v :: t) = v :: List.filter (fun x => decide (x ∉ s)) t := by
          simp [hv]
        simp only [Impl.distinctLoop, hc, if_true, setN_append_cons, bind_ok]
        rw [hfil, List.eraseDups_cons, hf]
        have e : pre ++ v :: pad' = (pre ++ [v]) ++ pad' := by simp
        have hl : pre.length + 1 = (pre ++ [v]).length := by simp
        rw [e, hl, ih']
        simp
        omega

theorem setI_append_cons (pre : List α) (a v : α) (post : List α) (n : Int) (hn : n = (pre.length : Int) + 1) :
    setI (pre ++ a :: post) (n - 1) v = .ok (pre ++ v :: post) := by
  subst hn
  have h1 : ¬ ((pre.length : Int) + 1 - 1 < 0) := by omega
  have h2 : ((pre.length : Int) + 1 - 1).toNat = pre.length := by omega
  simp only [setI, h1, if_false, h2, setN_append_cons]

theorem reslice_prefix (a b : List α) :
    (Sl.mk (a ++ b) []).reslice 0 (a.length : Int) = .ok ⟨a, b⟩ := by
  have hc : (0:Int) ≤ 0 ∧ (0:Int) ≤ (a.length : Int) ∧ (a.length : Int) ≤ (Sl.mk (a ++ b) []).cap := by
    simp [Sl.cap]; omega
  simp only [Sl.reslice, hc, and_self, if_true]
  simp

theorem filterLoop_spec (fn : α → Nat → Bool) (xs : List α) (i : Nat) (pre pad : List α)
    (h : xs.length ≤ pad.length) :
    Impl.filterLoop fn xs i (pre.length : Int) (pre ++ pad)
      = .ok (((pre.length + (((xs.zipIdx i).filter (fun xi => fn xi.1 xi.2)).map (·.1)).length : Nat) : Int),
             pre ++ ((xs.zipIdx i).filter (fun xi => fn xi.1 xi.2)).map (·.1)
               ++ pad.drop (((xs.zipIdx i).filter (fun xi => fn xi.1 xi.2)).map (·.1)).length) := by
  induction xs generalizing i pre pad with
  | nil => simp [Impl.filterLoop]
  | cons v t ih =>
    by_cases hv : fn v i = true
    · cases pad with
      | nil => simp at h
      | cons p pad' =>
        have ih' := ih (i + 1) (pre ++ [v]) pad' (by simpa using h)
        have e : pre ++ v :: pad' = (pre ++ [v]) ++ pad' := by simp
        have hl : (pre.length : Int) + 1 = ((pre ++ [v]).length : Int) := by simp
        simp only [Impl.filterLoop, hv, if_true, setI_append_cons pre p v pad' _ rfl, bind_ok]
        rw [e, hl, ih']
        simp [List.zipIdx_cons, hv]
        omega
    · have ih' := ih (i + 1) pre pad (by simp at h; omega)
      simp only [Impl.filterLoop, hv, if_false, ih', Bool.false_eq_true]
      simp [List.zipIdx_cons, hv]

theorem maxLoop_eq (xs : List Int) (r : Int) : Impl.maxLoop xs r = xs.foldl max r := by
  induction xs generalizing r with
  | nil => rfl
  | cons v t ih =>
    simp only [Impl.maxLoop, List.foldl_cons]
    by_cases h : v > r
    · have : max r v = v := by omega
      simp [h, ih, this]
    · have : max r v = r := by omega
      simp [h, ih, this]

theorem minLoop_eq (xs : List Int) (r : Int) : Impl.minLoop xs r = xs.foldl min r := by
  induction xs generalizing r with
  | nil => rfl
  | cons v t ih =>
    simp only [Impl.minLoop, List.foldl_cons]
    by_cases h : v < r
    · have : min r v = v := by omega
      simp [h, ih, this]
    · have : min r v = r := by omega
      simp [h, ih, this]

theorem minMaxLoop_eq (xs : List Int) (lo hi : Int) (h : lo ≤ hi) :
    Impl.minMaxLoop xs lo hi = (xs.foldl min lo, xs.foldl max hi) := by
  induction xs generalizing lo hi with
  | nil => rfl
  | cons v t ih =>
    simp only [Impl.minMaxLoop, List.foldl_cons]
    by_cases h1 : v < lo
    · have e1 : min lo v = v := by omega
      have e2 : max hi v = hi := by omega
      simp [h1, ih v hi (by omega), e1, e2]
    · by_cases h2 : v > hi
      · have e1 : min lo v = lo := by omega
        have e2 : max hi v = v := by omega
        simp [h1, h2, ih lo v (by omega), e1, e2]
      · have e1 : min lo v = lo := by omega
        have e2 : max hi v = hi := by omega
        simp [h1, h2, ih lo hi h, e1, e2]

/-- what `Spec.max` means: the result is an element and an upper bound (non-empty list) -/
theorem foldl_max_ge (xs : List Int) (r : Int) : r ≤ xs.foldl max r ∧ ∀ x ∈ xs, x ≤ xs.foldl max r := by
  induction xs generalizing r with
  | nil => simp
  | cons v t ih =>
    have h := ih (max r v)
    simp only [List.foldl_cons, List.mem_cons]
    refine ⟨by omega, ?_⟩
    rintro x (rfl | hx)
    · omega
    · exact h.2 x hx

theorem getN_append_cons2 (pre : List α) (a b : α) (rest : List α) :
    getN (pre ++ a :: b :: rest) (pre.length + 1) = .ok b := by
  have := getN_append_cons (pre ++ [a]) b rest
  simpa using this

theorem dedupeLoop_spec [DecidableEq α] (pre rest acc : List α) :
    Impl.dedupeLoop (pre ++ rest) (pre ++ rest).length rest.length pre.length acc
      = .ok (acc ++ Spec.dedupe rest) := by
  induction rest generalizing pre acc with
  | nil => simp [Impl.dedupeLoop, Spec.dedupe]
  | cons a t ih =>
    cases t with
    | nil =>
      have h : ¬ (pre.length + 1 < (pre ++ [a]).length) := by simp
      simp only [Impl.dedupeLoop, h, if_false, pure_eq_ok, bind_ok, getN_append_cons, List.length_cons,
        List.length_nil, Spec.dedupe]
      simp [Impl.dedupeLoop]
    | cons b u =>
      have h : pre.length + 1 < (pre ++ a :: b :: u).length := by simp
      have ih' := ih (pre ++ [a])
      simp only [List.append_assoc, List.singleton_append, List.length_append, List.length_cons,
        List.length_nil, Nat.zero_add] at ih'
      simp only [List.length_cons] 
      rw [Impl.dedupeLoop]
      simp only [h, if_true, getN_append_cons, getN_append_cons2, bind_ok, pure_eq_ok]
      by_cases hab : a = b
      · subst hab
        simp only [decide_true, if_true, Spec.dedupe]
        have := ih' acc
        simp only [List.length_append, List.length_cons] at this ⊢
        exact this
      · simp only [hab, decide_false, Bool.false_eq_true, if_false, Spec.dedupe]
        have := ih' (acc ++ [a])
        simp only [List.length_append, List.length_cons, List.append_assoc, List.singleton_append] at this ⊢
        exact this

theorem reverseLoop_spec (list done todo pad : List α) (hl : list = (done ++ todo).reverse)
    (hp : pad.length = todo.length) :
    Impl.reverseLoop list todo.length done.length (done ++ pad) = .ok (done ++ todo) := by
  induction todo generalizing done pad with
  | nil =>
    cases pad with
    | nil => simp [Impl.reverseLoop]
    | cons _ _ => simp at hp
  | cons x t ih =>
    cases pad with
    | nil => simp at hp
    | cons p pad' =>
      have hlist : list = t.reverse ++ x :: done.reverse := by simp [hl]
      have hidx : ((list.length : Int) - ((done.length : Int) + 1)) = ((t.reverse.length : Nat) : Int) := by
        rw [hlist]; simp
      have hget : getI list ((list.length : Int) - ((done.length : Int) + 1)) = .ok x := by
        rw [hidx]
        have h0 : ¬ (((t.reverse.length : Nat) : Int) < 0) := by omega
        simp only [getI, h0, if_false, Int.toNat_natCast]
        rw [hlist]; exact getN_append_cons _ _ _
      have ih' := ih (done ++ [x]) pad' (by simp [hl]) (by simpa using hp)
      simp only [List.length_append, List.length_cons, List.length_nil, Nat.zero_add, List.append_assoc,
        List.singleton_append] at ih'
      simp only [List.length_cons, Impl.reverseLoop, hget, bind_ok, setN_append_cons]
      exact ih'

theorem copyFrom_spec (lp todo done pad : List α) (hp : pad.length = todo.length) :
    Impl.copyFrom (lp ++ todo) todo.length lp.length done.length (done ++ pad) = .ok (done ++ todo) := by
  induction todo generalizing lp done pad with
  | nil =>
    cases pad with
    | nil => simp [Impl.copyFrom]
    | cons _ _ => simp at hp
  | cons x t ih =>
    cases pad with
    | nil => simp at hp
    | cons p pad' =>
      have ih' := ih (lp ++ [x]) (done ++ [x]) pad' (by simpa using hp)
      simp only [List.length_append, List.length_cons, List.length_nil, Nat.zero_add, List.append_assoc,
        List.singleton_append] at ih'
      simp only [List.length_cons, Impl.copyFrom, getN_append_cons, bind_ok, setN_append_cons]
      exact ih'

theorem dropWhileLoop_spec (z : α) (f : α → Bool) (pre rest : List α) :
    Impl.dropWhileLoop z f (pre ++ rest) rest pre.length = .ok (rest.dropWhile f) := by
  induction rest generalizing pre with
  | nil => simp [Impl.dropWhileLoop]
  | cons v t ih =>
    by_cases hv : f v = true
    · have ih' := ih (pre ++ [v])
      simp only [List.length_append, List.length_cons, List.length_nil, Nat.zero_add, List.append_assoc,
        List.singleton_append] at ih'
      simp [Impl.dropWhileLoop, hv, ih', List.dropWhile_cons]
    · have hlen : (((pre ++ v :: t).length : Nat) : Int) - (pre.length : Int) = (((v :: t).length : Nat) : Int) := by
        simp; omega
      have hlen2 : (pre ++ v :: t).length - pre.length = (v :: t).length := by simp
      have hmk : mkI ((((v :: t).length : Nat) : Int)) z = .ok (List.replicate (v :: t).length z) := by
        have h0 : ¬ ((((v :: t).length : Nat) : Int) < 0) := by omega
        simp only [mkI, h0, if_false, Int.toNat_natCast]
      have hc := copyFrom_spec pre (v :: t) [] (List.replicate (v :: t).length z) (by simp)
      simp only [List.nil_append, List.length_nil] at hc
      simp only [Impl.dropWhileLoop, hv, Bool.not_false, if_true, hlen, hlen2, hmk, bind_ok, List.dropWhile_cons,
        Bool.false_eq_true, if_false]
      simpa using hc

theorem fillLoop_id (src : List α) (pre mid post : List α) (hmid : mid.length = src.length) :
    fillLoop (fun x _ => x) src pre.length 0 (pre ++ mid ++ post) = .ok (pre ++ src ++ post) := by
  have := fillLoop_spec (fun (x : α) (_ : Nat) => x) src pre.length 0 pre mid post rfl hmid
  rw [this]
  have h := map_zipIdx_fst (fun x : α => x) src 0
  simp at h
  simp [h]

theorem totalLen_eq (slices : List (Option (List α))) (n : Nat) :
    Impl.totalLenLoop slices n = n + ((slices.map (·.getD [])).flatten).length := by
  induction slices generalizing n with
  | nil => simp [Impl.totalLenLoop]
  | cons s rest ih =>
    cases s with
    | none => simp [Impl.totalLenLoop, ih]
    | some sl => simp [Impl.totalLenLoop, ih]; omega

theorem concatLoop_spec (slices : List (Option (List α))) (pre mid post : List α)
    (hmid : mid.length = ((slices.map (·.getD [])).flatten).length) :
    ∃ n, Impl.concatLoop slices pre.length (pre ++ mid ++ post)
      = .ok (n, pre ++ (slices.map (·.getD [])).flatten ++ post) := by
  induction slices generalizing pre mid with
  | nil =>
    have : mid = [] := List.eq_nil_of_length_eq_zero (by simpa using hmid)
    exact ⟨pre.length, by simp [Impl.concatLoop, this]⟩
  | cons s rest ih =>
    cases s with
    | none =>
      obtain ⟨n, hn⟩ := ih pre mid (by simpa using hmid)
      exact ⟨n, by simpa [Impl.concatLoop] using hn⟩
    | some target =>
      have hlen : target.length ≤ mid.length := by simp at hmid; omega
      have hsplit : mid = mid.take target.length ++ mid.drop target.length := (List.take_append_drop _ _).symm
      have h1 : (mid.take target.length).length = target.length := by simp; omega
      have hfill := fillLoop_id target pre (mid.take target.length) (mid.drop target.length ++ post) h1
      obtain ⟨n, hn⟩ := ih (pre ++ target) (mid.drop target.length) (by simp at hmid ⊢; omega)
      refine ⟨n, ?_⟩
      have e : pre ++ mid ++ post = pre ++ mid.take target.length ++ (mid.drop target.length ++ post) := by
        rw [List.append_assoc pre (mid.take _), ← List.append_assoc (mid.take _), List.take_append_drop]
        simp
      rw [Impl.concatLoop, e, hfill]
      simp only [bind_ok]
      have e2 : pre.length + target.length = (pre ++ target).length := by simp
      have e3 : pre ++ target ++ (mid.drop target.length ++ post) = pre ++ target ++ mid.drop target.length ++ post := by simp
      rw [e2, e3, hn]
      simp

theorem sliceToMapLoop_spec [DecidableEq κ] (d : ν) (xs : List κ) (m : List (κ × ν)) (k : κ) :
    mget k (xs.foldl (fun resultMap key => if !(mhas key resultMap) then mset resultMap key d else resultMap) m)
      = match mget k m with | some w => some w | none => if k ∈ xs then some d else none := by
  induction xs generalizing m with
  | nil => cases h : mget k m <;> simp [h]
  | cons x t ih =>
    simp only [List.foldl_cons]
    by_cases hx : mhas x m = true
    · simp only [hx, Bool.not_true, Bool.false_eq_true, if_false, ih]
      cases h : mget k m with
      | some w => simp
      | none =>
        have hk : mhas k m = false := (mget_eq_none_iff k m).mp h
        have : k ≠ x := fun e => by subst e; simp [hk] at hx
        simp [this]
    · have hx' : mhas x m = false := by simpa using hx
      simp only [hx', Bool.not_false, if_true, ih, mget_mset]
      by_cases hk : x = k
      · subst hk
        have : mget x m = none := (mget_eq_none_iff x m).mpr hx'
        simp [this]
      · have : ¬ k = x := fun e => hk e.symm
        cases h : mget k m <;> simp [hk, this]

theorem mget_map_const [DecidableEq κ] (d : ν) (xs : List κ) (k : κ) :
    mget k (xs.map (fun x => (x, d))) = if k ∈ xs then some d else none := by
  induction xs with
  | nil => simp [mget]
  | cons x t ih =>
    simp only [List.map_cons, mget, ih, List.mem_cons]
    by_cases h1 : k ∈ t
    · simp [h1]
    · by_cases h2 : x = k
      · simp [h1, h2]
      · have : ¬ k = x := fun e => h2 e.symm
        simp [h1, h2, this]

theorem sliceToMapLoop_nodup [DecidableEq κ] (d : ν) (xs : List κ) (m : List (κ × ν)) (h : (m.map (·.1)).Nodup) :
    ((xs.foldl (fun resultMap key => if !(mhas key resultMap) then mset resultMap key d else resultMap) m).map (·.1)).Nodup := by
  induction xs generalizing m with
  | nil => simpa using h
  | cons x t ih =>
    simp only [List.foldl_cons]
    apply ih
    split
    · exact nodup_keys_mset _ _ _ h
    · exact h

theorem zipLoop_spec [DecidableEq κ] (p1 r1 : List κ) (p2 r2 : List ν) (m : List (κ × ν)) (hp : p1.length = p2.length) :
    ∃ m', Impl.zipLoop (p1 ++ r1) (p2 ++ r2) (r1.zip r2).length p1.length m = .ok m'
      ∧ (∀ k, mget k m' = match mget k (r1.zip r2) with | some w => some w | none => mget k m)
      ∧ ((m.map (·.1)).Nodup → (m'.map (·.1)).Nodup) := by
  induction r1 generalizing r2 p1 p2 m with
  | nil => exact ⟨m, by simp [Impl.zipLoop], by simp [mget], id⟩
  | cons a t1 ih =>
    cases r2 with
    | nil => exact ⟨m, by simp [Impl.zipLoop], by simp [mget], id⟩
    | cons b t2 =>
      obtain ⟨m', h1, h2, h3⟩ := ih (p1 ++ [a]) (p2 ++ [b]) t2 (mset m a b) (by simp [hp])
      simp only [List.length_append, List.length_cons, List.length_nil, Nat.zero_add, List.append_assoc,
        List.singleton_append] at h1
      refine ⟨m', ?_, ?_, ?_⟩
      · have hb : getN (p2 ++ b :: t2) p1.length = .ok b := by rw [hp]; exact getN_append_cons _ _ _
        simp only [List.zip_cons_cons, List.length_cons, Impl.zipLoop, getN_append_cons, hb, bind_ok]
        exact h1
      · intro k
        rw [h2 k, mget_mset]
        simp only [List.zip_cons_cons, mget]
        cases h : mget k (t1.zip t2) <;> simp
        by_cases hk : a = k <;> simp [hk]
      · intro hn
        exact h3 (nodup_keys_mset _ _ _ hn)

theorem groupByLoop_spec [DecidableEq κ] (g : α → κ) (xs : List α) (m : List (κ × List α)) (k : κ) :
    mget k (xs.foldl (fun result v => mset result (g v) ((mget (g v) result).getD [] ++ [v])) m)
      = if (mget k m).isNone ∧ xs.filter (fun y => g y = k) = [] then none
        else some ((mget k m).getD [] ++ xs.filter (fun y => g y = k)) := by
  induction xs generalizing m with
  | nil => cases h : mget k m <;> simp [h]
  | cons x t ih =>
    simp only [List.foldl_cons]
    rw [ih, mget_mset]
    by_cases hk : g x = k
    · subst hk
      simp
    · simp [hk]

theorem mget_map_key [DecidableEq κ] (g : α → κ) (F : κ → ν) (ys : List α) (k : κ) :
    mget k (ys.map (fun x => (g x, F (g x)))) = if ys.filter (fun y => g y = k) = [] then none else some (F k) := by
  induction ys with
  | nil => simp [mget]
  | cons y t ih =>
    simp only [List.map_cons, mget, ih]
    by_cases hy : g y = k
    · subst hy
      by_cases ht : t.filter (fun z => g z = g y) = [] <;> simp [ht]
    · by_cases ht : t.filter (fun z => g z = k) = []
      · simp only [ht, if_true, hy, if_false]
        simp [List.filter_cons, hy, ht]
      · simp only [ht, if_false]
        simp [List.filter_cons, hy, ht]

theorem groupByLoop_nodup [DecidableEq κ] (g : α → κ) (xs : List α) (m : List (κ × List α))
    (h : (m.map (·.1)).Nodup) :
    ((xs.foldl (fun result v => mset result (g v) ((mget (g v) result).getD [] ++ [v])) m).map (·.1)).Nodup := by
  induction xs generalizing m with
  | nil => simpa using h
  | cons x t ih => exact ih _ (nodup_keys_mset _ _ _ h)

theorem Impl.wrap64_id (x : Int) (h1 : -9223372036854775808 ≤ x) (h2 : x ≤ 9223372036854775807) : Impl.wrap64 x = x := by
  unfold Impl.wrap64; omega

theorem rangeLoop_spec (hi hop : Int) (hhop : 0 < hop) (hb : hi + hop ≤ 9223372036854775807)
    (fuel : Nat) (v : Int) (acc : List Int) (n : Nat)
    (hv : -9223372036854775808 ≤ v) (hf : (hi - v).toNat + 1 ≤ fuel) (hn : (hi - v).toNat ≤ n) :
    Impl.rangeLoop hi hop fuel v acc
      = .ok (acc ++ ((List.range n).map (fun (i : Nat) => v + (i : Int) * hop)).filter (fun x => x < hi)) := by
  induction fuel generalizing v acc n with
  | zero => omega
  | succ k ih =>
    by_cases hlt : v < hi
    · have hw : Impl.wrap64 (v + hop) = v + hop := Impl.wrap64_id _ (by omega) (by omega)
      cases n with
      | zero => omega
      | succ n' =>
        have ih' := ih (v + hop) (acc ++ [v]) n' (by omega) (by omega) (by omega)
        simp only [Impl.rangeLoop, hlt, if_true, hw, ih']
        rw [List.range_succ_eq_map]
        simp only [List.map_cons, List.map_map, List.filter_cons]
        have h0 : v + ((0 : Nat) : Int) * hop = v := by simp
        rw [h0]
        simp only [hlt, decide_true, if_true]
        have hfun : ((fun (i : Nat) => v + (i : Int) * hop) ∘ Nat.succ) = (fun (i : Nat) => v + hop + (i : Int) * hop) := by
          funext i
          simp only [Function.comp, Nat.succ_eq_add_one, Int.natCast_add, Int.add_mul]
          omega
        rw [hfun]
        simp
    · have hall : ((List.range n).map (fun (i : Nat) => v + (i : Int) * hop)).filter (fun x => x < hi) = [] := by
        rw [List.filter_eq_nil_iff]
        intro x hx
        simp only [List.mem_map, List.mem_range] at hx
        obtain ⟨i, _, rfl⟩ := hx
        have : 0 ≤ (i : Int) * hop := Int.mul_nonneg (by omega) (by omega)
        simp; omega
      simp [Impl.rangeLoop, hlt, hall]

theorem rangeFrom_spec (lo hi hop : Int) (hhop : 0 < hop) (hb : hi + hop ≤ 9223372036854775807)
    (hlo : -9223372036854775808 ≤ lo) :
    Impl.rangeFrom lo hi hop
      = .ok (if lo ≥ hi then [] else ((List.range (hi - lo).toNat).map (fun (i : Nat) => lo + (i : Int) * hop)).filter (fun x => x < hi)) := by
  unfold Impl.rangeFrom
  by_cases h : lo ≥ hi
  · simp [h]
  · simp only [h, if_false]
    have := rangeLoop_spec hi hop hhop hb ((hi - lo).toNat + 1) lo [] (hi - lo).toNat hlo (by omega) (by omega)
    simpa using this

theorem chunks_small (k : Nat) (fuel : Nat) (xs : List α) (h0 : xs ≠ []) (hk : xs.length ≤ k) (hf : xs.length ≤ fuel) :
    Spec.chunks k fuel xs = [xs] := by
  cases fuel with
  | zero => cases xs <;> simp_all
  | succ f =>
    have h1 : xs.isEmpty = false := by cases xs <;> simp_all
    have h2 : xs.take k = xs := List.take_of_length_le hk
    have h3 : xs.drop k = [] := List.drop_eq_nil_of_le hk
    simp only [Spec.chunks, h1, Bool.false_eq_true, if_false, h2, h3]
    cases f <;> simp [Spec.chunks]

theorem splitLoop_spec (k : Nat) (hk : 1 ≤ k) (n : Nat) (rest' : List α) :
    ∀ (v : α) (i : Nat) (result : List (List α)) (cur : List α) (fuel : Nat),
      i + 1 + rest'.length = n → cur.length ≤ k → (cur ++ v :: rest').length ≤ fuel →
      Impl.splitLoop (k : Int) n (v :: rest') i result cur = result ++ Spec.chunks k fuel (cur ++ v :: rest') := by
  induction rest' with
  | nil =>
    intro v i result cur fuel hi hc hf
    have hlast : i + 1 ≥ n := by simp at hi; omega
    by_cases hlt : cur.length < k
    · have hlt' : ((cur.length : Nat) : Int) < (k : Int) := by omega
      have := chunks_small k fuel (cur ++ [v]) (by simp) (by simp; omega) hf
      simp [Impl.splitLoop, hlt', hlast, this]
    · have heq : cur.length = k := by omega
      have hlt' : ¬ (((cur.length : Nat) : Int) < (k : Int)) := by omega
      cases fuel with
      | zero => simp at hf
      | succ f =>
        have h1 : (cur ++ [v]).isEmpty = false := by simp
        have h2 : (cur ++ [v]).take k = cur := by rw [← heq]; simp
        have h3 : (cur ++ [v]).drop k = [v] := by rw [← heq]; simp
        have h4 := chunks_small k f [v] (by simp) (by simpa using hk) (by simp at hf ⊢; omega)
        simp [Impl.splitLoop, hlt', hlast, Spec.chunks, h1, h2, h3, h4]
  | cons w rest'' ih =>
    intro v i result cur fuel hi hc hf
    have hnl : ¬ (i + 1 ≥ n) := by simp at hi; omega
    by_cases hlt : cur.length < k
    · have hlt' : ((cur.length : Nat) : Int) < (k : Int) := by omega
      have ih' := ih w (i + 1) result (cur ++ [v]) fuel (by simp at hi ⊢; omega) (by simp; omega) (by simpa using hf)
      rw [Impl.splitLoop]
      simp only [hlt', if_true, hnl, if_false]
      rw [ih']
      simp
    · have heq : cur.length = k := by omega
      have hlt' : ¬ (((cur.length : Nat) : Int) < (k : Int)) := by omega
      cases fuel with
      | zero => simp at hf
      | succ f =>
        have h1 : (cur ++ v :: w :: rest'').isEmpty = false := by simp
        have h2 : (cur ++ v :: w :: rest'').take k = cur := by rw [← heq]; simp
        have h3 : (cur ++ v :: w :: rest'').drop k = v :: w :: rest'' := by rw [← heq]; simp
        have ih' := ih w (i + 1) (result ++ [cur]) [v] f (by simp at hi ⊢; omega) (by simpa using hk)
          (by simp at hf ⊢; omega)
        rw [Impl.splitLoop]
        simp only [hlt', if_false, hnl]
        rw [ih']
        simp [Spec.chunks, h1, h2, h3]

theorem nodup_of_nodup_keys (m : List (κ × ν)) (h : (m.map (·.1)).Nodup) : m.Nodup := by
  induction m with
  | nil => simp
  | cons p t ih =>
    simp only [List.map_cons, List.nodup_cons] at h ⊢
    refine ⟨fun hp => h.1 (List.mem_map_of_mem hp), ih h.2⟩

/-- pigeonhole: a duplicate-free list contained in a list that is not longer covers it -/
theorem subset_of_nodup_subset_length [DecidableEq α] (a b : List α) (hn : a.Nodup) (hs : ∀ x ∈ a, x ∈ b)
    (hl : b.length ≤ a.length) : ∀ y ∈ b, y ∈ a := by
  induction a generalizing b with
  | nil =>
    have : b = [] := List.eq_nil_of_length_eq_zero (by simpa using hl)
    simp [this]
  | cons x t ih =>
    have hx : x ∈ b := hs x (by simp)
    have hn' := List.nodup_cons.mp hn
    have hsub : ∀ z ∈ t, z ∈ b.erase x := by
      intro z hz
      have hne : z ≠ x := fun e => hn'.1 (e ▸ hz)
      exact (List.mem_erase_of_ne hne).mpr (hs z (by simp [hz]))
    have hlen : (b.erase x).length ≤ t.length := by
      rw [List.length_erase_of_mem hx]; simp at hl; omega
    have := ih (b.erase x) hn'.2 hsub hlen
    intro y hy
    by_cases hyx : y = x
    · simp [hyx]
    · exact List.mem_cons_of_mem _ (this y ((List.mem_erase_of_ne hyx).mpr hy))

theorem findPair_eq [DecidableEq κ] [DecidableEq ν] (k : κ) (v : ν) (m : List (κ × ν)) :
    Impl.findPair k v m = decide ((k, v) ∈ m) := by
  induction m with
  | nil => simp [Impl.findPair]
  | cons p t ih =>
    obtain ⟨k2, v2⟩ := p
    by_cases h : k = k2 ∧ v = v2
    · simp [Impl.findPair, h]
    · have : ¬ ((k, v) = (k2, v2)) := fun e => h (by simpa using e)
      simp only [Impl.findPair, h, if_false, ih, List.mem_cons, this, false_or]

theorem isEqualMapLoop_eq [DecidableEq κ] [DecidableEq ν] (b a : List (κ × ν)) :
    Impl.isEqualMapLoop b a = decide (∀ p ∈ a, p ∈ b) := by
  induction a with
  | nil => simp [Impl.isEqualMapLoop]
  | cons p t ih =>
    obtain ⟨k, v⟩ := p
    by_cases h : (k, v) ∈ b
    · simp [Impl.isEqualMapLoop, findPair_eq, h, ih]
    · simp [Impl.isEqualMapLoop, findPair_eq, h]

theorem eraseRepsLoop_eq [DecidableEq α] (a : α) (as acc : List α) :
    List.eraseRepsBy.loop (fun x y => x == y) a as acc = acc.reverse ++ Spec.dedupe (a :: as) := by
  induction as generalizing a acc with
  | nil => simp [List.eraseRepsBy.loop, Spec.dedupe]
  | cons a' t ih =>
    by_cases h : a = a'
    · subst h
      simp [List.eraseRepsBy.loop, Spec.dedupe, ih]
    · have hb : (a == a') = false := by simp [h]
      simp [List.eraseRepsBy.loop, Spec.dedupe, ih, h, hb]

end FpgoVerif.C03
