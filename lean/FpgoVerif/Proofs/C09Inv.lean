import FpgoVerif.Model.C09Sys
/-! Helper lemmas and invariants for C09 (core-only). -/
namespace FpgoVerif.C09

/-- sum of a per-worker weight over the worker list -/
def wsum (f : WPc → Nat) : List WPc → Nat
  | [] => 0
  | w :: l => f w + wsum f l

theorem wsum_append (f : WPc → Nat) (l1 l2 : List WPc) : wsum f (l1 ++ l2) = wsum f l1 + wsum f l2 := by
  induction l1 with
  | nil => simp [wsum]
  | cons w l ih => simp [wsum, ih]; omega

theorem wsum_set (f : WPc → Nat) : ∀ (l : List WPc) (i : Nat) (w w' : WPc), l[i]? = some w →
    wsum f (l.set i w') + f w = wsum f l + f w' := by
  intro l
  induction l with
  | nil => intro i w w' h; simp at h
  | cons x l ih =>
    intro i w w' h
    cases i with
    | zero => simp at h; subst h; simp [wsum]; omega
    | succ i => simp at h; have := ih i w w' h; simp [wsum]; omega

theorem wsum_ge (f : WPc → Nat) {l : List WPc} {i : Nat} {w : WPc} (h : l[i]? = some w) : f w ≤ wsum f l := by
  induction l generalizing i with
  | nil => simp at h
  | cons x l ih =>
    cases i with
    | zero => simp at h; subst h; simp [wsum]
    | succ i => simp at h; have := ih h; simp [wsum]; omega

theorem wsum_set_eq (f : WPc → Nat) {l : List WPc} {i : Nat} {w : WPc} (w' : WPc) (h : l[i]? = some w) :
    wsum f (l.set i w') = wsum f l + f w' - f w := by
  have := wsum_set f l i w w' h
  omega

/-- the worker still counts in workerCount -/
def alive : WPc → Nat
  | .top | .sel | .got _ | .run _ | .aft _ | .pan _ _ | .exitDec _ => 1
  | _ => 0
/-- the worker still counts in workerBusy -/
def busyW : WPc → Nat
  | .run _ | .aft _ | .pan _ _ | .exitDec true => 1
  | _ => 0
/-- the worker is executing a job -/
def execW : WPc → Nat
  | .run _ => 1
  | _ => 0
def gotJ (j : Nat) : WPc → Nat
  | .got k => if k = j then 1 else 0
  | _ => 0
def runJ (j : Nat) : WPc → Nat
  | .run k => if k = j then 1 else 0
  | _ => 0
def panJV (jv : Nat × Nat) : WPc → Nat
  | .pan k u => if (k, u) = jv then 1 else 0
  | _ => 0

theorem execW_le_busyW (w : WPc) : execW w ≤ busyW w := by cases w <;> simp [execW, busyW]
theorem busyW_le_alive (w : WPc) : busyW w ≤ alive w := by
  cases w <;> simp [alive, busyW]
  case exitDec p => cases p <;> simp
theorem wsum_le (f g : WPc → Nat) (h : ∀ w, f w ≤ g w) (l : List WPc) : wsum f l ≤ wsum g l := by
  induction l with
  | nil => simp [wsum]
  | cons w l ih => have := h w; simp [wsum]; omega

/-! ### worker bookkeeping -/
structure InvW (c : Cfg) (s : St) : Prop where
  cnt : s.count = wsum alive s.workers
  bsy : s.busy = wsum busyW s.workers
  cap : s.count ≤ c.max

theorem genWorker_invW {c : Cfg} {s : St} (m : Nat) (h : InvW c s) : InvW c (genWorker c s m) := by
  unfold genWorker
  split
  · exact h
  · next hg =>
    obtain ⟨h1, h2, h3⟩ := h
    refine ⟨?_, ?_, ?_⟩
    · simp [wsum_append, wsum, alive, h1]
    · simp [wsum_append, wsum, busyW, h2]
    · simp at hg ⊢; omega

/-- split the `match`/`if` tower of a step function hypothesis, drop the disabled branches, and
    substitute the successor state in the enabled ones -/
macro "step_split" h:ident : tactic =>
  `(tactic| ((repeat' (split at $h:ident)) <;> (first | (simp at $h:ident; done) | (injection $h:ident with $h:ident; subst $h:ident))))

theorem stepW_invW {c : Cfg} {s t : St} {a : Act} (h : stepW c s a = some t) (hi : InvW c s) : InvW c t := by
  obtain ⟨h1, h2, h3⟩ := hi
  cases a <;> simp only [stepW] at h <;> step_split h
  all_goals (
    have hw := ‹s.workers[_]? = some _›
    have g1 := wsum_ge alive hw
    have g2 := wsum_ge busyW hw
    refine ⟨?_, ?_, ?_⟩ <;> simp only [setW, wsum_set_eq _ _ hw] <;> simp [alive, busyW] at * <;> omega)

theorem invW_congr {c : Cfg} {s s' : St} (hi : InvW c s) (h1 : s'.count = s.count) (h2 : s'.busy = s.busy)
    (h3 : s'.workers = s.workers) : InvW c s' :=
  ⟨by rw [h1, h3]; exact hi.cnt, by rw [h2, h3]; exact hi.bsy, by rw [h1]; exact hi.cap⟩

theorem stepPool_invW {c : Cfg} {s t : St} {a : Act} (h : stepPool c s a = some t) (hi : InvW c s) : InvW c t := by
  cases a <;> simp only [stepPool] at h <;> step_split h
  all_goals first
    | exact invW_congr hi rfl rfl rfl
    | exact genWorker_invW _ hi
    | exact invW_congr (genWorker_invW _ hi) rfl rfl rfl

theorem afterSchedule_frame (s : St) (i : Nat) (sb : Sub) (r : Res) :
    (afterSchedule s i sb r).count = s.count ∧ (afterSchedule s i sb r).busy = s.busy ∧
    (afterSchedule s i sb r).workers = s.workers ∧ (afterSchedule s i sb r).queue = s.queue ∧
    (afterSchedule s i sb r).accepted = s.accepted ∧ (afterSchedule s i sb r).started = s.started ∧
    (afterSchedule s i sb r).finished = s.finished ∧ (afterSchedule s i sb r).dropped = s.dropped ∧
    (afterSchedule s i sb r).panicLog = s.panicLog ∧ (afterSchedule s i sb r).handlerLog = s.handlerLog ∧
    (afterSchedule s i sb r).closed = s.closed ∧ (afterSchedule s i sb r).token = s.token ∧
    (afterSchedule s i sb r).sp = s.sp ∧ (afterSchedule s i sb r).qclosed = s.qclosed := by
  unfold afterSchedule; repeat' split
  all_goals simp [setS]

theorem stepSub_invW {c : Cfg} {s t : St} {a : Act} (h : stepSub c s a = some t) (hi : InvW c s) : InvW c t := by
  cases a <;> simp only [stepSub] at h <;> step_split h
  all_goals first
    | exact invW_congr hi rfl rfl rfl
    | (have hf := afterSchedule_frame { s with token := true } ‹Nat› ‹Sub› ‹Res›
       exact invW_congr hi hf.1 hf.2.1 hf.2.2.1)

theorem step_invW {c : Cfg} {s t : St} {a : Act} (h : step c s a = some t) (hi : InvW c s) : InvW c t := by
  cases a <;> simp only [step] at h <;>
    first | exact stepSub_invW h hi | exact stepPool_invW h hi | exact stepW_invW h hi

/-! ### job conservation -/
structure InvJ (s : St) : Prop where
  acc : ∀ j, s.accepted.count j =
    s.queue.count j + s.dropped.count j + wsum (gotJ j) s.workers + s.started.count j
  sta : ∀ j, s.started.count j = wsum (runJ j) s.workers + s.finished.count j

theorem invJ_congr {s s' : St} (hi : InvJ s) (h1 : s'.accepted = s.accepted) (h2 : s'.queue = s.queue)
    (h3 : s'.dropped = s.dropped) (h4 : s'.workers = s.workers) (h5 : s'.started = s.started)
    (h6 : s'.finished = s.finished) : InvJ s' :=
  ⟨by rw [h1, h2, h3, h4, h5]; exact hi.acc, by rw [h4, h5, h6]; exact hi.sta⟩

theorem genWorker_invJ {c : Cfg} {s : St} (m : Nat) (h : InvJ s) : InvJ (genWorker c s m) := by
  unfold genWorker
  split
  · exact h
  · refine ⟨?_, ?_⟩ <;> intro j
    · have := h.acc j; simp [wsum_append, wsum, gotJ]; omega
    · have := h.sta j; simp [wsum_append, wsum, runJ]; omega

theorem stepW_invJ {c : Cfg} {s t : St} {a : Act} (h : stepW c s a = some t) (hi : InvJ s) : InvJ t := by
  cases a <;> simp only [stepW] at h <;> step_split h
  all_goals (
    have hw := ‹s.workers[_]? = some _›
    refine ⟨?_, ?_⟩ <;> intro j <;>
    (have a1 := hi.acc j
     have a2 := hi.sta j
     have g1 := wsum_ge (gotJ j) hw
     have g2 := wsum_ge (runJ j) hw
     simp only [setW, wsum_set_eq _ _ hw]
     simp [gotJ, runJ, List.count_cons, *] at *
     try (split <;> simp_all <;> omega)))

theorem count_take_drop (l : List Nat) (k j : Nat) : (l.take k).count j + (l.drop k).count j = l.count j := by
  rw [← List.count_append, List.take_append_drop]

theorem stepPool_invJ {c : Cfg} {s t : St} {a : Act} (h : stepPool c s a = some t) (hi : InvJ s) : InvJ t := by
  cases a <;> simp only [stepPool] at h
  case closeQueue keep =>
    step_split h
    · refine ⟨?_, hi.sta⟩; intro j; have := hi.acc j; have := count_take_drop s.queue keep j
      simp [List.count_append]; omega
    · exact invJ_congr hi rfl rfl rfl rfl rfl rfl
  all_goals step_split h
  all_goals first
    | exact invJ_congr hi rfl rfl rfl rfl rfl rfl
    | exact genWorker_invJ _ hi
    | exact invJ_congr (genWorker_invJ _ hi) rfl rfl rfl rfl rfl rfl

theorem stepSub_invJ {c : Cfg} {s t : St} {a : Act} (h : stepSub c s a = some t) (hi : InvJ s) : InvJ t := by
  cases a <;> simp only [stepSub] at h <;> step_split h
  all_goals first
    | exact invJ_congr hi rfl rfl rfl rfl rfl rfl
    | (have hf := afterSchedule_frame { s with token := true } ‹Nat› ‹Sub› ‹Res›
       exact invJ_congr hi hf.2.2.2.2.1 hf.2.2.2.1 hf.2.2.2.2.2.2.2.1 hf.2.2.1 hf.2.2.2.2.2.1 hf.2.2.2.2.2.2.1)
    | (refine ⟨?_, hi.sta⟩; intro j; have := hi.acc j
       simp [setS, List.count_append, List.count_cons]; omega)

theorem step_invJ {c : Cfg} {s t : St} {a : Act} (h : step c s a = some t) (hi : InvJ s) : InvJ t := by
  cases a <;> simp only [step] at h <;>
    first | exact stepSub_invJ h hi | exact stepPool_invJ h hi | exact stepW_invJ h hi

/-! ### submission bookkeeping -/
def isAcc : SPc → Bool
  | .token .ok | .fin .ok => true
  | _ => false
def isRej : SPc → Bool
  | .fin .ok => false
  | .fin _ => true
  | _ => false
def accOf (subs : List Sub) (j : Nat) : Nat :=
  match subs[j]? with
  | some sb => if isAcc sb.pc then 1 else 0
  | none => 0

structure InvS (s : St) : Prop where
  acc : ∀ j, s.accepted.count j = accOf s.subs j
  rej : ∀ j, j ∈ s.rejected → ∃ sb, s.subs[j]? = some sb ∧ isRej sb.pc = true
  tim : ∀ (i : Nat) (sb : Sub), s.subs[i]? = some sb → (sb.pc = .lcheck ∨ sb.pc = .dcheck ∨ sb.pc = .fin .timeout) → sb.timed = true
  tmo : ∀ (i : Nat) (sb : Sub), s.subs[i]? = some sb → sb.pc = .fin .timeout → sb.dl = true
  ful : ∀ (i : Nat) (sb : Sub), s.subs[i]? = some sb → sb.pc = .fin .full → sb.timed = false
  tok : ∀ (i : Nat) (sb : Sub), s.subs[i]? = some sb → sb.pc ≠ .token .timeout

theorem invS_congr {s s' : St} (hi : InvS s) (h1 : s'.accepted = s.accepted) (h2 : s'.rejected = s.rejected)
    (h3 : s'.subs = s.subs) : InvS s' :=
  ⟨by rw [h1, h3]; exact hi.acc, by rw [h2, h3]; exact hi.rej, by rw [h3]; exact hi.tim,
   by rw [h3]; exact hi.tmo, by rw [h3]; exact hi.ful, by rw [h3]; exact hi.tok⟩

theorem genWorker_frameS (c : Cfg) (s : St) (m : Nat) : (genWorker c s m).accepted = s.accepted ∧
    (genWorker c s m).rejected = s.rejected ∧ (genWorker c s m).subs = s.subs ∧
    (genWorker c s m).panicLog = s.panicLog ∧ (genWorker c s m).handlerLog = s.handlerLog ∧
    (genWorker c s m).finished = s.finished ∧ (genWorker c s m).closed = s.closed := by
  unfold genWorker; split <;> simp

theorem stepW_invS {c : Cfg} {s t : St} {a : Act} (h : stepW c s a = some t) (hi : InvS s) : InvS t := by
  cases a <;> simp only [stepW] at h <;> step_split h
  all_goals exact invS_congr hi rfl rfl rfl

theorem stepPool_invS {c : Cfg} {s t : St} {a : Act} (h : stepPool c s a = some t) (hi : InvS s) : InvS t := by
  cases a <;> simp only [stepPool] at h <;> step_split h
  all_goals first
    | exact invS_congr hi rfl rfl rfl
    | exact invS_congr hi (genWorker_frameS _ _ _).1 (genWorker_frameS _ _ _).2.1 (genWorker_frameS _ _ _).2.2.1

theorem getElem?_set_of {l : List Sub} {i : Nat} {sb : Sub} (sb' : Sub) (h : l[i]? = some sb) (j : Nat) :
    (l.set i sb')[j]? = if i = j then some sb' else l[j]? := by
  have hlt : i < l.length := by
    apply Classical.byContradiction; intro hn
    rw [List.getElem?_eq_none (by omega)] at h; cases h
  rw [List.getElem?_set]; simp [hlt]

theorem accOf_append_new (l : List Sub) (sb : Sub) (h : isAcc sb.pc = false) (j : Nat) :
    accOf (l ++ [sb]) j = accOf l j := by
  unfold accOf
  by_cases hlt : j < l.length
  · simp [List.getElem?_append, hlt]
  · have hn : l[j]? = none := List.getElem?_eq_none (by omega)
    rw [hn, List.getElem?_append]
    simp only [hlt, if_false]
    cases hk : j - l.length with
    | zero => simp [h]
    | succ k => simp

theorem getElem?_append_new {l : List Sub} {sb sb' : Sub} {j : Nat} (h : (l ++ [sb])[j]? = some sb') :
    l[j]? = some sb' ∨ sb' = sb := by
  rw [List.getElem?_append] at h
  split at h
  · exact Or.inl h
  · cases hk : j - l.length with
    | zero => rw [hk] at h; simp at h; exact Or.inr h.symm
    | succ k => rw [hk] at h; simp at h

theorem invS_set {s s' : St} {i : Nat} {sb sb' : Sub} (hi : InvS s) (hs : s.subs[i]? = some sb)
    (hsubs : s'.subs = s.subs.set i sb')
    (hacc : (s'.accepted = s.accepted ∧ isAcc sb'.pc = isAcc sb.pc) ∨
            (s'.accepted = i :: s.accepted ∧ isAcc sb.pc = false ∧ isAcc sb'.pc = true))
    (hrej : (s'.rejected = s.rejected ∧ (isRej sb.pc = true → isRej sb'.pc = true)) ∨
            (s'.rejected = i :: s.rejected ∧ isRej sb'.pc = true))
    (htim : (sb'.pc = .lcheck ∨ sb'.pc = .dcheck ∨ sb'.pc = .fin .timeout) → sb'.timed = true)
    (htmo : sb'.pc = .fin .timeout → sb'.dl = true)
    (hful : sb'.pc = .fin .full → sb'.timed = false)
    (htok : sb'.pc ≠ .token .timeout) : InvS s' := by
  refine ⟨?_, ?_, ?_, ?_, ?_, ?_⟩
  · intro j
    have := hi.acc j
    unfold accOf at *
    rw [hsubs, getElem?_set_of _ hs]
    by_cases hij : i = j
    · subst hij
      rw [hs] at this
      rcases hacc with ⟨h1, h2⟩ | ⟨h1, h2, h3⟩
      · simp [h1, h2, this]
      · simp [h1, h2, h3] at this ⊢; exact this
    · rcases hacc with ⟨h1, h2⟩ | ⟨h1, h2, h3⟩
      · simp [h1, hij, this]
      · simp [h1, hij, this]
  · intro j hj
    rw [hsubs, getElem?_set_of _ hs]
    by_cases hij : i = j
    · subst hij
      refine ⟨sb', by simp, ?_⟩
      rcases hrej with ⟨h1, h2⟩ | ⟨h1, h2⟩
      · rw [h1] at hj
        obtain ⟨sb0, h3, h4⟩ := hi.rej i hj
        rw [hs] at h3; cases h3; exact h2 h4
      · exact h2
    · simp only [hij, if_false]
      rcases hrej with ⟨h1, h2⟩ | ⟨h1, h2⟩
      · rw [h1] at hj; exact hi.rej j hj
      · rw [h1] at hj; simp at hj
        rcases hj with hj | hj
        · exact absurd hj.symm hij
        · exact hi.rej j hj
  · intro k sbk hk hpc
    rw [hsubs, getElem?_set_of _ hs] at hk
    by_cases hij : i = k
    · simp [hij] at hk; subst hk; exact htim hpc
    · simp [hij] at hk; exact hi.tim k sbk hk hpc
  · intro k sbk hk hpc
    rw [hsubs, getElem?_set_of _ hs] at hk
    by_cases hij : i = k
    · simp [hij] at hk; subst hk; exact htmo hpc
    · simp [hij] at hk; exact hi.tmo k sbk hk hpc
  · intro k sbk hk hpc
    rw [hsubs, getElem?_set_of _ hs] at hk
    by_cases hij : i = k
    · simp [hij] at hk; subst hk; exact hful hpc
    · simp [hij] at hk; exact hi.ful k sbk hk hpc
  · intro k sbk hk
    rw [hsubs, getElem?_set_of _ hs] at hk
    by_cases hij : i = k
    · simp [hij] at hk; subst hk; exact htok
    · simp [hij] at hk; exact hi.tok k sbk hk

macro "sub_close" i:ident : tactic =>
  `(tactic| (
    have hs := ‹_[$i:ident]? = some _›
    have t1 := InvS.tim ‹_› _ _ hs
    have t2 := InvS.tmo ‹_› _ _ hs
    have t3 := InvS.ful ‹_› _ _ hs
    have t4 := InvS.tok ‹_› _ _ hs
    refine invS_set ‹_› hs rfl ?_ ?_ ?_ ?_ ?_ ?_ <;> simp_all [isAcc, isRej, setS]))

theorem stepSub_invS {c : Cfg} {s t : St} {a : Act} (h : stepSub c s a = some t) (hi : InvS s) : InvS t := by
  cases a <;> simp only [stepSub, afterSchedule] at h
  case submit timed =>
    injection h with h; subst h
    refine ⟨?_, ?_, ?_, ?_, ?_, ?_⟩
    · intro j; rw [accOf_append_new _ _ (by simp [isAcc])]; exact hi.acc j
    · intro j hj
      obtain ⟨sb, h1, h2⟩ := hi.rej j hj
      refine ⟨sb, ?_, h2⟩
      have hlt : j < s.subs.length := by
        apply Classical.byContradiction; intro hn
        rw [List.getElem?_eq_none (by omega)] at h1; cases h1
      rw [List.getElem?_append]; simp only [hlt, if_true]; exact h1
    · intro i sb hsb hpc
      rcases getElem?_append_new hsb with h1 | h1
      · exact hi.tim i sb h1 hpc
      · subst h1; simp at hpc
    · intro i sb hsb hpc
      rcases getElem?_append_new hsb with h1 | h1
      · exact hi.tmo i sb h1 hpc
      · subst h1; simp at hpc
    · intro i sb hsb hpc
      rcases getElem?_append_new hsb with h1 | h1
      · exact hi.ful i sb h1 hpc
      · subst h1; simp at hpc
    · intro i sb hsb
      rcases getElem?_append_new hsb with h1 | h1
      · exact hi.tok i sb h1
      · subst h1; simp
  case sCheck i => step_split h <;> sub_close i
  case sOffer i full => step_split h <;> sub_close i
  case sToken i => step_split h <;> sub_close i
  case sLoopCheck i => step_split h <;> sub_close i
  case sDeadline i => step_split h <;> sub_close i
  case deadline i => step_split h <;> sub_close i
  all_goals simp at h

theorem step_invS {c : Cfg} {s t : St} {a : Act} (h : step c s a = some t) (hi : InvS s) : InvS t := by
  cases a <;> simp only [step] at h <;>
    first | exact stepSub_invS h hi | exact stepPool_invS h hi | exact stepW_invS h hi

/-! ### panic reporting -/
structure InvP (s : St) : Prop where
  han : ∀ jv, s.panicLog.count jv = wsum (panJV jv) s.workers + s.handlerLog.count jv + s.unreported.count jv
  pan : ∀ j, (s.panicLog.map Prod.fst).count j ≤ s.finished.count j

theorem invP_congr {s s' : St} (hi : InvP s) (h1 : s'.panicLog = s.panicLog) (h2 : s'.handlerLog = s.handlerLog)
    (h3 : s'.workers = s.workers) (h4 : s'.finished = s.finished) (h5 : s'.unreported = s.unreported := by rfl) : InvP s' :=
  ⟨by rw [h1, h2, h3, h5]; exact hi.han, by rw [h1, h4]; exact hi.pan⟩

theorem genWorker_invP {c : Cfg} {s : St} (m : Nat) (h : InvP s) : InvP (genWorker c s m) := by
  unfold genWorker
  split
  · exact h
  · refine ⟨?_, h.pan⟩; intro jv
    have := h.han jv; simp [wsum_append, wsum, panJV]; omega

theorem stepW_invP {c : Cfg} {s t : St} {a : Act} (h : stepW c s a = some t) (hi : InvP s) : InvP t := by
  cases a <;> simp only [stepW] at h <;> step_split h
  all_goals (
    have hw := ‹s.workers[_]? = some _›
    refine ⟨?_, ?_⟩
    · intro jv
      have a1 := hi.han jv
      have g1 := wsum_ge (panJV jv) hw
      simp only [setW, wsum_set_eq _ _ hw]
      simp [panJV, List.count_cons, *] at *
      try (split <;> simp_all <;> omega)
    · intro j
      have a2 := hi.pan j
      simp only [setW]
      simp [List.count_cons, *] at *
      try (split <;> simp_all <;> omega))

theorem stepPool_invP {c : Cfg} {s t : St} {a : Act} (h : stepPool c s a = some t) (hi : InvP s) : InvP t := by
  cases a <;> simp only [stepPool] at h <;> step_split h
  all_goals first
    | exact invP_congr hi rfl rfl rfl rfl
    | exact genWorker_invP _ hi
    | exact invP_congr (genWorker_invP _ hi) rfl rfl rfl rfl

theorem stepSub_invP {c : Cfg} {s t : St} {a : Act} (h : stepSub c s a = some t) (hi : InvP s) : InvP t := by
  cases a <;> simp only [stepSub, afterSchedule] at h <;> step_split h
  all_goals exact invP_congr hi rfl rfl rfl rfl

theorem step_invP {c : Cfg} {s t : St} {a : Act} (h : step c s a = some t) (hi : InvP s) : InvP t := by
  cases a <;> simp only [step] at h <;>
    first | exact stepSub_invP h hi | exact stepPool_invP h hi | exact stepW_invP h hi

end FpgoVerif.C09
