import FpgoVerif.Proofs.C02Int
/-! C02 — float → integer cells: rounding lemmas (half away from zero), the shape of decoded IEEE values,
    guard normalisation for a float variable, and the soundness of the reflective checker. -/
namespace FpgoVerif.C02

/-! ### rounding half away from zero -/

theorem pow2_pos (k : Nat) : (0 : Int) < 2 ^ k := Int.pow_pos (by decide)
theorem pow2_posN (k : Nat) : 0 < 2 ^ k := Nat.two_pow_pos k

/-- `c · 2^k ≤ m` (i.e. `c ≤ m/2^k`) implies `c ≤ round(m/2^k)`, for naturals -/
theorem rhaNat_ge (m k c : Nat) (h : c * 2 ^ k ≤ m) : c ≤ rhaNat m k := by
  unfold rhaNat
  have := pow2_posN k
  apply (Nat.le_div_iff_mul_le (pow2_posN k)).mpr
  omega

/-- `m ≤ c · 2^k` implies `round(m/2^k) ≤ c` -/
theorem rhaNat_le (m k c : Nat) (h : m ≤ c * 2 ^ k) : rhaNat m k ≤ c := by
  unfold rhaNat
  have hp := pow2_posN k
  have : (m + 2 ^ k / 2) / 2 ^ k < c + 1 := by
    apply (Nat.div_lt_iff_lt_mul hp).mpr
    have : (c + 1) * 2 ^ k = c * 2 ^ k + 2 ^ k := by rw [Nat.add_mul]; simp
    omega
  omega

theorem rhaNat_le_self (m k : Nat) : rhaNat m k ≤ m := by
  apply rhaNat_le
  have := pow2_posN k
  calc m = m * 1 := by simp
    _ ≤ m * 2 ^ k := Nat.mul_le_mul_left m this

theorem natCast_pow2 (k : Nat) : ((2 ^ k : Nat) : Int) = (2 : Int) ^ k := by simp

/-- lower bound: `c · 2^k ≤ ±m` implies `c ≤ roundHalfAway` -/
theorem rha_ge (s : Bool) (m k : Nat) (c : Int) (h : c * 2 ^ k ≤ sgn s m) : c ≤ roundHalfAway s m k := by
  unfold roundHalfAway
  have hp := pow2_pos k
  cases s with
  | false =>
    simp only [sgn] at h ⊢
    by_cases hc : c ≤ 0
    · have : (0 : Int) ≤ (rhaNat m k : Int) := Int.natCast_nonneg _
      simp; omega
    · have hc' : 0 ≤ c := by omega
      obtain ⟨cn, rfl⟩ := Int.eq_ofNat_of_zero_le hc'
      have : cn * 2 ^ k ≤ m := by
        have h2 : ((cn * 2 ^ k : Nat) : Int) ≤ (m : Int) := by simpa using h
        exact Int.ofNat_le.mp h2
      have := rhaNat_ge m k cn this
      simp; omega
  | true =>
    simp only [sgn] at h ⊢
    by_cases hc : 0 < c
    · have h0 : 0 < c * 2 ^ k := Int.mul_pos hc hp
      have : (0 : Int) ≤ (m : Int) := Int.natCast_nonneg _
      simp at h; omega
    · obtain ⟨cn, hcn⟩ := Int.eq_ofNat_of_zero_le (by omega : 0 ≤ -c)
      have hceq : c = -(cn : Int) := by omega
      subst hceq
      have : m ≤ cn * 2 ^ k := by
        have h2 : (m : Int) ≤ ((cn * 2 ^ k : Nat) : Int) := by
          simp at h ⊢
          have : -(cn : Int) * 2 ^ k = -((cn : Int) * 2 ^ k) := Int.neg_mul _ _
          omega
        exact Int.ofNat_le.mp h2
      have := rhaNat_le m k cn this
      simp; omega

/-- upper bound: `±m ≤ c · 2^k` implies `roundHalfAway ≤ c` -/
theorem rha_le (s : Bool) (m k : Nat) (c : Int) (h : sgn s m ≤ c * 2 ^ k) : roundHalfAway s m k ≤ c := by
  unfold roundHalfAway
  have hp := pow2_pos k
  cases s with
  | true =>
    simp only [sgn] at h ⊢
    by_cases hc : 0 ≤ c
    · have : (0 : Int) ≤ (rhaNat m k : Int) := Int.natCast_nonneg _
      simp; omega
    · obtain ⟨cn, hcn⟩ := Int.eq_ofNat_of_zero_le (by omega : 0 ≤ -c)
      have hceq : c = -(cn : Int) := by omega
      subst hceq
      have : cn * 2 ^ k ≤ m := by
        have h2 : ((cn * 2 ^ k : Nat) : Int) ≤ (m : Int) := by
          simp at h ⊢
          have : -(cn : Int) * 2 ^ k = -((cn : Int) * 2 ^ k) := Int.neg_mul _ _
          omega
        exact Int.ofNat_le.mp h2
      have := rhaNat_ge m k cn this
      simp; omega
  | false =>
    simp only [sgn] at h ⊢
    by_cases hc : c < 0
    · have h0 : c * 2 ^ k < 0 := Int.mul_neg_of_neg_of_pos hc hp
      have : (0 : Int) ≤ (m : Int) := Int.natCast_nonneg _
      simp at h; omega
    · obtain ⟨cn, rfl⟩ := Int.eq_ofNat_of_zero_le (by omega : 0 ≤ c)
      have : m ≤ cn * 2 ^ k := by
        have h2 : (m : Int) ≤ ((cn * 2 ^ k : Nat) : Int) := by simpa using h
        exact Int.ofNat_le.mp h2
      have := rhaNat_le m k cn this
      simp; omega

/-! ### decoded IEEE values -/

/-- every decoded finite value of a `p`-bit format is an integer (`k = 0`) or has a numerator below `2^p` -/
def FVal.wf (p : Nat) : FVal → Prop
  | .fin _ m k => k = 0 ∨ m < 2 ^ p
  | _ => True

theorem decode_wf (f : Fmt) (hp : 1 ≤ f.p) (bits : Nat) : (decode f bits).wf f.p := by
  unfold decode
  simp only
  split
  · split <;> simp [FVal.wf]
  · have hman : bits % 2 ^ (f.p - 1) < 2 ^ (f.p - 1) := Nat.mod_lt _ (pow2_posN _)
    have hpow : 2 ^ f.p = 2 ^ (f.p - 1) + 2 ^ (f.p - 1) := by
      have : f.p = (f.p - 1) + 1 := by omega
      rw [this, Nat.pow_succ]; simp; omega
    by_cases hz : bits / 2 ^ (f.p - 1) % 2 ^ f.ebits = 0
    · simp only [hz, if_true]
      split
      · simp [FVal.wf]
      · simp only [FVal.wf]; right; omega
    · simp only [hz, if_false]
      split
      · simp [FVal.wf]
      · simp only [FVal.wf]; right; omega

/-- strict upper bound: a decoded value below `U ≥ 2^p` rounds to at most `U - 1` -/
theorem rha_lt (p : Nat) (s : Bool) (m k : Nat) (U : Int) (hw : (FVal.fin s m k).wf p) (hU : (2 : Int) ^ p ≤ U)
    (h : sgn s m < U * 2 ^ k) : roundHalfAway s m k ≤ U - 1 := by
  have hp := pow2_pos k
  have hU0 : 0 < U := Int.lt_of_lt_of_le (pow2_pos p) hU
  cases s with
  | true =>
    unfold roundHalfAway
    have : (0 : Int) ≤ (rhaNat m k : Int) := Int.natCast_nonneg _
    simp [sgn]; omega
  | false =>
    rcases hw with rfl | hm
    · apply rha_le
      simp [sgn] at h ⊢
      omega
    · unfold roundHalfAway
      have h1 := rhaNat_le_self m k
      have h2 : (m : Int) < 2 ^ p := by
        have : ((m : Nat) : Int) < ((2 ^ p : Nat) : Int) := Int.ofNat_lt.mpr hm
        simpa using this
      simp [sgn]; omega

end FpgoVerif.C02

namespace FpgoVerif.C02

/-! ### guards over a float variable -/

/-- a float source value as a Go value of type float32 (`is32`) or float64 -/
def mkF (is32 : Bool) (x : FVal) : Val := if is32 then .f32 x else .f64 x

/-- the operand of a guard atom: the variable itself (compared in its own format) or `float64(v)` -/
def atomFmt (is32 : Bool) : E → Option Fmt
  | .v => some (if is32 then f32 else f64)
  | .cast .float64 .v => some f64
  | _ => none

/-- the integer an integer constant becomes when Go converts it to format `f` (`none` if not an integer) -/
def litInt (f : Fmt) (c : Int) : Option Int :=
  match ofInt f c with
  | .fin s m 0 => some (sgn s m)
  | _ => none

/-- normal form of a float guard: an inclusive lower bound, an upper bound (strict or not) -/
structure FB where
  lb : Option Int
  ub : Option (Int × Bool)
deriving DecidableEq, Repr

def fltBounds (is32 : Bool) : C → Option FB
  | .ge a (.lit c) => match atomFmt is32 a with
    | some f => match litInt f c with
      | some L => some ⟨some L, none⟩
      | none => none
    | none => none
  | .le a (.lit c) => match atomFmt is32 a with
    | some f => match litInt f c with
      | some U => some ⟨none, some (U, false)⟩
      | none => none
    | none => none
  | .lt a (.lit c) => match atomFmt is32 a with
    | some f => match litInt f c with
      | some U => some ⟨none, some (U, true)⟩
      | none => none
    | none => none
  | .and a b => match fltBounds is32 a, fltBounds is32 b with
    | some ⟨some L, none⟩, some ⟨none, some u⟩ => some ⟨some L, some u⟩
    | _, _ => none
  | _ => none

def passL (lb : Option Int) (s : Bool) (m k : Nat) : Bool :=
  match lb with
  | none => true
  | some L => decide (L * 2 ^ k ≤ sgn s m)

def passU (ub : Option (Int × Bool)) (s : Bool) (m k : Nat) : Bool :=
  match ub with
  | none => true
  | some (U, false) => decide (sgn s m ≤ U * 2 ^ k)
  | some (U, true) => decide (sgn s m < U * 2 ^ k)

theorem litInt_some {f : Fmt} {c L : Int} (h : litInt f c = some L) : ∃ cs cm, ofInt f c = .fin cs cm 0 ∧ L = sgn cs cm := by
  unfold litInt at h
  split at h
  · rename_i s m heq
    exact ⟨s, m, heq, by simpa using h.symm⟩
  · cases h

theorem atom_eval {is32 : Bool} {a : E} {f : Fmt} (x : FVal) (h : atomFmt is32 a = some f) :
    (evalE (mkF is32 x) a = .f32 x ∧ f = f32) ∨ (evalE (mkF is32 x) a = .f64 x ∧ f = f64) := by
  match a, h with
  | .v, h =>
    cases is32 <;> simp [atomFmt] at h <;> simp [evalE, mkF, h.symm]
  | .cast .float64 .v, h =>
    simp [atomFmt] at h
    subst h
    cases is32 <;> simp [evalE, mkF, castTo, Ty.range]

/-- value of an atom `a ⋈ c`: the constant is converted to the operand's format, then compared -/
theorem atom_cmp {is32 : Bool} {a : E} {f : Fmt} (c : Int) (x : FVal) (hf : atomFmt is32 a = some f) :
    evalC (mkF is32 x) (.ge a (.lit c)) = some ((ofInt f c).le x) ∧
    evalC (mkF is32 x) (.le a (.lit c)) = some (x.le (ofInt f c)) ∧
    evalC (mkF is32 x) (.lt a (.lit c)) = some (x.lt (ofInt f c)) := by
  rcases atom_eval x hf with ⟨he, rfl⟩ | ⟨he, rfl⟩ <;> simp [evalC, he, evalE, cmpV]

theorem atom_fin {is32 : Bool} {a : E} {f : Fmt} {c L : Int} (s : Bool) (m k : Nat)
    (hf : atomFmt is32 a = some f) (hl : litInt f c = some L) :
    evalC (mkF is32 (.fin s m k)) (.ge a (.lit c)) = some (decide (L * 2 ^ k ≤ sgn s m)) ∧
    evalC (mkF is32 (.fin s m k)) (.le a (.lit c)) = some (decide (sgn s m ≤ L * 2 ^ k)) ∧
    evalC (mkF is32 (.fin s m k)) (.lt a (.lit c)) = some (decide (sgn s m < L * 2 ^ k)) := by
  obtain ⟨cs, cm, hc, rfl⟩ := litInt_some hl
  obtain ⟨h1, h2, h3⟩ := atom_cmp c (.fin s m k) hf
  simp [h1, h2, h3, hc, FVal.le, FVal.lt]

/-- a lower-bound atom rejects NaN and -Inf, an upper-bound atom rejects NaN and +Inf -/
theorem atom_special {is32 : Bool} {a : E} {f : Fmt} {c L : Int}
    (hf : atomFmt is32 a = some f) (hl : litInt f c = some L) :
    evalC (mkF is32 .nan) (.ge a (.lit c)) = some false ∧
    evalC (mkF is32 (.inf true)) (.ge a (.lit c)) = some false ∧
    evalC (mkF is32 (.inf false)) (.ge a (.lit c)) = some true ∧
    evalC (mkF is32 (.inf false)) (.le a (.lit c)) = some false ∧
    evalC (mkF is32 (.inf false)) (.lt a (.lit c)) = some false := by
  obtain ⟨cs, cm, hc, rfl⟩ := litInt_some hl
  obtain ⟨h1, _, _⟩ := atom_cmp c .nan hf
  obtain ⟨h4, _, _⟩ := atom_cmp c (.inf true) hf
  obtain ⟨h5, h6, h7⟩ := atom_cmp c (.inf false) hf
  simp [h1, h4, h5, h6, h7, hc, FVal.le, FVal.lt]

/-- the guards of the fragment are `lower-atom && upper-atom` -/
theorem fltBounds_shape {is32 : Bool} {g : C} {b : FB} (h : fltBounds is32 g = some b) :
    (∃ a c f L, g = .ge a (.lit c) ∧ atomFmt is32 a = some f ∧ litInt f c = some L ∧ b = ⟨some L, none⟩) ∨
    (∃ a c f U, g = .le a (.lit c) ∧ atomFmt is32 a = some f ∧ litInt f c = some U ∧ b = ⟨none, some (U, false)⟩) ∨
    (∃ a c f U, g = .lt a (.lit c) ∧ atomFmt is32 a = some f ∧ litInt f c = some U ∧ b = ⟨none, some (U, true)⟩) ∨
    (∃ g1 g2 L u, g = .and g1 g2 ∧ fltBounds is32 g1 = some ⟨some L, none⟩ ∧ fltBounds is32 g2 = some ⟨none, some u⟩ ∧
        b = ⟨some L, some u⟩) := by
  match g, h with
  | .ge a (.lit c), h =>
    left
    simp only [fltBounds] at h
    cases hf : atomFmt is32 a with
    | none => simp [hf] at h
    | some f =>
      cases hl : litInt f c with
      | none => simp [hf, hl] at h
      | some L => simp [hf, hl] at h; exact ⟨a, c, f, L, rfl, hf, hl, h.symm⟩
  | .le a (.lit c), h =>
    right; left
    simp only [fltBounds] at h
    cases hf : atomFmt is32 a with
    | none => simp [hf] at h
    | some f =>
      cases hl : litInt f c with
      | none => simp [hf, hl] at h
      | some L => simp [hf, hl] at h; exact ⟨a, c, f, L, rfl, hf, hl, h.symm⟩
  | .lt a (.lit c), h =>
    right; right; left
    simp only [fltBounds] at h
    cases hf : atomFmt is32 a with
    | none => simp [hf] at h
    | some f =>
      cases hl : litInt f c with
      | none => simp [hf, hl] at h
      | some L => simp [hf, hl] at h; exact ⟨a, c, f, L, rfl, hf, hl, h.symm⟩
  | .and g1 g2, h =>
    right; right; right
    simp only [fltBounds] at h
    split at h
    · rename_i L u h1 h2
      exact ⟨g1, g2, L, u, rfl, h1, h2, by simpa using h.symm⟩
    · cases h

end FpgoVerif.C02

namespace FpgoVerif.C02

theorem evalC_and (x : Val) (c d : C) :
    evalC x (.and c d) = (match evalC x c with | some true => evalC x d | r => r) := rfl

/-- evaluation of a two-sided float guard on every kind of float value -/
theorem guard_eval {is32 : Bool} {g : C} {L U : Int} {strict : Bool}
    (h : fltBounds is32 g = some ⟨some L, some (U, strict)⟩) :
    (∀ s m k, evalC (mkF is32 (.fin s m k)) g =
        some (decide (L * 2 ^ k ≤ sgn s m) &&
          (if strict then decide (sgn s m < U * 2 ^ k) else decide (sgn s m ≤ U * 2 ^ k)))) ∧
    evalC (mkF is32 .nan) g = some false ∧
    (∀ t, evalC (mkF is32 (.inf t)) g = some false) := by
  rcases fltBounds_shape h with ⟨_, _, _, _, _, _, _, hb⟩ | ⟨_, _, _, _, _, _, _, hb⟩ | ⟨_, _, _, _, _, _, _, hb⟩ |
      ⟨g1, g2, L', u, rfl, h1, h2, hb⟩
  · simp [FB.mk.injEq] at hb
  · simp [FB.mk.injEq] at hb
  · simp [FB.mk.injEq] at hb
  · simp only [FB.mk.injEq, Option.some.injEq] at hb
    obtain ⟨rfl, rfl⟩ := hb
    -- the lower atom
    rcases fltBounds_shape h1 with ⟨a1, c1, f1, L1, rfl, hf1, hl1, hb1⟩ | ⟨_, _, _, _, _, _, _, hb1⟩ |
        ⟨_, _, _, _, _, _, _, hb1⟩ | ⟨_, _, _, _, _, _, _, hb1⟩
    rotate_left
    · simp [FB.mk.injEq] at hb1
    · simp [FB.mk.injEq] at hb1
    · simp [FB.mk.injEq] at hb1
    simp only [FB.mk.injEq, Option.some.injEq, and_true] at hb1
    subst hb1
    obtain ⟨sn, sm, sp, _, _⟩ := atom_special hf1 hl1
    -- the upper atom
    rcases fltBounds_shape h2 with ⟨_, _, _, _, _, _, _, hb2⟩ | ⟨a2, c2, f2, U2, rfl, hf2, hl2, hb2⟩ |
        ⟨a2, c2, f2, U2, rfl, hf2, hl2, hb2⟩ | ⟨_, _, _, _, _, _, _, hb2⟩
    · simp [FB.mk.injEq] at hb2
    · simp only [FB.mk.injEq, Option.some.injEq, true_and, Prod.mk.injEq] at hb2
      obtain ⟨rfl, rfl⟩ := hb2
      obtain ⟨_, _, _, up, _⟩ := atom_special hf2 hl2
      refine ⟨fun s m k => ?_, ?_, fun t => ?_⟩
      · rw [evalC_and, (atom_fin s m k hf1 hl1).1, (atom_fin s m k hf2 hl2).2.1]
        cases decide (L * 2 ^ k ≤ sgn s m) <;> simp
      · rw [evalC_and, sn]
      · cases t
        · rw [evalC_and, sp, up]
        · rw [evalC_and, sm]
    · simp only [FB.mk.injEq, Option.some.injEq, true_and, Prod.mk.injEq] at hb2
      obtain ⟨rfl, rfl⟩ := hb2
      obtain ⟨_, _, _, _, up⟩ := atom_special hf2 hl2
      refine ⟨fun s m k => ?_, ?_, fun t => ?_⟩
      · rw [evalC_and, (atom_fin s m k hf1 hl1).1, (atom_fin s m k hf2 hl2).2.2]
        cases decide (L * 2 ^ k ≤ sgn s m) <;> simp
      · rw [evalC_and, sn]
      · cases t
        · rw [evalC_and, sp, up]
        · rw [evalC_and, sm]
    · simp [FB.mk.injEq] at hb2

/-! ### the float → integer cell checker -/

def fltSrc (is32 : Bool) : Ty := if is32 then .float32 else .float64
def fltP (is32 : Bool) : Nat := if is32 then 24 else 53

def fltBodyOK (tbl : List Case) (tgt : Ty) (is32 : Bool) (body : Body) : Bool :=
  match tgt.range, tgt.must with
  | some (lo, hi), some (mlo, mhi) =>
    match body with
    | .bind (.self m) (some g) ⟨.cast t (.round a), .fromCall⟩ (some ⟨_, .overflow⟩) =>
      m == fltSrc is32 && t == tgt && selfIdent tbl (fltSrc is32) &&
      ((a == E.v && !is32) || a == E.cast .float64 .v) &&
      (match fltBounds is32 g with
       | some ⟨some L, some (U, strict)⟩ =>
         -- (a)/(c): whatever passes the guard rounds into the target range
         decide (lo ≤ L) &&
         (if strict then decide (U - 1 ≤ hi) && decide ((2 : Int) ^ fltP is32 ≤ U) else decide (U ≤ hi)) &&
         -- (b): whatever fits passes the guard
         decide (L ≤ mlo) && (if strict then decide (mhi < U) else decide (mhi ≤ U))
       | _ => false)
    | _ => false
  | _, _ => false

theorem specNum_flt {tgt : Ty} {lo hi mlo mhi : Int} (hr : tgt.range = some (lo, hi)) (hm : tgt.must = some (mlo, mhi))
    (is32 : Bool) (x : FVal) (r : Res) :
    specNum tgt (mkF is32 x) r =
      ((r.err != .ok || (match x with
          | .fin s m k => r.val == .i (roundHalfAway s m k) && decide (lo ≤ roundHalfAway s m k ∧ roundHalfAway s m k ≤ hi)
          | _ => false)) &&
       (!(match x with
          | .fin s m k => decide (mlo * 2 ^ k ≤ sgn s m ∧ sgn s m ≤ mhi * 2 ^ k)
          | _ => false) || r.err == .ok)) := by
  cases is32 <;> cases x <;> simp [specNum, hr, hm, exactInt, fitsInt, mkF]

theorem round_arg_eval (is32 : Bool) (a : E) (x : FVal)
    (ha : ((a == E.v && !is32) || a == E.cast .float64 .v) = true) : evalE (mkF is32 x) a = .f64 x := by
  simp at ha
  rcases ha with ⟨rfl, rfl⟩ | rfl
  · simp [evalE, mkF]
  · cases is32 <;> simp [evalE, mkF, castTo, Ty.range]

theorem cast_round_fin {t : Ty} {lo hi : Int} (hr : t.range = some (lo, hi)) (s : Bool) (m k : Nat)
    (hz1 : lo ≤ roundHalfAway s m k) (hz2 : roundHalfAway s m k ≤ hi) :
    castTo t (.f64 (FVal.round (.fin s m k))) = .i (roundHalfAway s m k) := by
  have e : truncInt s (rhaNat m k) 0 = roundHalfAway s m k := by simp [truncInt, roundHalfAway]
  simp only [FVal.round, castTo, hr, e]
  simp [hz1, hz2]

theorem fltBodyOK_sound (sc : Strconv) (tbl : List Case) (n : Nat) (tgt : Ty) (is32 : Bool)
    (hk : fltBodyOK tbl tgt is32 (lookup tbl tgt (.ty (fltSrc is32))) = true)
    (x : FVal) (hw : x.wf (fltP is32)) :
    specNum tgt (mkF is32 x) (conv sc tbl (n + 2) tgt (.ty (fltSrc is32)) (mkF is32 x)) = true := by
  unfold fltBodyOK at hk
  cases hr : tgt.range with
  | none => simp [hr] at hk
  | some p =>
    obtain ⟨lo, hi⟩ := p
    cases hm : tgt.must with
    | none => simp [hr, hm] at hk
    | some q =>
      obtain ⟨mlo, mhi⟩ := q
      simp only [hr, hm] at hk
      rw [specNum_flt hr hm, conv_succ]
      generalize hb : lookup tbl tgt (.ty (fltSrc is32)) = body at hk
      match body, hk with
      | .bind (.self m) (some g) ⟨.cast t (.round a), .fromCall⟩ (some ⟨fe, .overflow⟩), hk =>
        simp only [Bool.and_eq_true, beq_iff_eq] at hk
        obtain ⟨⟨⟨⟨rfl, rfl⟩, hsi⟩, ha⟩, hchk⟩ := hk
        cases hg : fltBounds is32 g with
        | none => simp [hg] at hchk
        | some b =>
          obtain ⟨lb, ub⟩ := b
          cases lb with
          | none => simp [hg] at hchk
          | some L =>
            cases ub with
            | none => simp [hg] at hchk
            | some us =>
              obtain ⟨U, strict⟩ := us
              simp only [hg, Bool.and_eq_true, decide_eq_true_eq] at hchk
              obtain ⟨⟨⟨hloL, hup⟩, hLm⟩, hmU⟩ := hchk
              obtain ⟨gfin, gnan, ginf⟩ := guard_eval hg
              simp only [evalBody, conv_self sc tbl n (fltSrc is32) (mkF is32 x) hsi]
              cases x with
              | nan => simp [gnan, evalR, errOf]
              | inf s => simp [ginf, evalR, errOf]
              | fin s m k =>
                rw [gfin]
                have hp := pow2_pos k
                cases hL : decide (L * 2 ^ k ≤ sgn s m) with
                | false =>
                  simp at hL
                  have : L * 2 ^ k ≤ mlo * 2 ^ k := Int.mul_le_mul_of_nonneg_right hLm (Int.le_of_lt hp)
                  simp [evalR, errOf]
                  omega
                | true =>
                  simp at hL
                  have hge := rha_ge s m k L hL
                  cases strict with
                  | false =>
                    simp only [Bool.false_eq_true, if_false, decide_eq_true_eq] at hup hmU ⊢
                    by_cases hU : sgn s m ≤ U * 2 ^ k
                    · have hle := rha_le s m k U hU
                      have hz1 : lo ≤ roundHalfAway s m k := by omega
                      have hz2 : roundHalfAway s m k ≤ hi := by omega
                      simp [hU, evalR, errOf, evalE, round_arg_eval is32 a _ ha, cast_round_fin hr s m k hz1 hz2, hz1, hz2]
                    · have : mhi * 2 ^ k ≤ U * 2 ^ k := Int.mul_le_mul_of_nonneg_right hmU (Int.le_of_lt hp)
                      simp [hU, evalR, errOf]
                      omega
                  | true =>
                    simp only [if_true, Bool.and_eq_true, decide_eq_true_eq] at hup hmU ⊢
                    by_cases hU : sgn s m < U * 2 ^ k
                    · have hle := rha_lt (fltP is32) s m k U hw hup.2 hU
                      have hz1 : lo ≤ roundHalfAway s m k := by omega
                      have hz2 : roundHalfAway s m k ≤ hi := by omega
                      simp [hU, evalR, errOf, evalE, round_arg_eval is32 a _ ha, cast_round_fin hr s m k hz1 hz2, hz1, hz2]
                    · have : mhi * 2 ^ k < U * 2 ^ k := Int.mul_lt_mul_of_pos_right hmU hp
                      simp [hU, evalR, errOf]
                      omega

end FpgoVerif.C02
