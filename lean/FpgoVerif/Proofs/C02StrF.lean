import FpgoVerif.Proofs.C02Round
/-! C02 — string sources with a float target: `strconv.ParseFloat` as a *contract parameter*.
    The contract is what the documentation of ParseFloat promises for decimal numerals; the theorems hold for
    every `Strconv` whose `parseFloat` satisfies it (the real one is assumed to; `goStrconv`, the function the
    driver runs, is validated against the real one by the correspondence). -/
namespace FpgoVerif.C02

/-- Documented contract of `strconv.ParseFloat(w, bits)` on decimal numerals (`decimalRat w = some ±n/d`):
    * it returns a float64;
    * a nil error comes with the nearest value of the format (ties to even), which is finite — a numeral that
      rounds to ±Inf yields an error ("more than 1/2 ULP away from the largest floating point number");
    * a numeral whose magnitude does not exceed the largest finite value converts successfully;
    * with `bits = 32` the result "is convertible to float32 without changing its value";
    * a string that is not a numeral at all is a syntax error, or one of the "inf"/"nan" spellings (a non-finite value). -/
structure ParseFloatContract (f : Fmt) (pf : String → Res) : Prop where
  val : ∀ w, ∃ y, (pf w).val = .f64 y
  exact : ∀ w s n d y, decimalRat w = some (s, n, d) → (pf w).err = .ok → (pf w).val = .f64 y →
    sameFloat (roundRat f s n d) y = true ∧ y.isFin = true
  fits : ∀ w s n d, decimalRat w = some (s, n, d) → n ≤ f.maxFinite * d → (pf w).err = .ok
  repr : f = f32 → ∀ w y, (pf w).err = .ok → (pf w).val = .f64 y → sameFloat (y.roundTo f32) y = true
  nonnum : ∀ w y, decimalRat w = none → leftOpen w = false → (pf w).err = .ok → (pf w).val = .f64 y → y.isFin = false

theorem sameFloat_isFin {c b : FVal} (h : sameFloat c b = true) (hb : b.isFin = true) : c.isFin = true := by
  cases c <;> cases b <;> simp [sameFloat, FVal.isFin] at h hb ⊢

theorem sameFloat_trans' {a b c : FVal} (h1 : sameFloat a b = true) (h2 : sameFloat c b = true) :
    sameFloat a c = true := by
  cases a <;> cases b <;> cases c <;> simp [sameFloat] at h1 h2 ⊢
  · rw [h1, h2]
  · rename_i s1 m1 k1 s2 m2 k2 s3 m3 k3
    obtain ⟨e1, g1⟩ := h1
    obtain ⟨e2, g2⟩ := h2
    have hpos : 0 < 2 ^ k2 := Nat.two_pow_pos k2
    have hmul : m1 * 2 ^ k3 * 2 ^ k2 = m3 * 2 ^ k1 * 2 ^ k2 := by
      calc m1 * 2 ^ k3 * 2 ^ k2 = (m1 * 2 ^ k2) * 2 ^ k3 := by ring
        _ = (m2 * 2 ^ k1) * 2 ^ k3 := by rw [e1]
        _ = (m2 * 2 ^ k3) * 2 ^ k1 := by ring
        _ = (m3 * 2 ^ k2) * 2 ^ k1 := by rw [e2]
        _ = m3 * 2 ^ k1 * 2 ^ k2 := by ring
    refine ⟨Nat.eq_of_mul_eq_mul_right hpos hmul, ?_⟩
    by_cases hm1 : m1 = 0
    · left; exact hm1
    · right
      have hm2 : m2 ≠ 0 := by
        intro h0
        rw [h0, Nat.zero_mul] at e1
        rcases Nat.mul_eq_zero.mp e1 with h | h
        · exact hm1 h
        · exact absurd h (Nat.ne_of_gt (Nat.two_pow_pos k2))
      have hm3 : m3 ≠ 0 := by
        intro h0
        rw [h0, Nat.zero_mul] at e2
        exact hm2 (by
          rcases Nat.mul_eq_zero.mp e2.symm with h | h
          · exact h
          · exact absurd h (Nat.ne_of_gt (Nat.two_pow_pos k3)))
      rcases g1 with h | h
      · exact absurd h hm1
      · rcases g2 with h' | h'
        · exact absurd h' hm3
        · rw [h, h']

/-- the string clause of a float method: `return strconv.ParseFloat(s, 64)` /
    `val, err := strconv.ParseFloat(s, 32); return float32(val), err` -/
def strFloatBodyOK (tgt : Ty) (body : Body) : Bool :=
  match tgt, body with
  | .float64, .direct (.parseFloat 64) => true
  | .float32, .bind (.parseFloat 32) none ⟨.cast .float32 .v, .fromCall⟩ _ => true
  | _, _ => false

theorem strFloat64_sound (sc : Strconv) (hc : ParseFloatContract f64 (sc.parseFloat 64)) (tbl : List Case) (n : Nat)
    (w : String) (hk : strFloatBodyOK .float64 (lookup tbl .float64 (.ty .string)) = true) :
    specStr .float64 w (conv sc tbl (n + 1) .float64 (.ty .string) (.s w)) = true := by
  rw [conv_succ]
  generalize lookup tbl .float64 (.ty .string) = body at hk
  match body, hk with
  | .direct (.parseFloat 64), _ =>
    simp only [evalBody, strOf]
    obtain ⟨y, hy⟩ := hc.val w
    simp only [specStr, Ty.range, Ty.must, Ty.fmt]
    cases hd : decimalRat w with
    | none =>
      simp only
      cases hlo : leftOpen w with
      | true => simp
      | false =>
        by_cases he : (sc.parseFloat 64 w).err = .ok
        · have := hc.nonnum w y hd hlo he hy
          simp [he, hy, floatOf, this]
        · simp [he]
    | some snd =>
      obtain ⟨s, nn, d⟩ := snd
      simp only
      by_cases he : (sc.parseFloat 64 w).err = .ok
      · obtain ⟨h1, h2⟩ := hc.exact w s nn d y hd he hy
        simp [he, hy, floatOf, valOfTy, h1, h2]
      · have : ¬ nn ≤ f64.maxFinite * d := fun h => he (hc.fits w s nn d hd h)
        simp [he, this]

theorem strFloat32_sound (sc : Strconv) (hc : ParseFloatContract f32 (sc.parseFloat 32)) (tbl : List Case) (n : Nat)
    (w : String) (hk : strFloatBodyOK .float32 (lookup tbl .float32 (.ty .string)) = true) :
    specStr .float32 w (conv sc tbl (n + 1) .float32 (.ty .string) (.s w)) = true := by
  rw [conv_succ]
  generalize lookup tbl .float32 (.ty .string) = body at hk
  match body, hk with
  | .bind (.parseFloat 32) none ⟨.cast .float32 .v, .fromCall⟩ _, _ =>
    simp only [evalBody, strOf]
    obtain ⟨y, hy⟩ := hc.val w
    have hcast : evalR (sc.parseFloat 32 w).val (sc.parseFloat 32 w).err ⟨.cast .float32 .v, .fromCall⟩ =
        ⟨.f32 (y.roundTo f32), (sc.parseFloat 32 w).err⟩ := by
      simp [evalR, errOf, evalE, hy, castTo, Ty.range]
    rw [hcast]
    simp only [specStr, Ty.range, Ty.must, Ty.fmt]
    cases hd : decimalRat w with
    | none =>
      simp only
      cases hlo : leftOpen w with
      | true => simp
      | false =>
        by_cases he : (sc.parseFloat 32 w).err = .ok
        · have hnf := hc.nonnum w y hd hlo he hy
          have : (y.roundTo f32).isFin = false := by
            cases y <;> simp [FVal.isFin, FVal.roundTo] at hnf ⊢
          simp [he, floatOf, this]
        · simp [he]
    | some snd =>
      obtain ⟨s, nn, d⟩ := snd
      simp only
      by_cases he : (sc.parseFloat 32 w).err = .ok
      · obtain ⟨h1, h2⟩ := hc.exact w s nn d y hd he hy
        have h3 := hc.repr rfl w y he hy
        have h4 := sameFloat_trans' h1 h3
        have h5 := sameFloat_isFin h3 h2
        simp [he, floatOf, valOfTy, h4, h5]
      · have : ¬ nn ≤ f32.maxFinite * d := fun h => he (hc.fits w s nn d hd h)
        simp [he, this]

/-! ### the contract is satisfiable: the obvious reference function for binary64 -/

def refParseFloat64 (w : String) : Res :=
  match decimalRat w with
  | some (s, n, d) =>
    (match roundRat f64 s n d with
     | .fin a b c => ⟨.f64 (.fin a b c), .ok⟩
     | _ => ⟨.f64 (.inf s), .other⟩)
  | none => ⟨.f64 .nan, .other⟩

theorem decimalRat_den_pos {w : String} {s : Bool} {n d : Nat} (h : decimalRat w = some (s, n, d)) : 0 < d := by
  unfold decimalRat at h
  split at h
  · cases h
  · split at h
    · split at h
      · simp at h; omega
      · cases h
    · split at h
      · simp at h
        obtain ⟨_, _, rfl⟩ := h
        exact Nat.pow_pos (by decide)
      · cases h

theorem refParseFloat64_contract : ParseFloatContract f64 refParseFloat64 where
  val := by
    intro w
    unfold refParseFloat64
    split
    · split <;> exact ⟨_, rfl⟩
    · exact ⟨_, rfl⟩
  exact := by
    intro w s n d y hd he hy
    unfold refParseFloat64 at he hy
    simp only [hd] at he hy
    split at he
    · rename_i a b c heq
      simp only [heq] at hy
      have : y = .fin a b c := by simpa using hy.symm
      subst this
      rw [heq]
      exact ⟨sameFloat_refl _, rfl⟩
    · simp at he
  fits := by
    intro w s n d hd hfit
    have hfin := roundRat_isFin f64 (Or.inr rfl) s n d (decimalRat_den_pos hd) hfit
    unfold refParseFloat64
    simp only [hd]
    split
    · rfl
    · rename_i hne
      cases hr : roundRat f64 s n d with
      | fin a b c => exact absurd hr (hne a b c)
      | nan => simp [hr, FVal.isFin] at hfin
      | inf t => simp [hr, FVal.isFin] at hfin
  repr := by
    intro h
    simp [f32, f64] at h
  nonnum := by
    intro w y hd _ he _
    unfold refParseFloat64 at he
    simp [hd] at he

end FpgoVerif.C02
