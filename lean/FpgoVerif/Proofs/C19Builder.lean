import FpgoVerif.Proofs.C19Heap
/-! Helper lemmas for C19: `SortDescriptorsBuilder` values on the slice heap (forked builders). -/
namespace FpgoVerif.C19

variable {δ : Type}

/-- appending to a FULL slice (len = cap) allocates a fresh backing array -/
theorem append_full (h : Heap δ) (b : Slice) (d : δ) (hfull : b.len = b.cap) :
    h.append b [d] = (h ++ [h.read b ++ [d]], ⟨h.length, 0, b.len + 1, growCap b.cap (b.len + 1)⟩) := by
  have : ¬ (b.len + 1 ≤ b.cap) := by omega
  simp [Heap.append, this]

theorem read_take_le (h : Heap δ) (b : Slice) : (h.read b).length ≤ b.len := by
  simp [Heap.read]; omega

theorem read_fresh (h : Heap δ) (xs : List δ) (n c : Nat) (hn : xs.length ≤ n) :
    (h ++ [xs]).read ⟨h.length, 0, n, c⟩ = xs := by
  simp [Heap.read, List.getD_eq_getElem?_getD, List.take_of_length_le hn]

/-- reading a builder that is either empty or lives in an old array is not affected by a fresh array -/
theorem read_append_old' (h : Heap δ) (a : List δ) (b : Slice) (hb : b.len = 0 ∨ b.arr < h.length) :
    (h ++ [a]).read b = h.read b := by
  rcases hb with hb | hb
  · simp [Heap.read, hb]
  · exact read_append_old h a b hb

/-- Forking: any number of siblings, each derived by ONE `ThenWith…(d)` from the same full builder `p`:
    every sibling holds `p`'s descriptors followed by its own, and every slice of an old array (and `p`
    itself) reads as before. -/
theorem deriveSiblings_single (p : Slice) (hfull : p.len = p.cap) :
    ∀ (ds : List δ) (h : Heap δ), (p.len = 0 ∨ p.arr < h.length) →
      ((deriveSiblings h p (ds.map (fun d => [d]))).2.map (deriveSiblings h p (ds.map (fun d => [d]))).1.read
          = ds.map (fun d => h.read p ++ [d])) ∧
      (∀ s' : Slice, (s'.len = 0 ∨ s'.arr < h.length) →
        (deriveSiblings h p (ds.map (fun d => [d]))).1.read s' = h.read s')
  | [], h, _ => by simp [deriveSiblings]
  | d :: ds, h, hp => by
    have hp1 : p.len = 0 ∨ p.arr < (h ++ [h.read p ++ [d]]).length := by
      rcases hp with hp | hp
      · exact .inl hp
      · exact .inr (by simp; omega)
    have ih := deriveSiblings_single p hfull ds (h ++ [h.read p ++ [d]]) hp1
    simp only [List.map_cons, deriveSiblings, thenWithChain, thenWith, append_full h p d hfull]
    have hrp : (h ++ [h.read p ++ [d]]).read p = h.read p := read_append_old' h _ p hp
    rw [hrp] at ih
    refine ⟨?_, ?_⟩
    · simp only [List.map_cons, List.cons.injEq]
      refine ⟨?_, ih.1⟩
      rw [ih.2 _ (.inr (by simp))]
      exact read_fresh h _ _ _ (by have := read_take_le h p; simp; omega)
    · intro s' hs'
      have hs1 : s'.len = 0 ∨ s'.arr < (h ++ [h.read p ++ [d]]).length := by
        rcases hs' with hs' | hs'
        · exact .inl hs'
        · exact .inr (by simp; omega)
      rw [ih.2 s' hs1]
      exact read_append_old' h _ s' hs'

/-- a builder made by `New…()` (capacity 0) and at most two single `ThenWith…` calls is full, holds
    exactly those descriptors, and lives inside the heap -/
theorem chain_full (pre : List δ) (hlen : pre.length ≤ 2) :
    let r := thenWithChain (newBuilderCap 0 ([] : Heap δ)).1 (newBuilderCap 0 ([] : Heap δ)).2 pre
    r.2.len = r.2.cap ∧ r.1.read r.2 = pre ∧ r.2.arr < r.1.length := by
  match pre, hlen with
  | [], _ => simp [thenWithChain, newBuilderCap, Heap.read]
  | [a], _ => simp [thenWithChain, thenWith, newBuilderCap, Heap.append, Heap.read, growCap]
  | [a, b], _ => simp [thenWithChain, thenWith, newBuilderCap, Heap.append, Heap.read, growCap]
  | _ :: _ :: _ :: _, h => exact absurd h (by simp)

theorem forkedBuilders_single (pre ds : List δ) (hlen : pre.length ≤ 2) :
    forkedBuilders pre (ds.map (fun d => [d])) = pre :: ds.map (fun d => pre ++ [d]) := by
  obtain ⟨h1, h2, h3⟩ := chain_full pre hlen
  simp only [forkedBuilders, forkedBuildersCap, builderInitCap]
  generalize thenWithChain (newBuilderCap 0 ([] : Heap δ)).1 (newBuilderCap 0 ([] : Heap δ)).2 pre = r at h1 h2 h3
  obtain ⟨h, p⟩ := r
  simp only at h1 h2 h3
  have := deriveSiblings_single p h1 ds h (.inr h3)
  simp only [List.map_cons, List.cons.injEq]
  rw [h2] at this
  exact ⟨by rw [this.2 p (.inr h3)]; exact h2, this.1⟩

end FpgoVerif.C19
