import FpgoVerif.Proofs.C07Inv
/-! C07: a pass of the loader terminates and refills the channel; Poll calls + passes drain the queue. -/
namespace FpgoVerif.C07

/-- actions of consumers and of the loader (everything except the five Offer atoms) -/
def noOffer : Act → Bool
  | .offerLock _ => false
  | .offerChan _ => false
  | .offerHandoff _ => false
  | .offerFull _ => false
  | .offerPool _ => false
  | _ => true

def passMeasure (s : St) : Nat := 2 * s.pool.length + (optl s.inflight).length

theorem run_append (s : St) (a b : List Act) :
    run s (a ++ b) = (run s a).bind (fun s' => run s' b) := by
  induction a generalizing s with
  | nil => simp [run]
  | cons x xs ih =>
    simp only [List.cons_append, run]
    cases step s x with
    | none => simp
    | some s1 => simpa using ih s1

theorem run_cons_some {s s1 s' : St} {a : Act} {as : List Act} (h1 : step s a = some s1) (h2 : run s1 as = some s') :
    run s (a :: as) = some s' := by simp [run, h1, h2]

/-- result of a loader pass started with the lock held -/
structure PassEnd (s s' : St) : Prop where
  lock : s'.lock = .free
  lpc : s'.lpc = .waiting
  infl : s'.inflight = none
  deliv : s'.delivered = s.delivered
  acc : s'.accepted = s.accepted
  cc : s'.c = s.c
  wt : s'.waiters = s.waiters
  chanNe : (s.chan ≠ [] ∨ ((s.inflight ≠ none ∨ s.pool ≠ []) ∧ 0 < s.c)) → s'.chan ≠ []

theorem pass_finishes (n : Nat) : ∀ s : St, passMeasure s < n → s.lock = .loader → (s.waiters = 0 ∨ 0 < s.c) →
    ∃ acts s', acts.all noOffer = true ∧ run s acts = some s' ∧ PassEnd s s' := by
  induction n with
  | zero => intro s h; omega
  | succ n ih =>
    intro s hm hl hw
    cases hin : s.inflight with
    | none =>
      cases hp : s.pool with
      | nil =>
        refine ⟨[.loaderDone], { s with lock := .free, lpc := .waiting }, by simp [noOffer], by simp [run, step, hl, hin, hp], ?_⟩
        exact ⟨rfl, rfl, hin, rfl, rfl, rfl, rfl, by intro h; rcases h with h | h; exact h; simp [hin, hp] at h⟩
      | cons x rest =>
        have h1 : step s .loaderPoll = some { s with pool := rest, inflight := some x } := by simp [step, hl, hin, hp]
        obtain ⟨acts, s', ha, hr, pe⟩ := ih { s with pool := rest, inflight := some x }
          (by simp [passMeasure, hp] at hm ⊢; omega) hl hw
        refine ⟨.loaderPoll :: acts, s', by simp [noOffer, ha], run_cons_some h1 hr, ?_⟩
        exact ⟨pe.lock, pe.lpc, pe.infl, pe.deliv, pe.acc, pe.cc, pe.wt, by
          intro h; apply pe.chanNe
          rcases h with h | h
          · exact Or.inl h
          · exact Or.inr ⟨Or.inl (by simp), h.2⟩⟩
    | some x =>
      by_cases hroom : s.chan.length < s.c
      · have h1 : step s .loaderSend = some { s with chan := s.chan ++ [x], inflight := none } := by
          simp [step, hl, hin, hroom]
        obtain ⟨acts, s', ha, hr, pe⟩ := ih { s with chan := s.chan ++ [x], inflight := none }
          (by simp [passMeasure, hin] at hm ⊢; omega) hl hw
        refine ⟨.loaderSend :: acts, s', by simp [noOffer, ha], run_cons_some h1 hr, ?_⟩
        exact ⟨pe.lock, pe.lpc, pe.infl, pe.deliv, pe.acc, pe.cc, pe.wt, fun _ => pe.chanNe (Or.inl (by simp))⟩
      · have hf : trySendFails s := by
          refine ⟨by omega, ?_⟩
          rcases hw with hw | hw
          · exact Or.inl hw
          · right; intro he; rw [he] at hroom; simp at hroom; omega
        refine ⟨[.loaderUnshift], { s with pool := x :: s.pool, inflight := none, lock := .free, lpc := .waiting },
          by simp [noOffer], by simp [run, step, hl, hin, hf], ?_⟩
        refine ⟨rfl, rfl, rfl, rfl, rfl, rfl, rfl, ?_⟩
        intro h
        rcases h with h | h
        · exact h
        · intro he; have he' : s.chan = [] := he; rw [he'] at hroom; simp at hroom; omega

/-- **Nothing stranded, whole queue.**  From any reachable quiescent state (no Offer in progress, no pass in
    progress, nobody blocked in a receive) of a queue with channelCapacity ≥ 1 there is a continuation made only of
    Poll atoms (`notify`, `tryRecv`) and loader atoms — no further Offer — after which every accepted value has
    been delivered (in acceptance order, by `C07_fifo`). -/
theorem drain (k : Nat) : ∀ s : St, Inv s → 1 ≤ s.c → s.lock = .free → s.lpc ≠ .inpass →
    s.accepted.length - s.delivered.length < k →
    ∃ acts s', acts.all noOffer = true ∧ run s acts = some s' ∧ s'.delivered = s.accepted ∧ s'.accepted = s.accepted := by
  induction k with
  | zero => intro s _ _ _ _ h; omega
  | succ k ih =>
    intro s hi hc hl hp hk
    have hin : s.inflight = none := inflight_none_of_not_loader hi.infl (by simp [hl])
    have hf := hi.fifo
    simp [hin] at hf
    cases hch : s.chan with
    | cons x rest =>
      -- a Poll's try-receive delivers the head
      have h1 : step s .tryRecv = some { s with chan := rest, delivered := s.delivered ++ [x] } := by simp [step, hch]
      have hi1 := step_inv h1 hi
      have hlen : s.accepted.length = s.delivered.length + (x :: rest).length + s.pool.length := by
        rw [← hf, hch]; simp [List.length_append]; omega
      obtain ⟨acts, s', ha, hr, hd, hacc⟩ := ih _ hi1 hc hl hp (by simp at hlen ⊢; omega)
      exact ⟨.tryRecv :: acts, s', by simp [noOffer, ha], run_cons_some h1 hr, hd, hacc⟩
    | nil =>
      cases hpool : s.pool with
      | nil =>
        -- nothing held: everything has been delivered
        refine ⟨[], s, by simp, by simp [run], ?_, rfl⟩
        rw [← hf, hch, hpool]; simp
      | cons y more =>
        -- the call's token wakes the loader, its pass refills the channel, then as above
        have hwake : ∃ s2, (run s [.notify, .loaderWake] = some s2 ∨ run s [] = some s2) ∧ s2.lpc = .woke ∧ s2.lock = .free ∧
            s2.chan = s.chan ∧ s2.pool = s.pool ∧ s2.inflight = none ∧ s2.c = s.c ∧
            s2.delivered = s.delivered ∧ s2.accepted = s.accepted := by
          cases hlp : s.lpc with
          | waiting =>
            exact ⟨{ s with token := false, lpc := .woke }, Or.inl (by simp [run, step, hl, hlp]), rfl, hl, rfl, rfl, hin, rfl, rfl, rfl⟩
          | woke => exact ⟨s, Or.inr (by simp [run]), hlp, hl, rfl, rfl, hin, rfl, rfl, rfl⟩
          | inpass => exact absurd hlp hp
        obtain ⟨s2, hr2, h2lpc, h2lock, h2chan, h2pool, h2in, h2c, h2d, h2a⟩ := hwake
        have h3 : step s2 .loaderLock = some { s2 with lock := .loader, lpc := .inpass } := by simp [step, h2lpc, h2lock]
        obtain ⟨pacts, s4, hpa, hpr, pe⟩ := pass_finishes (passMeasure { s2 with lock := .loader, lpc := .inpass } + 1)
          { s2 with lock := .loader, lpc := .inpass } (by omega) rfl (Or.inr (by simp [h2c]; omega))
        have hne : s4.chan ≠ [] := pe.chanNe (Or.inr ⟨Or.inr (by simp [h2pool, hpool]), by simp [h2c]; omega⟩)
        -- assemble the prefix run  s → s2 → s4
        have hpre : ∃ pre, pre.all noOffer = true ∧ run s pre = some s4 := by
          rcases hr2 with hr2 | hr2
          · refine ⟨[.notify, .loaderWake] ++ (.loaderLock :: pacts), by simp [noOffer, hpa], ?_⟩
            rw [run_append, hr2]; simp; exact run_cons_some h3 hpr
          · simp [run] at hr2; subst hr2
            exact ⟨.loaderLock :: pacts, by simp [noOffer, hpa], run_cons_some h3 hpr⟩
        obtain ⟨pre, hpre1, hpre2⟩ := hpre
        have hi4 : Inv s4 := run_inv pre hpre2 hi
        have h4d : s4.delivered = s.delivered := by rw [pe.deliv]; exact h2d
        have h4a : s4.accepted = s.accepted := by rw [pe.acc]; exact h2a
        cases h4ch : s4.chan with
        | nil => exact absurd h4ch hne
        | cons x rest =>
          have h5 : step s4 .tryRecv = some { s4 with chan := rest, delivered := s4.delivered ++ [x] } := by simp [step, h4ch]
          have hi5 := step_inv h5 hi4
          have hlen : s.accepted.length = s.delivered.length + s.pool.length := by
            rw [← hf, hch]; simp
          obtain ⟨acts, s', ha, hr, hd, hacc⟩ := ih _ hi5 (by simp [pe.cc, h2c]; exact hc) pe.lock (by simp [pe.lpc])
            (by simp [h4d, h4a]; rw [hpool] at hlen; simp at hlen; omega)
          refine ⟨pre ++ (.tryRecv :: acts), s', by simp [noOffer, hpre1, ha], ?_, ?_, ?_⟩
          · rw [run_append, hpre2]; simp; exact run_cons_some h5 hr
          · rw [hd]; simp [h4a]
          · rw [hacc]; simp [h4a]

/-! ### the composite operations of the driver stay inside the transition system -/

theorem reach_step {c b : Nat} {s s' : St} {a : Act} (h : Reach c b s) (hs : step s a = some s') : Reach c b s' := by
  obtain ⟨acts, ha⟩ := h
  exact ⟨acts ++ [a], by rw [run_append, ha]; simp [run, hs]⟩

theorem reach_stepD {c b : Nat} {s : St} (a : Act) (h : Reach c b s) : Reach c b (stepD s a) := by
  unfold stepD
  cases hs : step s a with
  | none => simpa using h
  | some s' => simpa using reach_step h hs

theorem reach_offerCall {c b : Nat} {s : St} (v : Nat) (h : Reach c b s) : Reach c b (offerCall s v).1 := by
  unfold offerCall
  cases h0 : step s (.offerLock v) with
  | none => simpa using h
  | some s1 =>
    have r1 := reach_step h h0
    simp only
    cases h1 : step s1 (.offerChan v) with
    | some s2 => simpa using reach_step r1 h1
    | none =>
      simp only
      cases h2 : step s1 (.offerHandoff v) with
      | some s2 => simpa using reach_step r1 h2
      | none =>
        simp only
        cases h3 : step s1 (.offerFull v) with
        | some s2 => simpa using reach_step r1 h3
        | none =>
          simp only
          cases h4 : step s1 (.offerPool v) with
          | some s2 => simpa using reach_step r1 h4
          | none => simpa using r1

theorem reach_pollCall {c b : Nat} {s : St} (h : Reach c b s) : Reach c b (pollCall s).1 := by
  unfold pollCall
  simp only
  split
  · exact reach_stepD _ (reach_stepD _ h)
  · exact reach_stepD _ (reach_stepD _ h)

theorem reach_syncLoader {c b : Nat} {s : St} (h : Reach c b s) : Reach c b (syncLoader s) := by
  unfold syncLoader
  split
  · exact reach_stepD _ (reach_stepD _ h)
  · exact h

theorem reach_loaderNext {c b : Nat} {s : St} (h : Reach c b s) : Reach c b (loaderNext s).1 := by
  unfold loaderNext
  split <;> exact reach_stepD _ h

end FpgoVerif.C07
