import FpgoVerif.Model.C15Mailbox
import FpgoVerif.Proofs.C15Tac
/-! Invariants of the mailbox system (Handler/Actor + closing goroutine). -/
namespace FpgoVerif.C15.Mb

theorem gstep_some {s pc ch s' nx} (h : gstep s pc ch = some (s', nx)) :
    0 < s.cnt (kind pc) ∧ ∃ s1, step s pc = some (s1, nx) ∧ s' = { s1 with cnt := move s1.cnt (kind pc) nx } := by
  unfold gstep at h
  split at h
  · simp at h
  · rename_i hc
    split at h
    · simp at h
    · rename_i s1 nx1 hs
      simp at h
      obtain ⟨rfl, rfl⟩ := h
      exact ⟨Nat.pos_of_ne_zero hc, s1, hs, rfl⟩

structure Inv (s : St) : Prop where
  one : s.cnt .c0 + s.cnt .c1 ≤ 1
  started : s.closeStarted = false → s.cnt .c0 + s.cnt .c1 = 0
  closedNoCloser : s.chClosed = true → s.cnt .c0 + s.cnt .c1 = 0
  c1flag : 0 < s.cnt .c1 → s.flag = true
  doneFlag : s.closeDone = true → s.flag = true
  doneClosed : s.closeDone = true → s.chClosed = true
  late0 : s.late = 0
  cons : s.cnt .r0 + s.cnt .r1 ≤ 1
  consExit : s.cnt .r0 + s.cnt .r1 = 0 → s.chClosed = true ∨ s.selfClosing = true
  selfCons : s.selfClosing = true → s.cnt .r0 + s.cnt .r1 = 0 ∧ 0 < s.cnt .c1
  startedDone : s.closeStarted = true → s.cnt .c0 + s.cnt .c1 = 0 → s.closeDone = true
  closedStarted : s.chClosed = true → s.closeStarted = true
  nopanic : s.recovers = true → s.panic = false

theorem inv_init (cap : Nat) (r : Bool) : Inv (init cap r) := by
  constructor <;> simp [init]

theorem inv_spawn {s s' pc} (h : spawn s pc = some s') (hi : Inv s) : Inv s' := by
  obtain ⟨one, started, closedNoCloser, c1flag, doneFlag, doneClosed, late0, cons, consExit, selfCons, startedDone, closedStarted, nopanic⟩ := hi
  have b1 := Bool.toNat_le s.flag; have b2 := Bool.toNat_le s.chClosed; have b3 := Bool.toNat_le s.closeStarted
  have b4 := Bool.toNat_le s.closeDone; have b5 := Bool.toNat_le s.selfClosing; have b6 := Bool.toNat_le s.panic
  have b7 := Bool.toNat_le s.recovers
  cases pc <;> simp [spawn] at h
  all_goals (try (obtain ⟨hs, rfl⟩ := h))
  all_goals (try subst h)
  all_goals (c15hyps; constructor <;> (try simp [updK]) <;> c15goal)

set_option maxHeartbeats 3200000 in
theorem inv_step {s s' nx pc ch} (h : gstep s pc ch = some (s', nx)) (hi : Inv s) : Inv s' := by
  obtain ⟨one, started, closedNoCloser, c1flag, doneFlag, doneClosed, late0, cons, consExit, selfCons, startedDone, closedStarted, nopanic⟩ := hi
  obtain ⟨hc, s1, hs, rfl⟩ := gstep_some h
  clear h
  have b1 := Bool.toNat_le s.flag; have b2 := Bool.toNat_le s.chClosed; have b3 := Bool.toNat_le s.closeStarted
  have b4 := Bool.toNat_le s.closeDone; have b5 := Bool.toNat_le s.selfClosing; have b6 := Bool.toNat_le s.panic
  have b7 := Bool.toNat_le s.recovers
  cases pc <;> simp only [step, kind] at hs hc
  all_goals (repeat' split at hs)
  all_goals (try (simp only [Option.some.injEq, Prod.mk.injEq] at hs))
  all_goals (try (obtain ⟨rfl, rfl⟩ := hs))
  all_goals (try (simp at hs))
  all_goals (c15hyps; constructor <;> (try simp [move, kind, updK]) <;> c15goal)

theorem inv_reach {cap r s} (h : Reach cap r s) : Inv s := by
  induction h with
  | init => exact inv_init cap r
  | spawn pc _ hs ih => exact inv_spawn hs ih
  | step pc ch _ hs ih => exact inv_step hs ih
  | gate _ ih =>
    obtain ⟨one, started, closedNoCloser, c1flag, doneFlag, doneClosed, late0, cons, consExit, selfCons, startedDone, closedStarted, nopanic⟩ := ih
    constructor <;> simp_all

theorem recovers_const {cap r s} (h : Reach cap r s) : s.recovers = r := by
  induction h with
  | init => rfl
  | spawn pc _ hs ih =>
    cases pc <;> simp [spawn] at hs
    · subst hs; exact ih
    · obtain ⟨_, rfl⟩ := hs; exact ih
    · subst hs; exact ih
  | step pc ch _ hs ih =>
    obtain ⟨_, s1, hs1, rfl⟩ := gstep_some hs
    cases pc <;> simp only [step] at hs1
    all_goals (repeat' split at hs1)
    all_goals (try (simp at hs1))
    all_goals (try (obtain ⟨rfl, rfl⟩ := hs1))
    all_goals (simp_all)
  | gate _ ih => exact ih

theorem gstep_of_isSome {s pc} (ch : Bool) (hc : 0 < s.cnt (kind pc)) (hs : (step s pc).isSome = true) :
    ∃ pc' ch' s' nx', gstep s pc' ch' = some (s', nx') := by
  cases h : step s pc with
  | none => simp [h] at hs
  | some p =>
    obtain ⟨s1, nx⟩ := p
    refine ⟨pc, ch, { s1 with cnt := move s1.cnt (kind pc) nx }, nx, ?_⟩
    unfold gstep
    rw [if_neg (by omega), h]

/-- side condition for a running callback: one that waits for what the closer does after Close() (ids 400–499)
    is only expected to finish when a Close has been started at all -/
def live (s : St) : PC → Prop
  | .r1 m => waitsClose m = true → s.closeStarted = true
  | _ => True

theorem r1_enabled {s} (hi : Inv s) (hg : s.gate = true) (hc0 : s.cnt .c0 = 0) (hc1 : s.cnt .c1 = 0) (m : Nat)
    (hl : live s (.r1 m)) : (step s (.r1 m)).isSome = true := by
  simp only [step, hg]
  by_cases hw : waitsClose m = true
  · have hd := hi.startedDone (hl hw) (by omega)
    simp [hw, hd]; split <;> simp
  · simp [hw]; split <;> simp

/-- whenever an operation, the Close or a callback is in progress (callbacks terminate: gate open), some
    goroutine can take a step -/
theorem progress {s} (hi : Inv s) (hr : s.recovers = true) (hg : s.gate = true)
    (hb : 0 < s.cnt .p0 ∨ 0 < s.cnt .p1 ∨ 0 < s.cnt .c0 ∨ 0 < s.cnt .c1 ∨ 0 < s.cnt .r1) :
    ∃ pc ch s' nx, gstep s pc ch = some (s', nx) := by
  by_cases hc0 : 0 < s.cnt .c0
  · exact gstep_of_isSome false (pc := .c0) hc0 (by simp [step])
  by_cases hc1 : 0 < s.cnt .c1
  · exact gstep_of_isSome false (pc := .c1) hc1 (by simp only [step]; (repeat' split) <;> simp)
  by_cases h1 : 0 < s.cnt .r1
  · exact gstep_of_isSome false (pc := .r1 0) h1 (r1_enabled hi hg (by omega) (by omega) 0 (by simp [live, waitsClose]))
  by_cases h0 : 0 < s.cnt .p0
  · exact gstep_of_isSome false (pc := .p0 0) h0 (by simp only [step]; split <;> simp)
  have hp1 : 0 < s.cnt .p1 := by omega
  -- a sender at the send: closed channel → recovered; room → sent; otherwise the consumer can move
  by_cases hcl : s.chClosed = true
  · exact gstep_of_isSome false (pc := .p1 0) hp1 (by simp [step, hcl, hr])
  by_cases hroom : room s = true
  · exact gstep_of_isSome false (pc := .p1 0) hp1 (by simp [step, hcl, hroom])
  have hr0 : 0 < s.cnt .r0 := by
    apply Classical.byContradiction; intro hcon
    rcases hi.consExit (by omega) with h | h
    · exact hcl h
    · have := (hi.selfCons h).2; omega
  cases hbuf : s.buf with
  | nil =>
    exfalso
    simp [room, hbuf, hr0] at hroom
  | cons m rest =>
    exact gstep_of_isSome false (pc := .r0) hr0 (by simp [step, hbuf])

/-- replaying a list of actions (`none` = spawn, `some ch` = step) — used for the refutation witness -/
def runActs : St → List (Option Bool × PC) → Option St
  | s, [] => some s
  | s, (none, pc) :: rest => match spawn s pc with | some s' => runActs s' rest | none => none
  | s, (some ch, pc) :: rest => match gstep s pc ch with | some (s', _) => runActs s' rest | none => none

theorem runActs_reach {cap r} : ∀ (acts : List (Option Bool × PC)) {s s'}, Reach cap r s → runActs s acts = some s' → Reach cap r s'
  | [], s, s', h, he => by simp [runActs] at he; subst he; exact h
  | (none, pc) :: rest, s, s', h, he => by
    simp only [runActs] at he
    split at he
    · rename_i s1 hs; exact runActs_reach rest (Reach.spawn pc h hs) he
    · simp at he
  | (some ch, pc) :: rest, s, s', h, he => by
    simp only [runActs] at he
    split at he
    · rename_i s1 nx hs; exact runActs_reach rest (Reach.step pc ch h hs) he
    · simp at he

end FpgoVerif.C15.Mb
