import FpgoVerif.Proofs.C19Sort
/-! Helper lemmas for C19: the slice-heap model of `SortedListBySortDescriptors`. -/
namespace FpgoVerif.C19

variable {α : Type}

theorem getD_set_self (h : Heap α) (i : Nat) : h.set i (h[i]?.getD []) = h := by
  apply List.ext_getElem?
  intro j
  by_cases hij : i = j
  · subst hij
    by_cases hi : i < h.length
    · simp [hi]
    · simp [hi]
  · simp [hij]

theorem write_nil (h : Heap α) (arr off cap : Nat) : h.write ⟨arr, off, 0, cap⟩ [] = h := by
  simpa [Heap.write] using getD_set_self h arr

theorem read_len_zero (h : Heap α) (s : Slice) (hs : s.len = 0) : h.read s = [] := by
  simp [Heap.read, hs]

theorem read_length (h : Heap α) (s : Slice) (hwf : s.off + s.len ≤ (h.getD s.arr []).length) :
    (h.read s).length = s.len := by
  rw [List.getD_eq_getElem?_getD] at hwf
  simp [Heap.read]; omega

theorem read_append_old (h : Heap α) (a : List α) (s : Slice) (hs : s.arr < h.length) :
    (h ++ [a]).read s = h.read s := by
  simp [Heap.read, List.getD_eq_getElem?_getD, List.getElem?_append_left hs]

theorem sort_length (fn : α → α → Bool) (l : List α) : (sort fn l).length = l.length := by
  simp [sort, sortBy]

theorem write_fresh_read (h : Heap α) (xs ys : List α) (c : Nat) (hl : ys.length = xs.length) :
    ((h ++ [xs]).write ⟨h.length, 0, xs.length, c⟩ ys).read ⟨h.length, 0, xs.length, c⟩ = ys := by
  simp [Heap.write, Heap.read, List.getD_eq_getElem?_getD, ← hl]

theorem write_fresh_read_old (h : Heap α) (xs ys : List α) (c : Nat) (s' : Slice) (hs' : s'.arr < h.length) :
    ((h ++ [xs]).write ⟨h.length, 0, xs.length, c⟩ ys).read s' = h.read s' := by
  simp [Heap.write, Heap.read, List.getD_eq_getElem?_getD, List.getElem?_append_left hs']

/-- `SortedListBySortDescriptors` on the heap: the result slice holds the sorted input and every slice of
    a pre-existing backing array (the caller's `input` included) reads as before. -/
theorem sortedListH_spec (ds : List (Desc α)) (h : Heap α) (input : Slice)
    (hwf : input.off + input.len ≤ (h.getD input.arr []).length) :
    ((sortedListH ds h input).1.read (sortedListH ds h input).2 = sortBy (descLess ds) (h.read input)) ∧
    ∀ s' : Slice, s'.arr < h.length → (sortedListH ds h input).1.read s' = h.read s' := by
  have hlen := read_length h input hwf
  by_cases h0 : input.len = 0
  · have hr : h.read input = [] := read_len_zero h input h0
    have hr' : h.read { arr := input.arr, off := input.off, len := 0, cap := 0 } = [] := by simp [Heap.read]
    simp [sortedListH, Heap.append, Slice.emptyNoCap, hr, hr', sortH, write_nil, sort, sortBy]
  · have hpos : ¬ (h.read input).length ≤ 0 := by omega
    have hemp : h.read { arr := input.arr, off := input.off, len := 0, cap := 0 } = [] := by simp [Heap.read]
    simp only [sortedListH, Heap.append, Slice.emptyNoCap, Nat.zero_add, hpos, if_false, hemp, List.nil_append, sortH]
    generalize h.read input = xs
    have hrd : ∀ c, (h ++ [xs]).read ⟨h.length, 0, xs.length, c⟩ = xs := by
      intro c
      simp [Heap.read, List.getD_eq_getElem?_getD]
    rw [hrd]
    exact ⟨write_fresh_read h xs _ _ (sort_length _ xs), fun s' hs' => write_fresh_read_old h xs _ _ s' hs'⟩

/-- the pure view of `SortedListBySortDescriptors`: (sorted copy, untouched input) -/
theorem sortedListBySortDescriptors_eq (ds : List (Desc α)) (l : List α) :
    sortedListBySortDescriptors ds l = (sortBy (descLess ds) l, l) := by
  have hrd : Heap.read [l] ⟨0, 0, l.length, l.length⟩ = l := by simp [Heap.read]
  have := sortedListH_spec ds [l] ⟨0, 0, l.length, l.length⟩ (by simp)
  simp only [sortedListBySortDescriptors]
  rw [this.1, this.2 _ (by simp), hrd]

end FpgoVerif.C19
