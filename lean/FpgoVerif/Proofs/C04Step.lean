import FpgoVerif.Proofs.C04Http
/-! C04 — the step invariant: executing ANY operation of the alphabet from a well-formed state with valid
    handles gives a well-formed state with valid handles, and for every operation that is not a documented
    mutator (or a write of the caller) the new world is an extension of the old one. -/
namespace FpgoVerif.C04
open World

def EnvOk (w : World) (env : List (String × Handle)) : Prop := ∀ e ∈ env, e.2.ok w

structure Inv (st : State) : Prop where
  wf : Wf st.w
  env : EnvOk st.w st.env

theorem Inv.init : Inv State.init := ⟨Wf.init, by intro e he; simp [State.init] at he⟩

/-- heaps only grow (what validity of handles depends on) -/
structure Grow (w w' : World) : Prop where
  arrs : w.arrs.length ≤ w'.arrs.length
  strs : w.strs.length ≤ w'.strs.length
  sets : w.sets.length ≤ w'.sets.length
  arrLen : ∀ b, b < w.arrs.length → (w.arrAt b).length ≤ (w'.arrAt b).length

/-- existing arrays untouched (prefix), cells not dropped -/
theorem Grow.of_prefix {w w' : World} (ha : w.arrs <+: w'.arrs) (hs : w.strs.length ≤ w'.strs.length)
    (ht : w.sets.length ≤ w'.sets.length) : Grow w w' :=
  ⟨ha.length_le, hs, ht, fun b hb => by
    have : w'.arrAt b = w.arrAt b := getD_of_prefix ha hb _
    rw [this]; exact Nat.le_refl _⟩

theorem Le.grow {w w' : World} (h : Le w w') : Grow w w' :=
  Grow.of_prefix h.arrs h.strs.length_le h.sets.length_le

theorem sliceOk_grow {w w' : World} (h : Grow w w') {s : Slice} (hs : sliceOk w s) : sliceOk w' s :=
  ⟨Nat.lt_of_lt_of_le hs.1 h.arrs, Nat.le_trans hs.2.1 (h.arrLen _ hs.1), hs.2.2⟩

theorem Handle.ok_grow {w w' : World} (h : Grow w w') {x : Handle} (hx : x.ok w) : x.ok w' := by
  cases x with
  | arr s f => exact sliceOk_grow h hx
  | names ms b => trivial
  | str p => cases p with
    | none => trivial
    | some q => exact Nat.lt_of_lt_of_le hx h.strs
  | set p => exact Nat.lt_of_lt_of_le hx h.sets
  | sset p => exact Nat.lt_of_lt_of_le hx h.sets
  | uset p => exact Nat.lt_of_lt_of_le hx h.sets

theorem EnvOk.grow {w w' : World} (h : Grow w w') {env} (he : EnvOk w env) : EnvOk w' env :=
  fun e hm => Handle.ok_grow h (he e hm)

/-! ### handle lookup returns valid handles -/

theorem find_ok {st : State} (hi : Inv st) {n : String} {x : Handle} (h : st.find n = some x) : x.ok st.w := by
  unfold State.find at h
  split at h
  · rename_i e he
    cases h
    exact hi.env e (List.mem_of_find?_eq_some he)
  · cases h

theorem findStr_lt {st : State} (hi : Inv st) {n : String} {p : Nat} (h : findStr st n = some p) :
    p < st.w.strs.length := by
  unfold findStr at h
  split at h
  · rename_i q hq; cases h; exact find_ok hi hq
  · cases h

theorem findStrArg_lt {st : State} (hi : Inv st) {a : Option String} {q : Option Nat} (h : findStrArg st a = some q)
    {q' : Nat} (hq : q = some q') : q' < st.w.strs.length := by
  subst hq
  cases a with
  | none => simp [findStrArg] at h
  | some n =>
    simp only [findStrArg] at h
    split at h
    · rename_i p hp; cases h; exact find_ok hi hp
    · cases h

theorem findArr_ok {st : State} (hi : Inv st) {n : String} {s : Slice} {f : Bool} (h : findArr st n = some (s, f)) :
    sliceOk st.w s := by
  unfold findArr at h
  split at h
  · rename_i s' f' hs; cases h; exact find_ok hi hs
  · cases h

theorem findArr_lt {st : State} (hi : Inv st) {n : String} {s : Slice} {f : Bool} (h : findArr st n = some (s, f)) :
    s.arr < st.w.arrs.length := (findArr_ok hi h).1

theorem findArrArg_lt {st : State} (hi : Inv st) {a : Option String} {s : Slice} (h : findArrArg st a = some s) :
    s.arr < st.w.arrs.length := by
  cases a with
  | none => simp [findArrArg] at h; subst h; exact hi.wf.arr0
  | some n =>
    simp only [findArrArg, Option.map_eq_some_iff] at h
    obtain ⟨⟨s', f⟩, hs, rfl⟩ := h
    exact findArr_lt hi hs

theorem findSetLike_lt {st : State} (hi : Inv st) {n : String} {p : Nat} {b : Bool}
    (h : findSetLike st n = some (p, b)) : p < st.w.sets.length := by
  unfold findSetLike at h
  split at h
  · rename_i q hq; cases h; exact find_ok hi hq
  · rename_i q hq; cases h; exact find_ok hi hq
  · cases h

/-! ### the result of one operation -/

/-- what `exec` must deliver -/
def ExecOk (iface : Bool) (st : State) (op : Op) : Res → Prop
  | .ok w new _ => Wf w ∧ Grow st.w w ∧ (∀ e ∈ new, e.2.ok w) ∧ (op.isMutator iface = false → Le st.w w)
  | .err _ => True

theorem execOk_good {iface : Bool} {st : State} {op : Op} {w : World} (g : Good st.w w)
    (new : Option (String × Handle)) (hn : ∀ e ∈ new, e.2.ok w) (out : String) :
    ExecOk iface st op (.ok w new out) := ⟨g.wf, g.le.grow, hn, fun _ => g.le⟩

theorem execOk_same {iface : Bool} {st : State} {op : Op} (hi : Inv st)
    (new : Option (String × Handle)) (hn : ∀ e ∈ new, e.2.ok st.w) (out : String) :
    ExecOk iface st op (.ok st.w new out) := execOk_good (Good.refl hi.wf) new hn out

theorem execS1_res (iface : Bool) {w : World} (hw : Wf w) {p : Nat} (hp : p < w.strs.length) (k : S1)
    (hk : ∀ i, k = .remove i → iface = false) : StrRes w (execS1 iface w p k) := by
  cases k with
  | map f => exact strMap_res hw p _
  | filter f => exact strFilter_res hw p _
  | reject f => exact strFilter_res hw p _
  | notnil => exact strFilter_res hw p _
  | notnilp => exact strFilter_res hw p _
  | distinct => exact strDistinct_res hw p
  | clone => exact strClone_res hw p
  | reverse => exact strReverse_res hw p
  | sort c => exact strSort_res hw p _
  | sortidx c => exact strSortByIndex_res hw hp _
  | rmitem vs => exact strRemoveItem_res hw hp vs
  | append vs => exact strAppend_res hw hp vs
  | remove i =>
    have := hk i rfl
    subst this
    exact strRemoveG_res hw hp i

theorem execM1_res (iface streams : Bool) {w : World} (hw : Wf w) {p : Nat} (hp : p < w.sets.length) (k : M1)
    {r : World × Nat} (h : execM1 iface streams w p k = some r) : SetRes w r := by
  have hz : valOk w (zeroVal iface streams) := by
    unfold zeroVal; split
    · trivial
    · split <;> trivial
  cases k with
  | mapkey f => cases h; exact setMapKey_res hw p _
  | mapval f =>
    simp only [execM1] at h
    split at h
    · cases h
    · cases h; exact setMapVal_res hw p _ (fun _ => trivial)
  | add vs => cases h; exact setAdd_res hw hp hz vs
  | rmkeys vs => cases h; exact setRemoveKeys_res hw hp vs
  | rmvals vs =>
    simp only [execM1] at h
    split at h
    · cases h
    · cases h; exact setRemoveValues_res hw hp _
  | clone =>
    simp only [execM1] at h
    cases h
    split
    · exact ssClone_res hw p
    · exact setClone_res hw p

theorem execM2_res (streams : Bool) {w : World} (hw : Wf w) {p : Nat} (hp : p < w.sets.length) (q : Option Nat)
    (k : M2) {r : World × Nat} (h : execM2 streams w p q k = some r) : SetRes w r := by
  cases k with
  | union =>
    simp only [execM2] at h; cases h
    split
    · exact ssUnion_res hw hp q
    · exact setUnion_res hw hp q
  | inter =>
    simp only [execM2] at h; cases h
    split
    · exact ssInter_res hw p q
    · exact setInter_res hw p q
  | minus => simp only [execM2] at h; cases h; exact setMinus_res hw hp q
  | minusStreams =>
    simp only [execM2] at h
    split at h
    · cases h; exact ssMinusStreams_res hw p q
    · cases h

theorem m1Kind_ok {w : World} (streams : Bool) (k : M1) {p : Nat} (hp : p < w.sets.length) : (m1Kind streams k p).ok w := by
  unfold m1Kind; split
  · exact hp
  · split <;> exact hp

theorem m2Kind_ok {w : World} (iface streams : Bool) (k : M2) {p : Nat} (hp : p < w.sets.length) :
    (m2Kind iface streams k p).ok w := by
  unfold m2Kind; split
  · exact hp
  · split
    · split <;> exact hp
    · exact hp

theorem allSome_mem {α} : ∀ {l : List (Option α)} {r : List α}, allSome l = some r → ∀ x ∈ r, some x ∈ l
  | [], r, h, x, hx => by simp [allSome] at h; subst h; simp at hx
  | none :: t, r, h, x, hx => by simp [allSome] at h
  | some a :: t, r, h, x, hx => by
    simp only [allSome, Option.map_eq_some_iff] at h
    obtain ⟨r', hr', rfl⟩ := h
    rcases List.mem_cons.mp hx with rfl | hm
    · exact List.mem_cons_self ..
    · exact List.mem_cons_of_mem _ (allSome_mem hr' x hm)

theorem new_ok {w : World} {d : String} {h : Handle} (hh : h.ok w) :
    ∀ e ∈ (some (d, h) : Option (String × Handle)), e.2.ok w := by
  intro e he; cases he; exact hh

theorem none_ok {w : World} : ∀ e ∈ (none : Option (String × Handle)), e.2.ok w := by
  intro e he; cases he

theorem execExtend_ok (iface : Bool) {st : State} (hi : Inv st) (op : Op) (dst src : String)
    (args : List (Option String)) : ExecOk iface st op (execExtend st dst src args) := by
  unfold execExtend; split
  · rename_i p qs hp hq
    have h := strExtend_res hi.wf (findStr_lt hi hp) qs
    exact execOk_good h.1 _ (new_ok (h := .str (some _)) h.2) _
  · trivial

theorem execConcat_ok (iface : Bool) {st : State} (hi : Inv st) (op : Op) (dst src : String)
    (args : List (Option String)) : ExecOk iface st op (execConcat st dst src args) := by
  unfold execConcat; split
  · rename_i p ss hp hq
    have h := strConcat_res hi.wf (findStr_lt hi hp) ss
    exact execOk_good h.1 _ (new_ok (h := .str (some _)) h.2) _
  · trivial

/-- THE step invariant, for every operation of the alphabet and both families. -/
theorem exec_ok (iface : Bool) {st : State} (hi : Inv st) (op : Op) : ExecOk iface st op (exec iface st op) := by
  cases op with
  | arr dst len vals =>
    simp only [exec]; split
    · rename_i hlen
      have h := allocArr_good hi.wf vals
      exact execOk_good h.1 _ (new_ok (h := .arr { (st.w.allocArr vals).2 with len := len } true)
        ⟨h.2.1, h.2.2.1, hlen⟩) _
    · trivial
  | sub dst src lo hi' =>
    simp only [exec]; split
    · rename_i s f hs
      split
      · rename_i hc
        obtain ⟨hc1, hc2⟩ := hc
        have ho := findArr_ok (s := s) hi hs
        exact execOk_same hi _ (new_ok (h := .arr ⟨s.arr, s.off + lo, hi' - lo, s.cap - lo⟩ f)
          ⟨ho.1, by have := ho.2.1; show s.off + lo + (s.cap - lo) ≤ (st.w.arrAt s.arr).length; omega, by show hi' - lo ≤ s.cap - lo; omega⟩) _
      · trivial
    · trivial
  | wr a i v =>
    simp only [exec]; split
    · rename_i s f hs
      split
      · exact ⟨writeArr_wf hi.wf _ _ _, ⟨by simp [writeArr], Nat.le_refl _, Nat.le_refl _,
            fun b _ => writeArr_arrAt_len _ _ _ _ b⟩, none_ok,
          fun h => by simp [Op.isMutator] at h⟩
      · trivial
    · trivial
  | sfrom dst a =>
    simp only [exec]; split
    · rename_i s f hs
      have h := allocStr_good hi.wf (findArr_ok hi hs)
      exact execOk_good h.1 _ (new_ok (h := .str (some _)) h.2) _
    · trivial
  | toArr dst s =>
    simp only [exec]; split
    · have h := strToArray_res hi.wf (by assumption : Nat)
      exact execOk_good h.1 _ (new_ok (h := .arr _ false) h.2) _
    · trivial
  | s1 dst src k =>
    simp only [exec]; split
    · rename_i p hp
      by_cases hk : ∃ i, k = .remove i ∧ iface = true
      · obtain ⟨i, rfl, rfl⟩ := hk
        have h := strRemoveI_wf hi.wf (findStr_lt hi hp) i
        simp only [execS1, if_true]
        refine ⟨h.1, ⟨h.2.2.2.2.1, Nat.le_of_eq h.2.2.1.symm, Nat.le_of_eq (by rw [h.2.2.2.1]), h.2.2.2.2.2⟩, ?_,
          fun hm => by simp [Op.isMutator] at hm⟩
        apply new_ok (h := .str (some _))
        show (st.w.strRemoveI p i).2 < _
        rw [h.2.1, h.2.2.1]; exact findStr_lt hi hp
      · have h := execS1_res iface hi.wf (findStr_lt hi hp) k (by
          intro i hik
          cases iface with
          | false => rfl
          | true => exact absurd ⟨i, hik, rfl⟩ hk)
        exact execOk_good h.1 _ (new_ok (h := .str (some _)) h.2) _
    · trivial
  | sinter dst src arg =>
    simp only [exec]; split
    · rename_i p q hp hq
      have h := strInter_res hi.wf p q
      exact execOk_good h.1 _ (new_ok (h := .str (some _)) h.2) _
    · trivial
  | sminus dst src arg =>
    simp only [exec]; split
    · rename_i p q hp hq
      have h := strMinus_res hi.wf (findStr_lt hi hp) q
      exact execOk_good h.1 _ (new_ok (h := .str (some _)) h.2) _
    · trivial
  | extend dst src args => exact execExtend_ok iface hi _ dst src args
  | concat dst src args => exact execConcat_ok iface hi _ dst src args
  | mklist dst ms b =>
    simp only [exec]; split
    · split
      · exact execOk_same hi _ (new_ok (h := .names ms b) trivial) _
      · trivial
    · split
      · exact execOk_same hi _ (new_ok (h := .names ms b) trivial) _
      · trivial
  | extendv dst src l =>
    simp only [exec]; split
    · exact execExtend_ok iface hi _ dst src _
    · trivial
  | concatv dst src l =>
    simp only [exec]; split
    · exact execConcat_ok iface hi _ dst src _
    · trivial
  | s1v dst src a app =>
    simp only [exec]; split
    · rename_i p s f hp hs
      have h := execS1_res iface hi.wf (findStr_lt hi hp)
        (if app then S1.append (st.w.sliceContent s) else S1.rmitem (st.w.sliceContent s)) (by
          intro i hik; cases app <;> simp at hik)
      exact execOk_good h.1 _ (new_ok (h := .str (some _)) h.2) _
    · trivial
  | m1v dst src a k =>
    simp only [exec]; split
    · rename_i p streams s f hp hs
      split
      · rename_i w q hq
        have h := execM1_res iface streams hi.wf (findSetLike_lt hi hp) _ hq
        exact execOk_good h.1 _ (new_ok (m1Kind_ok streams _ h.2)) _
      · trivial
    · trivial
  | slen s => simp only [exec]; split <;> first | exact execOk_same hi _ none_ok _ | trivial
  | sget s i =>
    simp only [exec]; split
    · split <;> exact execOk_same hi _ none_ok _
    · trivial
  | shas s v => simp only [exec]; split <;> first | exact execOk_same hi _ none_ok _ | trivial
  | srel s arg sup => simp only [exec]; split <;> first | exact execOk_same hi _ none_ok _ | trivial
  | setFrom dst vs =>
    simp only [exec]
    have hz : valOk st.w (zeroVal iface false) := by unfold zeroVal; split <;> trivial
    have h := newSet_res hi.wf (mapOk_ofKeys hz vs)
    exact execOk_good h.1 _ (new_ok (h := .set _) h.2) _
  | setFromArr dst a =>
    simp only [exec]; split
    · have hz : valOk st.w (zeroVal iface false) := by unfold zeroVal; split <;> trivial
      have h := newSet_res hi.wf (mapOk_ofKeys hz (st.w.sliceContent (by assumption : Slice)))
      exact execOk_good h.1 _ (new_ok (h := .set _) h.2) _
    · trivial
  | setFromMap dst kvs =>
    simp only [exec]
    have h := newSet_res hi.wf (mapOk_ofPairs (kvs.map (fun kv => (kv.1, Val.int kv.2))) (by
      intro kv hkv; simp only [List.mem_map] at hkv; obtain ⟨a, _, rfl⟩ := hkv; trivial))
    exact execOk_good h.1 _ (new_ok (h := .set _) h.2) _
  | tnew dst =>
    simp only [exec]
    have h := newSet_res hi.wf (mapOk_nil st.w)
    exact execOk_good h.1 _ (new_ok (h := .sset _) h.2) _
  | tfrom dst vs =>
    simp only [exec]
    have h₁ := mapEntriesM_res (w₀ := st.w) (fun w _ _ => (w.newNilStream.1, Val.str (some w.newNilStream.2)))
      (fun w k v g _ => ⟨(newNilStream_res g.wf).1, (newNilStream_res g.wf).2⟩)
      (Spec.ofKeys (Val.str none) vs) st.w (Good.refl hi.wf) (mapOk_ofKeys (by trivial) vs)
    have h₂ := newSet_res h₁.1.wf h₁.2
    exact execOk_good (h₁.1.trans h₂.1) _ (new_ok (h := .sset _) h₂.2) _
  | tfromArr dst a =>
    simp only [exec]; split
    · rename_i s f hs
      have h₁ := mapEntriesM_res (w₀ := st.w) (fun w _ _ => (w.newNilStream.1, Val.str (some w.newNilStream.2)))
        (fun w k v g _ => ⟨(newNilStream_res g.wf).1, (newNilStream_res g.wf).2⟩)
        (Spec.ofKeys (Val.str none) (st.w.sliceContent s)) st.w (Good.refl hi.wf) (mapOk_ofKeys (by trivial) _)
      have h₂ := newSet_res h₁.1.wf h₁.2
      exact execOk_good (h₁.1.trans h₂.1) _ (new_ok (h := .sset _) h₂.2) _
    · trivial
  | tfromMap dst kvs =>
    simp only [exec]; split
    · rename_i es hes
      split
      · trivial
      · have hm : mapOk st.w (Spec.ofPairs (es.map (fun e => (e.1, Val.str e.2)))) := by
          apply mapOk_ofPairs
          intro kv hkv
          simp only [List.mem_map] at hkv
          obtain ⟨e, he, rfl⟩ := hkv
          have := allSome_mem hes e he
          simp only [List.mem_map, Option.map_eq_some_iff] at this
          obtain ⟨kv', _, q, hq, rfl⟩ := this
          cases q with
          | none => trivial
          | some q' => exact findStrArg_lt hi hq rfl
        have h := ssFromMap_res hi.wf hm
        exact execOk_good h.1 _ (new_ok (h := .sset _) h.2) _
    · trivial
  | m1 dst src k =>
    simp only [exec]; split
    · rename_i p streams hp
      split
      · rename_i w q hq
        have h := execM1_res iface streams hi.wf (findSetLike_lt hi hp) k hq
        exact execOk_good h.1 _ (new_ok (m1Kind_ok streams k h.2)) _
      · trivial
    · trivial
  | m2 dst src arg k =>
    simp only [exec]; split
    · rename_i p streams hp
      split
      · rename_i q hq
        split
        · rename_i w r hr
          have h := execM2_res streams hi.wf (findSetLike_lt hi hp) q k hr
          exact execOk_good h.1 _ (new_ok (m2Kind_ok iface streams k h.2)) _
        · trivial
      · trivial
    · trivial
  | mset m k v =>
    simp only [exec]; split
    · rename_i p hp
      split
      · rename_i w' hw'
        have h := setSet_wf hi.wf (v := .int v) (by trivial) hw'
        exact ⟨h.1, ⟨Nat.le_of_eq (by rw [h.2.1]), Nat.le_of_eq (by rw [h.2.2.1]), Nat.le_of_eq (by rw [h.2.2.2]),
            fun b _ => by simp [arrAt, h.2.1]⟩,
          none_ok, fun hm => by simp [Op.isMutator] at hm⟩
      · exact ⟨hi.wf, (Le.refl _).grow, none_ok, fun hm => by simp [Op.isMutator] at hm⟩
    · trivial
  | tset t k s =>
    simp only [exec]; split
    · rename_i p q hp hq
      have hv : ∀ q', q = some q' → q' < st.w.strs.length := fun q' h => findStrArg_lt hi hq h
      clear hq
      split
      · rename_i w' hw'
        have h := setSet_wf hi.wf (by
          cases q with
          | none => simp only; split <;> trivial
          | some q' => exact hv q' rfl) hw'
        exact ⟨h.1, ⟨Nat.le_of_eq (by rw [h.2.1]), Nat.le_of_eq (by rw [h.2.2.1]), Nat.le_of_eq (by rw [h.2.2.2]),
            fun b _ => by simp [arrAt, h.2.1]⟩,
          none_ok, fun hm => by simp [Op.isMutator] at hm⟩
      · exact ⟨hi.wf, (Le.refl _).grow, none_ok, fun hm => by simp [Op.isMutator] at hm⟩
    · trivial
  | tget dst t k =>
    simp only [exec]; split
    · rename_i p hp
      refine execOk_same hi _ (new_ok (h := .str _) ?_) _
      have hpl : p < st.w.sets.length := find_ok hi hp
      split
      · rename_i v hv
        have := lookup_ok (setMap_ok hi.wf p) hv
        cases v with
        | int n => trivial
        | str o => cases o with
          | none => trivial
          | some q => exact this
      · trivial
    · trivial
  | mhaskey m k => simp only [exec]; split <;> first | exact execOk_same hi _ none_ok _ | trivial
  | mhasval m v => simp only [exec]; split <;> first | exact execOk_same hi _ none_ok _ | trivial
  | msize m => simp only [exec]; split <;> first | exact execOk_same hi _ none_ok _ | trivial
  | mget m k => simp only [exec]; split <;> first | exact execOk_same hi _ none_ok _ | trivial
  | mrel m arg sup =>
    simp only [exec]; split
    · split <;> first | exact execOk_same hi _ none_ok _ | trivial
    · trivial
  | keys dst m =>
    simp only [exec]; split
    · have h := setKeys_res hi.wf (by assumption : Nat)
      exact execOk_good h.1 _ (new_ok (h := .arr _ false) h.2) _
    · trivial
  | vals dst m =>
    simp only [exec]; split
    · have h := setValues_res hi.wf (by assumption : Nat)
      exact execOk_good h.1 _ (new_ok (h := .arr _ false) h.2) _
    · trivial
  | hadd h ids =>
    simp only [exec]; split
    · rename_i p hp
      have f := httpAdd_frame ids hi.wf (findStr_lt hi hp)
      exact ⟨f.wf, Grow.of_prefix f.arrs f.strsLen f.sets.length_le, none_ok, fun hm => by simp [Op.isMutator] at hm⟩
    · trivial
  | hrem h ids =>
    simp only [exec]; split
    · rename_i p hp
      have f := httpRemove_frame ids hi.wf (findStr_lt hi hp)
      exact ⟨f.wf, Grow.of_prefix f.arrs f.strsLen f.sets.length_le, none_ok, fun hm => by simp [Op.isMutator] at hm⟩
    · trivial
  | hclear h =>
    simp only [exec]; split
    · rename_i p hp
      have f := httpClear_frame hi.wf p
      exact ⟨f.wf, Grow.of_prefix f.arrs f.strsLen f.sets.length_le, none_ok, fun hm => by simp [Op.isMutator] at hm⟩
    · trivial
  | bad => trivial

end FpgoVerif.C04
