import FpgoVerif.Props.C16
/-! `#print axioms` for every property theorem of C16; parsed by `check`. -/
#print axioms FpgoVerif.C16.C16_workers
#print axioms FpgoVerif.C16.C16_workers_bounds
#print axioms FpgoVerif.C16.C16_invariant
#print axioms FpgoVerif.C16.C16_result_ordered
#print axioms FpgoVerif.C16.C16_result_random
#print axioms FpgoVerif.C16.C16_once
#print axioms FpgoVerif.C16.C16_once_anytime
#print axioms FpgoVerif.C16.C16_applied_to_elements
#print axioms FpgoVerif.C16.C16_conc
#print axioms FpgoVerif.C16.C16_no_panic
#print axioms FpgoVerif.C16.C16_returns_after_all
#print axioms FpgoVerif.C16.C16_measure_decreases
#print axioms FpgoVerif.C16.C16_run_bounded
#print axioms FpgoVerif.C16.C16_no_deadlock
#print axioms FpgoVerif.C16.C16_terminates
#print axioms FpgoVerif.C16.C16_pmap_ordered
#print axioms FpgoVerif.C16.C16_pmap_random
#print axioms FpgoVerif.C16.C16_expected_obs
#print axioms FpgoVerif.C16.C16_skeleton
#print axioms FpgoVerif.C16.C16_driver_observable
