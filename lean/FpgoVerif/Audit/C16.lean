import FpgoVerif.Props.C16
/-! `#print axioms` for every property theorem of C16; parsed by `check`. -/
