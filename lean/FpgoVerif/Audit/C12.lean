import FpgoVerif.Props.C12
/-! `#print axioms` for every property theorem of C12; parsed by `check`. -/
