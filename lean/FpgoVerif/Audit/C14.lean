import FpgoVerif.Props.C14
/-! `#print axioms` for every property theorem of C14; parsed by `check`. -/
