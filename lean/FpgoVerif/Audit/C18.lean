import FpgoVerif.Props.C18
/-! `#print axioms` for every property theorem of C18; parsed by `check`. -/
