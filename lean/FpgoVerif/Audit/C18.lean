import FpgoVerif.Props.C18
/-! `#print axioms` for every property theorem of C18; parsed by `check`. -/
#print axioms FpgoVerif.C18.C18_spec_prefix
#print axioms FpgoVerif.C18.C18_spec_ok
#print axioms FpgoVerif.C18.C18_spec_err
#print axioms FpgoVerif.C18.C18_spec_total
#print axioms FpgoVerif.C18.C18_visit
#print axioms FpgoVerif.C18.C18_self_transport_recurses
#print axioms FpgoVerif.C18.C18_book
#print axioms FpgoVerif.C18.C18_book_frame
#print axioms FpgoVerif.C18.C18_storage
#print axioms FpgoVerif.C18.C18_setHTTPClient_inv
#print axioms FpgoVerif.C18.C18_runH_inv
#print axioms FpgoVerif.C18.C18_client_frame
#print axioms FpgoVerif.C18.C18_inv_other_clients
#print axioms FpgoVerif.C18.C18_client
