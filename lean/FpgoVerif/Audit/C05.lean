import FpgoVerif.Props.C05
/-! `#print axioms` for every property theorem of C05; parsed by `check`. -/
