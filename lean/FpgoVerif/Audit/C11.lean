import FpgoVerif.Props.C11
/-! `#print axioms` for every property theorem of C11; parsed by `check`. -/
#print axioms FpgoVerif.C11.C11_lazy
#print axioms FpgoVerif.C11.C11_lazy_initial
#print axioms FpgoVerif.C11.C11_once
#print axioms FpgoVerif.C11.C11_once_static
#print axioms FpgoVerif.C11.C11_once_log
#print axioms FpgoVerif.C11.C11_left_identity
#print axioms FpgoVerif.C11.C11_right_identity
#print axioms FpgoVerif.C11.C11_assoc
#print axioms FpgoVerif.C11.C11_laws_eval
#print axioms FpgoVerif.C11.C11_laws_subscribe
#print axioms FpgoVerif.C11.C11_subscribe_once
#print axioms FpgoVerif.C11.C11_subscribe_nil
#print axioms FpgoVerif.C11.C11_handlers
#print axioms FpgoVerif.C11.C11_eval_ignores_handlers
#print axioms FpgoVerif.C11.C11_yieldFromIO
#print axioms FpgoVerif.C11.C11_model_refines_spec
#print axioms FpgoVerif.C11.C11_skeleton
#print axioms FpgoVerif.C11.C11_derive_independent
#print axioms FpgoVerif.C11.C11_subscribe_split
#print axioms FpgoVerif.C11.C11_gated_delivery
#print axioms FpgoVerif.C11.C11_just_of_monad
