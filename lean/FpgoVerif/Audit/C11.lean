import FpgoVerif.Props.C11
/-! `#print axioms` for every property theorem of C11; parsed by `check`. -/
