import FpgoVerif.Props.C15
/-! `#print axioms` for every property theorem of C15; parsed by `check`. -/
