import FpgoVerif.Props.C04
/-! `#print axioms` for every property theorem of C04; parsed by `check`. -/
#print axioms FpgoVerif.C04.C04_step_inv
#print axioms FpgoVerif.C04.C04_step_extends
#print axioms FpgoVerif.C04.C04_step_persistent
#print axioms FpgoVerif.C04.C04_reachable_inv
#print axioms FpgoVerif.C04.C04_run_persistent
#print axioms FpgoVerif.C04.C04_program
#print axioms FpgoVerif.C04.C04_live_handles_valid
#print axioms FpgoVerif.C04.C04_set_touches_maps_only
#print axioms FpgoVerif.C04.C04_set_result
#print axioms FpgoVerif.C04.C04_write_touches_one_array
#print axioms FpgoVerif.C04.C04_ifaceRemove_returns_receiver
#print axioms FpgoVerif.C04.C04_newStream_content
#print axioms FpgoVerif.C04.C04_stream_results
#print axioms FpgoVerif.C04.C04_stream_results_binary
#print axioms FpgoVerif.C04.C04_toArray_detached
#print axioms FpgoVerif.C04.C04_clone_detached
#print axioms FpgoVerif.C04.C04_len_agrees
#print axioms FpgoVerif.C04.C04_effects_closed
#print axioms FpgoVerif.C04.C04_effects_inventory
#print axioms FpgoVerif.C04.C04_ifaceRemove_frame
#print axioms FpgoVerif.C04.C04_http_instances_independent
#print axioms FpgoVerif.C04.C04_headers_in_bounds
#print axioms FpgoVerif.C04.C04_ifaceRemove_content
#print axioms FpgoVerif.C04.C04_append_content
#print axioms FpgoVerif.C04.C04_concat_content
#print axioms FpgoVerif.C04.C04_extend_content
