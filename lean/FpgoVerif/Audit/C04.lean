import FpgoVerif.Props.C04
/-! `#print axioms` for every property theorem of C04; parsed by `check`. -/
