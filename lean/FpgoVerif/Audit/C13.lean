import FpgoVerif.Props.C13
/-! `#print axioms` for every property theorem of C13; parsed by `check`. -/
#print axioms FpgoVerif.C13.C13_no_panic
#print axioms FpgoVerif.C13.C13_correlation
#print axioms FpgoVerif.C13.C13_in_transit
#print axioms FpgoVerif.C13.C13_timeout_clean
#print axioms FpgoVerif.C13.C13_late_reply_discarded
#print axioms FpgoVerif.C13.C13_reply_never_stuck
#print axioms FpgoVerif.C13.C13_actor_keeps_serving
#print axioms FpgoVerif.C13.C13_pinned_code_panics
#print axioms FpgoVerif.C13.C13_fanin_conservation
#print axioms FpgoVerif.C13.C13_fanin_bound
#print axioms FpgoVerif.C13.C13_fanin_blocked_only_when_full
#print axioms FpgoVerif.C13.C13_fanin_released_by_recv
#print axioms FpgoVerif.C13.C13_fanin_no_deadlock
#print axioms FpgoVerif.C13.C13_fanin_all_received
#print axioms FpgoVerif.C13.C13_skel_AskOnce
#print axioms FpgoVerif.C13.C13_skel_AskOnceWithTimeout
#print axioms FpgoVerif.C13.C13_skel_AskChannel
#print axioms FpgoVerif.C13.C13_skel_Reply
#print axioms FpgoVerif.C13.C13_skel_New
#print axioms FpgoVerif.C13.C13_skel_NewByOptions
#print axioms FpgoVerif.C13.C13_skel_AskNewGenerics
#print axioms FpgoVerif.C13.C13_skel_AskNewByOptionsGenerics
#print axioms FpgoVerif.C13.C13_skel_Send
#print axioms FpgoVerif.C13.C13_fact_closes
#print axioms FpgoVerif.C13.C13_fact_selects
