import FpgoVerif.Props.C13
/-! `#print axioms` for every property theorem of C13; parsed by `check`. -/
