import FpgoVerif.Props.C02
/-! `#print axioms` for every property theorem of C02; parsed by `check`. -/
#print axioms FpgoVerif.C02.C02_table_methods
#print axioms FpgoVerif.C02.C02_table_int
#print axioms FpgoVerif.C02.C02_int_to_int
#print axioms FpgoVerif.C02.C02_table_float_to_int
#print axioms FpgoVerif.C02.C02_float_to_int
#print axioms FpgoVerif.C02.C02_float64_bits_to_int
#print axioms FpgoVerif.C02.C02_float32_bits_to_int
#print axioms FpgoVerif.C02.C02_table_misc
#print axioms FpgoVerif.C02.C02_unsupported
#print axioms FpgoVerif.C02.C02_nil
#print axioms FpgoVerif.C02.C02_toBool_int
#print axioms FpgoVerif.C02.C02_toBool_float
#print axioms FpgoVerif.C02.C02_bool_source
#print axioms FpgoVerif.C02.C02_table_int_to_float
#print axioms FpgoVerif.C02.C02_int_to_float
#print axioms FpgoVerif.C02.C02_table_float_to_uintptr
#print axioms FpgoVerif.C02.C02_float_to_uintptr
#print axioms FpgoVerif.C02.C02_table_string_to_int
#print axioms FpgoVerif.C02.C02_string_to_int
#print axioms FpgoVerif.C02.C02_table_float_to_float
#print axioms FpgoVerif.C02.C02_float_to_float
#print axioms FpgoVerif.C02.C02_table_string_to_float
#print axioms FpgoVerif.C02.C02_string_to_float64
#print axioms FpgoVerif.C02.C02_string_to_float32
#print axioms FpgoVerif.C02.C02_string_to_bool
#print axioms FpgoVerif.C02.C02_table_complete
