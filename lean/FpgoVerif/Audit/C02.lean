import FpgoVerif.Props.C02
/-! `#print axioms` for every property theorem of C02; parsed by `check`. -/
