import FpgoVerif.Props.C01
/-! `#print axioms` for every property theorem of C01; parsed by `check`. -/
