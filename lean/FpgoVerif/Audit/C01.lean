import FpgoVerif.Props.C01
/-! `#print axioms` for every property theorem of C01; parsed by `check`. -/
#print axioms FpgoVerif.C01.C01_agree
#print axioms FpgoVerif.C01.C01_absent_obsEq
#print axioms FpgoVerif.C01.C01_flatMap
#print axioms FpgoVerif.C01.C01_left_identity
#print axioms FpgoVerif.C01.C01_right_identity
#print axioms FpgoVerif.C01.C01_assoc
#print axioms FpgoVerif.C01.C01_assoc_pure
#print axioms FpgoVerif.C01.C01_toMaybe
#print axioms FpgoVerif.C01.C01_toMaybe_flattens
#print axioms FpgoVerif.C01.C01_clone
#print axioms FpgoVerif.C01.C01_total
#print axioms FpgoVerif.C01.C01_gen_interface_observed
#print axioms FpgoVerif.C01.C01_gen_someDef_methods
#print axioms FpgoVerif.C01.C01_gen_none_overrides
#print axioms FpgoVerif.C01.C01_gen_conversions_guarded
#print axioms FpgoVerif.C01.C01_observe_spec
