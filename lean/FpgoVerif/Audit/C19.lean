import FpgoVerif.Props.C19
/-! `#print axioms` for every property theorem of C19; parsed by `check`. -/
#print axioms FpgoVerif.C19.C19_api_is_sortBy
#print axioms FpgoVerif.C19.C19_sort_perm
#print axioms FpgoVerif.C19.C19_sort_ordered
#print axioms FpgoVerif.C19.C19_sort_stable
#print axioms FpgoVerif.C19.C19_sort_stable_positions
#print axioms FpgoVerif.C19.C19_sort_unique
#print axioms FpgoVerif.C19.C19_sortOrdered_asc
#print axioms FpgoVerif.C19.C19_sortOrdered_desc
#print axioms FpgoVerif.C19.C19_natural_orders_strictWeak
#print axioms FpgoVerif.C19.C19_compareTo_sign
#print axioms FpgoVerif.C19.C19_desc
#print axioms FpgoVerif.C19.C19_desc_strictWeak
#print axioms FpgoVerif.C19.C19_desc_single
#print axioms FpgoVerif.C19.C19_pinned_refuted
#print axioms FpgoVerif.C19.C19_sortedList
#print axioms FpgoVerif.C19.C19_sortedList_heap
#print axioms FpgoVerif.C19.C19_alias_variant_modifies_input
#print axioms FpgoVerif.C19.C19_sortInPlace
#print axioms FpgoVerif.C19.C19_nil_comparator_strictWeak
#print axioms FpgoVerif.C19.C19_builder_code_shape
#print axioms FpgoVerif.C19.C19_builder_fork
#print axioms FpgoVerif.C19.C19_forked_builders
#print axioms FpgoVerif.C19.C19_builder_reserved_capacity_aliases
#print axioms FpgoVerif.C19.C19_builder_fork_of_three_keys_aliases
#print axioms FpgoVerif.C19.C19_oracle_accepts_exactly_model
#print axioms FpgoVerif.C19.C19_oracle_desc
