import FpgoVerif.Props.C19
/-! `#print axioms` for every property theorem of C19; parsed by `check`. -/
#print axioms FpgoVerif.C19.C19_sort_perm
