import FpgoVerif.Props.C06
#print axioms FpgoVerif.C06.C06_pinned_code_panics
#print axioms FpgoVerif.C06.C06_offer_refines
