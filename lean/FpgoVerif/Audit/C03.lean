import FpgoVerif.Props.C03
/-! `#print axioms` for every property theorem of C03; parsed by `check`. -/
