import FpgoVerif.Props.C03
/-! `#print axioms` for every property theorem of C03; parsed by `check`. -/
#print axioms FpgoVerif.C03.C03_effects
#print axioms FpgoVerif.C03.C03_effects_queries
#print axioms FpgoVerif.C03.C03_map
#print axioms FpgoVerif.C03.C03_mapIndexed
#print axioms FpgoVerif.C03.C03_keys
#print axioms FpgoVerif.C03.C03_values
#print axioms FpgoVerif.C03.C03_reduce
#print axioms FpgoVerif.C03.C03_dropEq
#print axioms FpgoVerif.C03.C03_exists
#print axioms FpgoVerif.C03.C03_every
#print axioms FpgoVerif.C03.C03_some
#print axioms FpgoVerif.C03.C03_partition
#print axioms FpgoVerif.C03.C03_drop
#print axioms FpgoVerif.C03.C03_dropLast
#print axioms FpgoVerif.C03.C03_take
#print axioms FpgoVerif.C03.C03_takeLast
#print axioms FpgoVerif.C03.C03_tail
#print axioms FpgoVerif.C03.C03_head
#print axioms FpgoVerif.C03.C03_duplicateSlice
#print axioms FpgoVerif.C03.C03_prepend
#print axioms FpgoVerif.C03.C03_isDistinct
#print axioms FpgoVerif.C03.C03_isEqual
#print axioms FpgoVerif.C03.C03_uniqBy
#print axioms FpgoVerif.C03.C03_distinct
#print axioms FpgoVerif.C03.C03_filter
#print axioms FpgoVerif.C03.C03_reject
