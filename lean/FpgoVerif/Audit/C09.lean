import FpgoVerif.Props.C09
/-! `#print axioms` for every property theorem of C09; parsed by `check`. -/
