import FpgoVerif.Props.C07
/-! `#print axioms` for every property theorem of C07; parsed by `check`. -/
