import FpgoVerif.Props.C17
/-! `#print axioms` for every property theorem of C17; parsed by `check`. -/
