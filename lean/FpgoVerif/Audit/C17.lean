import FpgoVerif.Props.C17
/-! `#print axioms` for every property theorem of C17; parsed by `check`. -/
#print axioms FpgoVerif.C17.C17_url
#print axioms FpgoVerif.C17.C17_url_string
#print axioms FpgoVerif.C17.C17_template_wellformed
#print axioms FpgoVerif.C17.C17_url_side_condition_needed
#print axioms FpgoVerif.C17.C17_pinned_url_refuted
#print axioms FpgoVerif.C17.C17_table
#print axioms FpgoVerif.C17.C17_method
#print axioms FpgoVerif.C17.C17_generic
#print axioms FpgoVerif.C17.C17_method_model
#print axioms FpgoVerif.C17.C17_lazy
#print axioms FpgoVerif.C17.C17_call_sends_nothing
#print axioms FpgoVerif.C17.C17_once
#print axioms FpgoVerif.C17.C17_errors
#print axioms FpgoVerif.C17.C17_decode_errors
#print axioms FpgoVerif.C17.C17_decode_empty_body
#print axioms FpgoVerif.C17.C17_value_bodies_serialized
#print axioms FpgoVerif.C17.C17_pinned_decoder_panics
#print axioms FpgoVerif.C17.C17_shared_header_refuted
