import FpgoVerif.Props.C08
/-! `#print axioms` for every property theorem of C08; parsed by `check`. -/
