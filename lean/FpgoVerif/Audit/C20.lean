import FpgoVerif.Props.C20
/-! `#print axioms` for every property theorem of C20; parsed by `check`. -/
