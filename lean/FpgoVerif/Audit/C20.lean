import FpgoVerif.Props.C20
/-! `#print axioms` for every property theorem of C20; parsed by `check`. -/
#print axioms FpgoVerif.C20.C20_compose
#print axioms FpgoVerif.C20.C20_compose_total
#print axioms FpgoVerif.C20.C20_pipe
#print axioms FpgoVerif.C20.C20_pipe_total
#print axioms FpgoVerif.C20.C20_compose_pipe_empty
#print axioms FpgoVerif.C20.C20_compose_pipe_reverse
#print axioms FpgoVerif.C20.C20_compose_regroup
#print axioms FpgoVerif.C20.C20_pipe_regroup
#print axioms FpgoVerif.C20.C20_compose_pipe_spec
#print axioms FpgoVerif.C20.C20_makeVariadicParam
#print axioms FpgoVerif.C20.C20_makeVariadicReturn
#print axioms FpgoVerif.C20.C20_curryParam
#print axioms FpgoVerif.C20.C20_trampoline
#print axioms FpgoVerif.C20.C20_trampoline_first_stop
#print axioms FpgoVerif.C20.C20_trampoline_runs_on
