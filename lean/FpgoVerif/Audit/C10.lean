import FpgoVerif.Props.C10
/-! `#print axioms` for every property theorem of C10; parsed by `check`. -/
#print axioms FpgoVerif.C10.C10_inv
