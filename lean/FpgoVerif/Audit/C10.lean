import FpgoVerif.Props.C10
/-! `#print axioms` for every property theorem of C10; parsed by `check`. -/
#print axioms FpgoVerif.C10.C10_run_reach
#print axioms FpgoVerif.C10.C10_snapshot_stable
#print axioms FpgoVerif.C10.C10_once
#print axioms FpgoVerif.C10.C10_once_log
#print axioms FpgoVerif.C10.C10_log_running
#print axioms FpgoVerif.C10.C10_once_running
#print axioms FpgoVerif.C10.C10_unsubscribed_stays_out
#print axioms FpgoVerif.C10.C10_map_partial
#print axioms FpgoVerif.C10.C10_map_compose
#print axioms FpgoVerif.C10.C10_witness_map
#print axioms FpgoVerif.C10.C10_handler
#print axioms FpgoVerif.C10.C10_prefix_in_place_compaction_refuted
#print axioms FpgoVerif.C10.C10_prefix_not_once
#print axioms FpgoVerif.C10.C10_witness_fixed
#print axioms FpgoVerif.C10.C10_witness_nil
#print axioms FpgoVerif.C10.C10_skel_doSubscribeSafe
#print axioms FpgoVerif.C10.C10_skel_Publish
#print axioms FpgoVerif.C10.C10_skel_Subscribe
#print axioms FpgoVerif.C10.C10_skel_Unsubscribe
#print axioms FpgoVerif.C10.C10_skel_Map
#print axioms FpgoVerif.C10.C10_skel_SubscribeOn
#print axioms FpgoVerif.C10.C10_fact_unsubscribe_copies
#print axioms FpgoVerif.C10.C10_fact_subscribe_appends
#print axioms FpgoVerif.C10.C10_fact_publish_snapshot
