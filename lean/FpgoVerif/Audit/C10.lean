import FpgoVerif.Props.C10
/-! `#print axioms` for every property theorem of C10; parsed by `check`. -/
