/-! Executable model for property C18 (core-only): the interceptor chain of `SimpleHTTPDef`
    (network/simpleHTTP.go l.32-123).

    * interceptors are pointers (`Nat` ids) kept in a persistent `Stream` (a list value):
      `AddInterceptor` = one `Append` per argument, `RemoveInterceptor` = one `RemoveItem` (= `Minus`) per
      argument, `ClearInterceptor` = the empty stream;
    * `SetHTTPClient` installs the SimpleHTTP itself as the client's `RoundTripper`, keeping the client's
      old transport in `clientTransport`; `lastTransport` is the re-wrap guard;
    * `RoundTrip` = `recursiveVisit request 0`, which walks the list by index and finally calls
      `clientTransport.RoundTrip`; a transport that is the SimpleHTTP itself re-enters `RoundTrip`
      (the model follows it with fuel; running out of fuel is Go's fatal stack overflow, printed `crash`).
    * an interceptor's behaviour is a parameter `beh : id → Req → Req × Bool` (new request state, failed?);
      the request state is the list of `X-Trace` header values, so header threading is observable. -/
namespace FpgoVerif.C18

/-- a `http.RoundTripper`: `http.DefaultTransport`, a stub, or this SimpleHTTP itself -/
inductive Tr | dflt | stub (n : Nat) | self
deriving DecidableEq, Repr

abbrev Req := List Nat

structure SH where
  interceptors : List Nat
  client : Nat
  clientTransport : Option Tr
  lastTransport : Option Tr
deriving DecidableEq, Repr

/-- the `Transport` field of every `*http.Client` the program holds (`none` = nil) -/
abbrev Clients := List (Option Tr)

inductive Ev
  | icpt (id : Nat) (seen : Req)
  | transport (t : Tr) (seen : Req)
deriving DecidableEq, Repr

inductive Res | ok | terr | err (id : Nat) | panic | crash
deriving DecidableEq, Repr

/-! ### bookkeeping (l.65-82) -/

/-- `fpgo.Minus(set1, set2)`: the items of `set1` not in `set2`, in order -/
def minus (set1 set2 : List Nat) : List Nat := set1.filter (fun x => !set2.contains x)

/-- `Stream.Append(item)` = `Concat`: a fresh slice with the item at the end -/
def append (l : List Nat) (x : Nat) : List Nat := l ++ [x]

def addInterceptor (s : SH) (xs : List Nat) : SH :=
  { s with interceptors := xs.foldl append s.interceptors }

def removeInterceptor (s : SH) (xs : List Nat) : SH :=
  { s with interceptors := xs.foldl (fun l x => minus l [x]) s.interceptors }

def clearInterceptor (s : SH) : SH := { s with interceptors := [] }

/-! ### SetHTTPClient (l.90-106) -/

def setHTTPClient (s : SH) (cs : Clients) (c : Nat) : SH × Clients :=
  -- if client.Transport == nil { client.Transport = http.DefaultTransport }
  let t : Tr := ((cs[c]?).getD none).getD .dflt
  let cs := cs.set c (some t)
  -- if client.Transport != lastTransport { clientTransport = client.Transport; client.Transport = self; lastTransport = self }
  if some t ≠ s.lastTransport then
    ({ s with clientTransport := some t, lastTransport := some .self, client := c }, cs.set c (some .self))
  else
    ({ s with client := c }, cs)

/-- `NewSimpleHTTPWithClientAndInterceptors(client, interceptors...)` -/
def newSimpleHTTP (cs : Clients) (c : Nat) (is : List Nat) : SH × Clients :=
  setHTTPClient ⟨is, c, none, none⟩ cs c

/-! ### RoundTrip / recursiveVisit (l.109-123) -/

/-- `recursiveVisit(request, index)`; `fuel` bounds the total number of steps (index steps and
    re-entries through a transport that is the SimpleHTTP itself) -/
def recursiveVisit (beh : Nat → Req → Req × Bool) (tf : Tr → Bool) (s : SH) : Nat → Req → Nat → List Ev × Res
  | 0, _, _ => ([], .crash)
  | fuel + 1, req, index =>
    if index ≥ s.interceptors.length ∧ s.clientTransport.isSome then
      match s.clientTransport with
      | some .self => recursiveVisit beh tf s fuel req 0       -- clientTransport.RoundTrip = our own RoundTrip
      | some t => ([.transport t req], if tf t then .terr else .ok)   -- the transport's own verdict (`tf t` = it fails)
      | none => ([], .panic)
    else
      match s.interceptors[index]? with
      | none => ([], .panic)                                    -- index out of range
      | some i =>
        let r := beh i req
        if r.2 then ([.icpt i req], .err i)
        else
          let rest := recursiveVisit beh tf s fuel r.1 (index + 1)
          (.icpt i req :: rest.1, rest.2)

/-- fuel that the driver hands out: enough for any non-recursive walk, finite for a recursive one -/
def fuelFor (s : SH) : Nat := 4 * (s.interceptors.length + 2)

/-- `client.Do(request)` on the SimpleHTTP's current client (`DoRequest`, l.221-229) -/
def clientDo (beh : Nat → Req → Req × Bool) (tf : Tr → Bool) (s : SH) (cs : Clients) (req : Req) : List Ev × Res :=
  match ((cs[s.client]?).getD none).getD .dflt with
  | .self => recursiveVisit beh tf s (fuelFor s) req 0
  | t => ([.transport t req], if tf t then .terr else .ok)

/-! ### specification -/

/-- what the property prescribes for one request: every registered interceptor once, in order, each
    seeing the headers its predecessors left, the first error aborts, otherwise the transport sees the
    final request exactly once (and its failure, whatever KIND of error it is, is the result: nothing is re-run) -/
def Spec.visit (beh : Nat → Req → Req × Bool) (tf : Tr → Bool) (t : Tr) : List Nat → Req → List Ev × Res
  | [], req => ([.transport t req], if tf t then .terr else .ok)
  | i :: rest, req =>
    let r := beh i req
    if r.2 then ([.icpt i req], .err i)
    else
      let tl := Spec.visit beh tf t rest r.1
      (.icpt i req :: tl.1, tl.2)

inductive Op
  | add (xs : List Nat)
  | rem (xs : List Nat)
  | clear
deriving DecidableEq, Repr

/-- the registration list the property prescribes after a history -/
def Spec.book (l : List Nat) : List Op → List Nat
  | [] => l
  | .add xs :: ops => Spec.book (l ++ xs) ops
  | .rem xs :: ops => Spec.book (l.filter (fun x => !xs.contains x)) ops
  | .clear :: ops => Spec.book [] ops

def applyOp (s : SH) : Op → SH
  | .add xs => addInterceptor s xs
  | .rem xs => removeInterceptor s xs
  | .clear => clearInterceptor s

/-! ### where the list lives: Go slices over backing arrays

    `interceptors` is a `StreamDef[*Interceptor]`, i.e. a Go slice.  The constructor stores the CALLER's variadic slice
    (`StreamDef(interceptors)`, no copy), so whether the bookkeeping operations ever write into an existing backing array
    decides whether the caller's slice (and any other instance built from it) can change behind its back.  `Store` is the
    heap of backing arrays (list length = capacity), `Sl` a slice header.  The current code allocates in every operation:
    `Append` = `Concat` copies into a fresh array, `RemoveItem` = `Minus` fills a fresh `make([]T, len)`, `Clear` is a fresh
    empty stream. -/

structure Sl where
  arr : Nat
  len : Nat
deriving DecidableEq, Repr

abbrev Store := List (List Nat)

def readS (st : Store) (sl : Sl) : List Nat := ((st[sl.arr]?).getD []).take sl.len

def allocS (st : Store) (content : List Nat) (len : Nat) : Store × Sl := (st ++ [content], ⟨st.length, len⟩)

/-- `Stream.Append(x)` → `Concat(ToArray(), [x])`: a new array of exactly the total length -/
def appendS (st : Store) (sl : Sl) (x : Nat) : Store × Sl :=
  allocS st (readS st sl ++ [x]) ((readS st sl).length + 1)

/-- `Stream.RemoveItem(x)` → `Minus`: `result := make([]T, len(set1))`, filled from the front, `result[:n]` -/
def minusS (st : Store) (sl : Sl) (x : Nat) : Store × Sl :=
  let l := readS st sl
  let r := minus l [x]
  allocS st (r ++ List.replicate (l.length - r.length) 0) r.length

def addInterceptorS (st : Store) (sl : Sl) (xs : List Nat) : Store × Sl :=
  xs.foldl (fun a x => appendS a.1 a.2 x) (st, sl)

def removeInterceptorS (st : Store) (sl : Sl) (xs : List Nat) : Store × Sl :=
  xs.foldl (fun a x => minusS a.1 a.2 x) (st, sl)

def clearInterceptorS (st : Store) (_sl : Sl) : Store × Sl := allocS st [] 0

def applyOpS (a : Store × Sl) : Op → Store × Sl
  | .add xs => addInterceptorS a.1 a.2 xs
  | .rem xs => removeInterceptorS a.1 a.2 xs
  | .clear => clearInterceptorS a.1 a.2

/-! ### line protocol
    `clients=<n|d|s<k>>,… fail=<ids|-> kind=<error kind> tfail=<d|s<k>,…|-> st=<status> defs=<ids|->+<spare> new=c<k>:<ids|-|D>: op ; op …`
    (`defs` = a caller-owned slice of interceptor pointers with `spare` unused capacity; `D` = "pass that slice": `new=c0:D` is
    `NewSimpleHTTPWithClientAndInterceptors(client, defaults...)`.  Several instances may live in one case: `inst c<k> <ids|D>`
    creates another one with the WithClient constructor (`retr <n|d|s<k>>` = take the instance's OWN client with
    `GetHTTPClient()`, replace its `Transport`, hand it back with `SetHTTPClient`), `instd` / `insta` with `NewSimpleHTTP()` / `NewSimpleAPI(url)` (a
    fresh `&http.Client{}` each); an op prefixed `@<j>` addresses instance j (default 0).  Generated cases never hand the
    same client to two instances — that is outside the property.)
    (`kind` = what sort of error failing interceptors / transports return — plain, net.Error Temporary/Timeout,
    context.DeadlineExceeded, ECONNRESET, wrapped …; `st` = the status code the stub transports answer with;
    neither may make a difference, so the model ignores them)
    ops: `add i,j` `rem i,j` `rem -` `clear` `set c<k>` `req <VERB>`
    observation of `req`: `i<id>:<trace> … T<name>:<trace> ->ok|->err<id>|->panic|->crash`; others `nil`. -/

def parseIds (s : String) : List Nat :=
  if s = "-" ∨ s = "" then [] else (s.splitOn ",").filterMap (·.toNat?)

def parseTr (s : String) : Option Tr :=
  if s = "n" then none else if s = "d" then some .dflt
  else if s.startsWith "s" then some (.stub ((s.drop 1).toString.toNat?.getD 0)) else some .dflt

def showTrace (r : Req) : String := ".".intercalate (r.map toString)

def Tr.show : Tr → String
  | .dflt => "d" | .stub n => s!"s{n}" | .self => "self"

def Ev.show : Ev → String
  | .icpt i r => s!"i{i}:{showTrace r}"
  | .transport t r => s!"T{t.show}:{showTrace r}"

def Res.show : Res → String
  | .ok => "->ok" | .terr => "->terr" | .err i => s!"->err{i}" | .panic => "->panic" | .crash => "->crash"

def showResult (x : List Ev × Res) : String :=
  " ".intercalate (x.1.map Ev.show ++ [x.2.show])

def kv (toks : List String) (key : String) : String :=
  match toks.find? (·.startsWith (key ++ "=")) with
  | some t => (t.drop (key.length + 1)).toString
  | none => ""

def clientIdx (s : String) : Nat := ((s.drop 1).toString.toNat?.getD 0)

/-- the interceptor behaviour of the harness: append the own id to `X-Trace`, fail iff listed -/
def behOf (fail : List Nat) : Nat → Req → Req × Bool := fun i r => (r ++ [i], fail.contains i)

/-- the failing transports of the harness, by name -/
def tfOf (names : List String) : Tr → Bool := fun t => names.contains t.show

def parseNames (s : String) : List String := if s = "-" ∨ s = "" then [] else s.splitOn ","

/-- `nest=<id>`: interceptor `id` of the harness, when it sees an outer request, first issues a request of its own THROUGH THE
    SAME SimpleHTTP (a token refresh, say) and then goes on.  The nested request is an ordinary request: it runs the whole chain
    (the nesting interceptor does not nest again for it), so its call log appears right after the interceptor's own event. -/
def withNested (nest : Option Nat) (outer : List Ev × Res) (nested : List Ev × Res) : List Ev × Res :=
  match nest with
  | none => outer
  | some n => (outer.1.flatMap (fun e => match e with
      | .icpt i _ => if i = n then e :: nested.1 else [e]
      | _ => [e]), outer.2)

/-- `share=1`: several instances built with `NewSimpleHTTPWithClientAndInterceptors` on the SAME `*http.Client`.  On the current
    code each new instance finds the previous one as the client's transport, keeps it as its `clientTransport` and installs itself:
    the client's transport is the LAST instance, whose transport is the one before, … down to the client's original transport.  All
    instances hold that one client, so a request through any of them runs the chain of every instance, latest first, each seeing
    the headers left by the ones before, and an error aborts everything after it. -/
def chainDo (beh : Nat → Req → Req × Bool) (tf : Tr → Bool) (finalT : Tr) : List (List Nat) → Req → List Ev × Res
  | [], req => ([.transport finalT req], if tf finalT then .terr else .ok)
  | is :: rest, req =>
    let r := Spec.visit beh (fun _ => false) finalT is req       -- this instance's chain; its "transport" is the next instance
    match r.2, r.1.getLast? with
    | .ok, some (.transport _ req') =>
      let tl := chainDo beh tf finalT rest req'
      (r.1.dropLast ++ tl.1, tl.2)
    | _, _ => r

structure Inst where
  s : SH        -- (its `interceptors` field is refreshed from the store before use)
  sl : Sl
deriving Repr

structure St where
  insts : List Inst
  cs : Clients
  store : Store
  dsl : Sl      -- the caller's `defaults` slice

def Inst.sh (st : St) (i : Inst) : SH := { i.s with interceptors := readS st.store i.sl }

def splitCase (line : String) : String × List String :=
  match line.splitOn ": " with
  | head :: rest =>
    (head, ((": ".intercalate rest).splitOn ";").map (fun t => t.trimAscii.toString) |>.filter (· ≠ ""))
  | [] => ("", [])

/-- `defs=<ids|->+<spare>` -/
def parseDefs (s : String) : List Nat × Nat :=
  match s.splitOn "+" with
  | [ids, sp] => (parseIds ids, sp.toNat?.getD 0)
  | [ids] => (parseIds ids, 0)
  | _ => ([], 0)

/-- a new instance through `NewSimpleHTTPWithClientAndInterceptors(client c, …)`: `D` aliases the caller's slice,
    an explicit list is a fresh variadic slice -/
def newInst (st : St) (c : Nat) (is : String) : St :=
  let (store, sl) := if is = "D" then (st.store, st.dsl) else
    let l := parseIds is
    allocS st.store l l.length
  let (s, cs) := newSimpleHTTP st.cs c (readS store sl)
  { st with insts := st.insts ++ [⟨s, sl⟩], cs := cs, store := store }

def parseNest (head : String) : Option Nat := (kv (head.splitOn " ") "nest").toNat?

def initSt (head : String) : St × List Nat × List String :=
  let toks := head.splitOn " "
  let cs : Clients := ((kv toks "clients").splitOn ",").map parseTr
  let fail := parseIds (kv toks "fail")
  let (dl, spare) := parseDefs (kv toks "defs")
  let st0 : St := ⟨[], cs, [dl ++ List.replicate spare 0], ⟨0, dl.length⟩⟩
  let st := match (kv toks "new").splitOn ":" with
    | [c, is] => newInst st0 (clientIdx c) is
    | _ => newInst st0 0 "-"
  (st, fail, parseNames (kv toks "tfail"))

def setInst (st : St) (j : Nat) (i : Inst) : St := { st with insts := st.insts.set j i }

def runOpOn (share : Option Tr) (nest : Option Nat) (fail : List Nat) (tfail : List String) (st : St) (j : Nat) (toks : List String) : St × String :=
  match st.insts[j]? with
  | none => (st, "noinst")
  | some i =>
    let book (r : Store × Sl) : St × String := ({ setInst st j { i with sl := r.2 } with store := r.1 }, "nil")
    match toks with
    | ["add", xs] => book (addInterceptorS st.store i.sl (parseIds xs))
    | ["addd"] => book (addInterceptorS st.store i.sl (readS st.store st.dsl))
    | ["rem", xs] => book (removeInterceptorS st.store i.sl (parseIds xs))
    | ["remd"] => book (removeInterceptorS st.store i.sl (readS st.store st.dsl))
    | ["clear"] => book (clearInterceptorS st.store i.sl)
    | ["set", c] =>
      let (s, cs) := setHTTPClient (i.sh st) st.cs (clientIdx c)
      ({ setInst st j { i with s := s } with cs := cs }, "nil")
    | ["retr", t] =>
      -- the usual way to change the underlying transport: c := GetHTTPClient(); c.Transport = t; SetHTTPClient(c)
      let (s, cs) := setHTTPClient (i.sh st) (st.cs.set i.s.client (parseTr t)) i.s.client
      ({ setInst st j { i with s := s } with cs := cs }, "nil")
    | ["req", _verb] =>
      -- (the verb — also CANCELLED / EXPIRED: a request whose context is already done — makes no difference to the chain)
      match share with
      | some finalT =>
        (st, showResult (chainDo (behOf fail) (tfOf tfail) finalT (st.insts.reverse.map (fun i => readS st.store i.sl)) []))
      | none =>
      let one := clientDo (behOf fail) (tfOf tfail) (i.sh st) st.cs []
      (st, showResult (withNested nest one one))
    | _ => (st, "bad-op")

def parseShare (head : String) : Option Tr :=
  let toks := head.splitOn " "
  if kv toks "share" = "1" then some ((parseTr (((kv toks "clients").splitOn ",").headD "d")).getD .dflt) else none

def runOp (share : Option Tr) (nest : Option Nat) (fail : List Nat) (tfail : List String) (st : St) (op : String) : St × String :=
  match (op.splitOn " ").filter (· ≠ "") with
  | ["inst", c, is] => (newInst st (clientIdx c) is, "nil")
  | ["instd"] | ["insta"] =>
    -- NewSimpleHTTP(): NewSimpleHTTPWithClientAndInterceptors(&http.Client{}) — a fresh client, no interceptors
    (newInst { st with cs := st.cs ++ [none] } st.cs.length "-", "nil")
  | t :: rest =>
    if t.startsWith "@" then runOpOn share nest fail tfail st ((t.drop 1).toString.toNat?.getD 0) rest
    else runOpOn share nest fail tfail st 0 (t :: rest)
  | [] => (st, "bad-op")

def handle (line : String) : String :=
  let (head, ops) := splitCase line
  let (st0, fail, tfail) := initSt head
  let (_, outs) := ops.foldl (fun (acc : St × List String) op =>
    let (st, o) := runOp (parseShare head) (parseNest head) fail tfail acc.1 op
    (st, o :: acc.2)) (st0, [])
  " | ".intercalate outs.reverse

/-! ### specification-level oracle: per instance the registration list by `Spec.book` (the caller's `defaults` are the
    constant they were created as — no operation may change them), the call log by `Spec.visit` over the instance's OWN
    list only; WHICH underlying transport finally receives the request is not part of the property, so any single transport
    event with the right request is accepted. -/

def specEvents (nest : Option Nat) (fail : List Nat) (is : List Nat) : List String × String :=
  let one := Spec.visit (behOf fail) (fun _ => false) .dflt is []
  -- an overlapping (nested) request through the same instance is a request like any other: full chain, once
  let r := withNested nest one one
  (r.1.map (fun e => match e with
    | .icpt .. => e.show
    | .transport _ req => ":" ++ showTrace req), r.2.show)

def obsMatches (tfail : List String) (exp : List String × String) (obs : String) : Bool :=
  let toks := (obs.splitOn " ").filter (· ≠ "")
  let evs := toks.dropLast
  -- the transport that was reached decides between ->ok and ->terr
  let expRes := if exp.2 = "->ok" then
      match evs.getLast? with
      | some t => if tfail.contains ((((t.drop 1).toString).splitOn ":").headD "") then "->terr" else "->ok"
      | none => "->ok"
    else exp.2
  toks.getLast? = some expRes && evs.length = exp.1.length &&
    (evs.zip exp.1).all (fun p =>
      if p.2.startsWith ":" then
        p.1.startsWith "T" && !p.1.startsWith "Tself" && (p.1.splitOn ":").drop 1 = [(p.2.drop 1).toString]
      else p.1 = p.2)

def judge (line impl : String) : String :=
  let (head, ops) := splitCase line
  let toks := head.splitOn " "
  let fail := parseIds (kv toks "fail")
  let tfail := parseNames (kv toks "tfail")
  let defs := (parseDefs (kv toks "defs")).1
  let idsOf (s : String) : List Nat := if s = "D" then defs else parseIds s
  let is0 := match (kv toks "new").splitOn ":" with
    | [_, is] => idsOf is
    | _ => []
  let obs := impl.splitOn " | "
  if impl = "crash" ∨ impl = "hang" then "violation the process died / hung while running the case (unbounded recursion through the chain?)" else
  if obs.length ≠ ops.length then "violation wrong number of observations" else
  let (_, bad) := (ops.zip obs).foldl (fun (acc : List (List Nat) × List String) oo =>
    let toks := (oo.1.splitOn " ").filter (· ≠ "")
    let (j, toks) := match toks with
      | t :: rest => if t.startsWith "@" then ((t.drop 1).toString.toNat?.getD 0, rest) else (0, toks)
      | [] => (0, [])
    let expectNil (l : List (List Nat)) := (l, if oo.2 = "nil" then acc.2 else acc.2 ++ [s!"op '{oo.1}' observed '{oo.2}'"])
    match toks with
    | ["inst", _, is] => expectNil (acc.1 ++ [idsOf is])
    | ["instd"] | ["insta"] => expectNil (acc.1 ++ [[]])
    | _ =>
    match acc.1[j]? with
    | none => (acc.1, if oo.2 = "noinst" then acc.2 else acc.2 ++ [s!"op '{oo.1}' observed '{oo.2}'"])
    | some l =>
      let upd (l' : List Nat) := expectNil (acc.1.set j l')
      match toks with
      | ["add", xs] => upd (Spec.book l [.add (parseIds xs)])
      | ["addd"] => upd (Spec.book l [.add defs])
      | ["rem", xs] => upd (Spec.book l [.rem (parseIds xs)])
      | ["remd"] => upd (Spec.book l [.rem defs])
      | ["clear"] => upd []
      | ["set", _] => upd l
      | ["retr", _] => upd l
      | ["req", _] =>
        let exp := match parseShare head with
          | some _ =>
            -- the instances share one client: the request runs every instance's chain, latest instance first (see `chainDo`)
            let r := chainDo (behOf fail) (fun _ => false) .dflt acc.1.reverse []
            (r.1.map (fun e => match e with
              | .icpt .. => e.show
              | .transport _ req => ":" ++ showTrace req), r.2.show)
          | none => specEvents (parseNest head) fail l
        if obsMatches tfail exp oo.2 then acc
        else (acc.1, acc.2 ++ [s!"op '{oo.1}' on instance {j} with registered interceptors {l}: observed '{oo.2}', property demands '{" ".intercalate (exp.1 ++ [exp.2])}' (':trace' = any one transport)"])
      | _ => acc) ([is0], [])
  match bad with
  | [] => "allowed call logs are what the property prescribes (model differs, e.g. in which transport is used)"
  | b :: _ => "violation " ++ b

end FpgoVerif.C18
