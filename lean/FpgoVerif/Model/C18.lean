/-! Executable model for property C18 (core-only): the interceptor chain of `SimpleHTTPDef`
    (network/simpleHTTP.go l.32-123).

    * interceptors are pointers (`Nat` ids) kept in a persistent `Stream` (a list value):
      `AddInterceptor` = one `Append` per argument, `RemoveInterceptor` = one `RemoveItem` (= `Minus`) per
      argument, `ClearInterceptor` = the empty stream;
    * `SetHTTPClient` installs the SimpleHTTP itself as the client's `RoundTripper`, keeping the client's
      old transport in `clientTransport`; `lastTransport` is the re-wrap guard;
    * `RoundTrip` = `recursiveVisit request 0`, which walks the list by index and finally calls
      `clientTransport.RoundTrip`; a transport that is the SimpleHTTP itself re-enters `RoundTrip`
      (the model follows it with fuel; running out of fuel is Go's fatal stack overflow, printed `crash`).
    * an interceptor's behaviour is a parameter `beh : id → Req → Req × Bool` (new request state, failed?);
      the request state is the list of `X-Trace` header values, so header threading is observable. -/
namespace FpgoVerif.C18

/-- a `http.RoundTripper`: `http.DefaultTransport`, a stub, or this SimpleHTTP itself -/
inductive Tr | dflt | stub (n : Nat) | self
deriving DecidableEq, Repr

abbrev Req := List Nat

structure SH where
  interceptors : List Nat
  client : Nat
  clientTransport : Option Tr
  lastTransport : Option Tr
deriving DecidableEq, Repr

/-- the `Transport` field of every `*http.Client` the program holds (`none` = nil) -/
abbrev Clients := List (Option Tr)

inductive Ev
  | icpt (id : Nat) (seen : Req)
  | transport (t : Tr) (seen : Req)
deriving DecidableEq, Repr

inductive Res | ok | terr | err (id : Nat) | panic | crash
deriving DecidableEq, Repr

/-! ### bookkeeping (l.65-82) -/

/-- `fpgo.Minus(set1, set2)`: the items of `set1` not in `set2`, in order -/
def minus (set1 set2 : List Nat) : List Nat := set1.filter (fun x => !set2.contains x)

/-- `Stream.Append(item)` = `Concat`: a fresh slice with the item at the end -/
def append (l : List Nat) (x : Nat) : List Nat := l ++ [x]

def addInterceptor (s : SH) (xs : List Nat) : SH :=
  { s with interceptors := xs.foldl append s.interceptors }

def removeInterceptor (s : SH) (xs : List Nat) : SH :=
  { s with interceptors := xs.foldl (fun l x => minus l [x]) s.interceptors }

def clearInterceptor (s : SH) : SH := { s with interceptors := [] }

/-! ### SetHTTPClient (l.90-106) -/

def setHTTPClient (s : SH) (cs : Clients) (c : Nat) : SH × Clients :=
  -- if client.Transport == nil { client.Transport = http.DefaultTransport }
  let t : Tr := ((cs[c]?).getD none).getD .dflt
  let cs := cs.set c (some t)
  -- if client.Transport != lastTransport { clientTransport = client.Transport; client.Transport = self; lastTransport = self }
  if some t ≠ s.lastTransport then
    ({ s with clientTransport := some t, lastTransport := some .self, client := c }, cs.set c (some .self))
  else
    ({ s with client := c }, cs)

/-- `NewSimpleHTTPWithClientAndInterceptors(client, interceptors...)` -/
def newSimpleHTTP (cs : Clients) (c : Nat) (is : List Nat) : SH × Clients :=
  setHTTPClient ⟨is, c, none, none⟩ cs c

/-! ### RoundTrip / recursiveVisit (l.109-123) -/

/-- `recursiveVisit(request, index)`; `fuel` bounds the total number of steps (index steps and
    re-entries through a transport that is the SimpleHTTP itself) -/
def recursiveVisit (beh : Nat → Req → Req × Bool) (tf : Tr → Bool) (s : SH) : Nat → Req → Nat → List Ev × Res
  | 0, _, _ => ([], .crash)
  | fuel + 1, req, index =>
    if index ≥ s.interceptors.length ∧ s.clientTransport.isSome then
      match s.clientTransport with
      | some .self => recursiveVisit beh tf s fuel req 0       -- clientTransport.RoundTrip = our own RoundTrip
      | some t => ([.transport t req], if tf t then .terr else .ok)   -- the transport's own verdict (`tf t` = it fails)
      | none => ([], .panic)
    else
      match s.interceptors[index]? with
      | none => ([], .panic)                                    -- index out of range
      | some i =>
        let r := beh i req
        if r.2 then ([.icpt i req], .err i)
        else
          let rest := recursiveVisit beh tf s fuel r.1 (index + 1)
          (.icpt i req :: rest.1, rest.2)

/-- fuel that the driver hands out: enough for any non-recursive walk, finite for a recursive one -/
def fuelFor (s : SH) : Nat := 4 * (s.interceptors.length + 2)

/-- `client.Do(request)` on the SimpleHTTP's current client (`DoRequest`, l.221-229) -/
def clientDo (beh : Nat → Req → Req × Bool) (tf : Tr → Bool) (s : SH) (cs : Clients) (req : Req) : List Ev × Res :=
  match ((cs[s.client]?).getD none).getD .dflt with
  | .self => recursiveVisit beh tf s (fuelFor s) req 0
  | t => ([.transport t req], if tf t then .terr else .ok)

/-! ### specification -/

/-- what the property prescribes for one request: every registered interceptor once, in order, each
    seeing the headers its predecessors left, the first error aborts, otherwise the transport sees the
    final request exactly once (and its failure, whatever KIND of error it is, is the result: nothing is re-run) -/
def Spec.visit (beh : Nat → Req → Req × Bool) (tf : Tr → Bool) (t : Tr) : List Nat → Req → List Ev × Res
  | [], req => ([.transport t req], if tf t then .terr else .ok)
  | i :: rest, req =>
    let r := beh i req
    if r.2 then ([.icpt i req], .err i)
    else
      let tl := Spec.visit beh tf t rest r.1
      (.icpt i req :: tl.1, tl.2)

inductive Op
  | add (xs : List Nat)
  | rem (xs : List Nat)
  | clear
deriving DecidableEq, Repr

/-- the registration list the property prescribes after a history -/
def Spec.book (l : List Nat) : List Op → List Nat
  | [] => l
  | .add xs :: ops => Spec.book (l ++ xs) ops
  | .rem xs :: ops => Spec.book (l.filter (fun x => !xs.contains x)) ops
  | .clear :: ops => Spec.book [] ops

def applyOp (s : SH) : Op → SH
  | .add xs => addInterceptor s xs
  | .rem xs => removeInterceptor s xs
  | .clear => clearInterceptor s

/-! ### line protocol
    `clients=<n|d|s<k>>,… fail=<ids|-> kind=<error kind> tfail=<d|s<k>,…|-> st=<status> new=c<k>:<ids|->: op ; op …`
    (`kind` = what sort of error failing interceptors / transports return — plain, net.Error Temporary/Timeout,
    context.DeadlineExceeded, ECONNRESET, wrapped …; `st` = the status code the stub transports answer with;
    neither may make a difference, so the model ignores them)
    ops: `add i,j` `rem i,j` `rem -` `clear` `set c<k>` `req <VERB>`
    observation of `req`: `i<id>:<trace> … T<name>:<trace> ->ok|->err<id>|->panic|->crash`; others `nil`. -/

def parseIds (s : String) : List Nat :=
  if s = "-" ∨ s = "" then [] else (s.splitOn ",").filterMap (·.toNat?)

def parseTr (s : String) : Option Tr :=
  if s = "n" then none else if s = "d" then some .dflt
  else if s.startsWith "s" then some (.stub ((s.drop 1).toString.toNat?.getD 0)) else some .dflt

def showTrace (r : Req) : String := ".".intercalate (r.map toString)

def Tr.show : Tr → String
  | .dflt => "d" | .stub n => s!"s{n}" | .self => "self"

def Ev.show : Ev → String
  | .icpt i r => s!"i{i}:{showTrace r}"
  | .transport t r => s!"T{t.show}:{showTrace r}"

def Res.show : Res → String
  | .ok => "->ok" | .terr => "->terr" | .err i => s!"->err{i}" | .panic => "->panic" | .crash => "->crash"

def showResult (x : List Ev × Res) : String :=
  " ".intercalate (x.1.map Ev.show ++ [x.2.show])

def kv (toks : List String) (key : String) : String :=
  match toks.find? (·.startsWith (key ++ "=")) with
  | some t => (t.drop (key.length + 1)).toString
  | none => ""

def clientIdx (s : String) : Nat := ((s.drop 1).toString.toNat?.getD 0)

/-- the interceptor behaviour of the harness: append the own id to `X-Trace`, fail iff listed -/
def behOf (fail : List Nat) : Nat → Req → Req × Bool := fun i r => (r ++ [i], fail.contains i)

/-- the failing transports of the harness, by name -/
def tfOf (names : List String) : Tr → Bool := fun t => names.contains t.show

def parseNames (s : String) : List String := if s = "-" ∨ s = "" then [] else s.splitOn ","

structure St where
  s : SH
  cs : Clients

def splitCase (line : String) : String × List String :=
  match line.splitOn ": " with
  | head :: rest =>
    (head, ((": ".intercalate rest).splitOn ";").map (fun t => t.trimAscii.toString) |>.filter (· ≠ ""))
  | [] => ("", [])

def initSt (head : String) : St × List Nat × List String :=
  let toks := head.splitOn " "
  let cs : Clients := ((kv toks "clients").splitOn ",").map parseTr
  let fail := parseIds (kv toks "fail")
  let (c, is) := match (kv toks "new").splitOn ":" with
    | [c, is] => (clientIdx c, parseIds is)
    | _ => (0, [])
  let (s, cs) := newSimpleHTTP cs c is
  (⟨s, cs⟩, fail, parseNames (kv toks "tfail"))

def runOp (fail : List Nat) (tfail : List String) (st : St) (op : String) : St × String :=
  match (op.splitOn " ").filter (· ≠ "") with
  | ["add", xs] => ({ st with s := addInterceptor st.s (parseIds xs) }, "nil")
  | ["rem", xs] => ({ st with s := removeInterceptor st.s (parseIds xs) }, "nil")
  | ["clear"] => ({ st with s := clearInterceptor st.s }, "nil")
  | ["set", c] =>
    let (s, cs) := setHTTPClient st.s st.cs (clientIdx c)
    (⟨s, cs⟩, "nil")
  | ["req", _verb] => (st, showResult (clientDo (behOf fail) (tfOf tfail) st.s st.cs []))
  | _ => (st, "bad-op")

def handle (line : String) : String :=
  let (head, ops) := splitCase line
  let (st0, fail, tfail) := initSt head
  let (_, outs) := ops.foldl (fun (acc : St × List String) op =>
    let (st, o) := runOp fail tfail acc.1 op
    (st, o :: acc.2)) (st0, [])
  " | ".intercalate outs.reverse

/-! ### specification-level oracle: the registration list by `Spec.book`, the call log by `Spec.visit`;
    WHICH underlying transport finally receives the request is not part of the property, so any single
    transport event with the right request is accepted. -/

def specEvents (fail : List Nat) (is : List Nat) : List String × String :=
  let r := Spec.visit (behOf fail) (fun _ => false) .dflt is []
  (r.1.map (fun e => match e with
    | .icpt .. => e.show
    | .transport _ req => ":" ++ showTrace req), r.2.show)

def obsMatches (tfail : List String) (exp : List String × String) (obs : String) : Bool :=
  let toks := (obs.splitOn " ").filter (· ≠ "")
  let evs := toks.dropLast
  -- the transport that was reached decides between ->ok and ->terr
  let expRes := if exp.2 = "->ok" then
      match evs.getLast? with
      | some t => if tfail.contains ((((t.drop 1).toString).splitOn ":").headD "") then "->terr" else "->ok"
      | none => "->ok"
    else exp.2
  toks.getLast? = some expRes && evs.length = exp.1.length &&
    (evs.zip exp.1).all (fun p =>
      if p.2.startsWith ":" then
        p.1.startsWith "T" && !p.1.startsWith "Tself" && (p.1.splitOn ":").drop 1 = [(p.2.drop 1).toString]
      else p.1 = p.2)

def judge (line impl : String) : String :=
  let (head, ops) := splitCase line
  let toks := head.splitOn " "
  let fail := parseIds (kv toks "fail")
  let tfail := parseNames (kv toks "tfail")
  let is0 := match (kv toks "new").splitOn ":" with
    | [_, is] => parseIds is
    | _ => []
  let obs := impl.splitOn " | "
  if impl = "crash" ∨ impl = "hang" then "violation the process died / hung while running the case (unbounded recursion through the chain?)" else
  if obs.length ≠ ops.length then "violation wrong number of observations" else
  let (_, bad) := (ops.zip obs).foldl (fun (acc : List Nat × List String) oo =>
    match (oo.1.splitOn " ").filter (· ≠ "") with
    | ["add", xs] => (Spec.book acc.1 [.add (parseIds xs)], if oo.2 = "nil" then acc.2 else acc.2 ++ [s!"op '{oo.1}' observed '{oo.2}'"])
    | ["rem", xs] => (Spec.book acc.1 [.rem (parseIds xs)], if oo.2 = "nil" then acc.2 else acc.2 ++ [s!"op '{oo.1}' observed '{oo.2}'"])
    | ["clear"] => ([], if oo.2 = "nil" then acc.2 else acc.2 ++ [s!"op '{oo.1}' observed '{oo.2}'"])
    | ["set", _] => (acc.1, if oo.2 = "nil" then acc.2 else acc.2 ++ [s!"op '{oo.1}' observed '{oo.2}'"])
    | ["req", _] =>
      let exp := specEvents fail acc.1
      if obsMatches tfail exp oo.2 then acc
      else (acc.1, acc.2 ++ [s!"op '{oo.1}' with registered interceptors {acc.1}: observed '{oo.2}', property demands '{" ".intercalate (exp.1 ++ [exp.2])}' (':trace' = any one transport)"])
    | _ => acc) (is0, [])
  match bad with
  | [] => "allowed call logs are what the property prescribes (model differs, e.g. in which transport is used)"
  | b :: _ => "violation " ++ b

end FpgoVerif.C18
