/-! Model of `PMap` (fp.go): the worker-count rule of `PMap`, and the goroutine system of
    `pMapPreserveOrder` / `pMapNoOrder` as an interleaving transition system whose steps are the
    atomic actions of the code (channel send / receive / close, the application of `f`,
    `wg.Done`/`wg.Wait`).  Core-only.

    feeder    : for i, v := range list { chJobs <- (i, v) } ; close(chJobs)            (chJobs has capacity n)
    worker ×w : for job := range chJobs { r := f(job.v) ; chResult <- (job.i, r) } ; wg.Done()
    closer    : wg.Wait() ; close(chResult)                                            (chResult has capacity w/3)
    collector : for r := range chResult { store r } ; assemble the output              (the calling goroutine)

    `pMapNoOrder` is the same system; the code does not transport the index there — it is kept as a
    ghost so that "f is applied once to every *position*" can be stated; the output ignores it.  -/

namespace FpgoVerif.C16

/-! ## the sequential part of `PMap` -/

/-- `worker := len(list); if option != nil && option.FixedPool > 0 && option.FixedPool < worker { worker = option.FixedPool }`
    (`none` = no option / option without pool size is `some 0`) -/
def workerCount (fixedPool : Option Int) (n : Nat) : Nat :=
  match fixedPool with
  | none => n
  | some p => if 0 < p ∧ p < (n : Int) then p.toNat else n

/-! ## the goroutine system -/

/-- where a worker goroutine is -/
inductive WS (α β : Type)
  | idle                          -- at `range chJobs`
  | computing (i : Nat) (v : α)   -- received job i, `f v` is running
  | sending (i : Nat) (r : β)     -- `f v` returned r, at `chResult <- …`
  | done                          -- left the loop, `wg.Done()` executed

structure St (α β : Type) where
  fed : Nat                       -- feeder: next index to send
  jobsClosed : Bool
  chJobs : List (Nat × α)         -- FIFO buffer of chJobs
  workers : List (WS α β)
  chResult : List (Nat × β)       -- FIFO buffer of chResult
  resultClosed : Bool
  collected : List (Nat × β)      -- what the collector has received, in arrival order
  collectorDone : Bool            -- the collector saw chResult closed and drained: PMap returns
  panicked : Bool                 -- a send on a closed channel happened
  apps : List Nat                 -- ghost: positions whose element `f` has been applied to, in completion order

variable {α β : Type}

def init (w : Nat) : St α β :=
  { fed := 0, jobsClosed := false, chJobs := [], workers := List.replicate w .idle, chResult := [],
    resultClosed := false, collected := [], collectorDone := false, panicked := false, apps := [] }

def WS.isDone : WS α β → Bool | .done => true | _ => false
def WS.isComputing : WS α β → Bool | .computing .. => true | _ => false
def WS.isSending : WS α β → Bool | .sending .. => true | _ => false

/-- One atomic action of one goroutine.  `l` the input list, `f` the function, `cap` the capacity of chResult.
    A worker is picked by splitting the worker list around it. -/
inductive Step (l : List α) (f : α → β) (cap : Nat) : St α β → St α β → Prop
  /-- feeder: `chJobs <- (i, v)` (needs room in the buffer) -/
  | feed (s : St α β) (v : α) : s.jobsClosed = false → l[s.fed]? = some v → s.chJobs.length < l.length →
      Step l f cap s { s with fed := s.fed + 1, chJobs := s.chJobs ++ [(s.fed, v)] }
  /-- feeder: `close(chJobs)` after the loop -/
  | closeJobs (s : St α β) : s.jobsClosed = false → s.fed = l.length →
      Step l f cap s { s with jobsClosed := true }
  /-- worker: receives the next job -/
  | take (s : St α β) (pre post : List (WS α β)) (i : Nat) (v : α) (rest : List (Nat × α)) :
      s.workers = pre ++ .idle :: post → s.chJobs = (i, v) :: rest →
      Step l f cap s { s with workers := pre ++ .computing i v :: post, chJobs := rest }
  /-- worker: chJobs closed and drained: leaves the loop, `wg.Done()` -/
  | exit (s : St α β) (pre post : List (WS α β)) :
      s.workers = pre ++ .idle :: post → s.chJobs = [] → s.jobsClosed = true →
      Step l f cap s { s with workers := pre ++ .done :: post }
  /-- worker: `f v` returns -/
  | compute (s : St α β) (pre post : List (WS α β)) (i : Nat) (v : α) :
      s.workers = pre ++ .computing i v :: post →
      Step l f cap s { s with workers := pre ++ .sending i (f v) :: post, apps := s.apps ++ [i] }
  /-- worker: `chResult <- r` into the buffer -/
  | sendBuf (s : St α β) (pre post : List (WS α β)) (i : Nat) (r : β) :
      s.workers = pre ++ .sending i r :: post → s.resultClosed = false → s.chResult.length < cap →
      Step l f cap s { s with workers := pre ++ .idle :: post, chResult := s.chResult ++ [(i, r)] }
  /-- worker + collector: `chResult <- r` handed directly to the waiting collector (the only way when cap = 0) -/
  | handoff (s : St α β) (pre post : List (WS α β)) (i : Nat) (r : β) :
      s.workers = pre ++ .sending i r :: post → s.resultClosed = false → s.chResult = [] → s.collectorDone = false →
      Step l f cap s { s with workers := pre ++ .idle :: post, collected := s.collected ++ [(i, r)] }
  /-- worker: `chResult <- r` on a closed channel panics -/
  | sendClosed (s : St α β) (pre post : List (WS α β)) (i : Nat) (r : β) :
      s.workers = pre ++ .sending i r :: post → s.resultClosed = true → s.panicked = false →
      Step l f cap s { s with panicked := true }
  /-- closer: `wg.Wait()` returned (every worker has executed `wg.Done()`), `close(chResult)` -/
  | closeResult (s : St α β) : (∀ x ∈ s.workers, x.isDone = true) → s.resultClosed = false →
      Step l f cap s { s with resultClosed := true }
  /-- collector: receives from the buffer -/
  | collect (s : St α β) (e : Nat × β) (rest : List (Nat × β)) : s.chResult = e :: rest → s.collectorDone = false →
      Step l f cap s { s with chResult := rest, collected := s.collected ++ [e] }
  /-- collector: chResult closed and drained: the loop ends -/
  | finish (s : St α β) : s.chResult = [] → s.resultClosed = true → s.collectorDone = false →
      Step l f cap s { s with collectorDone := true }

/-- reachability: any number of steps, any interleaving -/
inductive Reach (l : List α) (f : α → β) (cap : Nat) : St α β → St α β → Prop
  | refl (s) : Reach l f cap s s
  | step {s t u} : Reach l f cap s t → Step l f cap t u → Reach l f cap s u

/-! ## what the calling goroutine returns -/

/-- `newListMap[k] = v` for every arrival in order, then `newListMap[i]`: the last write wins -/
def mapGet (i : Nat) : List (Nat × β) → Option β
  | [] => none
  | (k, v) :: rest =>
    match mapGet i rest with
    | some r => some r
    | none => if k = i then some v else none

/-- pMapPreserveOrder: `for i := 0; i < len(list); i++ { newList[i] = newListMap[i] }` (zero value when missing) -/
def orderedResult (zero : β) (n : Nat) (collected : List (Nat × β)) : List β :=
  (List.range n).map (fun i => (mapGet i collected).getD zero)

/-- pMapNoOrder: `newList := make([]R, n); i := 0; for v := range chResult { newList[i] = v; i++ }`
    — `none` = index out of range (more results than elements) -/
def noOrderResult (zero : β) (n : Nat) (collected : List (Nat × β)) : Option (List β) :=
  if collected.length ≤ n then some (collected.map (·.2) ++ List.replicate (n - collected.length) zero) else none

/-- the termination measure: every step strictly decreases it -/
def measure (n : Nat) (s : St α β) : Nat :=
  6 * (n - s.fed) + 5 * s.chJobs.length + 4 * s.workers.countP WS.isComputing + 3 * s.workers.countP WS.isSending
  + 2 * s.chResult.length + s.workers.countP (fun x => !x.isDone)
  + (if s.jobsClosed then 0 else 1) + (if s.resultClosed then 0 else 1) + (if s.collectorDone then 0 else 1)
  + (if s.panicked then 0 else 1)

/-! ## Protocol (driver side)

    Case line:  `n=<n> pool=<nil|int> mode=<o|r> ty=<i|s> hold=<0|1|2> seed=<k> [nest=<m>]`
                or `reuse pool=… mode=… ty=… hold=… seed=…: n=<n1> ; n=<n2> ; …` (one option object, several calls)
    The list is `elem seed i` for `i < n`; `f x = 3x+1` (ints) / `x ↦ x ++ "!"` (strings `s%03d`).
    Observation: `res=[…] once=ok maxc=<…> after=ok`; the result is sorted in RandomOrder mode.
    `hold=1`: every call of `f` waits until as many calls are in progress as the statement allows workers, so the maximal
    number of concurrent applications is exactly the worker count; the harness prints `maxc=ok` when it is within the
    bound and `maxc=<k>` when it is not;
    `hold=2`: completion order forced to be descending by value (only generated when all n applications can be in flight);
    `hold=3`: `f` does nothing but count (long lists);
    `hold=0`: data-dependent sleeps, the harness prints `maxc=ok` when its gauge never exceeded the bound. -/

def elem (seed i : Nat) : Nat := (i * 31 + seed * 7 + (i * i) % 5) % 97
def fInt (x : Nat) : Nat := 3 * x + 1

def pad3 (x : Nat) : String :=
  let s := toString x
  if x < 10 then "00" ++ s else if x < 100 then "0" ++ s else s

structure Case where
  n : Nat
  pool : Option Int
  random : Bool
  str : Bool
  hold : Bool
  seed : Nat
  nest : Nat := 0   -- > 0: `f` itself calls PMap on the list x, x+1, …, x+nest-1 and returns the sum of the results

def parseKV (tok key : String) : Option String :=
  match tok.splitOn "=" with
  | [k, v] => if k = key then some v else none
  | _ => none

def parseCaseToks (toks : List String) : Option Case :=
  let core (a b c d h e : String) (nest : Nat) : Option Case :=
    match parseKV a "n", parseKV b "pool", parseKV c "mode", parseKV d "ty", parseKV h "hold", parseKV e "seed" with
    | some n, some p, some m, some t, some h, some s =>
      match n.toNat?, (if p = "nil" then some none else p.toInt?.map some), s.toNat? with
      | some n, some p, some s =>
        if (m = "o" ∨ m = "r") ∧ (t = "i" ∨ t = "s") ∧ (h = "0" ∨ h = "1" ∨ h = "2" ∨ h = "3") then
          some ⟨n, p, m = "r", t = "s", h = "1", s, nest⟩
        else none
      | _, _, _ => none
    | _, _, _, _, _, _ => none
  match toks with
  | [a, b, c, d, h, e] => core a b c d h e 0
  | [a, b, c, d, h, e, g] =>
    match (parseKV g "nest").bind String.toNat? with
    | some k => core a b c d h e k
    | none => none
  | _ => none

def parseCase (line : String) : Option Case := parseCaseToks ((line.splitOn " ").filter (· ≠ ""))

/-- `reuse pool=… mode=… ty=… hold=… seed=…: n=<n1> ; n=<n2> ; …` — ONE PMapOption object passed to several PMap calls in a
    row; every call is an ordinary case with that pool size (PMap only reads the option), and the object is unchanged at
    the end (`opt=ok`). -/
def parseReuse (line : String) : Option (List Case) :=
  match line.splitOn ": " with
  | [head, body] =>
    match (head.splitOn " ").filter (· ≠ "") with
    | "reuse" :: rest =>
      let ops := ((body.splitOn ";").map (fun t => t.trimAscii.toString)).filter (· ≠ "")
      ops.mapM (fun op => parseCaseToks (op :: rest))
    | _ => none
  | _ => none

def inputList (c : Case) : List Nat := (List.range c.n).map (elem c.seed)

/-- the nested `f`: the sum of `PMap(fInt, nil, x, x+1, …, x+m-1)` -/
def fNest (m x : Nat) : Nat := (List.range m).foldl (fun a j => a + fInt (x + j)) 0

def renderOut (c : Case) (x : Nat) : String :=
  if c.str then "s" ++ pad3 x ++ "!" else if c.nest = 0 then toString (fInt x) else toString (fNest c.nest x)

def render (c : Case) (xs : List Nat) : String := "[" ++ " ".intercalate (xs.map (renderOut c)) ++ "]"

/-- canonical form of the output: as is (ordered mode), sorted (RandomOrder; `f` is monotone on the inputs used) -/
def leNat : Nat → Nat → Bool := fun a b => a ≤ b

def canon (c : Case) (l : List Nat) : List Nat := if c.random then l.mergeSort leNat else l

def obsLine (c : Case) (out : List Nat) (maxc : String) : String :=
  s!"res={render c (canon c out)} once=ok maxc={maxc} after=ok"

/-- the statement's bound on the number of goroutines: `min(FixedPool, n)` for a positive pool size, `n` otherwise -/
def specWorkers (pool : Option Int) (n : Nat) : Nat :=
  match pool with
  | some p => if 0 < p then min p.toNat n else n
  | none => n

/-- implementation-model side of the observable: the output every terminal state of the goroutine system yields
    (`Props/C16`), canonicalised, and the reading of the harness' concurrency gauge for the worker count of the code's rule:
    the harness prints `ok` while the gauge stays within the statement's bound (fewer goroutines are permitted) and the
    maximum otherwise — under the barrier (`hold=1`) the maximum is the worker count -/
def expectedObs (c : Case) : String :=
  obsLine c (inputList c) (if workerCount c.pool c.n ≤ specWorkers c.pool c.n then "ok" else toString (workerCount c.pool c.n))

def handle (line : String) : String :=
  match parseReuse line with
  | some cs => " | ".intercalate (cs.map expectedObs ++ ["opt=ok"])
  | none =>
    match parseCase line with
    | none => "bad-case"
    | some c => expectedObs c

/-! ### Spec-level oracle: `Map(f, list)` (a permutation of it in RandomOrder mode — compared sorted), at most
    `min(FixedPool, n)` goroutines (`n` when no pool size is given), every element once, returns after all
    applications finished. -/
/-- does the implementation's `maxc=` token respect the bound?  (`ok`, or a number ≤ the bound) -/
def maxcAllowed (tok : String) (bound : Nat) : Bool :=
  tok = "ok" || (match tok.toNat? with | some k => k ≤ bound | none => false)

def demand (c : Case) : String := s!"{obsLine c (inputList c) "ok"} with maxc <= {specWorkers c.pool c.n}"

/-- one PMap call against the statement -/
def judgeOne (c : Case) (impl : String) : Bool :=
  match (impl.splitOn " maxc=") with
  | [pre, post] =>
    match post.splitOn " " with
    | [mc, aft] => pre ++ " maxc=ok " ++ aft = obsLine c (inputList c) "ok" && maxcAllowed mc (specWorkers c.pool c.n)
    | _ => false
  | _ => false

def judgeAll : List Case → List String → Bool
  | [], [o] => o = "opt=ok"
  | c :: cs, o :: os => judgeOne c o && judgeAll cs os
  | _, _ => false

def judge (line impl : String) : String :=
  match parseReuse line with
  | some cs =>
    if judgeAll cs (impl.splitOn " | ") then
      "allowed every call: result = Map(f, list), once, concurrency within the bound of the option as passed; option unchanged"
    else s!"violation the property demands, for the option as the caller set it: {" | ".intercalate (cs.map demand)} | opt=ok"
  | none =>
    match parseCase line with
    | none => "violation unparsable case"
    | some c =>
      if judgeOne c impl then
        "allowed result = Map(f, list), each element once, concurrency within the bound, returned after all applications"
      else s!"violation the property demands: {demand c}"

end FpgoVerif.C16
