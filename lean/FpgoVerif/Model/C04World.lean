import FpgoVerif.Model.C04Spec
/-! C04 — the storage-level implementation model of `stream.go` / `streamForInterface.go`.

    A *world* is
      * `arrs` — the heap of backing arrays (every array with its full storage, i.e. up to `cap`);
        index 0 is a permanent empty array that nil slices point into;
      * `strs` — the heap of stream cells: a `*StreamDef[T]` / `*StreamForInterfaceDef` is the index of a
        cell holding a slice header `(arr, off, len, cap)`;
      * `maps` — the heap of Go map objects (association lists with unique keys);
      * `sets` — the heap of set cells: a `*MapSetDef[T,R]` / `*SetForInterfaceDef` / the header embedded
        in a `StreamSet…Def` is the index of a cell holding a map reference (`none` = nil map).

    Every operation below mirrors which storage the Go code touches: what it allocates (`make`,
    `DuplicateSlice`, `Concat`, `DuplicateMap`, `new`), when it returns the receiver itself, and what it
    writes in place (`sort.SliceStable` + `copy` in `SortByIndex`; `append(s[:i], s[i+1:]...)` and
    `*streamSelf = …` in the interface{} `Remove`; `m[k] = v` in `Set`).  The *elements* an operation
    produces are computed with the `Spec` list functions. -/
namespace FpgoVerif.C04

structure Slice where
  arr : Nat
  off : Nat
  len : Nat
  cap : Nat
deriving DecidableEq, Repr, Inhabited

/-- the nil slice -/
def Slice.nil : Slice := ⟨0, 0, 0, 0⟩

/-- a value stored in a Go map of a set: an element, or a stream pointer (`none` = nil pointer) -/
inductive Val
  | int (n : Int)
  | str (p : Option Nat)
deriving DecidableEq, Repr, Inhabited

abbrev AMap := List (Int × Val)

structure World where
  arrs : List (List Int)
  strs : List Slice
  maps : List AMap
  sets : List (Option Nat)
deriving Repr

def World.init : World := ⟨[[]], [], [], []⟩

namespace World

/-! ### reading -/

def arrAt (w : World) (a : Nat) : List Int := w.arrs.getD a []

def sliceContent (w : World) (s : Slice) : List Int := ((w.arrAt s.arr).drop s.off).take s.len

/-- the part of the backing array behind the slice, up to its capacity -/
def sliceHidden (w : World) (s : Slice) : List Int := ((w.arrAt s.arr).drop (s.off + s.len)).take (s.cap - s.len)

def strHdr (w : World) (p : Nat) : Slice := w.strs.getD p Slice.nil

def strContent (w : World) (p : Nat) : List Int := w.sliceContent (w.strHdr p)

def mapAt (w : World) (r : Nat) : AMap := w.maps.getD r []

/-- the Go map a set cell holds (nil map reads as empty) -/
def setMap (w : World) (p : Nat) : AMap :=
  match w.sets.getD p none with
  | none => []
  | some r => w.mapAt r

/-! ### allocation primitives (the only way the heaps grow) -/

/-- `make` + fill: a fresh backing array whose storage is `l`; the slice over all of it -/
def allocArr (w : World) (l : List Int) : World × Slice :=
  ({ w with arrs := w.arrs ++ [l] }, ⟨w.arrs.length, 0, l.length, l.length⟩)

/-- a new stream cell (`result := StreamDef[T](x); return &result`) -/
def allocStr (w : World) (s : Slice) : World × Nat :=
  ({ w with strs := w.strs ++ [s] }, w.strs.length)

def allocMap (w : World) (m : AMap) : World × Nat :=
  ({ w with maps := w.maps ++ [m] }, w.maps.length)

def allocSet (w : World) (r : Option Nat) : World × Nat :=
  ({ w with sets := w.sets ++ [r] }, w.sets.length)

/-- a fresh array holding `l` followed by `tail` zero slots (`make([]T, n)` filled up to `len l`, then
    resliced `[:len l]`), wrapped in a new stream cell -/
def newStream (w : World) (l : List Int) (tail : Nat := 0) : World × Nat :=
  let (w, s) := w.allocArr (l ++ List.replicate tail 0)
  w.allocStr { s with len := l.length }

/-- `new(StreamDef[T])`: a cell holding the nil slice -/
def newNilStream (w : World) : World × Nat := w.allocStr Slice.nil

/-- a fresh map object in a new set cell -/
def newSet (w : World) (m : AMap) : World × Nat :=
  let (w, r) := w.allocMap m
  w.allocSet (some r)

/-- `new(MapSetDef[T,R])`: a cell holding the nil map -/
def newNilSet (w : World) : World × Nat := w.allocSet none

/-! ### in-place writes -/

/-- overwrite `l.length` slots of backing array `a` starting at absolute position `pos` -/
def writeArr (w : World) (a pos : Nat) (l : List Int) : World :=
  let old := w.arrAt a
  { w with arrs := w.arrs.set a (old.take pos ++ l ++ old.drop (pos + l.length)) }

def setStrHdr (w : World) (p : Nat) (s : Slice) : World := { w with strs := w.strs.set p s }

def writeMap (w : World) (r : Nat) (m : AMap) : World := { w with maps := w.maps.set r m }

/-- Go `append(s, l...)`: in place iff it fits the capacity, otherwise a fresh array (whatever its
    capacity is — here exactly the new length; no modelled path depends on the growth policy) -/
def appendSlice (w : World) (s : Slice) (l : List Int) : World × Slice :=
  if s.len + l.length ≤ s.cap then
    (w.writeArr s.arr (s.off + s.len) l, { s with len := s.len + l.length })
  else
    w.allocArr (w.sliceContent s ++ l)

/-! ### Stream operations.  `p` is the receiver cell; results are `(world, cell)`. -/

/-- `DuplicateSlice(*streamSelf)` (`append(list[:0:0], list...)` or `make([]T, 0)`): always a fresh array -/
def dupSlice (w : World) (s : Slice) : World × Slice := w.allocArr (w.sliceContent s)

/-- `ToArray` -/
def strToArray (w : World) (p : Nat) : World × Slice := w.dupSlice (w.strHdr p)

/-- `Clone` -/
def strClone (w : World) (p : Nat) : World × Nat :=
  let (w, s) := w.dupSlice (w.strHdr p)
  w.allocStr s

/-- `Map`: `make([]R, len)` filled -/
def strMap (w : World) (p : Nat) (f : Int → Nat → Int) : World × Nat :=
  w.newStream (Spec.mapIdx f (w.strContent p))

/-- `Filter`: `list := make([]T, len(input))`, kept items written from the front, `list[:newLen]` -/
def strFilter (w : World) (p : Nat) (pr : Int → Nat → Bool) : World × Nat :=
  let l := w.strContent p
  let kept := Spec.filterIdx pr l
  w.newStream kept (l.length - kept.length)

/-- `Distinct`: same allocation pattern as `Filter` -/
def strDistinct (w : World) (p : Nat) : World × Nat :=
  let l := w.strContent p
  let kept := Spec.distinct l
  w.newStream kept (l.length - kept.length)

/-- `Reverse`: `make` + fill -/
def strReverse (w : World) (p : Nat) : World × Nat := w.newStream (w.strContent p).reverse

/-- `Sort`: clone, then sort the clone in place -/
def strSort (w : World) (p : Nat) (less : Int → Int → Bool) : World × Nat :=
  let (w, q) := w.strClone p
  let s := w.strHdr q
  (w.writeArr s.arr s.off (Spec.sortBy less (w.sliceContent s)), q)

/-- `SortByIndex`: `old := Clone()`; `sort.SliceStable(*streamSelf)` IN PLACE; `result := Clone()`;
    `copy(*streamSelf, *old)` puts the old values back into the (possibly shared) storage -/
def strSortByIndex (w : World) (p : Nat) (less : Int → Int → Bool) : World × Nat :=
  let (w, old) := w.strClone p
  let s := w.strHdr p
  let w := w.writeArr s.arr s.off (Spec.sortBy less (w.sliceContent s))
  let (w, res) := w.strClone p
  let w := w.writeArr s.arr s.off (w.strContent old)
  (w, res)

/-- `Intersection(input)`; `q = none` is a nil argument -/
def strInter (w : World) (p : Nat) (q : Option Nat) : World × Nat :=
  match q with
  | none => w.newNilStream
  | some q =>
    if (w.strHdr q).len = 0 then w.newNilStream
    else w.newStream (Spec.inter (w.strContent p) (w.strContent q))

/-- `Minus(input)`: the receiver itself when the argument is nil/empty -/
def strMinus (w : World) (p : Nat) (q : Option Nat) : World × Nat :=
  match q with
  | none => (w, p)
  | some q =>
    if (w.strHdr q).len = 0 then (w, p)
    else
      let l := w.strContent p
      let kept := Spec.minus l (w.strContent q)
      w.newStream kept (l.length - kept.length)

/-- `RemoveItem(items...)`: the receiver itself when called without items -/
def strRemoveItem (w : World) (p : Nat) (items : List Int) : World × Nat :=
  if items.isEmpty then (w, p)
  else
    let l := w.strContent p
    let kept := Spec.minus l items
    w.newStream kept (l.length - kept.length)

/-- `Concat(slices...)`: receiver itself without arguments; otherwise `Concat(ToArray(), slices...)` —
    a temporary duplicate and then a fresh `make`d array -/
def strConcat (w : World) (p : Nat) (slices : List Slice) : World × Nat :=
  if slices.isEmpty then (w, p)
  else
    let (w, mine) := w.strToArray p
    w.newStream (slices.foldl (fun acc s => acc ++ w.sliceContent s) (w.sliceContent mine))

/-- `Append(items...)` = `Concat(items)` with exactly one (possibly nil) slice: always a fresh stream.
    The variadic slice is a temporary array. -/
def strAppend (w : World) (p : Nat) (items : List Int) : World × Nat :=
  let (w, tmp) := w.allocArr items
  w.strConcat p [tmp]

/-- `Extend(streams...)`: receiver itself without arguments; nil streams are skipped -/
def strExtend (w : World) (p : Nat) (args : List (Option Nat)) : World × Nat :=
  if args.isEmpty then (w, p)
  else
    w.newStream (args.foldl (fun acc a => match a with
      | none => acc
      | some q => acc ++ w.strContent q) (w.strContent p))

/-- generic `Remove(i)` (after fix 32092ba): in range — a fresh `make(…, 0, len-1)` + two appends;
    out of range — the receiver itself -/
def strRemoveG (w : World) (p : Nat) (i : Int) : World × Nat :=
  let l := w.strContent p
  if 0 ≤ i ∧ i < (w.strHdr p).len then w.newStream (l.eraseIdx i.toNat)
  else (w, p)

/-- interface{} `Remove(i)`, the documented in-place mutator:
    `(*streamSelf) = append((*streamSelf)[:index], (*streamSelf)[index+1:]...)`; returns the receiver -/
def strRemoveI (w : World) (p : Nat) (i : Int) : World × Nat :=
  let s := w.strHdr p
  if 0 ≤ i ∧ i < s.len then
    let front : Slice := { s with len := i.toNat }            -- s[:i] keeps the capacity
    let (w, r) := w.appendSlice front ((w.sliceContent s).drop (i.toNat + 1))
    (w.setStrHdr p r, p)
  else (w, p)

/-! ### network/simpleHTTP.go: the interceptor list of a `SimpleHTTPDef` is a `StreamDef[*Interceptor]` VALUE field.
    An instance is modelled as a stream cell (the field); `NewSimpleHTTPWithClientAndInterceptors(c, list...)`
    wraps the caller's slice like `StreamFromArray` does.  The bookkeeping methods replace the field by the
    header of a persistent Stream result — they overwrite the instance's own cell and nothing else. -/

/-- `AddInterceptor(is...)`: `for each i { self.interceptors = *self.interceptors.Append(i) }` -/
def httpAdd (w : World) (p : Nat) : List Int → World
  | [] => w
  | i :: t =>
    let r := w.strAppend p [i]
    httpAdd (r.1.setStrHdr p (r.1.strHdr r.2)) p t

/-- `RemoveInterceptor(is...)`: `for each i { self.interceptors = *self.interceptors.RemoveItem(i) }` -/
def httpRemove (w : World) (p : Nat) : List Int → World
  | [] => w
  | i :: t =>
    let r := w.strRemoveItem p [i]
    httpRemove (r.1.setStrHdr p (r.1.strHdr r.2)) p t

/-- `ClearInterceptor()`: `self.interceptors = StreamDef[*Interceptor]{}` -/
def httpClear (w : World) (p : Nat) : World := w.setStrHdr p Slice.nil

/-! ### Set operations (`MapSetDef` / `SetForInterfaceDef`).  `p` is the receiver cell. -/

/-- `Set(k, v)`, the documented mutator: `(*mapSetSelf)[key] = value`; assignment to a nil map panics -/
def setSet (w : World) (p : Nat) (k : Int) (v : Val) : Option World :=
  match w.sets.getD p none with
  | none => none
  | some r => some (w.writeMap r (Spec.insert k v (w.mapAt r)))

/-- `Clone`: `DuplicateMap` into a new cell -/
def setClone (w : World) (p : Nat) : World × Nat := w.newSet (w.setMap p)

def setMapKey (w : World) (p : Nat) (f : Int → Int) : World × Nat := w.newSet (Spec.mapKeys f (w.setMap p))

def setMapVal (w : World) (p : Nat) (f : Val → Val) : World × Nat := w.newSet (Spec.mapVals f (w.setMap p))

/-- `Add(items...)`: receiver itself without items; otherwise a clone that receives the missing keys -/
def setAdd (w : World) (p : Nat) (zero : Val) (items : List Int) : World × Nat :=
  if items.isEmpty then (w, p)
  else w.newSet (items.foldl (fun m k => Spec.insertIfAbsent k zero m) (w.setMap p))

def setRemoveKeys (w : World) (p : Nat) (items : List Int) : World × Nat :=
  if items.isEmpty then (w, p)
  else w.newSet (Spec.removeKeys (w.setMap p) items)

def setRemoveValues (w : World) (p : Nat) (vals : List Val) : World × Nat :=
  if vals.isEmpty then (w, p)
  else w.newSet ((w.setMap p).filter (fun kv => !vals.contains kv.2))

/-- `Union(input)`: receiver itself for a nil/empty argument, otherwise a fresh `Merge` -/
def setUnion (w : World) (p : Nat) (q : Option Nat) : World × Nat :=
  match q with
  | none => (w, p)
  | some q =>
    if (w.setMap q).isEmpty then (w, p)
    else w.newSet (Spec.merge (w.setMap p) (w.setMap q))

/-- `Intersection(input)`: `new(MapSetDef)` (nil map!) for a nil/empty argument -/
def setInter (w : World) (p : Nat) (q : Option Nat) : World × Nat :=
  match q with
  | none => w.newNilSet
  | some q =>
    if (w.setMap q).isEmpty then w.newNilSet
    else w.newSet (Spec.interByKey (w.setMap p) (w.setMap q))

/-- `Minus(input)`: receiver itself for a nil/empty argument, otherwise a clone minus the keys -/
def setMinus (w : World) (p : Nat) (q : Option Nat) : World × Nat :=
  match q with
  | none => (w, p)
  | some q =>
    if (w.setMap q).isEmpty then (w, p)
    else w.newSet (Spec.minusByKey (w.setMap p) (w.setMap q))

/-- `Keys()` / `Values()` (the harness sorts the returned array, which is its own) -/
def setKeys (w : World) (p : Nat) : World × Slice := w.allocArr (Spec.sortInts ((w.setMap p).map (·.1)))

def valInt : Val → Int
  | .int n => n
  | .str _ => 0

def setValues (w : World) (p : Nat) : World × Slice := w.allocArr (Spec.sortInts ((w.setMap p).map (fun kv => valInt kv.2)))

/-! ### StreamSet operations (maps whose values are stream pointers) -/

/-- is this map value a non-nil stream pointer (`v != nil`)? -/
def valStr : Val → Option Nat
  | .str (some q) => some q
  | _ => none

/-- rebuild a map entry by entry, each step possibly allocating (`for k, v := range m { m'[k] = f(v) }`) -/
def mapEntriesM (f : World → Int → Val → World × Val) : World → AMap → World × AMap
  | w, [] => (w, [])
  | w, (k, v) :: t =>
    let (w, v') := f w k v
    let (w, t') := mapEntriesM f w t
    (w, (k, v') :: t')

/-- `StreamSetFromMap(m)`: `DuplicateMap`, stream pointers shared -/
def ssFromMap (w : World) (m : AMap) : World × Nat := w.newSet m

/-- replace every non-nil stream pointer of a map by a `Clone()` of the stream -/
def cloneEntries (w : World) (m : AMap) : World × AMap :=
  mapEntriesM (fun w _ v => match valStr v with
    | some q => let (w, c) := w.strClone q; (w, .str (some c))
    | none => (w, v)) w m

/-- `Clone`: duplicate the map, then replace every non-nil stream by its `Clone()` -/
def ssClone (w : World) (p : Nat) : World × Nat :=
  let (w, m) := w.cloneEntries (w.setMap p)
  w.newSet m

/-- the stream a StreamSet operation works on when the stored pointer is nil: `new(StreamDef[R])` -/
def orNewStream (w : World) (v : Val) : World × Nat :=
  match valStr v with
  | some q => (w, q)
  | none => w.newNilStream

/-- the non-empty stream stored under `k` in `m`, if any (`ok && v2 != nil && v2.Len() > 0`) -/
def nonEmptyAt (w : World) (m : AMap) (k : Int) : Option Nat :=
  match Spec.lookup k m with
  | some v => match valStr v with
    | some q => if (w.strHdr q).len > 0 then some q else none
    | none => none
  | none => none

/-- `Union(input)` -/
def ssUnion (w : World) (p : Nat) (q : Option Nat) : World × Nat :=
  match q with
  | none => (w, p)
  | some q =>
    let m₂ := w.setMap q
    if m₂.isEmpty then (w, p)
    else
      -- for k, v := range receiver: if input[k] is a non-empty stream: result[k] = v.Extend(v2)
      let (w, ext) := mapEntriesM (fun w k v => match nonEmptyAt w m₂ k with
        | some v2 => let (w, v1) := w.orNewStream v
                     let (w, r) := w.strExtend v1 [some v2]; (w, .str (some r))
        | none => (w, v)) w (w.setMap p)
      -- keys of the receiver keep their (possibly extended) stream unless the argument overrides them
      -- with an empty/nil one (`Merge`: the argument wins); keys only in the argument are added
      let merged := Spec.merge (w.setMap p) m₂
      w.newSet (merged.map (fun kv => match nonEmptyAt w m₂ kv.1, Spec.lookup kv.1 ext with
        | some _, some e => (kv.1, e)
        | _, _ => kv))

/-- `Intersection(input)` -/
def ssInter (w : World) (p : Nat) (q : Option Nat) : World × Nat :=
  match q with
  | none => w.newSet []
  | some q =>
    let m₂ := w.setMap q
    if m₂.isEmpty then w.newSet []
    else
      let (w, m) := mapEntriesM (fun w k v => match nonEmptyAt w m₂ k with
        | some v2 => let (w, v1) := w.orNewStream v
                     let (w, r) := w.strInter v1 (some v2); (w, .str (some r))
        | none => (w, v)) w (Spec.interByKey (w.setMap p) m₂)
      w.newSet m

/-- `MinusStreams(input)`: a deep clone whose streams lose the argument's items -/
def ssMinusStreams (w : World) (p : Nat) (q : Option Nat) : World × Nat :=
  match q with
  | none => w.newSet []
  | some q =>
    let m₂ := w.setMap q
    if m₂.isEmpty then w.newSet []
    else
      -- `result := Clone()`; then `result[k] = v.Minus(v2)` on the clone's own fresh map (the model
      -- allocates that map once, with its final entries)
      let (w, cm) := w.cloneEntries (w.setMap p)
      let (w, m) := mapEntriesM (fun w k v => match nonEmptyAt w m₂ k with
        | some v2 => let (w, v1) := w.orNewStream v
                     let (w, r) := w.strMinus v1 (some v2); (w, .str (some r))
        | none => (w, v)) w cm
      w.newSet m

end World
end FpgoVerif.C04
