/-! C02 — IR of the conversion case table that `extract/c02.go` regenerates from `maybe.go` on every
    run (`Gen/ConvTable.lean`).  Hand-written, core-only, *types only*: the generated file imports
    this one and contains nothing but a `List Case`.

    One `Case` per (conversion method, `case` clause type) of the type switch of every `To*` method of
    `someDef`, plus one `nil` row per method for the `if maybeSelf.IsNil() { return 0, ErrConversionNil }`
    prelude.  Anything the translator cannot express becomes an explicit `untranslatable` constructor,
    which the evaluator turns into `garbage` and the checker rejects. -/
namespace FpgoVerif.C02

/-- Go types that occur as conversion target / `case` type / cast type. -/
inductive Ty
  | int | int8 | int16 | int32 | int64 | uint | uint8 | uint16 | uint32 | uint64 | uintptr
  | float32 | float64 | bool | string
deriving DecidableEq, Repr, Inhabited

/-- value expressions: the bound variable, resolved integer constants (`math.MaxInt32`, `1<<63`,
    `math.MaxFloat32`, `maxUintptr` are all integers), casts `T(e)`, `math.Round(e)`, `e != 0`. -/
inductive E
  | v | lit (z : Int) | blit (b : Bool) | cast (t : Ty) (e : E) | round (e : E) | ne0 (e : E)
  | untranslatable (src : String)
deriving Repr, DecidableEq, Inhabited

/-- guard conditions -/
inductive C
  | le (a b : E) | ge (a b : E) | lt (a b : E) | gt (a b : E) | and (c d : C) | or (c d : C)
  | truth (e : E) | isInf (e : E) | isNaN (e : E)
  | untranslatable (src : String)
deriving Repr, DecidableEq, Inhabited

/-- the error expression of a `return`: `nil`, the error variable bound by the call, or one of the
    package's sentinel errors -/
inductive Err | nil | fromCall | overflow | unsupported | nilErr | untranslatable (src : String)
deriving DecidableEq, Repr, Inhabited

/-- `return e, err` -/
structure R where
  e : E
  err : Err
deriving Repr, DecidableEq, Inhabited

/-- the call on the right-hand side of `val, err := …` (or returned directly):
    a sibling conversion (identified by its target type) or a `strconv` function -/
inductive Src
  | self (m : Ty) | parseInt (bits : Nat) | parseUint (bits : Nat) | parseFloat (bits : Nat) | atoi | parseBool
  | untranslatable (src : String)
deriving Repr, DecidableEq, Inhabited

/-- a `case` body -/
inductive Body
  | ident                                               -- `return ref.(T), nil` with `T` the case type
  | ret (r : R)                                         -- `return e, err`
  | bind (s : Src) (g : Option C) (t : R) (f : Option R) -- `val, err := s; [if g {] return t [}; return f]`
  | direct (s : Src)                                    -- `return s`
  | untranslatable (src : String)
deriving Repr, DecidableEq, Inhabited

/-- which clause of the type switch -/
inductive Kind
  | ty (t : Ty) | dflt | nil | other (src : String)
deriving Repr, DecidableEq, Inhabited

structure Case where
  tgt : Ty          -- the method, named by its result type (`ToByte` = `uint8`, `ToBool` = `bool`)
  src : Kind
  body : Body
deriving Repr, DecidableEq, Inhabited

end FpgoVerif.C02
