import FpgoVerif.Model.C06
/-! Executable model for property C08 (core-only): ConcurrentQueue / ConcurrentStack.

    Mechanism mirrored (queue.go, `ConcurrentQueue.{Put,Take,Offer,Poll}`, `ConcurrentStack.{Push,Pop}`):
    every method is  `q.lock.<Lock|RLock>() ; defer q.lock.<Unlock|RUnlock>() ; return q.queue.<m>(…)`.
    The model is a small-step transition system over ANY sequential object `(σ, apply)`:

      inv t op    thread t calls a method                      (pc idle → waiting)
      acq t       acquires the RWMutex in the method's mode    (excl: lock free;  shared: no writer)
      read t      the delegated call reads the wrapped object  (snapshot of the fields it reads)
      commit t    … and writes its result back                 (obj := apply snapshot op; return value fixed)
      rel t       deferred unlock + return                     (pc → idle, a completed-operation record)

    `read`/`commit` is the coarsest non-atomic granularity of the delegated call (all field reads before
    all field writes); the real C06 micro-steps refine it.  Under an exclusive lock the granularity is
    irrelevant (theorem `C08_linearizable`), under `RLock` it already exhibits the duplicate delivery of
    the pre-fix code (`C08_rlock_refutes`).  A global step counter `now` time-stamps invocation,
    linearization point (the commit, which happens while the lock is held, so commit order = lock
    acquisition order) and response. -/

namespace FpgoVerif.C08

inductive Mode | excl | shared
deriving DecidableEq, Repr

/-- a sequential (non-thread-safe) object behind the wrapper + the lock mode each method takes -/
structure Sys (σ Op Ret : Type) where
  init : σ
  apply : σ → Op → σ × Ret
  mode : Op → Mode

/-- sync.RWMutex: free, one writer, or k ≥ 1 readers -/
inductive Lock | free | excl (t : Nat) | shared (k : Nat)
deriving DecidableEq, Repr

inductive Pc (σ Op Ret : Type)
  | idle
  | waiting (op : Op) (invAt : Nat)
  | locked (op : Op) (invAt : Nat)
  | reading (op : Op) (invAt : Nat) (snap : σ)
  | applied (op : Op) (invAt : Nat) (r : Ret) (linAt : Nat)

/-- entry of the linearization (appended at the commit) -/
structure LinE (Op Ret : Type) where
  t : Nat
  op : Op
  ret : Ret
  linAt : Nat
deriving DecidableEq, Repr

/-- a completed operation: invocation, linearization point and response time stamps -/
structure Rec (Op Ret : Type) where
  t : Nat
  op : Op
  ret : Ret
  invAt : Nat
  linAt : Nat
  retAt : Nat
deriving DecidableEq, Repr

structure State (σ Op Ret : Type) where
  obj : σ
  lock : Lock
  pc : Nat → Pc σ Op Ret
  now : Nat
  lin : List (LinE Op Ret)
  done : List (Rec Op Ret)
  acqs : List Nat            -- ghost: threads in the order they acquired the lock

inductive Act (Op : Type)
  | inv (t : Nat) (op : Op)
  | acq (t : Nat)
  | read (t : Nat)
  | commit (t : Nat)
  | rel (t : Nat)

def upd {β : Type} (f : Nat → β) (a : Nat) (b : β) : Nat → β := fun x => if x = a then b else f x

@[simp] theorem upd_same {β : Type} (f : Nat → β) (a : Nat) (b : β) : upd f a b a = b := by simp [upd]
@[simp] theorem upd_other {β : Type} (f : Nat → β) (a x : Nat) (b : β) (h : x ≠ a) : upd f a b x = f x := by
  simp [upd, h]

def initState {σ Op Ret : Type} (sys : Sys σ Op Ret) : State σ Op Ret :=
  ⟨sys.init, .free, fun _ => .idle, 0, [], [], []⟩

/-- RUnlock -/
def relShared : Lock → Lock
  | .shared (k + 2) => .shared (k + 1)
  | _ => .free

def release (m : Mode) (l : Lock) : Lock :=
  match m with
  | .excl => .free
  | .shared => relShared l

/-- the lock after thread `t` acquires it in mode `m`, if that is possible now -/
def acquire (m : Mode) (t : Nat) : Lock → Option Lock
  | .free => some (match m with | .excl => .excl t | .shared => .shared 1)
  | .shared k => (match m with | .excl => none | .shared => some (.shared (k + 1)))
  | .excl _ => none

/-- one atomic action; `none` = not enabled -/
def step {σ Op Ret : Type} (sys : Sys σ Op Ret) (s : State σ Op Ret) : Act Op → Option (State σ Op Ret)
  | .inv t op =>
    match s.pc t with
    | .idle => some { s with pc := upd s.pc t (.waiting op s.now), now := s.now + 1 }
    | _ => none
  | .acq t =>
    match s.pc t with
    | .waiting op i =>
      match acquire (sys.mode op) t s.lock with
      | some l => some { s with lock := l, pc := upd s.pc t (.locked op i), now := s.now + 1, acqs := s.acqs ++ [t] }
      | none => none
    | _ => none
  | .read t =>
    match s.pc t with
    | .locked op i => some { s with pc := upd s.pc t (.reading op i s.obj), now := s.now + 1 }
    | _ => none
  | .commit t =>
    match s.pc t with
    | .reading op i snap =>
      some { s with obj := (sys.apply snap op).1,
                    pc := upd s.pc t (.applied op i (sys.apply snap op).2 s.now),
                    lin := s.lin ++ [⟨t, op, (sys.apply snap op).2, s.now⟩],
                    now := s.now + 1 }
    | _ => none
  | .rel t =>
    match s.pc t with
    | .applied op i r l =>
      some { s with lock := release (sys.mode op) s.lock, pc := upd s.pc t .idle,
                    done := s.done ++ [⟨t, op, r, i, l, s.now⟩], now := s.now + 1 }
    | _ => none

/-- run a schedule (list of actions); `none` if some action is not enabled -/
def run {σ Op Ret : Type} (sys : Sys σ Op Ret) : State σ Op Ret → List (Act Op) → Option (State σ Op Ret)
  | s, [] => some s
  | s, a :: as => match step sys s a with
    | some s' => run sys s' as
    | none => none

/-- reachable = result of some schedule of any length over any number of threads -/
def Reach {σ Op Ret : Type} (sys : Sys σ Op Ret) (s : State σ Op Ret) : Prop :=
  ∃ acts, run sys (initState sys) acts = some s

/-- the sequential specification: run the operations one at a time -/
def seqRun {σ Op Ret : Type} (apply : σ → Op → σ × Ret) : σ → List Op → σ × List Ret
  | q, [] => (q, [])
  | q, op :: ops =>
    let r := apply q op
    let rest := seqRun apply r.1 ops
    (rest.1, r.2 :: rest.2)

/-! ### the wrapped objects: ideal deque used as queue / stack (C06 proves LinkedListQueue refines it) -/

inductive QOp | put (v : Int) | offer (v : Int) | take | poll
deriving DecidableEq, Repr

inductive SOp | push (v : Int) | pop
deriving DecidableEq, Repr

inductive Ret | nil | ok (v : Int) | empty | full
deriving DecidableEq, Repr

def qApply (q : List Int) : QOp → List Int × Ret
  | .put v => (q ++ [v], .nil)
  | .offer v => (q ++ [v], .nil)
  | .take => (match q with | [] => ([], .empty) | a :: t => (t, .ok a))
  | .poll => (match q with | [] => ([], .empty) | a :: t => (t, .ok a))

def sApply (q : List Int) : SOp → List Int × Ret
  | .push v => (q ++ [v], .nil)
  | .pop => (match q.getLast? with | none => (q, .empty) | some a => (q.dropLast, .ok a))

/-- a BOUNDED wrapped queue (capacity `cap`): an insertion into a full structure reports ErrQueueIsFull and
    changes nothing — "over any wrapped queue/stack" includes objects whose Put/Offer can fail -/
def qApplyB (cap : Nat) (q : List Int) : QOp → List Int × Ret
  | .put v => if q.length < cap then (q ++ [v], .nil) else (q, .full)
  | .offer v => if q.length < cap then (q ++ [v], .nil) else (q, .full)
  | .take => (match q with | [] => ([], .empty) | a :: t => (t, .ok a))
  | .poll => (match q with | [] => ([], .empty) | a :: t => (t, .ok a))

def sApplyB (cap : Nat) (q : List Int) : SOp → List Int × Ret
  | .push v => if q.length < cap then (q ++ [v], .nil) else (q, .full)
  | .pop => (match q.getLast? with | none => (q, .empty) | some a => (q.dropLast, .ok a))

/-- the code as it is now (after fix 8e68593): every method takes the write lock -/
def queueSys : Sys (List Int) QOp Ret := ⟨[], qApply, fun _ => .excl⟩
def stackSys : Sys (List Int) SOp Ret := ⟨[], sApply, fun _ => .excl⟩

/-- the same wrappers over a bounded wrapped object -/
def boundedQueueSys (cap : Nat) : Sys (List Int) QOp Ret := ⟨[], qApplyB cap, fun _ => .excl⟩
def boundedStackSys (cap : Nat) : Sys (List Int) SOp Ret := ⟨[], sApplyB cap, fun _ => .excl⟩

/-- the pinned code: Take/Poll (Pop) under RLock -/
def queueSysPinned : Sys (List Int) QOp Ret :=
  ⟨[], qApply, fun op => match op with | .take => .shared | .poll => .shared | _ => .excl⟩
def stackSysPinned : Sys (List Int) SOp Ret :=
  ⟨[], sApply, fun op => match op with | .pop => .shared | _ => .excl⟩

def offered : List QOp → List Int
  | [] => []
  | .put v :: r => v :: offered r
  | .offer v :: r => v :: offered r
  | _ :: r => offered r

def pushed : List SOp → List Int
  | [] => []
  | .push v :: r => v :: pushed r
  | _ :: r => pushed r

/-- values whose insertion was accepted (returned nil), in order -/
def acceptedQ : List QOp → List Ret → List Int
  | .put v :: ops, .nil :: rets => v :: acceptedQ ops rets
  | .offer v :: ops, .nil :: rets => v :: acceptedQ ops rets
  | _ :: ops, _ :: rets => acceptedQ ops rets
  | _, _ => []

def acceptedS : List SOp → List Ret → List Int
  | .push v :: ops, .nil :: rets => v :: acceptedS ops rets
  | _ :: ops, _ :: rets => acceptedS ops rets
  | _, _ => []

def okVals : List Ret → List Int
  | [] => []
  | .ok v :: r => v :: okVals r
  | _ :: r => okVals r

/-! ### driver side: parsing, a seeded scheduler over `step`, monitors -/

def showRet : Ret → String
  | .nil => "nil" | .ok v => s!"ok {v}" | .empty => "empty" | .full => "full"

def parseQOp (tok : String) : Option QOp :=
  match tok.splitOn ":" with
  | ["put", v] => v.toInt?.map .put
  | ["offer", v] => v.toInt?.map .offer
  | ["take"] => some .take
  | ["poll"] => some .poll
  | _ => none

def parseSOp (tok : String) : Option SOp :=
  match tok.splitOn ":" with
  | ["push", v] => v.toInt?.map .push
  | ["pop"] => some .pop
  | _ => none

def splitOps (body : String) : List String :=
  ((body.splitOn ";").map (fun t => t.trimAscii.toString)).filter (· ≠ "")

/-- one complete call by thread 0 through the wrapper: inv, acq, read, commit, rel -/
def callSeq {σ Op ρ : Type} (sys : Sys σ Op ρ) (showR : ρ → String) (s : State σ Op ρ) (op : Op) : State σ Op ρ × String :=
  match run sys s [.inv 0 op, .acq 0, .read 0, .commit 0, .rel 0] with
  | some s' => (s', match s'.done.getLast? with | some d => showR d.ret | none => "bad")
  | none => (s, "stuck")

def seqCase {σ Op ρ : Type} (sys : Sys σ Op ρ) (showR : ρ → String) (parse : String → Option Op) (body : String) : String :=
  let (_, outs) := (splitOps body).foldl (fun (acc : State σ Op ρ × List String) tok =>
    match parse tok with
    | some op => let (s, o) := callSeq sys showR acc.1 op; (s, o :: acc.2)
    | none => (acc.1, "bad-op" :: acc.2)) (initState sys, [])
  " | ".intercalate outs.reverse

/-! ### the wrappers over the POINTER-LEVEL LinkedListQueue of C06 (σ := `C06.Q`, apply := `C06.step`) -/

/-- the wrapper's methods are LinkedListQueue's: Put = Offer (append), Take = Poll = Shift (remove head) -/
def llqOpQ : QOp → C06.Op
  | .put v => .offer v
  | .offer v => .offer v
  | .take => .shift
  | .poll => .shift

/-- Push = Offer (append), Pop (remove tail) -/
def llqOpS : SOp → C06.Op
  | .push v => .offer v
  | .pop => .pop

/-- ConcurrentQueue over the pointer-level LinkedListQueue (`pick` = arbitrary behaviour of sync.Pool.Get) -/
def llqQueueSys (pick : Nat → Nat) : Sys C06.Q QOp C06.Obs :=
  ⟨C06.initWith pick, fun q op => C06.step q (llqOpQ op), fun _ => .excl⟩

/-- ConcurrentStack over the pointer-level LinkedListQueue -/
def llqStackSys (pick : Nat → Nat) : Sys C06.Q SOp C06.Obs :=
  ⟨C06.initWith pick, fun q op => C06.step q (llqOpS op), fun _ => .excl⟩

def showObs : C06.Obs → String
  | .nil => "nil" | .ok v => s!"ok {v}" | .empty => "empty" | .panic => "panic" | .hang => "hang" | _ => "bad"

/-- `llq` / `cc-llq`: the wrapped object is LinkedListQueue itself -/
def isLLQ (impl : String) : Bool := impl == "llq" || impl == "cc-llq"

/-- the Spec for sequential cases: the ideal deque itself, no lock, no threads -/
def specSeqCase {Op : Type} (apply : List Int → Op → List Int × Ret) (parse : String → Option Op) (body : String) : String :=
  let (_, outs) := (splitOps body).foldl (fun (acc : List Int × List String) tok =>
    match parse tok with
    | some op => let r := apply acc.1 op; (r.1, showRet r.2 :: acc.2)
    | none => (acc.1, "bad-op" :: acc.2)) ([], [])
  " | ".intercalate outs.reverse

def lcg (x : Nat) : Nat := (x * 6364136223846793005 + 1442695040888963407) % 18446744073709551616

/-- re-tabulate the pc function for threads < n (keeps the closure chain short; pointwise identical there) -/
def compact {σ Op : Type} (n : Nat) (s : State σ Op Ret) : State σ Op Ret :=
  let l := (List.range n).map s.pc
  { s with pc := fun t => match l[t]? with | some p => p | none => s.pc t }

structure Sim (σ Op : Type) where
  s : State σ Op Ret
  scripts : List (List Op)     -- remaining calls of each thread
  rng : Nat
  cyclic : Nat               -- threads ≥ cyclic repeat their script forever (consumers)
  retry : Bool := false      -- threads < cyclic re-issue an insertion that reported `full`

/-- seeded scheduler: pick a thread, perform its next action if enabled -/
def simLoop {σ Op : Type} (sys : Sys σ Op Ret) (n : Nat) (stop : Sim σ Op → Bool) : Nat → Sim σ Op → Sim σ Op
  | 0, m => m
  | fuel + 1, m =>
    if fuel % 64 = 0 && stop m then m else
    let rng := lcg m.rng
    let t := (rng / 65536) % n
    let m := { m with rng := rng }
    let m := if fuel % 64 = 0 then { m with s := compact n m.s } else m
    let act : Option (Act Op) := match m.s.pc t with
      | .idle => (match m.scripts.getD t [] with | op :: _ => some (.inv t op) | [] => none)
      | .waiting _ _ => some (.acq t)
      | .locked _ _ => some (.read t)
      | .reading _ _ _ => some (.commit t)
      | .applied _ _ _ _ => some (.rel t)
    match act with
    | none => simLoop sys n stop fuel m
    | some a =>
      match step sys m.s a with
      | none => simLoop sys n stop fuel m
      | some s' =>
        let scripts := match a with
          | .inv _ op => m.scripts.set t (if t ≥ m.cyclic then (m.scripts.getD t []).drop 1 ++ [op] else (m.scripts.getD t []).drop 1)
          | .rel _ =>
            -- an insertion that reported `full` is retried by its thread (producers of the stress cases)
            (match s'.done.getLast? with
             | some d => if d.ret == .full && t < m.cyclic && m.retry then m.scripts.set t (d.op :: m.scripts.getD t []) else m.scripts
             | none => m.scripts)
          | _ => m.scripts
        simLoop sys n stop fuel { m with s := s', scripts := scripts }

def isIdle {σ Op : Type} : Pc σ Op Ret → Bool | .idle => true | _ => false

/-- producers (threads < p) are finished, the structure is empty and `total` values have been removed
    (consumers may be in the middle of a further, necessarily empty, call) -/
def drained {Op : Type} (p total : Nat) (m : Sim (List Int) Op) : Bool :=
  m.s.obj.isEmpty && (List.range p).all (fun t => (m.scripts.getD t []).isEmpty) &&
  (okVals (m.s.lin.map (·.ret))).length == total

def allDone {σ Op : Type} (n : Nat) (m : Sim σ Op) : Bool :=
  (List.range n).all (fun t => (m.scripts.getD t []).isEmpty && isIdle (m.s.pc t))

def field (toks : List String) (k : String) : Nat :=
  match toks.find? (fun t => t.startsWith (k ++ "=")) with
  | some t => ((t.drop (k.length + 1)).toString.toNat?).getD 0
  | none => 0

def isSorted : List Int → Bool
  | a :: b :: r => a < b && isSorted (b :: r)
  | _ => true

/-- `ringK` = the bounded, deliberately non-thread-safe ring buffer of capacity K defined in the harness -/
def ringCap (impl0 : String) : Option Nat :=
  -- `cc-<impl>`: a wrapper wrapping a wrapper of <impl>; calls arrive through both handles, but the underlying
  -- sequential object — hence the model and the spec — is the same
  let impl := if impl0.startsWith "cc-" then (impl0.drop 3).toString else impl0
  if impl.startsWith "ring" then (impl.drop 4).toString.toNat? else none

def sysQ (impl : String) : Sys (List Int) QOp Ret :=
  match ringCap impl with | some k => boundedQueueSys k | none => queueSys
def sysS (impl : String) : Sys (List Int) SOp Ret :=
  match ringCap impl with | some k => boundedStackSys k | none => stackSys

/-- monitors of the stress cases evaluated on the model's own run (queue): conservation in linearization
    order (removed ++ content = accepted), everything removed, legal sequential history, stamps consistent -/
def queueMonitorsOk (sys : Sys (List Int) QOp Ret) (s : State (List Int) QOp Ret) (total : Nat) : Bool :=
  let ops := s.lin.map (·.op)
  let rets := s.lin.map (·.ret)
  let removed := okVals rets
  decide (removed ++ s.obj = acceptedQ ops rets) && decide (removed.length = total) &&
  decide ((seqRun sys.apply [] ops).2 = rets) &&
  s.done.all (fun d => decide (d.invAt < d.linAt) && decide (d.linAt < d.retAt))

def stackMonitorsOk (sys : Sys (List Int) SOp Ret) (s : State (List Int) SOp Ret) (total : Nat) : Bool :=
  let ops := s.lin.map (·.op)
  let rets := s.lin.map (·.ret)
  let removed := okVals rets
  let acc := acceptedS ops rets
  decide (removed.length = total) && decide ((seqRun sys.apply [] ops).2 = rets) &&
  isSorted (removed.mergeSort (· ≤ ·)) && isSorted (acc.mergeSort (· ≤ ·)) &&
  decide (removed.mergeSort (· ≤ ·) = acc.mergeSort (· ≤ ·)) &&
  s.done.all (fun d => decide (d.invAt < d.linAt) && decide (d.linAt < d.retAt))

/-- `stress q|s <impl> p=P c=C n=N seed=S`: P producers offer N distinct values each (retrying while a bounded
    wrapped object reports full), C consumers remove until everything is out.  The model runs a scaled-down
    instance (at most ~240 values) of the same program on the transition system under a seeded scheduler and
    evaluates the monitors on it. -/
def stressCase (kind impl : String) (toks : List String) : String :=
  let p := field toks "p"; let c := field toks "c"; let n := field toks "n"; let seed := field toks "seed"
  if p = 0 ∨ c = 0 then "bad-case" else
  let bounded := (ringCap impl).isSome
  let n' := min n (max 1 ((if bounded then 96 else 240) / p))
  let total := p * n'
  let fuel := (p + c) * 5 * (total * 2 + c * 4) * (if bounded then 400 else 40) + 8192
  if kind = "q" then
    let sys := sysQ impl
    let scripts : List (List QOp) := (List.range (p + c)).map fun t =>
      if t < p then (List.range n').map (fun i => if i % 2 = 0 then QOp.offer (Int.ofNat (t * 100000 + i)) else QOp.put (Int.ofNat (t * 100000 + i)))
      else [QOp.poll, QOp.take]
    let m := simLoop sys (p + c) (drained p total) fuel { s := initState sys, scripts := scripts, rng := seed + 1, cyclic := p, retry := true }
    -- consumers poll until the run is drained (or the generous fuel ends); what matters is that every value
    -- accepted came out exactly once in FIFO order and the structure is empty
    if queueMonitorsOk sys m.s total then s!"ok offered={p * n} removed={p * n}" else "viol model-monitor"
  else
    let sys := sysS impl
    let scripts : List (List SOp) := (List.range (p + c)).map fun t =>
      if t < p then (List.range n').map (fun i => SOp.push (Int.ofNat (t * 100000 + i)))
      else [SOp.pop]
    let m := simLoop sys (p + c) (drained p total) fuel { s := initState sys, scripts := scripts, rng := seed + 1, cyclic := p, retry := true }
    if stackMonitorsOk sys m.s total then s!"ok offered={p * n} removed={p * n}" else "viol model-monitor"

/-- `hist q|s <impl> t=T k=K seed=S`: T threads, K random calls each, free-running; the real history is
    searched for a linearization by the harness.  The model runs the same kind of program and checks that
    its own linearization is a legal sequential history that respects the time stamps. -/
def histCase (kind impl : String) (toks : List String) : String :=
  let t := field toks "t"; let k := field toks "k"; let seed := field toks "seed"
  if t = 0 then "bad-case" else
  let fuel := t * 5 * (t * k) * 40 + 4096
  let okTimes := fun (d : List (Rec QOp Ret)) => d.all (fun r => decide (r.invAt < r.linAt) && decide (r.linAt < r.retAt))
  let okTimesS := fun (d : List (Rec SOp Ret)) => d.all (fun r => decide (r.invAt < r.linAt) && decide (r.linAt < r.retAt))
  if kind = "q" then
    let scripts : List (List QOp) := (List.range t).map fun th =>
      (List.range k).map (fun i => if (lcg (seed * 131 + th * 17 + i) / 65536) % 2 = 0 then QOp.offer (Int.ofNat (th * 100 + i)) else QOp.poll)
    let sys := sysQ impl
    let m := simLoop sys t (allDone t) fuel { s := initState sys, scripts := scripts, rng := seed + 1, cyclic := t }
    let ok := decide ((seqRun sys.apply [] (m.s.lin.map (·.op))).2 = m.s.lin.map (·.ret)) && okTimes m.s.done &&
              decide (m.s.done.length = t * k)
    if ok then s!"ok linearizable ops={t * k}" else "viol model-monitor"
  else
    let scripts : List (List SOp) := (List.range t).map fun th =>
      (List.range k).map (fun i => if (lcg (seed * 131 + th * 17 + i) / 65536) % 2 = 0 then SOp.push (Int.ofNat (th * 100 + i)) else SOp.pop)
    let sys := sysS impl
    let m := simLoop sys t (allDone t) fuel { s := initState sys, scripts := scripts, rng := seed + 1, cyclic := t }
    let ok := decide ((seqRun sys.apply [] (m.s.lin.map (·.op))).2 = m.s.lin.map (·.ret)) && okTimesS m.s.done &&
              decide (m.s.done.length = t * k)
    if ok then s!"ok linearizable ops={t * k}" else "viol model-monitor"

/-- `fresh q|s <impl> k=K rounds=R seed=S`: R brand-new wrappers, on each K threads make their first call together
    (distinct insertions; in some rounds the last thread removes), then conservation is checked.  The model runs
    a sample of the rounds (at most 24) on fresh initial states under the seeded scheduler. -/
def freshCase (kind impl : String) (toks : List String) : String :=
  let k := field toks "k"; let rounds := field toks "rounds"; let seed := field toks "seed"
  if k = 0 then "bad-case" else
  let sample := List.range (min rounds 24)
  let fuel := k * 5 * k * 40 + 2048
  let okAll :=
    if kind = "q" then
      let sys := sysQ impl
      sample.all fun r =>
        let withRemover := decide (k ≥ 2) && (r + seed) % 3 == 0
        let scripts : List (List QOp) := (List.range k).map fun g =>
          if withRemover && g == k - 1 then [QOp.poll]
          else if g % 2 == 0 then [QOp.offer (Int.ofNat (g + 1))] else [QOp.put (Int.ofNat (g + 1))]
        let m := simLoop sys k (allDone k) fuel { s := initState sys, scripts := scripts, rng := seed + r + 1, cyclic := k }
        let ops := m.s.lin.map (·.op); let rets := m.s.lin.map (·.ret)
        decide (okVals rets ++ m.s.obj = acceptedQ ops rets) && decide ((seqRun sys.apply [] ops).2 = rets) &&
        decide (m.s.done.length = k)
    else
      let sys := sysS impl
      sample.all fun r =>
        let withRemover := decide (k ≥ 2) && (r + seed) % 3 == 0
        let scripts : List (List SOp) := (List.range k).map fun g =>
          if withRemover && g == k - 1 then [SOp.pop] else [SOp.push (Int.ofNat (g + 1))]
        let m := simLoop sys k (allDone k) fuel { s := initState sys, scripts := scripts, rng := seed + r + 1, cyclic := k }
        let ops := m.s.lin.map (·.op); let rets := m.s.lin.map (·.ret)
        decide ((okVals rets ++ m.s.obj).mergeSort (· ≤ ·) = (acceptedS ops rets).mergeSort (· ≤ ·)) &&
        decide ((seqRun sys.apply [] ops).2 = rets) && decide (m.s.done.length = k)
  if okAll then s!"ok rounds={rounds}" else "viol model-monitor"

def splitHead (line : String) : String × String :=
  match line.splitOn ": " with
  | [h] => (h, "")
  | h :: rest => (h, ": ".intercalate rest)
  | [] => ("", "")

/-- protocol entry point.
    `seq q|s <impl>: op ; op ; …`, `stress q|s <impl> p= c= n= seed=`, `hist q|s <impl> t= k= seed=` -/
def handle (line : String) : String :=
  let (head, body) := splitHead line
  let toks := (head.splitOn " ").filter (· ≠ "")
  match toks with
  -- sequential cases over LinkedListQueue are executed on the pointer-level heap of C06 under the lock protocol
  | "seq" :: "q" :: impl :: _ =>
    if isLLQ impl then seqCase (llqQueueSys (fun _ => 0)) showObs parseQOp body else seqCase (sysQ impl) showRet parseQOp body
  | "seq" :: "s" :: impl :: _ =>
    if isLLQ impl then seqCase (llqStackSys (fun _ => 0)) showObs parseSOp body else seqCase (sysS impl) showRet parseSOp body
  | "stress" :: kind :: impl :: _ => stressCase kind impl toks
  | "hist" :: kind :: impl :: _ => histCase kind impl toks
  | "fresh" :: kind :: impl :: _ => freshCase kind impl toks
  | _ => "bad-case"

/-- spec-level oracle.  Sequential cases: the ideal deque.  Concurrent cases: the harness monitors print
    `viol <kind>` only for something no linearizable history can contain (duplicate, lost, phantom value,
    per-producer order inversion, impossible `empty`, panic, no linearization found). -/
def judge (line impl : String) : String :=
  let (head, body) := splitHead line
  let toks := (head.splitOn " ").filter (· ≠ "")
  match toks with
  | "seq" :: "q" :: w :: _ =>
    let spec := specSeqCase (sysQ w).apply parseQOp body
    if impl = spec then "allowed agrees with the ideal (bounded) FIFO queue"
    else s!"violation ideal FIFO queue gives: {spec}"
  | "seq" :: "s" :: w :: _ =>
    let spec := specSeqCase (sysS w).apply parseSOp body
    if impl = spec then "allowed agrees with the ideal (bounded) LIFO stack"
    else s!"violation ideal LIFO stack gives: {spec}"
  | _ =>
    if impl.startsWith "ok " then "allowed monitors silent"
    else s!"violation not a linearizable history: {impl}"

end FpgoVerif.C08
