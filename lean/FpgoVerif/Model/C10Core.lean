/-! C10 — Publisher (publisher.go): the transition system.

    One publisher = slice header `subs` of `subscribers` over a heap of backing arrays (cells hold
    subscription ids; 0 = nil), the `subOn` field, and per-goroutine stacks of frames.  Every access
    to `subscribers` in the code happens inside `doSubscribeSafe` (Lock; fn; Unlock — closing theorems
    `C10_skel_*`), so each critical section is ONE atomic step here; callbacks run outside the lock.

    Atoms (re-derived from the current code, after fix b463b1a):
      subscribe      [M] subs := append(subs, s)            in place iff len < cap, else a fresh array
      subscribeNil   the same for a Subscription whose OnNext is nil (zero value): registered, never invoked
      unsubBegin s   call Unsubscribe(s)
      unsubStep      [M] first i with subs[i] = s: subs := fresh copy without index i (fixed = true)
                         / append(subs[:i], subs[i+1:]...) in place (fixed = false, the pre-fix code);
                         no match: Unsubscribe returns
      pubBegin v     [M] snapshot := subs  (header copy: same array, fixed length)
      deliver        read snapshot[k] FROM THE ARRAY AS IT IS NOW, k++; `if s.OnNext != nil`: OnNext(v) directly
                     (pushes a callback frame on the same goroutine) or Post to the handler (subOn);
                     a subscription without OnNext is passed over (the loop goes on)
      cbReturn       the callback returns
      pubEnd         loop finished, Publish returns
      setSubOn       SubscribeOn(h)
      hrun           the handler goroutine takes the oldest posted delivery and runs it
    A goroutine may start any operation when it is at top level or inside a callback (arbitrary
    re-entrant scripts); any goroutine may move at any time (arbitrary schedules).
    Ghost fields (never read by the mechanism): `snap`, `n0`, `done0`, `dl` of a publish frame,
    `unsubDone`, `ended`, `log`, `hlog`. -/

namespace FpgoVerif.C10

structure Hdr where
  arr : Nat
  len : Nat
  cap : Nat
deriving DecidableEq, Repr, Inhabited

abbrev Heap := List (List Nat)

def cellsOf (hp : Heap) (a : Nat) : List Nat := hp.getD a []

/-- the elements a slice header denotes -/
def content (hp : Heap) (h : Hdr) : List Nat := (cellsOf hp h.arr).take h.len

/-- `snapshot[k]` read through the header from the array as it is now -/
def readCell (hp : Heap) (h : Hdr) (k : Nat) : Nat := (cellsOf hp h.arr).getD k 0

/-- `append(subs, x)`: in place iff the capacity allows, otherwise a fresh array whose capacity is
    given by the growth policy `grow` (any policy; at least len+1 is enforced) -/
def appendSub (grow : Nat → Nat) (hp : Heap) (h : Hdr) (x : Nat) : Heap × Hdr :=
  if h.len < h.cap then (hp.modify h.arr (fun c => c.set h.len x), { h with len := h.len + 1 })
  else
    let c := max (grow h.cap) (h.len + 1)
    (hp ++ [content hp h ++ x :: List.replicate (c - (h.len + 1)) 0], ⟨hp.length, h.len + 1, c⟩)

/-- index of the first occurrence -/
def findIdx (s : Nat) : List Nat → Option Nat
  | [] => none
  | a :: l => if a = s then some 0 else (findIdx s l).map (· + 1)

/-- the repaired removal: `make(0, len-1)`, `append(new, subs[:i]...)`, `append(new, subs[i+1:]...)` -/
def removeCopy (hp : Heap) (h : Hdr) (i : Nat) : Heap × Hdr :=
  (hp ++ [(content hp h).eraseIdx i], ⟨hp.length, h.len - 1, h.len - 1⟩)

/-- the pre-fix removal `append(subs[:i], subs[i+1:]...)`: shifts the shared array left in place -/
def removeInPlace (hp : Heap) (h : Hdr) (i : Nat) : Heap × Hdr :=
  (hp.modify h.arr (fun c => c.take i ++ ((c.drop (i + 1)).take (h.len - 1 - i)) ++ c.drop (h.len - 1)),
   { h with len := h.len - 1 })

/-- a running `Publish` call -/
structure PubF where
  pid : Nat
  val : Int
  h : Hdr            -- the snapshot header
  k : Nat            -- loop index
  snap : List Nat    -- ghost: content of `subs` at the snapshot
  n0 : Nat           -- ghost: nextId at the snapshot (ids < n0 were registered before the call)
  done0 : List Nat   -- ghost: Unsubscribe calls completed before the snapshot
  dl : List Nat      -- ghost: subscriptions this call has delivered to (OnNext called / posted), in order
deriving Repr, Inhabited

/-- a finished `Publish` call -/
structure PubRec where
  f : PubF
  regEnd : List Nat  -- content of `subs` when the call returned
deriving Repr, Inhabited

inductive Frame
  | cb                 -- inside an OnNext callback
  | unsub (s : Nat)    -- inside Unsubscribe(s)
  | pub (f : PubF)     -- inside Publish
deriving Repr, Inhabited

structure State where
  heap : Heap
  subs : Hdr
  nextId : Nat
  nextPid : Nat
  subOn : Bool
  silent : Nat → Bool                -- the subscription's OnNext field is nil
  stacks : Nat → List Frame          -- per goroutine, top first
  mailbox : List (Nat × Nat × Int)   -- posted, not yet run deliveries (pid, sid, v), oldest first
  unsubDone : List Nat               -- ghost
  ended : List PubRec                -- ghost, newest first
  log : List (Nat × Nat × Int × Bool) -- ghost: every delivery (pid, sid, v, posted to the handler instead of
                                      --        calling OnNext directly), newest first
  hlog : List (Nat × Nat × Int)      -- ghost: deliveries run by the handler, newest first

/-- ghost: the Posts to the handler, newest first -/
def State.posted (s : State) : List (Nat × Nat × Int) :=
  (s.log.filter (fun e => e.2.2.2)).map (fun e => (e.1, e.2.1, e.2.2.1))

/-- ghost: the subscriptions Publish call `p` has delivered to, in order, read off the global log -/
def dlOf (log : List (Nat × Nat × Int × Bool)) (p : Nat) : List Nat :=
  ((log.filter (fun e => e.1 = p)).map (fun e => e.2.1)).reverse

def upd {β} (f : Nat → β) (a : Nat) (b : β) : Nat → β := fun x => if x = a then b else f x

@[simp] theorem upd_same {β} (f : Nat → β) (a : Nat) (b : β) : upd f a b a = b := by simp [upd]
@[simp] theorem upd_other {β} (f : Nat → β) (a x : Nat) (b : β) (h : x ≠ a) : upd f a b x = f x := by
  simp [upd, h]

/-- the nil slice: array 0 is the empty array -/
def init : State :=
  { heap := [[]], subs := ⟨0, 0, 0⟩, nextId := 1, nextPid := 0, subOn := false, silent := fun _ => false, stacks := fun _ => [],
    mailbox := [], unsubDone := [], ended := [], log := [], hlog := [] }

inductive Act
  | subscribe (t : Nat)
  | subscribeNil (t : Nat)
  | unsubBegin (t : Nat) (s : Nat)
  | unsubStep (t : Nat)
  | pubBegin (t : Nat) (v : Int)
  | deliver (t : Nat)
  | cbReturn (t : Nat)
  | pubEnd (t : Nat)
  | setSubOn (t : Nat) (b : Bool)
  | hrun (t : Nat)
deriving Repr

/-- a goroutine can start an operation at top level or inside a callback -/
def scriptPos : List Frame → Bool
  | [] => true
  | .cb :: _ => true
  | _ => false

/-- one atomic step; `none` = not enabled.  `fixed = false` is the pre-fix Unsubscribe. -/
def step (fixed : Bool) (grow : Nat → Nat) (s : State) : Act → Option State
  | .subscribe t =>
    if scriptPos (s.stacks t) then
      let (hp, h) := appendSub grow s.heap s.subs s.nextId
      some { s with heap := hp, subs := h, nextId := s.nextId + 1 }
    else none
  | .subscribeNil t =>
    if scriptPos (s.stacks t) then
      let (hp, h) := appendSub grow s.heap s.subs s.nextId
      some { s with heap := hp, subs := h, nextId := s.nextId + 1, silent := upd s.silent s.nextId true }
    else none
  | .unsubBegin t x =>
    if scriptPos (s.stacks t) ∧ 0 < x ∧ x < s.nextId then
      some { s with stacks := upd s.stacks t (.unsub x :: s.stacks t) }
    else none
  | .unsubStep t =>
    match s.stacks t with
    | .unsub x :: rest =>
      match findIdx x (content s.heap s.subs) with
      | some i =>
        let (hp, h) := if fixed then removeCopy s.heap s.subs i else removeInPlace s.heap s.subs i
        some { s with heap := hp, subs := h }
      | none => some { s with stacks := upd s.stacks t rest, unsubDone := x :: s.unsubDone }
    | _ => none
  | .pubBegin t v =>
    if scriptPos (s.stacks t) then
      let f : PubF := { pid := s.nextPid, val := v, h := s.subs, k := 0, snap := content s.heap s.subs,
                        n0 := s.nextId, done0 := s.unsubDone, dl := [] }
      some { s with nextPid := s.nextPid + 1, stacks := upd s.stacks t (.pub f :: s.stacks t) }
    else none
  | .deliver t =>
    match s.stacks t with
    | .pub f :: rest =>
      if f.k < f.h.len then
        let c := readCell s.heap f.h f.k
        if s.silent c then some { s with stacks := upd s.stacks t (.pub { f with k := f.k + 1 } :: rest) } else
        let f' := { f with k := f.k + 1, dl := f.dl ++ [c] }
        if s.subOn then
          some { s with stacks := upd s.stacks t (.pub f' :: rest),
                        mailbox := s.mailbox ++ [(f.pid, c, f.val)], log := (f.pid, c, f.val, true) :: s.log }
        else
          some { s with stacks := upd s.stacks t (.cb :: .pub f' :: rest), log := (f.pid, c, f.val, false) :: s.log }
      else none
    | _ => none
  | .cbReturn t =>
    match s.stacks t with
    | .cb :: rest => some { s with stacks := upd s.stacks t rest }
    | _ => none
  | .pubEnd t =>
    match s.stacks t with
    | .pub f :: rest =>
      if f.k < f.h.len then none
      else some { s with stacks := upd s.stacks t rest, ended := ⟨f, content s.heap s.subs⟩ :: s.ended }
    | _ => none
  | .setSubOn t b =>
    if scriptPos (s.stacks t) then some { s with subOn := b } else none
  | .hrun t =>
    match s.stacks t, s.mailbox with
    | [], m :: rest => some { s with stacks := upd s.stacks t [.cb], mailbox := rest, hlog := m :: s.hlog }
    | _, _ => none

/-- run a schedule (a list of actions); `none` if some action is not enabled -/
def run (fixed : Bool) (grow : Nat → Nat) : State → List Act → Option State
  | s, [] => some s
  | s, a :: as => match step fixed grow s a with
    | some s' => run fixed grow s' as
    | none => none

/-- reachable states of the repaired code, for every growth policy, schedule and script -/
inductive Reach (grow : Nat → Nat) : State → Prop
  | init : Reach grow init
  | step {s s' : State} (a : Act) : Reach grow s → step true grow s a = some s' → Reach grow s'

/-- Go's growth for pointer slices in the small range used by the driver: 0 → 1 → 2 → 4 → 8 … -/
def goGrow (c : Nat) : Nat := if c = 0 then 1 else 2 * c

end FpgoVerif.C10
