/-! Executable model for property C14 (core-only).  Not built yet: the driver answers
    `unimplemented` so that a check of this property cannot pass by accident. -/
namespace FpgoVerif.C14

/-- one protocol case line in, one canonical observation line out -/
def handle (_line : String) : String := "unimplemented"

/-- spec-level oracle: given the case line and the observation printed by the real code, decide
    whether the *property* is violated (`violation <why>`) or not (`allowed <why>`). -/
def judge (_line _impl : String) : String := "violation model-and-implementation-disagree"

end FpgoVerif.C14
