/-! Executable model for property C14 (core-only): one target coroutine, any number of callers (cor.go).

    caller i:  YieldFrom(target, x) = ⟨send: target.opCh <- (i, x)  (under target.closedM; blocks while `cap` are
               pending)⟩ ⟨recv: y := <-resultCh_i⟩, sequentially for its script of requests.
    target:    YieldRef(y) = ⟨take: op := <-opCh⟩ ⟨answer: op.cor ≠ nil → op.cor.resultCh <- y⟩ return op.val;
               y is what the generator yields at that point: a function `gen` of the requests taken so far.
    StartWithVal(v) = receive(nil, v): an op without a caller in front of everything; nobody is answered.
    Ghost: `served` = the ops taken by the target, in order, with the y yielded for each.
    Hypothesis of the property (the target still has YieldRefs to serve): the target never finishes here —
    finishing is C15's system. -/

namespace FpgoVerif.C14

structure St where
  pending : Nat → List Nat
  waiting : Nat → Bool
  opCh : List (Option Nat × Nat)
  inflight : Option (Option Nat × Nat × Nat)
  resCh : Nat → List Nat
  got : Nat → List Nat
  served : List (Option Nat × Nat × Nat)

def updL (f : Nat → List Nat) (i : Nat) (v : List Nat) : Nat → List Nat := fun k => if k = i then v else f k
def updB (f : Nat → Bool) (i : Nat) (v : Bool) : Nat → Bool := fun k => if k = i then v else f k

def seenOf (l : List (Option Nat × Nat × Nat)) : List (Option Nat × Nat) := l.map (fun o => (o.1, o.2.1))

inductive Act | send (i : Nat) | take | answer | recv (i : Nat)
deriving Repr

/-- one atom; `gen` = the generator (what the next YieldRef yields, given what was taken so far) -/
def step (gen : List (Option Nat × Nat) → Nat) (cap : Nat) (s : St) : Act → Option St
  | .send i =>
    match s.pending i with
    | x :: rest =>
      if s.waiting i = false ∧ s.opCh.length < cap then
        some { s with pending := updL s.pending i rest, waiting := updB s.waiting i true, opCh := s.opCh ++ [(some i, x)] }
      else none
    | [] => none
  | .take =>
    match s.inflight, s.opCh with
    | none, (c, x) :: rest =>
      let y := gen (seenOf s.served)
      some { s with inflight := some (c, x, y), opCh := rest, served := s.served ++ [(c, x, y)] }
    | _, _ => none
  | .answer =>
    match s.inflight with
    | some (some i, _, y) => some { s with inflight := none, resCh := updL s.resCh i (s.resCh i ++ [y]) }
    | some (none, _, _) => some { s with inflight := none }
    | none => none
  | .recv i =>
    match s.resCh i with
    | y :: rest =>
      if s.waiting i = true then
        some { s with resCh := updL s.resCh i rest, got := updL s.got i (s.got i ++ [y]), waiting := updB s.waiting i false }
      else none
    | [] => none

/-- initial state: scripts per caller; `sv` = StartWithVal's value (an op without a caller) -/
def init (script : Nat → List Nat) (sv : Option Nat) : St :=
  { pending := script, waiting := fun _ => false,
    opCh := match sv with | some v => [(none, v)] | none => [],
    inflight := none, resCh := fun _ => [], got := fun _ => [], served := [] }

inductive Reach (gen : List (Option Nat × Nat) → Nat) (cap : Nat) (script : Nat → List Nat) (sv : Option Nat) : St → Prop
  | init : Reach gen cap script sv (init script sv)
  | step {s s'} (a : Act) : Reach gen cap script sv s → step gen cap s a = some s' → Reach gen cap script sv s'

/-- projections of a list of ops to caller i -/
def xsOf (i : Nat) (l : List (Option Nat × Nat × Nat)) : List Nat := (l.filter (fun o => o.1 == some i)).map (·.2.1)
def ysOf (i : Nat) (l : List (Option Nat × Nat × Nat)) : List Nat := (l.filter (fun o => o.1 == some i)).map (·.2.2)
def chOf (i : Nat) (l : List (Option Nat × Nat)) : List Nat := (l.filter (fun o => o.1 == some i)).map (·.2)
def inflY (i : Nat) : Option (Option Nat × Nat × Nat) → List Nat
  | some (some j, _, y) => if j = i then [y] else []
  | _ => []

/-! ### executable side: the harness's three generator shapes and a round-robin scheduler -/

def callerXs (l : List (Option Nat × Nat)) : List Nat := l.filterMap (fun o => match o.1 with | some _ => some o.2 | none => none)

def shapeGen (shape : String) (hasStart : Bool) (seen : List (Option Nat × Nat)) : Nat :=
  if hasStart && seen.isEmpty then 0 else
  let xs := callerXs seen
  if shape == "fixed" then 7 * xs.length + 3
  else if shape == "echo" then (match xs.getLast? with | some x => x + 1 | none => 1)
  else xs.foldl (· + ·) 0 % 100003 + 2

def mkScript (reqs : List Nat) : Nat → List Nat := fun i =>
  match reqs[i]? with
  | some n => (List.range n).map (fun s => i * 1000 + s + 1)
  | none => []

/-- round-robin over all actions until nothing is enabled (fuel-bounded) -/
def runRR (gen : List (Option Nat × Nat) → Nat) (cap n : Nat) : Nat → St → St
  | 0, s => s
  | fuel + 1, s =>
    let acts := [Act.take, Act.answer] ++ (List.range n).flatMap (fun i => [Act.recv i, Act.send i])
    let (s', moved) := acts.foldl (fun (acc : St × Bool) a =>
      match step gen cap acc.1 a with
      | some t => (t, true)
      | none => acc) (s, false)
    if moved then runRR gen cap n fuel s' else s'

def kv (ps : List String) (k : String) : String :=
  match ps.filterMap (fun p => match p.splitOn "=" with | [a, b] => if a == k then some b else none | _ => none) with
  | v :: _ => v
  | [] => ""

/-- the monitors of harness/c14.go evaluated on the model's own run -/
def pairCase (ps : List String) : String :=
  let shape := kv ps "shape"
  let reqs := ((kv ps "reqs").splitOn ",").map (fun t => t.toNat?.getD 0)
  let svs := kv ps "startval"
  let startNil := svs == "nil"
  let sv := svs.toNat?.getD 0
  let hasStart := startNil || decide (0 < sv)
  let gen := shapeGen shape hasStart
  let n := reqs.length
  let total := reqs.foldl (· + ·) 0
  let script := mkScript reqs
  let s := runRR gen 5 n (8 * total + 16) (init script (if hasStart then some sv else none))
  let okCallers := (List.range n).all (fun i =>
    xsOf i s.served == script i && s.got i == ysOf i s.served && (s.got i).length == (script i).length)
  let first := match s.served with
    | (none, v, _) :: _ => some v
    | _ => none
  -- StartWithVal(zero value of T): nil for interface{} / pointer element types, 0 for int
  let showFirst : String := match first with
    | some v => if startNil && kv ps "ty" != "int" && kv ps "ty" != "" then "nil" else toString v
    | none => "none"
  if !okCallers then "viol model-run"
  else if hasStart && first != some sv then "viol startval"
  else if !hasStart && first.isSome then "viol startval"
  else s!"ok total={total} first={showFirst}"

/-- `zero ty=…`: requests and yielded values equal to the zero value (0 here; the model is value-agnostic) are
    paired like any others: one caller asks [0,5,0,6], the target yields [3,0,4,0] -/
def zeroCase : String :=
  let ys := [3, 0, 4, 0]
  let s := runRR (fun seen => ys.getD seen.length 0) 5 1 64 (init (fun i => if i = 0 then [0, 5, 0, 6] else []) none)
  if xsOf 0 s.served == [0, 5, 0, 6] && s.got 0 == ys then "ok zero" else "viol model-run"

/-! ### DoNotation / YieldFromIO / lifecycle flags: a two-goroutine transition system

    DoNotation(effect):  main:   ⟨m0: wg.Add(1)⟩ ⟨m1: cor.Start(): isStarted.Set(true); go …⟩
                                 ⟨m2: wg.Wait() — enabled iff the counter is 0⟩ ⟨m3: return result⟩
                         effect goroutine (exists once started):
                                 ⟨e0: result = effect(cor)⟩ ⟨e1: wg.Done()⟩ ⟨e2: effect returned; close(): isClosed.Set(true)⟩
    YieldFromIO(io) has the same shape: Add(1); Subscribe (OnNext = ⟨result = in⟩ ⟨wg.Done()⟩, run by the subscribing
    goroutine itself or by the Handler the IO is observed on — some interleaving of `eff` atoms); Wait(); return result.
    `v` = the value the effect / the IO produces; `result` starts as the zero value. -/
inductive MPc | m0 | m1 | m2 | m3 | ret (r : Nat)
deriving DecidableEq, Repr
inductive EPc | idle | e0 | e1 | e2 | fin
deriving DecidableEq, Repr

structure DnSt where
  wg : Nat := 0
  result : Nat := 0
  started : Bool := false
  done : Bool := false
  m : MPc := .m0
  e : EPc := .idle

inductive DnAct | main | eff
deriving Repr

def dnStep (v : Nat) (s : DnSt) : DnAct → Option DnSt
  | .main =>
    match s.m with
    | .m0 => some { s with wg := s.wg + 1, m := .m1 }
    | .m1 => some { s with started := true, e := .e0, m := .m2 }
    | .m2 => if s.wg = 0 then some { s with m := .m3 } else none
    | .m3 => some { s with m := .ret s.result }
    | .ret _ => none
  | .eff =>
    match s.e with
    | .e0 => some { s with result := v, e := .e1 }
    | .e1 => some { s with wg := s.wg - 1, e := .e2 }
    | .e2 => some { s with done := true, e := .fin }
    | _ => none

inductive DnReach (v : Nat) : DnSt → Prop
  | init : DnReach v {}
  | step {s s'} (a : DnAct) : DnReach v s → dnStep v s a = some s' → DnReach v s'

/-- run a schedule (disabled atoms are skipped) -/
def dnRun (v : Nat) : DnSt → List DnAct → DnSt
  | s, [] => s
  | s, a :: rest => match dnStep v s a with
    | some s' => dnRun v s' rest
    | none => dnRun v s rest

/-- what DoNotation / YieldFromIO return on the round-robin schedule (any other schedule: `C14_doNotation`) -/
def doNotation (v : Nat) : Option Nat :=
  match (dnRun v {} [.main, .eff, .main, .eff, .main, .eff, .main, .eff, .main, .eff]).m with
  | .ret r => some r
  | _ => none

/-- lifecycle flags (IsStarted, IsDone) before Start, while the effect runs, after it returned -/
structure Flags where
  started : Bool
  done : Bool
def flagsTrace : List Flags :=
  let s0 : DnSt := {}
  let s1 := dnRun 0 s0 [.main, .main]                  -- Add; Start: the effect goroutine exists and runs
  let s2 := dnRun 0 s1 [.eff, .eff, .eff]              -- effect returned, close() ran
  [s0, s1, s2].map (fun s => ⟨s.started, s.done⟩)

/-- `donotyf v=V`: the effect run by DoNotation is a caller like any other: one YieldFrom(target, V) against a
    target yielding V+100 (the coroutine system above), and DoNotation returns what the effect returns -/
def donotYf (v : Nat) : String :=
  let s := runRR (fun _ => v + 100) 5 1 16 (init (fun i => if i = 0 then [v] else []) none)
  match s.got 0, xsOf 0 s.served with
  | [y], [x] => (match doNotation y with | some r => s!"ok {r} saw={x}" | none => "hang")
  | _, _ => "viol model-run"

def b01 (b : Bool) : String := if b then "b1" else "b0"

def joinNats (l : List Nat) : String := ",".intercalate (l.map toString)

/-- `two …`: after its first target finished (YieldFrom on it returned the zero value — C15's `C15_cor_after_zero`
    and the drain of close()), the caller's conversation with the second target is an ordinary run of this system:
    one caller, script 1..K, fixed-sequence generator y_k = 100+k.  Nothing of the first conversation is part of
    the second system's state, so the answers are exactly 101..100+K. -/
def twoCase (ps : List String) : String :=
  let n2 := match (kv ps "n2").toNat? with | some k => (if k = 0 then 3 else k) | none => 3
  if kv ps "mode" == "stress" then s!"ok callers={kv ps "callers"} n2={kv ps "n2"}" else
  let script : Nat → List Nat := fun i => if i = 0 then (List.range n2).map (· + 1) else []
  let gen : List (Option Nat × Nat) → Nat := fun seen => 101 + (callerXs seen).length
  let s := runRR gen 5 1 (8 * n2 + 16) (init script none)
  s!"ok r0=0 ys={joinNats (s.got 0)} xs={joinNats (xsOf 0 s.served)}"

def handle (line : String) : String :=
  match (line.splitOn " ").filter (· ≠ "") with
  | "pair" :: ps => pairCase ps
  | "zero" :: _ => zeroCase
  | "two" :: ps => twoCase ps
  | ["donot", p] => match doNotation ((kv [p] "v").toNat?.getD 0) with | some v => s!"ok {v}" | none => "hang"
  | "yfio" :: ps =>
    -- the IO's value: v, or v+1 through the FlatMap chain; where it is observed and how long it takes do not matter
    let v := (kv ps "v").toNat?.getD 0
    match doNotation (if kv ps "flat" == "1" then v + 1 else v) with | some r => s!"ok {r}" | none => "hang"
  | ["donottarget", p] =>
    -- the DoNotation coroutine is an ordinary started target: its single YieldRef(v+100) takes the one request v
    let v := (kv [p] "v").toNat?.getD 0
    let script : Nat → List Nat := fun i => if i = 0 then [v] else []
    let s := runRR (fun _ => v + 100) 5 1 24 (init script none)
    (match doNotation ((xsOf 0 s.served).headD 0), (s.got 0).head? with
      | some r, some y => s!"ok ret={r} y={y} started={b01 ((flagsTrace.getD 1 ⟨false, false⟩).started)}"
      | _, _ => "hang")
  | ["donotyf", p] => donotYf ((kv [p] "v").toNat?.getD 0)
  | ["flags"] => " ".intercalate (flagsTrace.map (fun f => b01 f.started ++ " " ++ b01 f.done))
  | _ => "bad-line"

/-- spec-level oracle: the harness's monitors are the property's own clauses; any `viol`/hang/panic is a violation -/
def judge (_line impl : String) : String :=
  if impl.startsWith "viol" then "violation " ++ impl
  else if impl == "hang" || impl == "crash" || impl == "panic" then "violation the case did not complete: " ++ impl
  else if impl.startsWith "ok" || impl.startsWith "b" then "violation value differs from the specified one: " ++ impl
  else "violation unexpected observation"

end FpgoVerif.C14
