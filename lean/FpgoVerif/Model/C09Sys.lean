/-! C09 — the worker pool (`worker/pool.go`) as an interleaving transition system (core-only, executable).

    Threads: any number of submitters (`Schedule` / `ScheduleWithTimeout` / `Invoke`, each call = one
    entry of `subs`; the job it carries is identified with its index), one closer, the spawn loop,
    any number of workers (entries of `workers`, in spawn order), external callers of
    `generateWorkerWithMaximum` (`PreAllocWorkerSize`).  Every step is one atomic action of the code:
    an atomic flag access, one critical section of `lock`, one channel operation.  Timers (expiry,
    jam, deadline, sleeps) are nondeterminism: the corresponding step may be taken whenever it is
    enabled.  The job queue is the C07 abstraction: a bounded FIFO whose `Offer` answers
    ok / full / closed (its own correctness is property C07).

    `Cfg.atomicExpiry = true` is the code as repaired by `proposed-fix-expiry-race.patch` (decision and
    `workerCount--` of an expiring worker in one critical section); `false` is the earlier mechanism
    (decision under `RLock`, decrement later in the deferred exit), kept so that the refutation of the
    progress invariant for it can be stated about the same definitions. -/
namespace FpgoVerif.C09

/-- the pool settings that matter (durations are nondeterminism) and the queue geometry -/
structure Cfg where
  max : Nat            -- workerSizeMaximum
  standby : Nat        -- workerSizeStandBy
  batch : Nat          -- workerBatchSize
  chanCap : Nat        -- channel capacity of the BufferedChannelQueue
  buf : Nat            -- its bufferSizeMaximum
  closeQueue : Bool    -- isJobQueueClosedWhenClose
  atomicExpiry : Bool  -- expiry decision and decrement in one critical section (repaired code)
deriving Repr, DecidableEq

/-- what `Schedule*` returns: nil, ErrWorkerPoolJobQueueIsFull, ErrWorkerPoolIsClosed, fpgo.ErrQueueIsClosed
    (passed through unchanged when Close lands between the closed check and the Offer),
    ErrWorkerPoolScheduleTimeout -/
inductive Res | ok | full | poolClosed | queueClosed | timeout
deriving Repr, DecidableEq

/-- program counter of one submission -/
inductive SPc
  | check            -- Schedule: about to read isClosed
  | offer            -- passed the closed check (park point pool.schedule.afterClosedCheck); jobQueue.Offer next
  | token (r : Res)  -- Offer answered r; the deferred spawnWorkerCh.Offer(1) is pending
  | lcheck           -- ScheduleWithTimeout retry loop: about to read isClosed
  | dcheck           -- retry loop: Schedule said Full again; deadline test next
  | fin (r : Res)    -- returned r
deriving Repr, DecidableEq

structure Sub where
  timed : Bool       -- ScheduleWithTimeout (true) or Schedule / Invoke (false)
  first : Bool       -- still in the first Schedule call of ScheduleWithTimeout
  dl : Bool          -- the deadline event has happened
  pc : SPc
deriving Repr, DecidableEq

/-- program counter of one worker goroutine -/
inductive WPc
  | top                     -- loop head: about to read isClosed
  | sel                     -- passed the closed check (pool.worker.afterClosedCheck): GetChannel + select
  | got (j : Nat)           -- received job j; Lock; isBusy = true; workerBusy++ next
  | run (j : Nat)           -- job j executing
  | aft (j : Nat)           -- job returned (pool.worker.afterJob); Lock; workerBusy-- next
  | pan (j : Nat) (v : Nat) -- job j panicked with value v; recover + panic handler next
  | exitDec (p : Bool)      -- deferred exit: Lock; workerCount--; (p: after a panic, isBusy) workerBusy--
  | exitTok                 -- pool.worker.exit.afterUnlock after a panic: spawnWorkerCh.Offer(1) next
  | gone
deriving Repr, DecidableEq

/-- program counter of the spawn loop -/
inductive SpPc
  | wait                 -- blocked in `range spawnWorkerCh`
  | awake                -- took a token; about to read isClosed
  | cnt1                 -- trySpawn under RLock: first jobQueue.Count()
  | cnt2 (n1 : Nat)      -- second jobQueue.Count(), then the standby / maximum / jam rules
  | computed (e : Nat)   -- RUnlock done (pool.tryspawn.afterRUnlock); unlocked read `workerCount < e` next
  | enter (e : Nat)      -- the `if` was true; the loop initialiser `i := workerCount` (a second unlocked read) next
  | loop (i e : Nat)     -- `for i < e`: generateWorkerWithMaximum(e) next
  | sleep
  | exited
deriving Repr, DecidableEq

structure St where
  closed : Bool := false          -- pool.isClosed
  cl : Nat := 0                   -- closer: 0 not started, 1 flag set (pool.close.afterFlag), 2 returned
  qclosed : Bool := false         -- jobQueue closed
  queue : List Nat := []          -- accepted jobs not yet received by a worker, FIFO
  count : Nat := 0                -- workerCount
  busy : Nat := 0                 -- workerBusy
  token : Bool := false           -- spawnWorkerCh (capacity 1)
  sp : SpPc := .wait
  workers : List WPc := []
  subs : List Sub := []
  handler : Bool := true          -- a panic handler is installed (SetPanicHandler(nil) clears it)
  -- ghost history
  accepted : List Nat := []       -- jobs whose Offer succeeded
  rejected : List Nat := []       -- jobs whose call returned an error
  started : List Nat := []        -- one entry per invocation of a job
  finished : List Nat := []       -- one entry per return or panic of a job
  dropped : List Nat := []        -- jobs discarded by jobQueue.Close()
  panicLog : List (Nat × Nat) := []    -- (job, value) per panic raised by a job
  handlerLog : List (Nat × Nat) := []  -- (job, value) per call of the panic handler
  unreported : List (Nat × Nat) := []  -- (job, value) per panic recovered while no handler was installed
deriving Repr

inductive Act
  -- submitters
  | submit (timed : Bool)           -- a Schedule (false) / ScheduleWithTimeout (true) call begins
  | sCheck (i : Nat)                -- Schedule: read isClosed
  | sOffer (i : Nat) (full : Bool)  -- jobQueue.Offer (full: the queue answers ErrQueueIsFull, where it may)
  | sToken (i : Nat)                -- deferred spawnWorkerCh.Offer(1); Schedule returns
  | sLoopCheck (i : Nat)            -- retry loop: read isClosed
  | sDeadline (i : Nat)             -- retry loop: time.Now().After(deadline)
  | deadline (i : Nat)              -- the deadline of submission i passes
  -- closer
  | closeFlag                       -- Close: IsClosed() was false; isClosed.Set(true)
  | closeQueue (keep : Nat)         -- jobQueue.Close(): `keep` jobs stay receivable in the channel
  -- spawn loop
  | spWake | spCheck | spCnt1 | spCnt2 (jam : Bool) | spRead | spInit | spGen | spSleep
  -- external generateWorkerWithMaximum(m) (PreAllocWorkerSize)
  | gen (m : Nat)
  -- notifyWorkers() (called by the setters): posts the spawn token when workerCount < standby or jobs are queued
  | notify
  -- SetPanicHandler(h): h ≠ nil / nil
  | setHandler (on : Bool)
  -- workers
  | wCheck (w : Nat) | wRecv (w : Nat) | wNil (w : Nat) | wExpire (w : Nat)
  | wStart (w : Nat) | wFinish (w : Nat) | wPanic (w : Nat) (v : Nat) | wHandler (w : Nat)
  | wBusyDec (w : Nat) | wExitDec (w : Nat) | wExitTok (w : Nat)
deriving Repr, DecidableEq

/-- jobQueue.Count(): 0 once closed -/
def qcount (s : St) : Nat := if s.qclosed then 0 else s.queue.length

/-- may BufferedChannelQueue.Offer answer ErrQueueIsFull with `n` items inside?  It does so exactly when
    its overflow pool holds `buf` items (and, for `buf = 0`, the channel is full). -/
def mayFull (c : Cfg) (n : Nat) : Bool :=
  if c.buf = 0 then n == c.chanCap else c.buf ≤ n

/-- trySpawn's expectedWorkerCount, mirrored clause by clause -/
def expected (c : Cfg) (n1 n2 count busy : Nat) (jam : Bool) : Nat :=
  let e0 := if c.batch > 0 then n1 / c.batch + (if n2 % c.batch > 0 then 1 else 0) else 0
  let e1 := if c.standby > e0 then c.standby else e0
  let e2 := if c.max > 0 ∧ e1 > c.max then c.max else e1
  if jam ∧ busy ≥ count ∧ count ≥ e2 then count + 1 else e2

/-- generateWorkerWithMaximum(m): one critical section -/
def genWorker (c : Cfg) (s : St) (m : Nat) : St :=
  if s.count ≥ m ∨ s.count ≥ c.max then s
  else { s with count := s.count + 1, workers := s.workers ++ [WPc.top] }

def setW (s : St) (i : Nat) (w : WPc) : St := { s with workers := s.workers.set i w }
def setS (s : St) (i : Nat) (sb : Sub) : St := { s with subs := s.subs.set i sb }

/-- what a submission does once its `Schedule` call has returned `r` -/
def afterSchedule (s : St) (i : Nat) (sb : Sub) (r : Res) : St :=
  if r = .full ∧ sb.timed then
    if sb.first then setS s i { sb with first := false, pc := .lcheck }
    else setS s i { sb with pc := .dcheck }
  else if r = .ok then setS s i { sb with pc := .fin r }
  else { setS s i { sb with pc := .fin r } with rejected := i :: s.rejected }

def stepSub (c : Cfg) (s : St) : Act → Option St
  | .submit timed => some { s with subs := s.subs ++ [{ timed := timed, first := true, dl := false, pc := .check }] }
  | .sCheck i =>
    match s.subs[i]? with
    | some sb =>
      match sb.pc with
      | .check =>
        if s.closed then some { setS s i { sb with pc := .fin .poolClosed } with rejected := i :: s.rejected }
        else some (setS s i { sb with pc := .offer })
      | _ => none
    | none => none
  | .sOffer i full =>
    match s.subs[i]? with
    | some sb =>
      match sb.pc with
      | .offer =>
        if s.qclosed then some (setS s i { sb with pc := .token .queueClosed })
        else if full then
          if mayFull c s.queue.length then some (setS s i { sb with pc := .token .full }) else none
        else if s.queue.length < c.chanCap + c.buf then
          some { setS s i { sb with pc := .token .ok } with queue := s.queue ++ [i], accepted := i :: s.accepted }
        else none
      | _ => none
    | none => none
  | .sToken i =>
    match s.subs[i]? with
    | some sb =>
      match sb.pc with
      | .token r => some (afterSchedule { s with token := true } i sb r)
      | _ => none
    | none => none
  | .sLoopCheck i =>
    match s.subs[i]? with
    | some sb =>
      match sb.pc with
      | .lcheck =>
        if s.closed then some { setS s i { sb with pc := .fin .poolClosed } with rejected := i :: s.rejected }
        else some (setS s i { sb with pc := .check })
      | _ => none
    | none => none
  | .sDeadline i =>
    match s.subs[i]? with
    | some sb =>
      match sb.pc with
      | .dcheck =>
        if sb.dl then some { setS s i { sb with pc := .fin .timeout } with rejected := i :: s.rejected }
        else some (setS s i { sb with pc := .lcheck })
      | _ => none
    | none => none
  | .deadline i =>
    match s.subs[i]? with
    | some sb => if sb.timed then some (setS s i { sb with dl := true }) else none
    | none => none
  | _ => none

def stepPool (c : Cfg) (s : St) : Act → Option St
  | .closeFlag => if s.cl = 0 then some { s with closed := true, cl := 1 } else none
  | .closeQueue keep =>
    if s.cl = 1 then
      if c.closeQueue then
        some { s with cl := 2, qclosed := true, queue := s.queue.take keep, dropped := s.queue.drop keep ++ s.dropped }
      else some { s with cl := 2 }
    else none
  | .spWake =>
    match s.sp with
    | .wait => if s.token then some { s with token := false, sp := .awake } else none
    | _ => none
  | .spCheck =>
    match s.sp with
    | .awake => if s.closed then some { s with sp := .exited } else some { s with sp := .cnt1 }
    | _ => none
  | .spCnt1 =>
    match s.sp with
    | .cnt1 => some { s with sp := .cnt2 (qcount s) }
    | _ => none
  | .spCnt2 jam =>
    match s.sp with
    | .cnt2 n1 => some { s with sp := .computed (expected c n1 (qcount s) s.count s.busy jam) }
    | _ => none
  | .spRead =>
    match s.sp with
    | .computed e => if s.count < e then some { s with sp := .enter e } else some { s with sp := .sleep }
    | _ => none
  | .spInit =>
    -- `for i := workerCount; i < e; …`: workerCount is read again; it may have changed since `spRead`
    match s.sp with
    | .enter e => if s.count < e then some { s with sp := .loop s.count e } else some { s with sp := .sleep }
    | _ => none
  | .spGen =>
    match s.sp with
    | .loop i e =>
      if i < e then some { genWorker c s e with sp := if i + 1 < e then .loop (i + 1) e else .sleep } else none
    | _ => none
  | .spSleep =>
    match s.sp with
    | .sleep => some { s with sp := .wait }
    | _ => none
  | .gen m => some (genWorker c s m)
  | .notify => if s.count < c.standby ∨ qcount s > 0 then some { s with token := true } else some s
  | .setHandler on => some { s with handler := on }
  | _ => none

def stepW (c : Cfg) (s : St) : Act → Option St
  | .wCheck i =>
    match s.workers[i]? with
    | some .top => if s.closed then some (setW s i (.exitDec false)) else some (setW s i .sel)
    | _ => none
  | .wRecv i =>
    match s.workers[i]?, s.queue with
    | some .sel, j :: rest => some { setW s i (.got j) with queue := rest }
    | _, _ => none
  | .wNil i =>
    match s.workers[i]? with
    | some .sel => if s.qclosed ∧ s.queue = [] then some (setW s i .top) else none
    | _ => none
  | .wExpire i =>
    match s.workers[i]? with
    | some .sel =>
      if s.count > c.standby ∨ s.count > c.max then
        if c.atomicExpiry then some { setW s i .gone with count := s.count - 1 }
        else some (setW s i (.exitDec false))
      else some (setW s i .top)
    | _ => none
  | .wStart i =>
    match s.workers[i]? with
    | some (.got j) => some { setW s i (.run j) with busy := s.busy + 1, started := j :: s.started }
    | _ => none
  | .wFinish i =>
    match s.workers[i]? with
    | some (.run j) => some { setW s i (.aft j) with finished := j :: s.finished }
    | _ => none
  | .wPanic i v =>
    match s.workers[i]? with
    | some (.run j) => some { setW s i (.pan j v) with finished := j :: s.finished, panicLog := (j, v) :: s.panicLog }
    | _ => none
  | .wHandler i =>
    match s.workers[i]? with
    | some (.pan j v) =>
      -- recover; `if handler := panicHandler; handler != nil { handler(panic) }`
      if s.handler then some { setW s i (.exitDec true) with handlerLog := (j, v) :: s.handlerLog }
      else some { setW s i (.exitDec true) with unreported := (j, v) :: s.unreported }
    | _ => none
  | .wBusyDec i =>
    match s.workers[i]? with
    | some (.aft _) => some { setW s i .top with busy := s.busy - 1 }
    | _ => none
  | .wExitDec i =>
    match s.workers[i]? with
    | some (.exitDec true) => some { setW s i .exitTok with count := s.count - 1, busy := s.busy - 1 }
    | some (.exitDec false) => some { setW s i .gone with count := s.count - 1 }
    | _ => none
  | .wExitTok i =>
    match s.workers[i]? with
    | some .exitTok => some { setW s i .gone with token := true }
    | _ => none
  | _ => none

/-- one atomic step of the whole system (`none`: the action is not enabled) -/
def step (c : Cfg) (s : St) (a : Act) : Option St :=
  match a with
  | .submit _ | .sCheck _ | .sOffer _ _ | .sToken _ | .sLoopCheck _ | .sDeadline _ | .deadline _ => stepSub c s a
  | .closeFlag | .closeQueue _ | .spWake | .spCheck | .spCnt1 | .spCnt2 _ | .spRead | .spInit | .spGen | .spSleep | .gen _ | .notify | .setHandler _ =>
    stepPool c s a
  | _ => stepW c s a

def init : St := {}

/-- every state some interleaving of the threads can produce -/
inductive Reach (c : Cfg) : St → Prop
  | init : Reach c init
  | step {s t : St} {a : Act} : Reach c s → step c s a = some t → Reach c t

/-- run a list of actions; `none` as soon as one is not enabled -/
def runActs (c : Cfg) (s : St) : List Act → Option St
  | [] => some s
  | a :: as => match step c s a with
    | some t => runActs c t as
    | none => none

end FpgoVerif.C09
