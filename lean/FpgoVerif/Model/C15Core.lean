/-! C15 — shared pieces of the five shutdown transition systems (core-only).

    Every component is a *counter* transition system: the shared variables of the component plus, for every
    program-counter kind `K`, the number `cnt K` of goroutines currently at that kind.  A goroutine is
    anonymous: a step names the program counter it moves (`gstep s pc choice`), is enabled only if
    `cnt (kind pc) > 0`, and moves one unit of the counter.  Mutex state is *derived* from the counters
    (a goroutine holds the lock iff its pc lies in the locked region), so mutual exclusion is a guard of the
    lock-acquiring atom, not an extra variable.  Any number of goroutines is covered because `spawn` may
    raise a start counter arbitrarily often.

    The directed-schedule executor below (`Exec`) gives goroutines names on top of that: it only ever calls
    the component's `gstep`/`spawn`, so every run it produces is a `Reach` path of the component. -/

namespace FpgoVerif.C15

/-- canonical result of one API call as printed by both sides -/
inductive Res
  | ok | okv (v : Nat) | closed | pclosed | empty | full | timeout | nil | n (k : Nat) | b (v : Bool) | panic
deriving DecidableEq, Repr

def Res.show : Res → String
  | .ok => "ok" | .okv v => s!"ok{v}" | .closed => "closed" | .pclosed => "pclosed" | .empty => "empty"
  | .full => "full" | .timeout => "timeout" | .nil => "nil" | .n k => s!"n{k}" | .b v => if v then "b1" else "b0"
  | .panic => "panic"

def updK {K} [DecidableEq K] (f : K → Nat) (k : K) (v : Nat) : K → Nat := fun x => if x = k then v else f x

@[simp] theorem updK_same {K} [DecidableEq K] (f : K → Nat) (k : K) (v : Nat) : updK f k v k = v := by simp [updK]
theorem updK_other {K} [DecidableEq K] (f : K → Nat) (k x : K) (v : Nat) (h : x ≠ k) : updK f k v x = f x := by
  simp [updK, h]

/-- next position of a goroutine after an atom: still inside the operation, or finished with a result -/
inductive Next (PC : Type) | at (pc : PC) | fin (r : Res)

/-- what the executor needs from a component -/
structure Ops (σ PC : Type) where
  gstep : σ → PC → Bool → Option (σ × Next PC)
  spawn : σ → PC → Option σ
  point : PC → Option String
  startOp : σ → String → Option PC
  /-- open the callback gate (harness `gate` step) -/
  openGate : σ → σ
  /-- trailing counters of the observation line -/
  summary : σ → String
  /-- re-tabulates the counter function (extensionally the identity: `compact_eq`); keeps lookups O(1) -/
  compact : σ → σ

structure Thread (PC : Type) where
  name : String
  pc : Option PC := none
  parked : Option String := none
  arm : List String := []
  res : Option Res := none
  internal : Bool := false

structure Exec (σ PC : Type) where
  sh : σ
  ths : List (Thread PC)

namespace Exec
variable {σ PC : Type}

def findTh (e : Exec σ PC) (n : String) : Option (Thread PC) := e.ths.find? (·.name == n)

def setTh (e : Exec σ PC) (t : Thread PC) : Exec σ PC :=
  if e.ths.any (·.name == t.name) then { e with ths := e.ths.map (fun u => if u.name == t.name then t else u) }
  else { e with ths := e.ths ++ [t] }

/-- one atom of thread `t` (with the given choice); handles parking and finishing -/
def stepTh (ops : Ops σ PC) (e : Exec σ PC) (t : Thread PC) (ch : Bool) : Option (Exec σ PC) :=
  match t.pc, t.parked with
  | some pc, none =>
    match ops.gstep e.sh pc ch with
    | none => none
    | some (sh', .fin r) => some (setTh { e with sh := ops.compact sh' } { t with pc := none, res := some r })
    | some (sh', .at pc') =>
      let pk := match ops.point pc' with
        | some p => if t.arm.contains p then some p else none
        | none => none
      some (setTh { e with sh := ops.compact sh' } { t with pc := some pc', parked := pk })
  | _, _ => none

def firstStep (ops : Ops σ PC) (e : Exec σ PC) (ch : Bool) : List (Thread PC) → Option (Exec σ PC)
  | [] => none
  | t :: rest => match stepTh ops e t ch with
    | some e' => some e'
    | none => firstStep ops e ch rest

/-- run every unparked goroutine until nothing is enabled; timeouts fire only when nothing else can move -/
def settle (ops : Ops σ PC) : Nat → Exec σ PC → Exec σ PC
  | 0, e => e
  | fuel + 1, e =>
    match firstStep ops e false e.ths with
    | some e' => settle ops fuel e'
    | none => match firstStep ops e true e.ths with
      | some e' => settle ops fuel e'
      | none => e

def report (e : Exec σ PC) (n : String) : Exec σ PC × String :=
  match findTh e n with
  | none => (e, s!"{n}?none")
  | some t =>
    match t.res with
    | some r => (setTh e { t with res := none }, s!"{n}={r.show}")
    | none => match t.parked with
      | some p => (e, s!"{n}@{p}")
      | none => match t.pc with
        | some _ => (e, s!"{n}!")
        | none => (e, s!"{n}=idle")

def stripBang (s : String) : String := if s.endsWith "!" then (s.dropEnd 1).toString else s

/-- `op@pt` → (op, some pt) -/
def splitAt (s : String) : String × Option String :=
  match s.splitOn "@" with
  | [a, p] => (a, some p)
  | _ => (s, none)

def fuel0 : Nat := 4000

/-- one schedule step (see harness/c15.go for the grammar) -/
def execStep (ops : Ops σ PC) (e : Exec σ PC) (tok0 : String) : Exec σ PC × String :=
  let tok := stripBang tok0
  if tok == "gate" then
    (settle ops fuel0 { e with sh := ops.openGate e.sh }, "gate")
  else if tok.startsWith "I+" then
    let p := (tok.drop 2).toString
    ({ e with ths := e.ths.map (fun t => if t.internal then { t with arm := t.arm ++ [p] } else t) }, "I+")
  else if tok.startsWith "I?" then
    let p := (tok.drop 2).toString
    let e := settle ops fuel0 e
    if e.ths.any (fun t => t.internal && t.parked == some p) then (e, s!"I@{p}") else (e, "I!")
  else if tok.startsWith "I>" then
    let p := (tok.drop 2).toString
    let e := { e with ths := e.ths.map (fun t =>
      if t.internal then { t with parked := (if t.parked == some p then none else t.parked), arm := t.arm.erase p } else t) }
    (settle ops fuel0 e, "I>")
  else
    match tok.splitOn "=" with
    | [n, rhs] =>
      let (op, pt) := splitAt rhs
      let t := (findTh e n).getD { name := n }
      if t.pc.isSome || t.res.isSome then (e, s!"{n}?busy") else
      match ops.startOp e.sh op with
      | none => (e, s!"{n}?badop")
      | some pc =>
        match ops.spawn e.sh pc with
        | none => (e, s!"{n}?nospawn")
        | some sh' =>
          let arm := match pt with | some p => t.arm ++ [p] | none => t.arm
          let pk := match ops.point pc with
            | some p => if arm.contains p then some p else none
            | none => none
          let e := setTh { e with sh := ops.compact sh' } { t with pc := some pc, arm := arm, parked := pk }
          report (settle ops fuel0 e) n
    | _ =>
      match tok.splitOn ">" with
      | [n, rest] =>
        match findTh e n with
        | none => (e, s!"{n}?none")
        | some t =>
          let pt := if rest.startsWith "@" then some (rest.drop 1).toString else none
          let arm := match t.parked with | some p => t.arm.erase p | none => t.arm
          let arm := match pt with | some p => arm ++ [p] | none => arm
          let e := setTh e { t with parked := none, arm := arm }
          report (settle ops fuel0 e) n
      | _ => (e, "?badstep")

/-- final drain: release every park, open the gate, run to quiescence, report unfinished work -/
def finish (ops : Ops σ PC) (e : Exec σ PC) : String :=
  let e := { e with sh := ops.openGate e.sh, ths := e.ths.map (fun t => { t with parked := none, arm := [] }) }
  let e := settle ops fuel0 e
  let outs := e.ths.filterMap (fun t =>
    if t.internal then none else
    match t.res with
    | some r => some s!"{t.name}={r.show}"
    | none => match t.pc with
      | some _ => some s!"{t.name}!stuck"
      | none => none)
  " ".intercalate (outs ++ [ops.summary e.sh])

def run (ops : Ops σ PC) (e0 : Exec σ PC) (steps : List String) : String :=
  let (e, outs) := steps.foldl (fun (acc : Exec σ PC × List String) tok =>
    let (e, o) := execStep ops acc.1 tok
    (e, o :: acc.2)) (e0, [])
  " ".intercalate (outs.reverse ++ ["|", finish ops e])

end Exec

/-- `k=v` lookup in a parameter list -/
def param (ps : List String) (k : String) (dflt : Nat) : Nat :=
  match ps.filterMap (fun p => match p.splitOn "=" with
      | [a, b] => if a == k then b.toNat? else none
      | _ => none) with
  | v :: _ => v
  | [] => dflt

def splitSteps (body : String) : List String :=
  ((body.splitOn ";").map (fun t => t.trimAscii.toString)).filter (· ≠ "")

/-- table-backed counter function: `tbl (kinds.map f) idx` agrees with `f` on every kind -/
def tblGet (l : List Nat) (i : Nat) : Nat := l.getD i 0

end FpgoVerif.C15
