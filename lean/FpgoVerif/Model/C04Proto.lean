import FpgoVerif.Model.C04World
/-! C04 — programs over handles: the operation alphabet, its execution on the world, the line protocol.

    A *program state* is a world plus the table of live handles (name → handle), in creation order.
    Case line:   `G: op ; op ; …`  (generic family)  or  `I: op ; op ; …`  (interface{} family)
    Operations that create a collection are written `dst=op args`; see `parseOp` for the alphabet.
    Observation: per operation `<result> <dump of ALL live handles>`, joined by ` | `. -/
namespace FpgoVerif.C04

inductive Handle
  | arr (s : Slice) (full : Bool)  -- a Go slice held by the caller; `full`: caller-made, dumped up to cap
  | names (ms : List (Option String)) (streams : Bool) -- a caller-owned slice of stream pointers / of slices, by member name
  | str (p : Option Nat)           -- *StreamDef / *StreamForInterfaceDef (none = nil pointer)
  | set (p : Nat)                  -- set with element values
  | sset (p : Nat)                 -- StreamSet
  | uset (p : Nat)                 -- plain set whose values are stream pointers (promoted-method results)
deriving DecidableEq, Repr, Inhabited

structure State where
  w : World
  env : List (String × Handle)
deriving Repr

def State.init : State := ⟨World.init, []⟩

def State.find (st : State) (n : String) : Option Handle :=
  match st.env.find? (fun e => e.1 == n) with
  | some e => some e.2
  | none => none

/-- unary stream transformers -/
inductive S1
  | map (f : Nat) | filter (p : Nat) | reject (p : Nat) | notnil | notnilp | distinct | clone | reverse
  | sort (c : Nat) | sortidx (c : Nat) | rmitem (vs : List Int) | append (vs : List Int) | remove (i : Int)
deriving DecidableEq, Repr

/-- unary set transformers -/
inductive M1
  | mapkey (k : Nat) | mapval (k : Nat) | add (vs : List Int) | rmkeys (vs : List Int) | rmvals (vs : List Int)
  | clone
deriving DecidableEq, Repr

/-- binary set operations -/
inductive M2 | union | inter | minus | minusStreams
deriving DecidableEq, Repr

inductive Op
  -- actions of the caller on its own slices
  | arr (dst : String) (len : Nat) (vals : List Int)
  | sub (dst src : String) (lo hi : Nat)
  | wr (a : String) (i : Nat) (v : Int)
  -- streams
  | sfrom (dst a : String)
  | toArr (dst s : String)
  | s1 (dst src : String) (k : S1)
  | sinter (dst src : String) (arg : Option String)
  | sminus (dst src : String) (arg : Option String)
  | extend (dst src : String) (args : List (Option String))
  -- spread calls: the operand list is a caller-owned slice
  | mklist (dst : String) (ms : List (Option String)) (streams : Bool)
  | extendv (dst src l : String) | concatv (dst src l : String)
  | s1v (dst src a : String) (app : Bool)      -- Append(a...) / RemoveItem(a...)
  | m1v (dst src a : String) (k : Nat)         -- Add(a...) / RemoveKeys(a...) / RemoveValues(a...)
  | concat (dst src : String) (args : List (Option String))
  | slen (s : String) | sget (s : String) (i : Int) | shas (s : String) (v : Int)
  | srel (s : String) (arg : Option String) (sup : Bool)
  -- sets / stream sets
  | setFrom (dst : String) (vs : List Int)
  | setFromArr (dst a : String)
  | setFromMap (dst : String) (kvs : List (Int × Int))
  | tnew (dst : String)
  | tfrom (dst : String) (vs : List Int)
  | tfromArr (dst a : String)
  | tfromMap (dst : String) (kvs : List (Int × Option String))
  | m1 (dst src : String) (k : M1)
  | m2 (dst src : String) (arg : Option String) (k : M2)
  | mset (m : String) (k v : Int)
  | tset (t : String) (k : Int) (s : Option String)
  | tget (dst t : String) (k : Int)
  | mhaskey (m : String) (k : Int) | mhasval (m : String) (v : Int) | msize (m : String) | mget (m : String) (k : Int)
  | mrel (m arg : String) (sup : Bool)
  | keys (dst m : String) | vals (dst m : String)
  -- SimpleHTTP interceptor bookkeeping (family `H:`; an instance is created by `http` = `sfrom`)
  | hadd (h : String) (ids : List Int) | hrem (h : String) (ids : List Int) | hclear (h : String)
  | bad
deriving Repr

/-- the documented in-place mutators of the library, and the caller's own writes -/
def Op.isMutator (iface : Bool) : Op → Bool
  | .wr .. => true
  | .mset .. => true
  | .tset .. => true
  | .hadd .. => true
  | .hrem .. => true
  | .hclear .. => true
  | .s1 _ _ (.remove _) => iface
  | _ => false

/-- result of executing one operation -/
inductive Res
  | ok (w : World) (new : Option (String × Handle)) (out : String)
  | err (e : String)

open World in
/-- element stored for a missing value: `*new(R)` -/
def zeroVal (iface : Bool) (streams : Bool) : Val :=
  if iface then .int Spec.nilCode else if streams then .str none else .int 0

def findStr (st : State) (n : String) : Option Nat :=
  match st.find n with
  | some (.str (some p)) => some p
  | _ => none

/-- a stream argument that may be nil (`none` in the source = literal nil; a nil handle is nil too) -/
def findStrArg (st : State) : Option String → Option (Option Nat)
  | none => some none
  | some n => match st.find n with
    | some (.str p) => some p
    | _ => none

def findArr (st : State) (n : String) : Option (Slice × Bool) :=
  match st.find n with
  | some (.arr s f) => some (s, f)
  | _ => none

def findArrArg (st : State) : Option String → Option Slice
  | none => some Slice.nil
  | some n => (findArr st n).map (·.1)

def allSome {α} : List (Option α) → Option (List α)
  | [] => some []
  | none :: _ => none
  | some a :: t => (allSome t).map (a :: ·)

/-- set-like receiver: cell and whether it is a StreamSet -/
def findSetLike (st : State) (n : String) : Option (Nat × Bool) :=
  match st.find n with
  | some (.set p) => some (p, false)
  | some (.sset p) => some (p, true)
  | _ => none

/-- set-like argument of the same kind as the receiver, or nil -/
def findSetArg (st : State) (streams : Bool) : Option String → Option (Option Nat)
  | none => some none
  | some n => match st.find n with
    | some (.set p) => if streams then none else some (some p)
    | some (.sset p) => if streams then some (some p) else none
    | _ => none

def showBool (b : Bool) : String := if b then "true" else "false"

def execS1 (iface : Bool) (w : World) (p : Nat) : S1 → World × Nat
  | .map f => w.strMap p (Spec.mapFn f)
  | .filter k => w.strFilter p (Spec.predFn k)
  | .reject k => w.strFilter p (fun x i => !Spec.predFn k x i)
  | .notnil => w.strFilter p (fun x _ => !iface || !Spec.isAbsent x)
  | .notnilp => w.strFilter p (fun x _ => x != Spec.nilCode)
  | .distinct => w.strDistinct p
  | .clone => w.strClone p
  | .reverse => w.strReverse p
  | .sort c => w.strSort p (Spec.lessFn c)
  | .sortidx c => w.strSortByIndex p (Spec.lessFn c)
  | .rmitem vs => w.strRemoveItem p vs
  | .append vs => w.strAppend p vs
  | .remove i => if iface then w.strRemoveI p i else w.strRemoveG p i

def execM1 (iface streams : Bool) (w : World) (p : Nat) : M1 → Option (World × Nat)
  | .mapkey k => some (w.setMapKey p (Spec.keyFn k))
  | .mapval k => if streams then none else some (w.setMapVal p (fun v => .int (Spec.valFn k (World.valInt v))))
  | .add vs => some (w.setAdd p (zeroVal iface streams) vs)
  | .rmkeys vs => some (w.setRemoveKeys p vs)
  | .rmvals vs => if streams then none else some (w.setRemoveValues p (vs.map Val.int))
  | .clone => some (if streams then w.ssClone p else w.setClone p)

def execM2 (streams : Bool) (w : World) (p : Nat) (q : Option Nat) : M2 → Option (World × Nat)
  | .union => some (if streams then w.ssUnion p q else w.setUnion p q)
  | .inter => some (if streams then w.ssInter p q else w.setInter p q)
  | .minus => some (w.setMinus p q)
  | .minusStreams => if streams then some (w.ssMinusStreams p q) else none

/-- kind of the handle a unary set transformer returns -/
def m1Kind (streams : Bool) (k : M1) (p : Nat) : Handle :=
  if !streams then .set p else match k with
    | .clone => .sset p
    | _ => .uset p

def m2Kind (iface streams : Bool) (k : M2) (p : Nat) : Handle :=
  if !streams then .set p else match k with
    | .minus => if iface then .sset p else .uset p
    | _ => .sset p

/-- `Extend(streams...)` with the operands given by name (`nil` = nil pointer) -/
def execExtend (st : State) (dst src : String) (args : List (Option String)) : Res :=
  match findStr st src, allSome (args.map (findStrArg st)) with
  | some p, some qs => let (w, r) := st.w.strExtend p qs; .ok w (some (dst, .str (some r))) "ok"
  | _, _ => .err "bad-ref"

/-- `Concat(slices...)` with the operands given by name (`nil` = nil slice) -/
def execConcat (st : State) (dst src : String) (args : List (Option String)) : Res :=
  match findStr st src, allSome (args.map (findArrArg st)) with
  | some p, some ss => let (w, r) := st.w.strConcat p ss; .ok w (some (dst, .str (some r))) "ok"
  | _, _ => .err "bad-ref"

def exec (iface : Bool) (st : State) : Op → Res
  | .arr dst len vals =>
    if len ≤ vals.length then
      let (w, s) := st.w.allocArr vals
      .ok w (some (dst, .arr { s with len := len } true)) "ok"
    else .err "bad-op"
  | .sub dst src lo hi =>
    match findArr st src with
    | some (s, f) =>
      if lo ≤ hi ∧ hi ≤ s.cap then
        .ok st.w (some (dst, .arr ⟨s.arr, s.off + lo, hi - lo, s.cap - lo⟩ f)) "ok"
      else .err "bad-op"
    | none => .err "bad-ref"
  | .wr a i v =>
    match findArr st a with
    | some (s, _) => if i < s.len then .ok (st.w.writeArr s.arr (s.off + i) [v]) none "ok" else .err "bad-op"
    | none => .err "bad-ref"
  | .sfrom dst a =>
    match findArr st a with
    | some (s, _) => let (w, p) := st.w.allocStr s; .ok w (some (dst, .str (some p))) "ok"
    | none => .err "bad-ref"
  | .toArr dst s =>
    match findStr st s with
    | some p => let (w, a) := st.w.strToArray p; .ok w (some (dst, .arr a false)) "ok"
    | none => .err "bad-ref"
  | .s1 dst src k =>
    match findStr st src with
    | some p => let (w, q) := execS1 iface st.w p k; .ok w (some (dst, .str (some q))) "ok"
    | none => .err "bad-ref"
  | .sinter dst src arg =>
    match findStr st src, findStrArg st arg with
    | some p, some q => let (w, r) := st.w.strInter p q; .ok w (some (dst, .str (some r))) "ok"
    | _, _ => .err "bad-ref"
  | .sminus dst src arg =>
    match findStr st src, findStrArg st arg with
    | some p, some q => let (w, r) := st.w.strMinus p q; .ok w (some (dst, .str (some r))) "ok"
    | _, _ => .err "bad-ref"
  | .extend dst src args => execExtend st dst src args
  | .concat dst src args => execConcat st dst src args
  | .mklist dst ms streams =>
    -- every member must be a live stream (slice) handle or nil
    if (if streams then (allSome (ms.map (findStrArg st))).isSome else (allSome (ms.map (findArrArg st))).isSome)
    then .ok st.w (some (dst, .names ms streams)) "ok" else .err "bad-ref"
  | .extendv dst src l =>
    match st.find l with
    | some (.names ms true) => execExtend st dst src ms
    | _ => .err "bad-ref"
  | .concatv dst src l =>
    match st.find l with
    | some (.names ms false) => execConcat st dst src ms
    | _ => .err "bad-ref"
  | .s1v dst src a app =>
    match findStr st src, findArr st a with
    | some p, some (s, _) =>
      let items := st.w.sliceContent s
      let (w, q) := execS1 iface st.w p (if app then .append items else .rmitem items)
      .ok w (some (dst, .str (some q))) "ok"
    | _, _ => .err "bad-ref"
  | .m1v dst src a k =>
    match findSetLike st src, findArr st a with
    | some (p, streams), some (s, _) =>
      let items := st.w.sliceContent s
      let op : M1 := match k with | 0 => .add items | 1 => .rmkeys items | _ => .rmvals items
      match execM1 iface streams st.w p op with
      | some (w, q) => .ok w (some (dst, m1Kind streams op q)) "ok"
      | none => .err "bad-op"
    | _, _ => .err "bad-ref"
  | .slen s =>
    match findStr st s with
    | some p => .ok st.w none s!"n {(st.w.strHdr p).len}"
    | none => .err "bad-ref"
  | .sget s i =>
    match findStr st s with
    | some p =>
      if 0 ≤ i ∧ i < (st.w.strHdr p).len then .ok st.w none s!"v {(st.w.strContent p).getD i.toNat 0}"
      else .ok st.w none "panic"
    | none => .err "bad-ref"
  | .shas s v =>
    match findStr st s with
    | some p => .ok st.w none (showBool ((st.w.strContent p).contains v))
    | none => .err "bad-ref"
  | .srel s arg sup =>
    match findStr st s, findStrArg st arg with
    | some p, some q =>
      let other := match q with | some q => st.w.strContent q | none => []
      let r := if other.isEmpty then sup
               else if sup then Spec.isSubset other (st.w.strContent p) else Spec.isSubset (st.w.strContent p) other
      .ok st.w none (showBool r)
    | _, _ => .err "bad-ref"
  | .setFrom dst vs =>
    let (w, p) := st.w.newSet (Spec.ofKeys (zeroVal iface false) vs); .ok w (some (dst, .set p)) "ok"
  | .setFromArr dst a =>
    match findArr st a with
    | some (s, _) =>
      let (w, p) := st.w.newSet (Spec.ofKeys (zeroVal iface false) (st.w.sliceContent s)); .ok w (some (dst, .set p)) "ok"
    | none => .err "bad-ref"
  | .setFromMap dst kvs =>
    let (w, p) := st.w.newSet (Spec.ofPairs (kvs.map (fun kv => (kv.1, Val.int kv.2)))); .ok w (some (dst, .set p)) "ok"
  | .tnew dst => let (w, p) := st.w.newSet []; .ok w (some (dst, .sset p)) "ok"
  | .tfrom dst vs =>
    -- newOne.MapSetDef[v] = new(StreamDef[R]) for every v
    let (w, m) := World.mapEntriesM (fun w _ _ => let (w, q) := w.newNilStream; (w, .str (some q))) st.w
                    (Spec.ofKeys (Val.str none) vs)
    let (w, p) := w.newSet m; .ok w (some (dst, .sset p)) "ok"
  | .tfromArr dst a =>
    match findArr st a with
    | some (s, _) =>
      let (w, m) := World.mapEntriesM (fun w _ _ => let (w, q) := w.newNilStream; (w, .str (some q))) st.w
                      (Spec.ofKeys (Val.str none) (st.w.sliceContent s))
      let (w, p) := w.newSet m; .ok w (some (dst, .sset p)) "ok"
    | none => .err "bad-ref"
  | .tfromMap dst kvs =>
    match allSome (kvs.map (fun kv => (findStrArg st kv.2).map (fun p => (kv.1, p)))) with
    | some es =>
      -- interface{} family: a nil *StreamForInterfaceDef stored in an interface{} is a typed nil, outside
      -- the modelled universe (the harness refuses it as well)
      if iface && es.any (fun e => e.2.isNone) then .err "bad-op" else
      let (w, p) := st.w.ssFromMap (Spec.ofPairs (es.map (fun e => (e.1, Val.str e.2))))
      .ok w (some (dst, .sset p)) "ok"
    | none => .err "bad-ref"
  | .m1 dst src k =>
    match findSetLike st src with
    | some (p, streams) =>
      match execM1 iface streams st.w p k with
      | some (w, q) => .ok w (some (dst, m1Kind streams k q)) "ok"
      | none => .err "bad-op"
    | none => .err "bad-ref"
  | .m2 dst src arg k =>
    match findSetLike st src with
    | some (p, streams) =>
      match findSetArg st streams arg with
      | some q =>
        match execM2 streams st.w p q k with
        | some (w, r) => .ok w (some (dst, m2Kind iface streams k r)) "ok"
        | none => .err "bad-op"
      | none => .err "bad-ref"
    | none => .err "bad-ref"
  | .mset m k v =>
    match st.find m with
    | some (.set p) =>
      match st.w.setSet p k (.int v) with
      | some w => .ok w none "ok"
      | none => .ok st.w none "panic"
    | _ => .err "bad-ref"
  | .tset t k s =>
    match st.find t, findStrArg st s with
    | some (.sset p), some q =>
      let v := match q with
        | some q => Val.str (some q)
        | none => if iface then Val.int Spec.nilCode else Val.str none
      match st.w.setSet p k v with
      | some w => .ok w none "ok"
      | none => .ok st.w none "panic"
    | _, _ => .err "bad-ref"
  | .tget dst t k =>
    match st.find t with
    | some (.sset p) => .ok st.w (some (dst, .str (match Spec.lookup k (st.w.setMap p) with
        | some v => World.valStr v | none => none))) "ok"
    | _ => .err "bad-ref"
  | .mhaskey m k =>
    match findSetLike st m with
    | some (p, _) => .ok st.w none (showBool (Spec.hasKey k (st.w.setMap p)))
    | none => .err "bad-ref"
  | .mhasval m v =>
    match st.find m with
    | some (.set p) => .ok st.w none (showBool ((st.w.setMap p).any (fun kv => kv.2 == Val.int v)))
    | _ => .err "bad-ref"
  | .msize m =>
    match findSetLike st m with
    | some (p, _) => .ok st.w none s!"n {(st.w.setMap p).length}"
    | none => .err "bad-ref"
  | .mget m k =>
    match st.find m with
    | some (.set p) => .ok st.w none s!"v {match Spec.lookup k (st.w.setMap p) with
        | some v => World.valInt v | none => World.valInt (zeroVal iface false)}"
    | _ => .err "bad-ref"
  | .mrel m arg sup =>
    match findSetLike st m with
    | some (p, streams) =>
      match findSetArg st streams (some arg) with
      | some (some q) =>
        let a := st.w.setMap p
        let b := st.w.setMap q
        -- (the interface{} StreamSet's own methods answer false for an empty argument, as the helper does)
        let r := if sup then Spec.isSubsetByKey b a else Spec.isSubsetByKey a b
        .ok st.w none (showBool r)
      | _ => .err "bad-ref"
    | none => .err "bad-ref"
  | .keys dst m =>
    match findSetLike st m with
    | some (p, _) => let (w, a) := st.w.setKeys p; .ok w (some (dst, .arr a false)) "ok"
    | none => .err "bad-ref"
  | .vals dst m =>
    match st.find m with
    | some (.set p) => let (w, a) := st.w.setValues p; .ok w (some (dst, .arr a false)) "ok"
    | _ => .err "bad-ref"
  | .hadd h ids =>
    match findStr st h with
    | some p => .ok (st.w.httpAdd p ids) none "ok"
    | none => .err "bad-ref"
  | .hrem h ids =>
    match findStr st h with
    | some p => .ok (st.w.httpRemove p ids) none "ok"
    | none => .err "bad-ref"
  | .hclear h =>
    match findStr st h with
    | some p => .ok (st.w.httpClear p) none "ok"
    | none => .err "bad-ref"
  | .bad => .err "bad-op"

def step (iface : Bool) (st : State) (op : Op) : State × String :=
  match exec iface st op with
  | .ok w new out => (⟨w, st.env ++ new.toList⟩, out)
  | .err e => (st, e)

/-- run a program: the state component of the fold `runCase` performs (without the printing) -/
def run (iface : Bool) (st : State) (ops : List Op) : State := ops.foldl (fun s o => (step iface s o).1) st

/-! ### contents (what a handle denotes) and their canonical text -/

inductive CVal
  | int (n : Int) | nil | str (l : List Int)
deriving DecidableEq, Repr

inductive Content
  | arr (shown hidden : List Int)
  | str (l : List Int)
  | nilStr
  | set (m : List (Int × CVal))
  | names (ms : List (Option String))
deriving DecidableEq, Repr

def cval (w : World) : Val → CVal
  | .int n => .int n
  | .str none => .nil
  | .str (some q) => .str (w.strContent q)

def setContent (w : World) (p : Nat) : List (Int × CVal) :=
  Spec.sortByKey ((w.setMap p).map (fun kv => (kv.1, cval w kv.2)))

def content (w : World) : Handle → Content
  | .arr s full => .arr (w.sliceContent s) (if full then w.sliceHidden s else [])
  | .names ms _ => .names ms
  | .str none => .nilStr
  | .str (some p) => .str (w.strContent p)
  | .set p => .set (setContent w p)
  | .sset p => .set (setContent w p)
  | .uset p => .set (setContent w p)

def showInts (l : List Int) : String := ",".intercalate (l.map toString)

def showCVal : CVal → String
  | .int n => toString n
  | .nil => "nil"
  | .str l => "[" ++ showInts l ++ "]"

def showContent : Content → String
  | .arr s h => "[" ++ showInts s ++ (if h.isEmpty then "" else "|" ++ showInts h) ++ "]"
  | .str l => "[" ++ showInts l ++ "]"
  | .nilStr => "nil"
  | .set m => "{" ++ "/".intercalate (m.map (fun kv => toString kv.1 ++ ":" ++ showCVal kv.2)) ++ "}"
  | .names ms => "(" ++ "/".intercalate (ms.map (fun m => m.getD "nil")) ++ ")"

/-- a caller-owned operand list is printed member by member (what each slot points to) -/
def showMember (st : State) : Option String → String
  | none => "nil"
  | some n => match st.find n with
    | some (.str (some p)) => "[" ++ showInts (st.w.strContent p) ++ "]"
    | some (.str none) => "nil"
    | some (.arr s _) => "[" ++ showInts (st.w.sliceContent s) ++ "]"
    | _ => "?"

def showHandle (st : State) (h : Handle) : String :=
  match h with
  | .names ms _ => "(" ++ "/".intercalate (ms.map (showMember st)) ++ ")"
  | h => showContent (content st.w h)

def dump (st : State) : String :=
  " ".intercalate (st.env.map (fun e => e.1 ++ "=" ++ showHandle st e.2))

/-! ### parsing -/

def parseInts (s : String) : Option (List Int) :=
  if s == "-" then some [] else allSome ((s.splitOn ",").map (·.toInt?))

def parseArg (s : String) : Option String := if s == "nil" then none else some s

def parsePairs (s : String) : Option (List (Int × String)) :=
  if s == "-" then some [] else
  allSome ((s.splitOn ",").map (fun kv => match kv.splitOn ":" with
    | [k, v] => k.toInt?.map (fun k => (k, v))
    | _ => none))

def orBad : Option Op → Op
  | some o => o
  | none => .bad

/-- `name args…` of a creating operation `dst=name args…` -/
def parseCreate (dst : String) : List String → Op
  | ["arr", len, vals] => orBad do some (.arr dst (← len.toNat?) (← parseInts vals))
  | ["sub", src, lo, hi] => orBad do some (.sub dst src (← lo.toNat?) (← hi.toNat?))
  | ["from", a] => .sfrom dst a
  | ["fromv", a] => .sfrom dst a
  | ["http", a] => .sfrom dst a
  | ["toarr", s] => .toArr dst s
  | ["map", s, f] => orBad do some (.s1 dst s (.map (← f.toNat?)))
  | ["filter", s, p] => orBad do some (.s1 dst s (.filter (← p.toNat?)))
  | ["reject", s, p] => orBad do some (.s1 dst s (.reject (← p.toNat?)))
  | ["notnil", s] => .s1 dst s .notnil
  | ["slist", ms] => .mklist dst ((ms.splitOn ",").map parseArg) true
  | ["alist", ms] => .mklist dst ((ms.splitOn ",").map parseArg) false
  | ["extendv", s, l] => .extendv dst s l
  | ["concatv", s, l] => .concatv dst s l
  | ["appendv", s, a] => .s1v dst s a true
  | ["rmitemv", s, a] => .s1v dst s a false
  | ["addv", m, a] => .m1v dst m a 0
  | ["rmkeysv", m, a] => .m1v dst m a 1
  | ["rmvalsv", m, a] => .m1v dst m a 2
  | ["setfromv", a] => .setFromArr dst a
  | ["tfromv", a] => .tfromArr dst a
  | ["distinct", s] => .s1 dst s .distinct
  | ["clone", s] => .s1 dst s .clone
  | ["reverse", s] => .s1 dst s .reverse
  | ["sort", s, c] => orBad do some (.s1 dst s (.sort (← c.toNat?)))
  | ["sortidx", s, c] => orBad do some (.s1 dst s (.sortidx (← c.toNat?)))
  | ["rmitem", s, vs] => orBad do some (.s1 dst s (.rmitem (← parseInts vs)))
  | ["append", s, vs] => orBad do some (.s1 dst s (.append (← parseInts vs)))
  | ["remove", s, i] => orBad do some (.s1 dst s (.remove (← i.toInt?)))
  | ["inter", s, a] => .sinter dst s (parseArg a)
  | ["minus", s, a] => .sminus dst s (parseArg a)
  | "extend" :: s :: args => .extend dst s (args.map parseArg)
  | "concat" :: s :: args => .concat dst s (args.map parseArg)
  | ["setfrom", vs] => orBad do some (.setFrom dst (← parseInts vs))
  | ["setfromarr", a] => .setFromArr dst a
  | ["setfrommap", kvs] => orBad do
      let ps ← parsePairs kvs
      some (.setFromMap dst (← allSome (ps.map (fun kv => kv.2.toInt?.map (fun v => (kv.1, v))))))
  | ["tnew"] => .tnew dst
  | ["tfrom", vs] => orBad do some (.tfrom dst (← parseInts vs))
  | ["tfromarr", a] => .tfromArr dst a
  | ["tfrommap", kvs] => orBad do
      let ps ← parsePairs kvs
      some (.tfromMap dst (ps.map (fun kv => (kv.1, parseArg kv.2))))
  | ["mapkey", m, k] => orBad do some (.m1 dst m (.mapkey (← k.toNat?)))
  | ["mapval", m, k] => orBad do some (.m1 dst m (.mapval (← k.toNat?)))
  | ["add", m, vs] => orBad do some (.m1 dst m (.add (← parseInts vs)))
  | ["rmkeys", m, vs] => orBad do some (.m1 dst m (.rmkeys (← parseInts vs)))
  | ["rmvals", m, vs] => orBad do some (.m1 dst m (.rmvals (← parseInts vs)))
  | ["sclone", m] => .m1 dst m .clone
  | ["union", m, a] => .m2 dst m (parseArg a) .union
  | ["sinter", m, a] => .m2 dst m (parseArg a) .inter
  | ["sminus", m, a] => .m2 dst m (parseArg a) .minus
  | ["minuss", m, a] => .m2 dst m (parseArg a) .minusStreams
  | ["tget", t, k] => orBad do some (.tget dst t (← k.toInt?))
  | ["keys", m] => .keys dst m
  | ["vals", m] => .vals dst m
  | _ => .bad

def parsePlain : List String → Op
  | ["wr", a, i, v] => orBad do some (.wr a (← i.toNat?) (← v.toInt?))
  | ["len", s] => .slen s
  | ["get", s, i] => orBad do some (.sget s (← i.toInt?))
  | ["has", s, v] => orBad do some (.shas s (← v.toInt?))
  | ["subset", s, a] => .srel s (parseArg a) false
  | ["superset", s, a] => .srel s (parseArg a) true
  | ["set", m, k, v] => orBad do some (.mset m (← k.toInt?) (← v.toInt?))
  | ["tset", t, k, s] => orBad do some (.tset t (← k.toInt?) (parseArg s))
  | ["haskey", m, k] => orBad do some (.mhaskey m (← k.toInt?))
  | ["hasval", m, v] => orBad do some (.mhasval m (← v.toInt?))
  | ["size", m] => .msize m
  | ["mget", m, k] => orBad do some (.mget m (← k.toInt?))
  | ["ssub", m, a] => .mrel m a false
  | ["ssuper", m, a] => .mrel m a true
  | ["hadd", h, ids] => orBad do some (.hadd h (← parseInts ids))
  | ["hrem", h, ids] => orBad do some (.hrem h (← parseInts ids))
  | ["hclear", h] => .hclear h
  | _ => .bad

def parseOp (tok : String) : Op :=
  let ws := (tok.splitOn " ").filter (· ≠ "")
  match ws with
  | [] => .bad
  | first :: rest =>
    match first.splitOn "=" with
    | [dst, name] => if dst.isEmpty || name.isEmpty then .bad else parseCreate dst (name :: rest)
    | [_] => parsePlain ws
    | _ => .bad

/-- family and operation tokens of a case line -/
def parseCase (line : String) : Bool × List String :=
  let (iface, body) :=
    if line.startsWith "I: " then (true, (line.drop 3).toString)
    else if line.startsWith "G: " then (false, (line.drop 3).toString)
    else if line.startsWith "H: " then (false, (line.drop 3).toString)
    else if line.startsWith "P: " then (false, (line.drop 3).toString)
    else (false, line)
  (iface, ((body.splitOn ";").map (fun t => t.trimAscii.toString)).filter (· ≠ ""))

/-- family `P:` (generic streams of POINTER elements, `-1` = nil pointer): the element type has absent values,
    so its `FilterNotNil` is the nil-filtering one -/
def famOp (line : String) (op : Op) : Op :=
  if line.startsWith "P: " then
    match op with
    | .s1 d s .notnil => .s1 d s .notnilp
    | o => o
  else op

def runCase (line : String) : String :=
  let (iface, toks) := parseCase line
  let (_, outs) := toks.foldl (fun (acc : State × List String) t =>
    let (st, o) := step iface acc.1 (famOp line (parseOp t))
    (st, (o ++ " " ++ dump st) :: acc.2)) (State.init, [])
  " | ".intercalate outs.reverse

end FpgoVerif.C04
