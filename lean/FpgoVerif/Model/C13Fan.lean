/-! Fan-in on one shared reply channel (the situation of the `fanin` case lines of C13): `k` AskChannel requests were
    built with `NewByOptions` on ONE caller-made channel of capacity `c` (0 included), one actor serves them serially in
    some order, `Reply` is the blocking send on that channel (no asker has a timeout, so the `done` alternative of the
    select is never enabled), and a collector that starts at an arbitrary later moment receives from the channel.

    `todo` = the replies still to be produced, in service order; `cur` = the actor is inside `Reply` with this value;
    `buf` = the channel buffer; `got` = what the collector has received so far.
    Atoms: `take` (the loop receives the next request and its effect reaches `Reply`), `replyBuf` (the send goes into the
    buffer), `replyHand` (unbuffered channel: hand-off to the collector waiting in its receive), `start` (the collector
    begins to receive), `recv` (it takes the head of the buffer). -/

namespace FpgoVerif.C13.Fan

structure FS where
  todo : List Nat
  cur : Option Nat
  buf : List Nat
  got : List Nat
  collecting : Bool

inductive FAct | take | replyBuf | replyHand | start | recv
deriving DecidableEq, Repr

def FS.init (replies : List Nat) : FS := { todo := replies, cur := none, buf := [], got := [], collecting := false }

def step (c : Nat) (s : FS) : FAct → Option FS
  | .take =>
    match s.cur, s.todo with
    | none, v :: rest => some { s with cur := some v, todo := rest }
    | _, _ => none
  | .replyBuf =>
    match s.cur with
    | some v => if s.buf.length < c then some { s with cur := none, buf := s.buf ++ [v] } else none
    | none => none
  | .replyHand =>
    match s.cur with
    | some v => if c = 0 ∧ s.collecting = true then some { s with cur := none, got := s.got ++ [v] } else none
    | none => none
  | .start => if s.collecting then none else some { s with collecting := true }
  | .recv =>
    if s.collecting then
      match s.buf with
      | v :: rest => some { s with buf := rest, got := s.got ++ [v] }
      | [] => none
    else none

inductive Reach (c : Nat) (replies : List Nat) : FS → Prop
  | init : Reach c replies (FS.init replies)
  | step {s t} (a : FAct) : Reach c replies s → step c s a = some t → Reach c replies t

def runActs (c : Nat) : FS → List FAct → Option FS
  | s, [] => some s
  | s, a :: as => match step c s a with
    | some t => runActs c t as
    | none => none

def optl (o : Option Nat) : List Nat := match o with | none => [] | some v => [v]

/-- nothing left to do: every request served, every reply collected -/
def FS.terminal (s : FS) : Prop := s.todo = [] ∧ s.cur = none ∧ s.buf = [] ∧ s.collecting = true

end FpgoVerif.C13.Fan
