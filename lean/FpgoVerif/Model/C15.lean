import FpgoVerif.Model.C15Mailbox
import FpgoVerif.Model.C15Bcq
import FpgoVerif.Model.C15Cor
import FpgoVerif.Model.C15Pool
/-! Executable model for property C15 (core-only): dispatch of case lines to the five component systems,
    and the spec-level judge. -/
namespace FpgoVerif.C15

/-- the observation every `stress …` case must produce when the property holds -/
def stressOk : String := "ok panics=0 late=0 np=0 stuck=0 after=ok"

/-- one protocol case line in, one canonical observation line out.
    `<comp> k=v …: step ; step ; …`  or  `stress <comp> k=v …` -/
def handle (line : String) : String :=
  match line.splitOn ": " with
  | [head, body] =>
    match (head.splitOn " ").filter (· ≠ "") with
    | comp :: params =>
      let steps := splitSteps body
      if comp == "handler" || comp == "actor" then Mb.handleLine comp params steps
      else if comp == "bcq" then Bq.handleLine params steps
      else if comp == "cor" then Co.handleLine params steps
      else if comp == "pool" then Pl.handleLine params steps
      else "bad-component"
    | [] => "bad-line"
  | [head] =>
    if head.startsWith "stress " then stressOk
    -- `corcaller …`: the finishing coroutine is the CALLER side of an in-flight YieldFrom issued by another
    -- goroutine.  Not a run of the coroutine system (its callers never finish): the line below is what the
    -- property demands — the YieldFrom returns the zero value, the target's YieldRef gets the request's x and
    -- skips the answer (doCloseSafe on the done caller), nobody panics.
    else if head.startsWith "corcaller " then "A=ok0 G=ok5 | fin"
    else "bad-line"
  | _ => "bad-line"

def hasTok (obs : String) (p : String → Bool) : Bool := ((obs.splitOn " ").filter (· ≠ "")).any p

/-- `(thread, op)` of a start step `T=op[@pt][!]` (none for `T>`, `I…`, `gate`) -/
def stepOp (step : String) : Option (String × String) :=
  match (Exec.stripBang step).splitOn "=" with
  | [n, rhs] => some (n, (Exec.splitAt rhs).1)
  | _ => none

/-- what the property's last sentence demands of a call that begins after the close has returned
    (ErrQueueIsClosed / ErrWorkerPoolIsClosed / IsClosed, IsDone true / YieldFrom answers the zero value);
    `none`: the API has no result that could report it (Post/Send, GetChannel; Count is not named) -/
def afterReq (comp op : String) : Option String :=
  if comp == "bcq" then
    if op == "take" || op == "poll" || op == "twt" || op.startsWith "offer:" || op.startsWith "put:" then some "closed"
    else if op == "isclosed" then some "b1" else none
  else if comp == "pool" then
    if op.startsWith "sched:" || op.startsWith "invoket:" then some "pclosed" else if op == "isclosed" then some "b1" else none
  else if comp == "cor" then
    if op.startsWith "yf:" then some "ok0" else if op == "isdone" then some "b1" else none
  else none

/-- directed schedules: the first result token of an operation that was *started* after the closer's `=ok`
    (Close returned / the target's goroutine is gone) and does not report the close -/
def afterViolation (line impl : String) : Option String :=
  match line.splitOn ": " with
  | [head, body] =>
    match (head.splitOn " ").filter (· ≠ "") with
    | comp :: _ =>
      let steps := splitSteps body
      let toks := (((impl.splitOn " | ").headD "").splitOn " ").filter (· ≠ "")
      if steps.length != toks.length then none else
      let closer := steps.findSome? (fun st => match stepOp st with
        | some (n, op) => if op == "close" || op == "ret" then some n else none
        | none => none)
      match closer with
      | none => none
      | some c =>
        ((steps.zip toks).foldl (fun (acc : Bool × Option String) (st : String × String) =>
          let (closed, viol) := acc
          let viol' := if viol.isSome || !closed then viol else
            match stepOp st.1 with
            | some (n, op) =>
              match afterReq comp op with
              | some want => if st.2.startsWith (n ++ "=") && st.2 != n ++ "=" ++ want then some st.2 else none
              | none => none
            | none => none
          (closed || st.2 == c ++ "=ok", viol')) (false, none)).2
    | [] => none
  | _ => none

/-- spec-level oracle, from the property's own statement: a goroutine panicked (`=panic`, `panics=k`, `crash`),
    a goroutine is stuck for good (`!stuck`, `stuck=k`, `hang`), a callback ran for work submitted after the
    close returned (`late=k`), the pool's panic handler saw a non-job panic (`np=k`), or a call made after the
    close returned did not report it (`after=bad…`). -/
def judge (line impl : String) : String :=
  if impl == "hang" then "violation deadlock: the case did not terminate"
  else if impl == "crash" || impl == "panic" then "violation a goroutine panicked (process-level)"
  else if hasTok impl (fun t => t.endsWith "=panic") then "violation a calling goroutine panicked"
  else if hasTok impl (fun t => t.endsWith "!stuck") then "violation deadlock: a goroutine is blocked for good"
  else if hasTok impl (fun t => t.startsWith "panics=" && t != "panics=0") then "violation a goroutine panicked"
  else if hasTok impl (fun t => t.startsWith "stuck=" && t != "stuck=0") then "violation deadlock: goroutines blocked for good"
  else if hasTok impl (fun t => t.startsWith "late=" && t != "late=0") then "violation a callback ran for work submitted after the close returned"
  else if hasTok impl (fun t => t.startsWith "np=" && t != "np=0") then "violation the pool's panic handler was invoked for a non-job panic"
  else if hasTok impl (fun t => t.startsWith "after=" && t != "after=ok") then "violation a call begun after the close returned did not report it"
  else if (afterViolation line impl).isSome then
    "violation a call begun after the close returned did not report it: " ++ (afterViolation line impl).getD ""
  else "allowed no panic, no deadlock, no late callback in the observation (model differs)"

end FpgoVerif.C15
