import FpgoVerif.Model.C15Core
/-! C15 — DefaultWorkerPool close path (worker/pool.go) over its BufferedChannelQueue job queue.

    Schedule(fn):  ⟨s0: IsClosed → ErrWorkerPoolIsClosed⟩ (deferred spawnWorkerCh.Offer: never closed)
                   jobQueue.Offer: ⟨s1: q.lock.Lock()⟩ ⟨s2: q.isClosed → ErrQueueIsClosed; full; enqueue; Unlock⟩
    Close():       ⟨pc0: IsClosed → return; isClosed.Set(true)⟩ ⟨pc1: isJobQueueClosedWhenClose: q.Close():
                   Lock; q.isClosed.Set(true)⟩ ⟨qc1: close(loadWorkerCh)⟩ ⟨qc2: close(blockingQueue); Unlock⟩
    worker loop:   ⟨w0: IsClosed → return⟩ jobQueue.GetChannel() = notifyWorkers: ⟨w1: RLock; q.isClosed → skip⟩
                   ⟨w2: loadWorkerCh.Offer(1); RUnlock⟩ ⟨w3: select: job := <-ch (nil when closed: loop) | expiry⟩
                   ⟨w4: job() — a panic is recovered by the worker and handed to panicHandler⟩
    The job queue is abstracted to one FIFO of capacity c+b (the loader is covered by the BufferedChannelQueue
    system); what matters here is who may send on / close which channel under which lock.
    A panic raised by the worker *outside* a job (w2: send on closed loadWorkerCh — the code before c8ecf0a,
    `fixNotify = false`) reaches the pool's panic handler: `np`. -/

namespace FpgoVerif.C15.Pl

inductive Kind | s0 | s1 | s2 | ic | pc0 | pc1 | qc1 | qc2 | w0 | w1 | w2 | w3 | w4
deriving DecidableEq, Repr

inductive PC
  | s0 (j : Nat) | s1 (j : Nat) | s2 (j : Nat) | ic
  | pc0 | pc1 | qc1 | qc2
  | w0 | w1 | w2 | w3 | w4 (j : Nat)
deriving DecidableEq, Repr

def kind : PC → Kind
  | .s0 _ => .s0 | .s1 _ => .s1 | .s2 _ => .s2 | .ic => .ic
  | .pc0 => .pc0 | .pc1 => .pc1 | .qc1 => .qc1 | .qc2 => .qc2
  | .w0 => .w0 | .w1 => .w1 | .w2 => .w2 | .w3 => .w3 | .w4 _ => .w4

structure St where
  cap : Nat
  qclose : Bool
  fixNotify : Bool
  pflag : Bool := false
  qflag : Bool := false
  loadClosed : Bool := false
  chanClosed : Bool := false
  jobs : List Nat := []
  closeStarted : Bool := false
  closeDone : Bool := false
  gate : Bool := false
  panic : Bool := false
  /-- panics handed to the pool's panic handler: from jobs / from anything else -/
  jp : Nat := 0
  np : Nat := 0
  late : Nat := 0
  cnt : Kind → Nat := fun k => if k = .w0 then 1 else 0

def init (cap : Nat) (qclose fixNotify : Bool) : St := { cap := cap, qclose := qclose, fixNotify := fixNotify }

def readers (s : St) : Nat := if s.fixNotify then s.cnt .w2 else 0
def writers (s : St) : Nat := s.cnt .s2 + s.cnt .qc1 + s.cnt .qc2

def step (s : St) (pc : PC) (choice : Bool) : Option (St × Next PC) :=
  match pc with
  | .s0 j => if s.pflag then some (s, .fin .pclosed)
             else some ({ s with late := if s.closeDone then s.late + 1 else s.late }, .at (.s1 j))
  | .s1 j => if writers s ≠ 0 ∨ readers s ≠ 0 then none else some (s, .at (.s2 j))
  | .s2 j =>
    if s.qflag then some (s, .fin .closed)
    else if s.cap ≤ s.jobs.length then some (s, .fin .full)
    else if s.chanClosed || s.loadClosed then some ({ s with panic := true }, .fin .panic)
    else some ({ s with jobs := s.jobs ++ [j] }, .fin .nil)
  | .ic => some (s, .fin (.b s.pflag))
  | .pc0 => if s.pflag then some (s, .fin .ok) else some ({ s with pflag := true }, .at .pc1)
  | .pc1 =>
    if !s.qclose then some ({ s with closeDone := true }, .fin .ok)
    else if writers s ≠ 0 ∨ readers s ≠ 0 then none
    else some ({ s with qflag := true }, .at .qc1)
  | .qc1 => if s.loadClosed then some ({ s with panic := true }, .fin .panic)
            else some ({ s with loadClosed := true }, .at .qc2)
  | .qc2 => if s.chanClosed then some ({ s with panic := true }, .fin .panic)
            else some ({ s with chanClosed := true, closeDone := true }, .fin .ok)
  | .w0 => if s.pflag then some (s, .fin .ok) else some (s, .at .w1)
  | .w1 =>
    if s.fixNotify then
      if writers s ≠ 0 then none
      else if s.qflag then some (s, .at .w3)
      else some (s, .at .w2)
    else some (s, .at .w2)
  | .w2 =>
    if s.loadClosed then some ({ s with panic := true, np := s.np + 1 }, .fin .panic)
    else some (s, .at .w3)
  | .w3 =>
    match s.jobs with
    | j :: rest => some ({ s with jobs := rest }, .at (.w4 j))
    | [] => if s.chanClosed then some (s, .at .w0)
            else if choice then some (s, .at .w0) else none
  | .w4 j =>
    if decide (100 ≤ j) && decide (j < 200) && !s.gate then none
    else if 200 ≤ j then some ({ s with jp := s.jp + 1 }, .fin .ok)
    else some (s, .at .w0)

def move (c : Kind → Nat) (src : Kind) : Next PC → Kind → Nat
  | .at pc' => updK (updK c src (c src - 1)) (kind pc') (updK c src (c src - 1) (kind pc') + 1)
  | .fin _ => updK c src (c src - 1)

def gstep (s : St) (pc : PC) (choice : Bool) : Option (St × Next PC) :=
  if s.cnt (kind pc) = 0 then none else
  match step s pc choice with
  | none => none
  | some (s', nx) => some ({ s' with cnt := move s'.cnt (kind pc) nx }, nx)

def inc (s : St) (k : Kind) : St := { s with cnt := updK s.cnt k (s.cnt k + 1) }

/-- a goroutine begins Schedule / IsClosed / (once) Close; the spawn loop starts another worker -/
def spawn (s : St) : PC → Option St
  | .s0 _ => some (inc s .s0)
  | .ic => some (inc s .ic)
  | .pc0 => if s.closeStarted then none else some { inc s .pc0 with closeStarted := true }
  | .w0 => some (inc s .w0)
  | _ => none

inductive Reach (cap : Nat) (qclose fn : Bool) : St → Prop
  | init : Reach cap qclose fn (init cap qclose fn)
  | spawn {s s'} (pc : PC) : Reach cap qclose fn s → spawn s pc = some s' → Reach cap qclose fn s'
  | step {s s' nx} (pc : PC) (ch : Bool) : Reach cap qclose fn s → gstep s pc ch = some (s', nx) → Reach cap qclose fn s'
  | gate {s} : Reach cap qclose fn s → Reach cap qclose fn { s with gate := true }

def point : PC → Option String
  | .s1 _ => some "pool.schedule.afterClosedCheck"
  | .s2 _ => some "bcq.offer.locked"
  | .pc1 => some "pool.close.afterFlag"
  | .qc1 => some "bcq.close.afterFlag"
  | .qc2 => some "bcq.close.afterLoadCh"
  | .w1 => some "pool.worker.afterClosedCheck"
  | .w2 => some "bcq.notify.beforeSend"
  | _ => none

def startOp (_s : St) (op : String) : Option PC :=
  match op.splitOn ":" with
  | ["sched", j] => j.toNat?.map .s0
  | ["invoke", j] => j.toNat?.map .s0
  | ["invoket", j] => j.toNat?.map .s0
  | ["isclosed"] => some .ic
  | ["close"] => some .pc0
  | _ => none

def kidx : Kind → Nat
  | .s0 => 0
  | .s1 => 1
  | .s2 => 2
  | .ic => 3
  | .pc0 => 4
  | .pc1 => 5
  | .qc1 => 6
  | .qc2 => 7
  | .w0 => 8
  | .w1 => 9
  | .w2 => 10
  | .w3 => 11
  | .w4 => 12
def allKinds : List Kind := [.s0, .s1, .s2, .ic, .pc0, .pc1, .qc1, .qc2, .w0, .w1, .w2, .w3, .w4]
/-- the same state with the counter function re-tabulated (see `compact_eq`) -/
def compact (s : St) : St := { s with cnt := let t := allKinds.map s.cnt; fun k => tblGet t (kidx k) }
theorem compact_eq (s : St) : compact s = s := by
  have : (let t := allKinds.map s.cnt; fun k => tblGet t (kidx k)) = s.cnt := by
    funext k; cases k <;> rfl
  simp only [compact, this]

/-- jobs 50–99 are submitted through `DefaultInvokable.Invoke`, which has no result: its caller sees nothing of
    Schedule's outcome (`invoke:k`); `InvokeWithTimeout` (`invoket:k`) returns ScheduleWithTimeout's error -/
def viaInvoke : PC → Bool
  | .s0 j => decide (50 ≤ j) && decide (j < 100)
  | .s1 j => decide (50 ≤ j) && decide (j < 100)
  | .s2 j => decide (50 ≤ j) && decide (j < 100)
  | _ => false

/-- what the caller of `pc`'s operation gets to see of the atom's outcome -/
def hideResult (pc : PC) : Next PC → Next PC
  | .fin r => if viaInvoke pc then .fin .ok else .fin r
  | nx => nx

def ops : Ops St PC where
  -- the executor never lets the expiry timer fire; the state transition is `gstep`'s, only the printed result of
  -- an `Invoke` is hidden
  gstep := fun s pc _ => (gstep s pc false).map (fun p => (p.1, hideResult pc p.2))
  spawn := spawn
  point := point
  startOp := startOp
  openGate := fun s => { s with gate := true }
  summary := fun s => s!"late={s.late} np={s.np}"
  compact := compact

def exec0 (cap : Nat) (qclose : Bool) : Exec St PC :=
  { sh := init cap qclose true, ths := [{ name := "W", pc := some .w0, internal := true }] }

def handleLine (params : List String) (steps : List String) : String :=
  Exec.run ops (exec0 (param params "c" 0 + param params "b" 0) (param params "qclose" 1 != 0)) steps

end FpgoVerif.C15.Pl
