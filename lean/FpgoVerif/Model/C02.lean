import FpgoVerif.Model.C02Core
import FpgoVerif.Gen.ConvTable
/-! C02 — the model the driver runs: the evaluator `conv` (Model/C02Core.lean) applied to the conversion table
    regenerated from `maybe.go` (`Gen.convTable`), and the line protocol (`handle`, `judge`). -/
namespace FpgoVerif.C02

/-- the model the driver runs -/
def convGo (tgt : Ty) (k : Kind) (x : Val) : Res := conv goStrconv Gen.convTable convFuel tgt k x

/-- method name → the table's key (its result type), through the regenerated method and alias lists -/
def methodTy (name : String) : Option Ty :=
  match Gen.convMethods.find? (fun p => p.1 == name) with
  | some p => some p.2
  | none =>
    match Gen.convAliases.find? (fun p => p.1 == name) with
    | some a => (Gen.convMethods.find? (fun p => p.1 == a.2)).map (·.2)
    | none => none

/-- `<Method> <value token> [g]` -/
def parseCase (line : String) : Option (Ty × Kind × Val) :=
  match (line.splitOn " ").filter (· ≠ "") with
  | m :: tok :: _ =>
    match methodTy m, parseTok tok with
    | some t, some (k, x) => some (t, k, x)
    | _, _ => none
  | _ => none

/-- The model's answer: the result of evaluating the extracted table.  If that result itself contradicts the
    Spec (`specOK`) — a guard of the table is wrong — the line is marked, so that it can never agree with the
    implementation's observation and the case goes to `judge`, which decides from the observation of the real
    code alone. -/
def handle (line : String) : String :=
  match parseCase line with
  | none => "bad-case"
  | some (t, k, x) =>
    let r := convGo t k x
    if specOK t k x r then showRes t r else "table-contradicts-spec " ++ showRes t r

/-- the observation of the real code, read back as a result -/
def parseObs (t : Ty) (obs : String) : Option Res :=
  match obs.splitOn " " with
  | ["ok", tok] =>
    match parseTok tok with
    | some (.ty t', v) => if t' = t then some ⟨v, .ok⟩ else none
    | _ => none
  | ["err", "nil"] => some ⟨.garbage, .nilE⟩
  | ["err", "unsupported"] => some ⟨.garbage, .unsupported⟩
  | ["err", "overflow"] => some ⟨.garbage, .overflow⟩
  | ["err", "other"] => some ⟨.garbage, .other⟩
  | _ => none

def judge (line impl : String) : String :=
  match parseCase line with
  | none => "allowed unparsable-case"
  | some (t, k, x) =>
    match parseObs t impl with
    | none => s!"violation the conversion did not return a value of its result type or an error: {impl}"
    | some r =>
      if specOK t k x r then "allowed the property's clauses hold for this observation (model and implementation differ)"
      else
        let why := match k with
          | .dflt => "unsupported kind must fail with ErrConversionUnsupported"
          | .nil => "absent value converted with a nil error"
          | _ => if r.err == ErrK.ok then "(a)/(c) nil error with a value that is not the exact number / out of range / NaN-Inf source"
                 else "(b) a value that fits the target type was rejected"
        s!"violation {why}: {impl}"

end FpgoVerif.C02
