import FpgoVerif.Model.C15Core
/-! C15 — Handler / Actor mailbox with a closing goroutine (handler.go, actor.go after fa052a2).

    Post(fn) / Send(m):   ⟨p0: isClosed.Get(); true → return⟩  ⟨p1 (inside `defer recover()`): ch <- m —
                           blocks while no room; send on the closed channel panics and is recovered = dropped⟩
    Close():              ⟨c0: isClosed.Set(true)⟩ ⟨c1: close(ch)⟩
    run():                ⟨r0: m, ok := <-ch; closed and drained → exit⟩ ⟨r1: fn() / effect(self, m)⟩
    Callbacks (by message id): 100–299 block until the harness opens the gate; 300–399 call Close() on their own
    handler/actor from inside the callback (the loop goroutine itself performs ⟨isClosed.Set(true)⟩ ⟨c1: close(ch)⟩
    and then returns to the loop — `selfClosing`); 400–499 wait for something the closing goroutine does only after
    its Close() has returned (`closeDone`).  `waitclosed` (wc) is a user goroutine waiting for that same event.
    `recovers = false` is the code before fa052a2 (kept for the refutation theorem only). -/

namespace FpgoVerif.C15.Mb

inductive Kind | p0 | p1 | c0 | c1 | r0 | r1 | wc
deriving DecidableEq, Repr

inductive PC
  | p0 (m : Nat) | p1 (m : Nat) | c0 | c1 | r0 | r1 (m : Nat) | wc
deriving DecidableEq, Repr

def kind : PC → Kind
  | .p0 _ => .p0 | .p1 _ => .p1 | .c0 => .c0 | .c1 => .c1 | .r0 => .r0 | .r1 _ => .r1 | .wc => .wc

structure St where
  cap : Nat
  recovers : Bool
  flag : Bool := false
  chClosed : Bool := false
  buf : List Nat := []
  closeStarted : Bool := false
  closeDone : Bool := false
  /-- the loop goroutine is inside a callback's Close() (between the flag and close(ch)) -/
  selfClosing : Bool := false
  panic : Bool := false
  /-- closed-checks passed after Close had returned (must stay 0) -/
  late : Nat := 0
  gate : Bool := false
  ran : List Nat := []
  cnt : Kind → Nat := fun k => if k = .r0 then 1 else 0

def init (cap : Nat) (recovers : Bool) : St := { cap := cap, recovers := recovers }

/-- messages 100–299 carry a callback that blocks until the harness opens the gate -/
def blocking (m : Nat) : Bool := decide (100 ≤ m) && decide (m < 300)
/-- messages 300–399: the callback closes its own handler/actor -/
def selfClose (m : Nat) : Bool := decide (300 ≤ m) && decide (m < 400)
/-- messages 400–499: the callback waits for what the closer does right after Close() returned -/
def waitsClose (m : Nat) : Bool := decide (400 ≤ m) && decide (m < 500)

def room (s : St) : Bool :=
  decide (s.buf.length < s.cap) || (s.cap == 0 && s.buf.isEmpty && decide (0 < s.cnt .r0))

/-- the atom at `pc` on the shared variables (no counter bookkeeping) -/
def step (s : St) : PC → Option (St × Next PC)
  | .p0 m =>
    if s.flag then some (s, .fin .ok)
    else some ({ s with late := if s.closeDone then s.late + 1 else s.late }, .at (.p1 m))
  | .p1 m =>
    if s.chClosed then
      (if s.recovers then some (s, .fin .ok) else some ({ s with panic := true }, .fin .panic))
    else if room s then some ({ s with buf := s.buf ++ [m] }, .fin .ok)
    else none
  | .c0 => some ({ s with flag := true }, .at .c1)
  | .c1 =>
    if s.chClosed then some ({ s with panic := true }, .fin .panic)
    else if s.selfClosing then some ({ s with chClosed := true, closeDone := true, selfClosing := false }, .at .r0)
    else some ({ s with chClosed := true, closeDone := true }, .fin .ok)
  | .r0 =>
    match s.buf with
    | m :: rest => some ({ s with buf := rest }, .at (.r1 m))
    | [] => if s.chClosed then some (s, .fin .ok) else none
  | .r1 m =>
    if blocking m && !s.gate then none
    else if waitsClose m && !s.closeDone then none
    else if selfClose m && !s.closeStarted then
      some ({ s with closeStarted := true, selfClosing := true, flag := true }, .at .c1)
    else some ({ s with ran := s.ran ++ [m] }, .at .r0)
  | .wc => if s.closeDone then some (s, .fin .ok) else none

def move (c : Kind → Nat) (src : Kind) : Next PC → Kind → Nat
  | .at pc' => updK (updK c src (c src - 1)) (kind pc') (updK c src (c src - 1) (kind pc') + 1)
  | .fin _ => updK c src (c src - 1)

/-- one atom of some goroutine currently at `pc` -/
def gstep (s : St) (pc : PC) (_choice : Bool) : Option (St × Next PC) :=
  if s.cnt (kind pc) = 0 then none else
  match step s pc with
  | none => none
  | some (s', nx) => some ({ s' with cnt := move s'.cnt (kind pc) nx }, nx)

/-- a goroutine begins an operation (only one Close per object: the property's closing goroutine) -/
def spawn (s : St) : PC → Option St
  | .p0 _ => some { s with cnt := updK s.cnt .p0 (s.cnt .p0 + 1) }
  | .c0 => if s.closeStarted then none else some { s with closeStarted := true, cnt := updK s.cnt .c0 (s.cnt .c0 + 1) }
  | .wc => some { s with cnt := updK s.cnt .wc (s.cnt .wc + 1) }
  | _ => none

inductive Reach (cap : Nat) (recovers : Bool) : St → Prop
  | init : Reach cap recovers (init cap recovers)
  | spawn {s s'} (pc : PC) : Reach cap recovers s → spawn s pc = some s' → Reach cap recovers s'
  | step {s s' nx} (pc : PC) (ch : Bool) : Reach cap recovers s → gstep s pc ch = some (s', nx) → Reach cap recovers s'
  | gate {s} : Reach cap recovers s → Reach cap recovers { s with gate := true }

/-- park points (`comp` = "handler" / "actor") -/
def point (comp : String) : PC → Option String
  | .p1 _ => some (if comp == "actor" then "actor.send.afterClosedCheck" else "handler.post.afterClosedCheck")
  | .c1 => some (comp ++ ".close.afterFlag")
  | _ => none

def startOp (_s : St) (op : String) : Option PC :=
  match op.splitOn ":" with
  | ["post", m] => m.toNat?.map .p0
  | ["close"] => some .c0
  | ["waitclosed"] => some .wc
  | _ => none

def kidx : Kind → Nat
  | .p0 => 0
  | .p1 => 1
  | .c0 => 2
  | .c1 => 3
  | .r0 => 4
  | .r1 => 5
  | .wc => 6
def allKinds : List Kind := [.p0, .p1, .c0, .c1, .r0, .r1, .wc]
/-- the same state with the counter function re-tabulated (see `compact_eq`) -/
def compact (s : St) : St := { s with cnt := let t := allKinds.map s.cnt; fun k => tblGet t (kidx k) }
theorem compact_eq (s : St) : compact s = s := by
  have : (let t := allKinds.map s.cnt; fun k => tblGet t (kidx k)) = s.cnt := by
    funext k; cases k <;> rfl
  simp only [compact, this]

def ops (comp : String) : Ops St PC where
  gstep := gstep
  spawn := spawn
  point := point comp
  startOp := startOp
  openGate := fun s => { s with gate := true }
  summary := fun s => s!"late={s.late}"
  compact := compact

def exec0 (cap : Nat) : Exec St PC :=
  { sh := init cap true, ths := [{ name := "R", pc := some .r0, internal := true }] }

def handleLine (comp : String) (params : List String) (steps : List String) : String :=
  Exec.run (ops comp) (exec0 (param params "cap" 0)) steps

end FpgoVerif.C15.Mb
