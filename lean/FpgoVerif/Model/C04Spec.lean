/-! C04 — element-level *specification* functions (pure `List`/association-list semantics).

    These are what "the elements its sequence/map definition prescribes" means for every Stream / Set /
    StreamSet operation.  They know nothing about storage: no backing arrays, no pointers.  The heap
    model (`C04World`) uses them only to compute *which elements* an operation produces (that part of
    fpGo — the loops of `Filter`, `Distinct`, `Minus`, … — is the subject of C03/C05); what C04 adds
    is *where* those elements are stored and what else shares that storage. -/
namespace FpgoVerif.C04
namespace Spec

/-! ### function families shared with the Go harness (indexed by small numbers) -/

/-- `Map` transformers `fn(x, i)` -/
def mapFn (k : Nat) (x : Int) (i : Nat) : Int :=
  match k with
  | 0 => x + 1
  | 1 => x * 2
  | 2 => x + (i : Int)
  | 3 => -x
  | _ => 7

/-- `Filter`/`Reject` predicates `fn(x, i)` -/
def predFn (k : Nat) (x : Int) (i : Nat) : Bool :=
  match k with
  | 0 => x.tmod 2 == 0
  | 1 => decide (x > 1)
  | 2 => i % 2 == 0
  | 3 => true
  | _ => false

/-- comparators ("a goes before b"), all strict weak orders -/
def lessFn (k : Nat) (a b : Int) : Bool :=
  match k with
  | 0 => decide (a < b)
  | 1 => decide (a > b)
  | 2 => decide (a.tmod 3 < b.tmod 3)
  | _ => false

/-- injective key transformers for `MapKey` (colliding keys would make the result depend on Go's map
    iteration order, which no sequence/map definition prescribes) -/
def keyFn (k : Nat) (x : Int) : Int :=
  match k with
  | 0 => x + 10
  | 1 => -x
  | _ => x * 2

/-- value transformers for `MapValue` -/
def valFn (k : Nat) (x : Int) : Int :=
  match k with
  | 0 => x + 1
  | 1 => 0
  | _ => x * 2

/-! ### sequences -/

def mapIdxFrom (f : Int → Nat → Int) : Nat → List Int → List Int
  | _, [] => []
  | i, x :: t => f x i :: mapIdxFrom f (i + 1) t

def mapIdx (f : Int → Nat → Int) (l : List Int) : List Int := mapIdxFrom f 0 l

def filterIdxFrom (p : Int → Nat → Bool) : Nat → List Int → List Int
  | _, [] => []
  | i, x :: t => if p x i then x :: filterIdxFrom p (i + 1) t else filterIdxFrom p (i + 1) t

def filterIdx (p : Int → Nat → Bool) (l : List Int) : List Int := filterIdxFrom p 0 l

def rejectIdx (p : Int → Nat → Bool) (l : List Int) : List Int := filterIdx (fun x i => !p x i) l

/-- the encoding of the interface{} family: the integer `-1` stands for the nil interface -/
def nilCode : Int := -1

/-- in the families with pointer elements the integer `-2` stands for a typed nil POINTER (inside an interface{}
    it is not the nil interface, but it is just as absent — the notion of `Maybe`, C01) -/
def nilPtrCode : Int := -2

/-- the element is absent: the untyped nil or a nil pointer -/
def isAbsent (x : Int) : Bool := x == nilCode || x == nilPtrCode

/-- `FilterNotNil` removes exactly the absent elements; `nilable = false`: the element type (int) has none -/
def notNil (nilable : Bool) (l : List Int) : List Int :=
  if nilable then l.filter (fun x => !isAbsent x) else l

/-- `FilterNotNil` on a stream of POINTER elements (family `P:`): `-1` is the nil pointer, every other code a
    non-nil pointer -/
def notNilPtr (l : List Int) : List Int := l.filter (fun x => x != nilCode)

def distinct (l : List Int) : List Int := l.eraseDups

/-- `Intersection` of two lists: items of the first that occur in the second, first occurrences only -/
def inter (l₁ l₂ : List Int) : List Int := (l₁.filter (fun x => l₂.contains x)).eraseDups

/-- `Minus`: items of the first that do not occur in the second (duplicates kept) -/
def minus (l₁ l₂ : List Int) : List Int := l₁.filter (fun x => !l₂.contains x)

/-- `Remove(i)`: out-of-range indices (negative ones included) leave the sequence as it is -/
def removeAt (l : List Int) (i : Int) : List Int :=
  if 0 ≤ i ∧ i < l.length then l.eraseIdx i.toNat else l

/-- stable sort by a "less" comparator (what `sort.SliceStable` computes for a strict weak order) -/
def sortBy (less : Int → Int → Bool) (l : List Int) : List Int := l.mergeSort (fun a b => !less b a)

/-- `IsSubset` of fp.go: false when either side is empty -/
def isSubset (l₁ l₂ : List Int) : Bool := !l₁.isEmpty && !l₂.isEmpty && l₁.all (fun x => l₂.contains x)

/-! ### maps (association lists with unique keys) -/

variable {β : Type}

def lookup (k : Int) : List (Int × β) → Option β
  | [] => none
  | (k', v) :: t => if k' = k then some v else lookup k t

def hasKey (k : Int) (m : List (Int × β)) : Bool := (lookup k m).isSome

/-- `m[k] = v` -/
def insert (k : Int) (v : β) : List (Int × β) → List (Int × β)
  | [] => [(k, v)]
  | (k', v') :: t => if k' = k then (k, v) :: t else (k', v') :: insert k v t

/-- `delete(m, k)` -/
def erase (k : Int) (m : List (Int × β)) : List (Int × β) := m.filter (fun kv => kv.1 != k)

/-- `if _, ok := m[k]; !ok { m[k] = v }` -/
def insertIfAbsent (k : Int) (v : β) (m : List (Int × β)) : List (Int × β) :=
  if hasKey k m then m else insert k v m

/-- `SliceToMap(default, list...)` -/
def ofKeys (d : β) (l : List Int) : List (Int × β) := l.foldl (fun m k => insertIfAbsent k d m) []

/-- build a map from literal pairs (later pairs win, as successive assignments do) -/
def ofPairs (l : List (Int × β)) : List (Int × β) := l.foldl (fun m kv => insert kv.1 kv.2 m) []

/-- `Merge(m₁, m₂)`: all of m₁, then all of m₂ on top -/
def merge (m₁ m₂ : List (Int × β)) : List (Int × β) := m₂.foldl (fun m kv => insert kv.1 kv.2 m) m₁

/-- `IntersectionMapByKey(m₁, m₂)`: entries of m₁ whose key is in m₂ (m₁'s value) -/
def interByKey (m₁ m₂ : List (Int × β)) : List (Int × β) := m₁.filter (fun kv => hasKey kv.1 m₂)

/-- `Minus`: entries of m₁ whose key is not in m₂ -/
def minusByKey (m₁ m₂ : List (Int × β)) : List (Int × β) := m₁.filter (fun kv => !hasKey kv.1 m₂)

def removeKeys (m : List (Int × β)) (ks : List Int) : List (Int × β) := m.filter (fun kv => !ks.contains kv.1)

def mapKeys (f : Int → Int) (m : List (Int × β)) : List (Int × β) :=
  m.foldl (fun r kv => insert (f kv.1) kv.2 r) []

def mapVals (f : β → β) (m : List (Int × β)) : List (Int × β) := m.map (fun kv => (kv.1, f kv.2))

/-- `IsSubsetMapByKey`: false when either side is empty -/
def isSubsetByKey (m₁ m₂ : List (Int × β)) : Bool :=
  !m₁.isEmpty && !m₂.isEmpty && m₁.all (fun kv => hasKey kv.1 m₂)

/-- insertion into a key-sorted association list (canonical presentation of map contents) -/
def insertSorted (kv : Int × β) : List (Int × β) → List (Int × β)
  | [] => [kv]
  | a :: t => if kv.1 ≤ a.1 then kv :: a :: t else a :: insertSorted kv t

def sortByKey (m : List (Int × β)) : List (Int × β) := m.foldr insertSorted []

def sortInts (l : List Int) : List Int := l.mergeSort (fun a b => decide (a ≤ b))

end Spec
end FpgoVerif.C04
