import FpgoVerif.Model.C03Defs
/-! C03 — line protocol over `Impl.*` / `Spec.*` of `Model/C03Defs.lean` (core-only).

    Case line:  `<Helper> <ty> <args…>`   (space separated, no spaces inside an argument)
      ty      i | s | t            element type int / string / struct{A int; B string}
      element int `3`, `-1`; string `~ab` (`~` = ""); struct `2~b` (zero `0~`)
      slice   nil | [e,e,e] | [e,e|h,h]  (after `|`: hidden elements between len and cap)
              | [e,e,e,e]#a:b      (view backing[a:b]; equal backing texts in one case share storage)
      map     nil | {k:v,k:v}      (keys: elements, values: ints) | {k:v}#s (same text = same map object)
      fn      f<k> (member k of the function family of that helper) | fnil
    Elements are handled here as their tokens (token equality = Go equality); the function families
    act on `ord tok`, the same integer code the harness computes from the Go value.
    Observation: `[a,b]`, `[[a],[b,c]]`, `{k:v,…}` (sorted by key), `true`, `7`, `(1,3)`, `panic`,
    `hang`; the harness appends ` mutated` when an input (up to cap / map contents) changed. -/

namespace FpgoVerif.C03

/-- helpers whose result is a list or a map ("documented as returning a new list or map"; the views
    `Drop/DropLast/Take/TakeLast/Tail` included: they must not write either) -/
def newDataHelpers : List String :=
  ["Map", "MapIndexed", "Filter", "Reject", "Concat", "Flatten", "Distinct", "Dedupe", "DropEq", "Drop", "DropLast",
   "DropWhile", "Take", "TakeLast", "Tail", "Reverse", "Prepend", "Partition", "SplitEvery", "GroupBy", "UniqBy", "Zip",
   "Range", "Keys", "Values", "Merge", "SliceToMap", "DuplicateSlice", "DuplicateMap"]

/-- helpers whose doc comment promises NEW storage ("returns a new list/map", "creates a new slice/map",
    "Return a new Slice/Map") and whose current code indeed allocates it -/
def docNewHelpers : List String :=
  ["Dedupe", "DropEq", "DropWhile", "Flatten", "Merge", "Zip", "GroupBy", "DuplicateSlice", "DuplicateMap"]

/-- helpers that return a scalar / boolean -/
def queryHelpers : List String :=
  ["Reduce", "Head", "Min", "Max", "MinMax", "Every", "Some", "Exists", "IsEqual", "IsEqualMap", "IsDistinct"]

/-! ### tokens and the shared function families -/

def charSum (s : String) : Int := s.toList.foldl (fun a c => a + (c.toNat : Int) - 96) 0

/-- integer code of an element token -/
def ord (tok : String) : Int :=
  match tok.splitOn "~" with
  | [i] => (i.toInt?).getD 0
  | [i, s] => (if i = "" then 0 else (i.toInt?).getD 0 * 4) + charSum s
  | _ => 0

def zeroTok (ty : String) : String :=
  if ty = "s" then "~" else if ty = "t" then "0~" else "0"

def even (x : Int) : Bool := x.tmod 2 == 0

/-- Map: `T → int` -/
def mapFn (k : Nat) (o : Int) : Int :=
  match k with
  | 0 => o | 1 => o * 2 | 2 => o.tmod 2 | 3 => 7 | 4 => -o | 5 => o * o - 3 | 6 => o.tdiv 2 | _ => o + 1

/-- MapIndexed: `(T, int) → int` -/
def mapIdxFn (k : Nat) (o i : Int) : Int :=
  match k with
  | 0 => o + i | 1 => o * i | 2 => i | 3 => (o + i).tmod 2 | 4 => o | 5 => i - o | 6 => o * 10 + i
  | _ => if even i then o else -o

/-- Filter / Reject: `(T, int) → bool` -/
def predIdxFn (k : Nat) (o i : Int) : Bool :=
  match k with
  | 0 => even o | 1 => even i | 2 => even (o + i) | 3 => true | 4 => false | 5 => o > 1 | 6 => i < 2
  | _ => o == i + 1

/-- DropWhile / Every / Some / Partition: `T → bool` -/
def predFn (k : Nat) (o : Int) : Bool :=
  match k with
  | 0 => even o | 1 => true | 2 => false | 3 => o > 1 | 4 => o ≤ 2 | 5 => o == 3 | 6 => !even o
  | _ => o < 0

/-- Reduce: `(int, T) → int` -/
def reduceFn (k : Nat) (m o : Int) : Int :=
  match k with
  | 0 => m + o | 1 => (m * 2 + o).tmod 1000003 | 2 => m - o | 3 => o | 4 => m
  | 5 => if m < o then o else m | 6 => (m * 3 + o + 1).tmod 1000003 | _ => (m * o).tmod 1000003

/-- GroupBy / UniqBy: `T → int` -/
def keyFn (k : Nat) (o : Int) : Int :=
  match k with
  | 0 => o.tmod 2 | 1 => o | 2 => 0 | 3 => o.tdiv 2 | 4 => o * o | 5 => -o | 6 => o.tmod 3
  | _ => if o > 1 then 1 else 0

/-! ### parsing -/

def inner (tok : String) : String := ((tok.drop 1).toString.dropEnd 1).toString

def csv (s : String) : List String := (s.splitOn ",").filter (· ≠ "")

/-- `[e,e,e,e]#a:b` is the view `backing[a:b]` of a backing array that every operand of the case with the
    same backing text SHARES (aliased arguments); for the value-based model it is just that sub-list with
    the rest of the array as hidden capacity -/
def pSl (tok : String) : Sl String :=
  if tok = "nil" then ⟨[], []⟩
  else match tok.splitOn "#" with
    | [bk, rng] =>
      let all := csv (inner bk)
      match rng.splitOn ":" with
      | [a, b] =>
        let a := (a.toNat?).getD 0
        let b := (b.toNat?).getD 0
        ⟨(all.take b).drop a, all.drop b⟩
      | _ => ⟨[], []⟩
    | _ =>
      match (inner tok).splitOn "|" with
      | [v] => ⟨csv v, []⟩
      | [v, h] => ⟨csv v, csv h⟩
      | _ => ⟨[], []⟩

def pList (tok : String) : List String := (pSl tok).vis

def pOptList (tok : String) : Option (List String) := if tok = "nil" then none else some (pList tok)

/-- `{k:v,…}#s`: operands with the same text are the very same Go map object; same value here -/
def pMap (tok : String) : List (String × String) :=
  let tok := if tok.endsWith "#s" then (tok.dropEnd 2).toString else tok
  if tok = "nil" then []
  else (csv (inner tok)).filterMap (fun kv => match kv.splitOn ":" with | [k, v] => some (k, v) | _ => none)

def pOptMap (tok : String) : Option (List (String × String)) := if tok = "nil" then none else some (pMap tok)

def pInt (tok : String) : Int := (tok.toInt?).getD 0

/-- `f3` ↦ some 3, `fnil` ↦ none -/
def pFn (tok : String) : Option Nat := ((tok.drop 1).toString.toNat?)

/-! ### rendering -/

def showList (l : List String) : String := "[" ++ ",".intercalate l ++ "]"
def showLL (l : List (List String)) : String := "[" ++ ",".intercalate (l.map showList) ++ "]"
def showBool (b : Bool) : String := if b then "true" else "false"

def sortStr (l : List String) : List String := l.mergeSort (fun a b => decide (a ≤ b))

/-- canonical form of a map: one binding per key (read with `mget`), sorted by key token -/
def canonMap {ν : Type} (m : List (String × ν)) : List (String × ν) :=
  ((m.map (·.1)).eraseDups.filterMap (fun k => (mget k m).map (fun v => (k, v)))).mergeSort
    (fun a b => decide (a.1 ≤ b.1))

def showMap (m : List (String × String)) : String :=
  "{" ++ ",".intercalate ((canonMap m).map (fun p => p.1 ++ ":" ++ p.2)) ++ "}"

def showRes {β : Type} (f : β → String) : Res β → String
  | .ok v => f v
  | .error .hang => "hang"
  | .error _ => "panic"

/-! ### one case -/

/-- `spec = false`: the implementation model; `spec = true`: the documented definition -/
def run (spec : Bool) (line : String) : String :=
  let toks := (line.splitOn " ").filter (· ≠ "")
  match toks with
  | helper :: ty :: args =>
    let z := zeroTok ty
    let istr := fun (x : Int) => toString x
    match helper, args with
    | "Map", [f, l] =>
      let fn := fun x => istr (mapFn ((pFn f).getD 0) (ord x))
      if spec then showList (Spec.map fn (pList l)) else showRes showList (Impl.map "0" fn (pList l))
    | "MapIndexed", [f, l] =>
      let fn := fun x (i : Nat) => istr (mapIdxFn ((pFn f).getD 0) (ord x) i)
      if spec then showList (Spec.mapIndexed fn (pList l)) else showRes showList (Impl.mapIndexed "0" fn (pList l))
    | "Filter", [f, l] =>
      let fn := fun x (i : Nat) => predIdxFn ((pFn f).getD 0) (ord x) i
      if spec then showList (Spec.filter fn (pList l)) else showRes showList (Impl.filter z fn (pList l))
    | "Reject", [f, l] =>
      let fn := fun x (i : Nat) => predIdxFn ((pFn f).getD 0) (ord x) i
      if spec then showList (Spec.reject fn (pList l)) else showRes showList (Impl.reject z fn (pList l))
    | "Reduce", [f, m, l] =>
      let fn := fun (memo : Int) x => reduceFn ((pFn f).getD 0) memo (ord x)
      if spec then istr (Spec.reduce fn (pInt m) (pList l)) else showRes istr (Impl.reduce fn (pInt m) (pList l))
    | "Concat", mine :: slices =>
      if spec then showList (Spec.concat (pList mine) (slices.map pOptList))
      else showRes showList (Impl.concat z (pList mine) (slices.map pOptList))
    | "Flatten", slices =>
      if spec then showList (Spec.flatten (slices.map pOptList))
      else showRes showList (Impl.flatten z (slices.map pOptList))
    | "Distinct", [l] =>
      if spec then showList (Spec.distinct (pList l)) else showRes showList (Impl.distinct z (pList l))
    | "Dedupe", [l] =>
      if spec then showList (Spec.dedupe (pList l)) else showRes showList (Impl.dedupe (pList l))
    | "DropEq", [x, l] =>
      if spec then showList (Spec.dropEq x (pList l)) else showList (Impl.dropEq x (pList l))
    | "Drop", [k, l] =>
      if spec then showList (Spec.drop (pInt k) (pList l)) else showRes (fun s => showList s.vis) (Impl.drop (pInt k) (pSl l))
    | "DropLast", [k, l] =>
      if spec then showList (Spec.dropLast (pInt k) (pList l)) else showRes (fun s => showList s.vis) (Impl.dropLast (pInt k) (pSl l))
    | "Take", [k, l] =>
      if spec then showList (Spec.take (pInt k) (pList l)) else showRes (fun s => showList s.vis) (Impl.take (pInt k) (pSl l))
    | "TakeLast", [k, l] =>
      if spec then showList (Spec.takeLast (pInt k) (pList l)) else showRes (fun s => showList s.vis) (Impl.takeLast (pInt k) (pSl l))
    | "Tail", [l] =>
      if spec then showList (Spec.tail (pList l)) else showRes (fun s => showList s.vis) (Impl.tail (pSl l))
    | "Head", [l] =>
      if spec then Spec.head z (pList l) else showRes id (Impl.head z (pSl l))
    | "DropWhile", [f, l] =>
      let fn := (pFn f).map (fun k => fun x => predFn k (ord x))
      if spec then showList (Spec.dropWhile fn (pList l)) else showRes showList (Impl.dropWhile z fn (pList l))
    | "Every", [f, l] =>
      let fn := (pFn f).map (fun k => fun x => predFn k (ord x))
      showBool (if spec then Spec.every fn (pList l) else Impl.every fn (pList l))
    | "Some", [f, l] =>
      let fn := (pFn f).map (fun k => fun x => predFn k (ord x))
      showBool (if spec then Spec.some fn (pList l) else Impl.some fn (pList l))
    | "Exists", [x, l] =>
      showBool (if spec then Spec.exists_ x (pList l) else Impl.exists_ x (pList l))
    | "Partition", [f, l] =>
      let fn := fun x => predFn ((pFn f).getD 0) (ord x)
      showLL (if spec then Spec.partition fn (pList l) else Impl.partition fn (pList l))
    | "Reverse", [l] =>
      if spec then showList (Spec.reverse (pList l)) else showRes showList (Impl.reverse z (pList l))
    | "Prepend", [x, l] =>
      showList (if spec then Spec.prepend x (pList l) else Impl.prepend x (pList l))
    | "SplitEvery", [k, l] =>
      showLL (if spec then Spec.splitEvery (pInt k) (pList l) else Impl.splitEvery (pInt k) (pList l))
    | "GroupBy", [f, l] =>
      let fn := fun x => istr (keyFn ((pFn f).getD 0) (ord x))
      let m := if spec then Spec.groupBy fn (pList l) else Impl.groupBy fn (pList l)
      showMap ((canonMap m).map (fun p => (p.1, showList p.2)))
    | "UniqBy", [f, l] =>
      let fn := fun x => keyFn ((pFn f).getD 0) (ord x)
      showList (if spec then Spec.uniqBy fn (pList l) else Impl.uniqBy fn (pList l))
    | "Zip", [a, b] =>
      if spec then showMap (Spec.zip (pList a) (pList b)) else showRes showMap (Impl.zip (pList a) (pList b))
    | "Range", lo :: hi :: hops =>
      let sh := fun (l : List Int) => showList (l.map istr)
      if spec then sh (Spec.range (pInt lo) (pInt hi) (hops.map pInt))
      else showRes sh (Impl.range (pInt lo) (pInt hi) (hops.map pInt))
    | "Keys", [m] =>
      if spec then showList (sortStr (Spec.keys (pMap m))) else showRes (fun l => showList (sortStr l)) (Impl.keys z (pMap m))
    | "Values", [m] =>
      if spec then showList (sortStr (Spec.values (pMap m))) else showRes (fun l => showList (sortStr l)) (Impl.values "0" (pMap m))
    | "Merge", [a, b] =>
      showMap (if spec then Spec.merge (pOptMap a) (pOptMap b) else Impl.merge (pOptMap a) (pOptMap b))
    | "Max", [l] =>
      if spec then istr (Spec.max ((pList l).map pInt)) else showRes istr (Impl.max ((pList l).map pInt))
    | "Min", [l] =>
      if spec then istr (Spec.min ((pList l).map pInt)) else showRes istr (Impl.min ((pList l).map pInt))
    | "MinMax", [l] =>
      let sh := fun (p : Int × Int) => "(" ++ istr p.1 ++ "," ++ istr p.2 ++ ")"
      if spec then sh (Spec.minMax ((pList l).map pInt)) else showRes sh (Impl.minMax ((pList l).map pInt))
    | "IsEqual", [a, b] =>
      if spec then showBool (Spec.isEqual (pList a) (pList b)) else showRes showBool (Impl.isEqual (pList a) (pList b))
    | "IsEqualMap", [a, b] =>
      showBool (if spec then Spec.isEqualMap (pMap a) (pMap b) else Impl.isEqualMap (pMap a) (pMap b))
    | "IsDistinct", [l] =>
      showBool (if spec then Spec.isDistinct (pList l) else Impl.isDistinct (pList l))
    | "SliceToMap", [d, l] =>
      showMap (if spec then Spec.sliceToMap d (pList l) else Impl.sliceToMap d (pList l))
    | "DuplicateSlice", [l] =>
      if spec then showList (Spec.duplicateSlice (pList l)) else showRes showList (Impl.duplicateSlice (pSl l))
    | "DuplicateMap", [m] =>
      showMap (if spec then Spec.duplicateMap (pMap m) else Impl.duplicateMap (pMap m))
    | _, _ => "bad-case"
  | _ => "bad-case"

/-- protocol entry point: the implementation model's observation -/
def handle (line : String) : String := run false line

/-! ### judge: the property's own statement

    `violation` unless the implementation's observation equals the documented definition, or the
    case is one of the PINNED cells (doc comment silent) and the observation is total (no panic /
    hang), leaves the inputs unmodified and is built from the input's visible elements only
    (`DropLast` with a negative count: a prefix of the input). -/

def sepChars : List Char := ['[', ']', '(', ')', '{', '}', ',', ':', ' ']

def obsTokens (obs : String) : List String :=
  ((String.ofList (obs.toList.map (fun c => if sepChars.contains c then ',' else c))).splitOn ",").filter (· ≠ "")

def isPrefixOf (a b : List String) : Bool := a.length ≤ b.length && b.take a.length == a

/-- is this case a cell on which the doc comment is silent? (`some inputTokens`) -/
def pinnedCell (line : String) : Option (List String) :=
  match (line.splitOn " ").filter (· ≠ "") with
  | [helper, _, a, b] =>
    if helper = "Drop" ∧ pInt a < 0 then some (pList b)
    else if helper = "DropLast" ∧ pInt a < 0 then some (pList b)
    else if (helper = "Take" ∨ helper = "TakeLast") ∧ pInt a ≤ 0 then some (pList b)
    else if helper = "SplitEvery" ∧ (pInt a ≤ 0 ∨ (pList b).isEmpty) then some (pList b)
    else if helper = "IsEqual" ∧ (pList a).isEmpty ∧ (pList b).isEmpty then some []
    else if helper = "IsEqualMap" ∧ (pMap a).isEmpty ∧ (pMap b).isEmpty then some []
    else none
  | [helper, _, a] =>
    if helper = "IsDistinct" ∧ (pList a).isEmpty then some []
    else if helper = "Head" ∧ (pList a).isEmpty then some []
    else none
  | _ => none

def judge (line impl : String) : String :=
  let want := run true line
  if impl = want then "allowed implementation agrees with the documented definition (the model differs)"
  else
    let toks := obsTokens impl
    let bad := toks.any (fun t => t = "panic" ∨ t = "mutated" ∨ t = "aliased" ∨ t = "hang" ∨ t = "crash" ∨ t = "bad-case")
    match pinnedCell line with
    | some input =>
      let ty := ((line.splitOn " ").filter (· ≠ "")).getD 1 "i"
      let okTok := fun t => input.contains t ∨ t = zeroTok ty ∨ t = "true" ∨ t = "false"
      let helper := ((line.splitOn " ").filter (· ≠ "")).getD 0 ""
      let shapeOk := if helper = "DropLast" then ((List.range (input.length + 1)).any (fun n => showList (input.take n) = impl)) else true
      if !bad ∧ toks.all okTok ∧ shapeOk then
        "allowed doc-silent cell: total, inputs unmodified, built from the input only (documented cells agree)"
      else s!"violation doc-silent cell, but the result panics / modifies the input / is not input-derived; pinned value: {want}"
    | none => s!"violation documented definition gives: {want}"

end FpgoVerif.C03
