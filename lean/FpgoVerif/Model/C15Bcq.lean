import FpgoVerif.Model.C15Core
/-! C15 — BufferedChannelQueue with a closing goroutine and the loader (queue.go after c8ecf0a).

    Take/TakeWithTimeout/Poll: ⟨t0: isClosed.Get(); true → ErrQueueIsClosed⟩ notifyWorkers ⟨rcv: receive on
                               blockingQueue: blocking / with timeout / try⟩
    GetChannel:                notifyWorkers; return the channel
    notifyWorkers:             ⟨n1: lock.RLock(); isClosed.Get(); true → RUnlock, return⟩
                               ⟨n2: loadWorkerCh.Offer(1) (try-send; panics on a closed channel);
                                    freeNodeWorkerCh.Offer(1) (never closed); RUnlock⟩
    Offer/Put:                 ⟨o0: lock.Lock()⟩ ⟨o1: isClosed → closed; pool empty: try-send on blockingQueue;
                               pool full → ErrQueueIsFull; pool.Offer; loadWorkerCh.Offer(1); Unlock⟩
    Count:                     ⟨k0: isClosed → 0⟩ ⟨k1: RLock; len(chan)+pool.Count(); RUnlock⟩
    Close:                     ⟨c0: lock.Lock(); isClosed.Set(true)⟩ ⟨c1: close(loadWorkerCh)⟩
                               ⟨c2: close(blockingQueue); Unlock⟩
    loadFromPool:              ⟨l0: range loadWorkerCh⟩ ⟨l1: isClosed → exit⟩ ⟨l2: Lock; isClosed → Unlock, exit⟩
                               loop ⟨l3: pool empty → Unlock; x := pool.Poll()⟩ ⟨l4: try-send x on blockingQueue
                               (panics when closed); full → Unshift, Unlock⟩ ⟨l5: Sleep⟩
    Reading the flag immediately after acquiring the lock is one atom with the acquisition (the flag is only
    written under the write lock).  The RWMutex is derived from the counters: readers = goroutines at n2,
    writers = goroutines at o1, c1, c2, l3, l4.  freeNodePool only trims the node pool under the lock and never
    sends or closes: not modelled.
    `fixNotify = false` / `fixLoader = false` are the code before c8ecf0a (refutation theorems only). -/

namespace FpgoVerif.C15.Bq

inductive NK | take | twt | poll | getch
deriving DecidableEq, Repr

inductive Kind | t0 | n1 | n2 | rcv | rcvp | o0 | o1 | k0 | k1 | ic | c0 | c1 | c2 | l0 | l1 | l2 | l3 | l4 | l5
deriving DecidableEq, Repr

inductive PC
  | t0 (k : NK) | n1 (k : NK) | n2 (k : NK) | rcv (k : NK)
  | o0 (v : Nat) | o1 (v : Nat) | k0 | k1 | ic
  | c0 | c1 | c2
  | l0 | l1 | l2 | l3 | l4 (x : Nat) | l5
deriving DecidableEq, Repr

def kind : PC → Kind
  | .t0 _ => .t0 | .n1 _ => .n1 | .n2 _ => .n2
  | .rcv .poll => .rcvp | .rcv _ => .rcv
  | .o0 _ => .o0 | .o1 _ => .o1 | .k0 => .k0 | .k1 => .k1 | .ic => .ic
  | .c0 => .c0 | .c1 => .c1 | .c2 => .c2
  | .l0 => .l0 | .l1 => .l1 | .l2 => .l2 | .l3 => .l3 | .l4 _ => .l4 | .l5 => .l5

structure St where
  c : Nat
  b : Nat
  fixNotify : Bool
  fixLoader : Bool
  flag : Bool := false
  loadClosed : Bool := false
  chanClosed : Bool := false
  tok : Nat := 0
  buf : List Nat := []
  pool : List Nat := []
  closeStarted : Bool := false
  closeDone : Bool := false
  panic : Bool := false
  late : Nat := 0
  cnt : Kind → Nat := fun k => if k = .l0 then 1 else 0

def init (c b : Nat) (fixNotify fixLoader : Bool) : St := { c := c, b := b, fixNotify := fixNotify, fixLoader := fixLoader }

def readers (s : St) : Nat := if s.fixNotify then s.cnt .n2 else 0
def writers (s : St) : Nat := s.cnt .o1 + s.cnt .c1 + s.cnt .c2 + s.cnt .l3 + s.cnt .l4

/-- a try-send on blockingQueue succeeds: buffer space, or (unbuffered) a receiver is blocked in the receive -/
def room (s : St) : Bool :=
  decide (s.buf.length < s.c) || (s.c == 0 && s.buf.isEmpty && decide (0 < s.cnt .rcv))

def lateIf (s : St) : Nat := if s.closeDone then s.late + 1 else s.late

def afterNotify (s : St) : NK → St × Next PC
  | .getch => (s, .fin .ok)
  | k => (s, .at (.rcv k))

def step (s : St) (pc : PC) (choice : Bool) : Option (St × Next PC) :=
  match pc with
  | .t0 k => if s.flag then some (s, .fin .closed) else some ({ s with late := lateIf s }, .at (.n1 k))
  | .n1 k =>
    if s.fixNotify then
      if writers s ≠ 0 then none
      else if s.flag then some (afterNotify s k)
      else some ({ s with late := lateIf s }, .at (.n2 k))
    else some (s, .at (.n2 k))
  | .n2 k =>
    if s.loadClosed then some ({ s with panic := true }, .fin .panic)
    else some (afterNotify { s with tok := 1 } k)
  | .rcv k =>
    match s.buf with
    | x :: rest => some ({ s with buf := rest }, .fin (.okv x))
    | [] =>
      if s.chanClosed then some (s, .fin .closed)
      else match k with
        | .poll => some (s, .fin .empty)
        | .twt => if choice then some (s, .fin .timeout) else none
        | _ => none
  | .o0 v => if writers s ≠ 0 ∨ readers s ≠ 0 then none else some (s, .at (.o1 v))
  | .o1 v =>
    if s.flag then some (s, .fin .closed)
    else
      let s := { s with late := lateIf s }
      if s.pool.isEmpty && s.chanClosed then some ({ s with panic := true }, .fin .panic)
      else if s.pool.isEmpty && room s then some ({ s with buf := s.buf ++ [v] }, .fin .nil)
      else if s.b ≤ s.pool.length then some (s, .fin .full)
      else if s.loadClosed then some ({ s with panic := true }, .fin .panic)
      else some ({ s with pool := s.pool ++ [v], tok := 1 }, .fin .nil)
  | .k0 => if s.flag then some (s, .fin (.n 0)) else some ({ s with late := lateIf s }, .at .k1)
  | .k1 => if writers s ≠ 0 then none else some (s, .fin (.n (s.buf.length + s.pool.length)))
  | .ic => some (s, .fin (.b s.flag))
  | .c0 => if writers s ≠ 0 ∨ readers s ≠ 0 then none else some ({ s with flag := true }, .at .c1)
  | .c1 => if s.loadClosed then some ({ s with panic := true }, .fin .panic)
           else some ({ s with loadClosed := true }, .at .c2)
  | .c2 => if s.chanClosed then some ({ s with panic := true }, .fin .panic)
           else some ({ s with chanClosed := true, closeDone := true }, .fin .ok)
  | .l0 => if 0 < s.tok then some ({ s with tok := 0 }, .at .l1)
           else if s.loadClosed then some (s, .fin .ok) else none
  | .l1 => if s.flag then some (s, .fin .ok) else some (s, .at .l2)
  | .l2 => if writers s ≠ 0 ∨ readers s ≠ 0 then none
           else if s.fixLoader && s.flag then some (s, .fin .ok)
           else some (s, .at .l3)
  | .l3 => match s.pool with
    | [] => some (s, .at .l5)
    | x :: rest => some ({ s with pool := rest }, .at (.l4 x))
  | .l4 x =>
    if s.chanClosed then some ({ s with panic := true }, .fin .panic)
    else if room s then some ({ s with buf := s.buf ++ [x] }, .at .l3)
    else some ({ s with pool := x :: s.pool }, .at .l5)
  | .l5 => some (s, .at .l0)

def move (c : Kind → Nat) (src : Kind) : Next PC → Kind → Nat
  | .at pc' => updK (updK c src (c src - 1)) (kind pc') (updK c src (c src - 1) (kind pc') + 1)
  | .fin _ => updK c src (c src - 1)

def gstep (s : St) (pc : PC) (choice : Bool) : Option (St × Next PC) :=
  if s.cnt (kind pc) = 0 then none else
  match step s pc choice with
  | none => none
  | some (s', nx) => some ({ s' with cnt := move s'.cnt (kind pc) nx }, nx)

def inc (s : St) (k : Kind) : St := { s with cnt := updK s.cnt k (s.cnt k + 1) }

/-- a goroutine begins an API call (one Close per object; the loader exists from the start) -/
def spawn (s : St) : PC → Option St
  | .t0 .getch => none
  | .t0 _ => some (inc s .t0)
  | .n1 .getch => some (inc s .n1)
  | .o0 _ => some (inc s .o0)
  | .k0 => some (inc s .k0)
  | .ic => some (inc s .ic)
  | .c0 => if s.closeStarted then none else some { inc s .c0 with closeStarted := true }
  | _ => none

inductive Reach (c b : Nat) (fn fl : Bool) : St → Prop
  | init : Reach c b fn fl (init c b fn fl)
  | spawn {s s'} (pc : PC) : Reach c b fn fl s → spawn s pc = some s' → Reach c b fn fl s'
  | step {s s' nx} (pc : PC) (ch : Bool) : Reach c b fn fl s → gstep s pc ch = some (s', nx) → Reach c b fn fl s'

def point : PC → Option String
  | .n1 .take => some "bcq.take.afterClosedCheck"
  | .n1 .twt => some "bcq.takewithtimeout.afterClosedCheck"
  | .n1 .poll => some "bcq.poll.afterClosedCheck"
  | .n2 _ => some "bcq.notify.beforeSend"
  | .o1 _ => some "bcq.offer.locked"
  | .c1 => some "bcq.close.afterFlag"
  | .c2 => some "bcq.close.afterLoadCh"
  | .l2 => some "bcq.loader.afterClosedCheck"
  | .l4 _ => some "bcq.loader.polled"
  | _ => none

def startOp (_s : St) (op : String) : Option PC :=
  match op.splitOn ":" with
  | ["take"] => some (.t0 .take)
  | ["poll"] => some (.t0 .poll)
  | ["twt"] => some (.t0 .twt)
  | ["getch"] => some (.n1 .getch)
  | ["count"] => some .k0
  | ["isclosed"] => some .ic
  | ["close"] => some .c0
  | ["offer", v] => v.toNat?.map .o0
  | ["put", v] => v.toNat?.map .o0
  | _ => none

def kidx : Kind → Nat
  | .t0 => 0
  | .n1 => 1
  | .n2 => 2
  | .rcv => 3
  | .rcvp => 4
  | .o0 => 5
  | .o1 => 6
  | .k0 => 7
  | .k1 => 8
  | .ic => 9
  | .c0 => 10
  | .c1 => 11
  | .c2 => 12
  | .l0 => 13
  | .l1 => 14
  | .l2 => 15
  | .l3 => 16
  | .l4 => 17
  | .l5 => 18
def allKinds : List Kind := [.t0, .n1, .n2, .rcv, .rcvp, .o0, .o1, .k0, .k1, .ic, .c0, .c1, .c2, .l0, .l1, .l2, .l3, .l4, .l5]
/-- the same state with the counter function re-tabulated (see `compact_eq`) -/
def compact (s : St) : St := { s with cnt := let t := allKinds.map s.cnt; fun k => tblGet t (kidx k) }
theorem compact_eq (s : St) : compact s = s := by
  have : (let t := allKinds.map s.cnt; fun k => tblGet t (kidx k)) = s.cnt := by
    funext k; cases k <;> rfl
  simp only [compact, this]

def ops : Ops St PC where
  gstep := gstep
  spawn := spawn
  point := point
  startOp := startOp
  openGate := id
  summary := fun _ => "fin"
  compact := compact

def exec0 (c b : Nat) : Exec St PC :=
  { sh := init c b true true, ths := [{ name := "L", pc := some .l0, internal := true }] }

def handleLine (params : List String) (steps : List String) : String :=
  Exec.run ops (exec0 (param params "c" 0) (param params "b" 0)) steps

end FpgoVerif.C15.Bq
