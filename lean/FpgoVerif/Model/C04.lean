import FpgoVerif.Model.C04Proto
/-! Executable model for property C04 (core-only): see `C04Spec` (element-level specification),
    `C04World` (storage-level model of stream.go / streamForInterface.go), `C04Proto` (programs, protocol). -/
namespace FpgoVerif.C04

/-- one protocol case line in, one canonical observation line out -/
def handle (line : String) : String := runCase line

def judge (_line _impl : String) : String := "violation model-and-implementation-disagree"

end FpgoVerif.C04
