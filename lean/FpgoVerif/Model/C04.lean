import FpgoVerif.Model.C04Judge
/-! Executable model for property C04 (core-only): see `C04Spec` (element-level specification),
    `C04World` (storage-level model of stream.go / streamForInterface.go), `C04Proto` (programs, protocol). -/
namespace FpgoVerif.C04

/-- one protocol case line in, one canonical observation line out -/
def handle (line : String) : String := runCase line

/-- spec-level oracle on the observation of the real code (see `C04Judge`) -/
def judge (line impl : String) : String := Judge.judgeCase line impl

end FpgoVerif.C04
