import FpgoVerif.Model.C12MB
/-! A system of actors: every actor is an independent mailbox (`C12MB`), plus the `parent` pointer and
    the `children` map of `ActorDef`, and `Spawn` split into its atoms:

      newOne := actorSelf.New(effect)            -- `spawnNew p`   (a fresh unbuffered mailbox + its run goroutine)
      if actorSelf.isClosed.Get() { return }     -- `spawnCheck c`
      newOne.parent = actorSelf                  -- `spawnSetParent c`
      actorSelf.children[newOne.id] = newOne     -- `spawnSetChild c`

    Actor ids are allocation indices (in the code: `time.Now()`, assumed unique).  Ghost: `origin c =
    some (p, closedAtStart)` for an actor created by `p.Spawn` (with the value of `p.isClosed` when the
    call began), `stage c` = how far that `Spawn` call got (3 = returned), `effLog` = every call of an
    effect as (mailbox whose loop made the call, actor passed as first argument, message). -/

namespace FpgoVerif.C12

structure Sys where
  count    : Nat
  mb       : Nat → MB
  cap      : Nat → Nat
  parent   : Nat → Option Nat
  children : Nat → List Nat
  origin   : Nat → Option (Nat × Bool)
  stage    : Nat → Nat
  effLog   : List (Nat × Nat × Job)

inductive SAct
  | newRoot (cap : Nat)
  | mb (a : Nat) (x : Act)
  | spawnNew (p : Nat)
  | spawnCheck (c : Nat)
  | spawnSetParent (c : Nat)
  | spawnSetChild (c : Nat)
deriving Repr

def Sys.init (script : Nat → Nat → List Job) : Sys :=
  { count := 0, mb := fun a => MB.init (script a), cap := fun _ => 0, parent := fun _ => none,
    children := fun _ => [], origin := fun _ => none, stage := fun _ => 3, effLog := [] }

/-- the call that an atom starts (the consumer goes from idle to running) -/
def started (s t : MB) : List Job := if s.running = [] then t.running else []

def sysStep (s : Sys) : SAct → Option Sys
  | .newRoot cap => some { s with count := s.count + 1, cap := upd s.cap s.count cap }
  | .mb a x =>
    if a < s.count then
      match step (s.cap a) (s.mb a) x with
      | some m => some { s with mb := upd s.mb a m,
                                effLog := s.effLog ++ (started (s.mb a) m).map (fun j => (a, a, j)) }
      | none => none
    else none
  | .spawnNew p =>
    if p < s.count then
      some { s with count := s.count + 1, cap := upd s.cap s.count 0,
                    origin := upd s.origin s.count (some (p, (s.mb p).flag)),
                    stage := upd s.stage s.count 0 }
    else none
  | .spawnCheck c =>
    match s.origin c with
    | some (p, _) =>
      if s.stage c = 0 then
        (if (s.mb p).flag then some { s with stage := upd s.stage c 3 }
         else some { s with stage := upd s.stage c 1 })
      else none
    | none => none
  | .spawnSetParent c =>
    match s.origin c with
    | some (p, _) =>
      if s.stage c = 1 then some { s with parent := upd s.parent c (some p), stage := upd s.stage c 2 } else none
    | none => none
  | .spawnSetChild c =>
    match s.origin c with
    | some (p, _) =>
      if s.stage c = 2 then some { s with children := upd s.children p (c :: s.children p), stage := upd s.stage c 3 }
      else none
    | none => none

inductive SReach (script : Nat → Nat → List Job) : Sys → Prop
  | init : SReach script (Sys.init script)
  | step {s t} (a : SAct) : SReach script s → sysStep s a = some t → SReach script t

end FpgoVerif.C12
