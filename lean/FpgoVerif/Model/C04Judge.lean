import FpgoVerif.Model.C04Proto
/-! C04 — the spec-level oracle.  It does NOT use the heap model: it reads the contents the REAL code
    printed after every operation and decides the property's own statement on them:

    * persistence — after an operation that is not a documented mutator (`Set`, interface{} `Remove`) nor a
      write of the caller, every handle that existed before prints exactly what it printed before;
    * after a mutator / caller write, only handles that MAY share storage with the receiver by a documented
      route may change (a stream and the slice it was built from; a result that may be the receiver itself;
      a stream set and the streams stored in it …) — a `ToArray`/`Keys`/`Clone`/`Map`/… result never may;
    * the mutated receiver and every new collection hold the elements the list/map definition (`Spec`)
      prescribes, computed from the printed contents of the operands; observers agree with them. -/
namespace FpgoVerif.C04
namespace Judge

inductive SVal | int (n : Int) | nil | list (l : List Int)
deriving DecidableEq, Repr

inductive SV
  | list (shown hidden : List Int)
  | nil
  | map (m : List (Int × SVal))
  | raw (s : String)   -- a caller-owned operand list, compared verbatim
  | junk
deriving DecidableEq, Repr

def parseIntList (s : String) : Option (List Int) :=
  if s.isEmpty then some [] else allSome ((s.splitOn ",").map (·.toInt?))

def stripBr (s : String) : String := ((s.drop 1).dropEnd 1).toString

def parseList (s : String) : Option (List Int × List Int) :=
  match (stripBr s).splitOn "|" with
  | [a] => (parseIntList a).map (fun l => (l, []))
  | [a, b] => do some ((← parseIntList a), (← parseIntList b))
  | _ => none

def parseSVal (s : String) : Option SVal :=
  if s == "nil" then some .nil
  else if s.startsWith "[" then (parseList s).map (fun p => .list p.1)
  else s.toInt?.map .int

def parseSV (s : String) : SV :=
  if s == "nil" then .nil
  else if s.startsWith "[" then match parseList s with | some (a, b) => .list a b | none => .junk
  else if s.startsWith "{" then
    let body := stripBr s
    if body.isEmpty then .map [] else
    match allSome ((body.splitOn "/").map (fun e => match e.splitOn ":" with
      | [k, v] => do some ((← k.toInt?), (← parseSVal v))
      | _ => none)) with
    | some m => .map m
    | none => .junk
  else if s.startsWith "(" then .raw s
  else .junk

/-- one step of an observation: result words and the dump -/
def parseStep (s : String) : String × List (String × SV) :=
  let ws := (s.splitOn " ").filter (· ≠ "")
  let res := ws.takeWhile (fun w => !w.contains '=')
  let ents := (ws.dropWhile (fun w => !w.contains '=')).map (fun w => match w.splitOn "=" with
    | [n, c] => (n, parseSV c)
    | _ => (w, SV.junk))
  (" ".intercalate res, ents)

def get (d : List (String × SV)) (n : String) : Option SV := (d.find? (·.1 == n)).map (·.2)

def listOf (d : List (String × SV)) (n : String) : Option (List Int) :=
  match get d n with | some (.list l _) => some l | _ => none

/-- a stream argument: `nil`, a nil handle or a stream -/
def listArg (d : List (String × SV)) : Option String → Option (List Int)
  | none => some []
  | some n => match get d n with | some (.list l _) => some l | some .nil => some [] | _ => none

def mapOf (d : List (String × SV)) (n : String) : Option (List (Int × SVal)) :=
  match get d n with | some (.map m) => some m | _ => none

def mapArg (d : List (String × SV)) : Option String → Option (List (Int × SVal))
  | none => some []
  | some n => mapOf d n

/-- may-share graph: reachability over undirected edges -/
def reach (edges : List (String × String)) (fuel : Nat) (seen : List String) : List String :=
  match fuel with
  | 0 => seen
  | fuel + 1 =>
    let next := edges.foldl (fun acc e =>
      let acc := if seen.contains e.1 && !acc.contains e.2 then e.2 :: acc else acc
      if seen.contains e.2 && !acc.contains e.1 then e.1 :: acc else acc) seen
    if next.length == seen.length then seen else reach edges fuel next

def sval (iface : Bool) (streams : Bool) : SVal := if iface then .int Spec.nilCode else if streams then .nil else .int 0

def isStreamMap (m : List (Int × SVal)) : Bool := m.any (fun kv => match kv.2 with | .list _ => true | .nil => true | _ => false)

/-- the sequence a stream-set value denotes (a nil pointer / nil interface works as the empty stream) -/
def svalList : SVal → List Int
  | .list l => l
  | _ => []

/-- the non-empty stream stored under `k`, if any -/
def nonEmptyList (m : List (Int × SVal)) (k : Int) : Option (List Int) :=
  match (Spec.lookup k m : Option SVal) with
  | some (.list l) => if l.isEmpty then none else some l
  | _ => none

/-- expected contents of the collection created by a non-mutating operation, when the oracle computes it
    (`none`: not computed — persistence is still checked) -/
def expectNew (iface : Bool) (d : List (String × SV)) : Op → Option SV
  | .arr _ len vals => some (.list (vals.take len) (vals.drop len))
  | .sfrom _ a => (listOf d a).map (fun l => .list l [])
  | .toArr _ s => (listOf d s).map (fun l => .list l [])
  | .s1 _ s k => (listOf d s).map (fun l => .list (match k with
      | .map f => Spec.mapIdx (Spec.mapFn f) l
      | .filter p => Spec.filterIdx (Spec.predFn p) l
      | .reject p => Spec.rejectIdx (Spec.predFn p) l
      | .notnil => Spec.notNil iface l
      | .notnilp => Spec.notNilPtr l
      | .distinct => Spec.distinct l
      | .clone => l
      | .reverse => l.reverse
      | .sort c => Spec.sortBy (Spec.lessFn c) l
      | .sortidx c => Spec.sortBy (Spec.lessFn c) l
      | .rmitem vs => Spec.minus l vs
      | .append vs => l ++ vs
      | .remove i => Spec.removeAt l i) [])
  | .sinter _ s a => do
      let l ← listOf d s; let x ← listArg d a
      some (.list (if x.isEmpty then [] else Spec.inter l x) [])
  | .sminus _ s a => do
      let l ← listOf d s; let x ← listArg d a
      some (.list (Spec.minus l x) [])
  | .extend _ s args => do
      let l ← listOf d s; let xs ← allSome (args.map (listArg d))
      some (.list (xs.foldl (· ++ ·) l) [])
  | .concat _ s args => do
      let l ← listOf d s; let xs ← allSome (args.map (listArg d))
      some (.list (xs.foldl (· ++ ·) l) [])
  | .setFrom _ vs => some (.map (Spec.sortByKey (Spec.ofKeys (sval iface false) vs)))
  | .setFromArr _ a => (listOf d a).map (fun l => .map (Spec.sortByKey (Spec.ofKeys (sval iface false) l)))
  | .setFromMap _ kvs => some (.map (Spec.sortByKey (Spec.ofPairs (kvs.map (fun kv => (kv.1, SVal.int kv.2))))))
  | .tnew _ => some (.map [])
  | .tfrom _ vs => some (.map (Spec.sortByKey (Spec.ofKeys (SVal.list []) vs)))
  | .tfromArr _ a => (listOf d a).map (fun l => .map (Spec.sortByKey (Spec.ofKeys (SVal.list []) l)))
  | .tfromMap _ kvs => do
      let es ← allSome (kvs.map (fun kv => match kv.2 with
        | none => some (kv.1, SVal.nil)
        | some n => match get d n with
          | some (.list l _) => some (kv.1, SVal.list l)
          | some .nil => some (kv.1, SVal.nil)
          | _ => none))
      some (.map (Spec.sortByKey (Spec.ofPairs es)))
  | .m1 _ m k => do
      let mm ← mapOf d m
      let streams := (get d m).isSome && (m.startsWith "t")
      match k with
      | .mapkey f => some (.map (Spec.sortByKey (Spec.mapKeys (Spec.keyFn f) mm)))
      | .mapval f => some (.map (Spec.mapVals (fun v => match v with | .int n => .int (Spec.valFn f n) | x => x) mm))
      | .add vs => some (.map (Spec.sortByKey (vs.foldl (fun r k => Spec.insertIfAbsent k (sval iface streams) r) mm)))
      | .rmkeys vs => some (.map (Spec.removeKeys mm vs))
      | .rmvals vs => some (.map (mm.filter (fun kv => !(vs.map SVal.int).contains kv.2)))
      | .clone => some (.map mm)
  | .m2 _ m a k => do
      let mm ← mapOf d m
      let x ← mapArg d a
      let streams := m.startsWith "t"
      match k with
      | .union =>
        if !streams then some (.map (Spec.sortByKey (if x.isEmpty then mm else Spec.merge mm x)))
        else if x.isEmpty then some (.map mm)
        else
          -- by key: keys of either operand; where both hold the key and the argument's stream is non-empty the
          -- receiver's stream extended by it, otherwise `Merge` (the argument's entry wins)
          some (.map (Spec.sortByKey ((Spec.merge mm x).map (fun kv =>
            match Spec.lookup kv.1 mm, nonEmptyList x kv.1 with
            | some v, some l2 => (kv.1, SVal.list (svalList v ++ l2))
            | _, _ => kv))))
      | .inter =>
        if !streams then some (.map (if x.isEmpty then [] else Spec.interByKey mm x))
        else if x.isEmpty then some (.map [])
        else
          -- common keys; per key the intersection of the two streams (receiver's stream kept as it is when
          -- the argument's stream is nil/empty)
          some (.map ((Spec.interByKey mm x).map (fun kv => match nonEmptyList x kv.1 with
            | some l2 => (kv.1, SVal.list (Spec.inter (svalList kv.2) l2))
            | none => kv)))
      | .minus => some (.map (Spec.minusByKey mm x))
      | .minusStreams =>
        if !streams then none
        else if x.isEmpty then some (.map [])
        else
          -- keys unchanged; per key the receiver's stream minus the argument's
          some (.map (mm.map (fun kv => match nonEmptyList x kv.1 with
            | some l2 => (kv.1, SVal.list (Spec.minus (svalList kv.2) l2))
            | none => kv)))
  | .tget _ t k => do
      let mm ← mapOf d t
      match (Spec.lookup k mm : Option SVal) with
      | some (SVal.list l) => some (.list l [])
      | _ => some .nil
  | .keys _ m => (mapOf d m).map (fun mm => .list (Spec.sortInts (mm.map (·.1))) [])
  | .vals _ m => (mapOf d m).map (fun mm => .list (Spec.sortInts (mm.map (fun kv => match kv.2 with | .int n => n | _ => 0))) [])
  | _ => none

/-- expected answer of an observer -/
def expectObs (iface : Bool) (d : List (String × SV)) : Op → Option String
  | .slen s => (listOf d s).map (fun l => s!"n {l.length}")
  | .sget s i => (listOf d s).map (fun l => if 0 ≤ i ∧ i < l.length then s!"v {l.getD i.toNat 0}" else "panic")
  | .shas s v => (listOf d s).map (fun l => showBool (l.contains v))
  | .srel s a sup => do
      let l ← listOf d s; let x ← listArg d a
      some (showBool (if x.isEmpty then sup else if sup then Spec.isSubset x l else Spec.isSubset l x))
  | .mhaskey m k => (mapOf d m).map (fun mm => showBool (Spec.hasKey k mm))
  | .mhasval m v => (mapOf d m).map (fun mm => showBool (mm.any (fun kv => kv.2 == SVal.int v)))
  | .msize m => (mapOf d m).map (fun mm => s!"n {mm.length}")
  | .mget m k => (mapOf d m).map (fun mm => match (Spec.lookup k mm : Option SVal) with
      | some (SVal.int n) => s!"v {n}" | _ => s!"v {if iface then Spec.nilCode else 0}")
  | .mrel m a sup => do
      let x ← mapOf d m; let y ← mapOf d a
      some (showBool (if sup then Spec.isSubsetByKey y x else Spec.isSubsetByKey x y))
  | _ => none

/-- Documented may-share edges an operation creates between its result and its operands, decided on the
    contents printed BEFORE the operation (`d`).  The flag says whether the edge is an *identity* edge — the
    result may BE the operand (same object / same storage: `Minus(empty)`, `RemoveItem()`, `Concat()`,
    `Extend()`, generic `Remove(out of range)`, `Add()`/`RemoveKeys()`/`RemoveValues()`/`Union(empty)`/
    `Minus(empty)` return their receiver; a sub-slice / a stream built from a slice shares its storage) — or
    only a *containment* edge (a stream set and the streams stored in it; two stream sets holding the same
    stream pointers).  With NON-empty arguments / an in-range index the definition prescribes a NEW
    collection: no edge, so a later mutation of the receiver showing through the result (or vice versa) is a
    violation.  Storage mutators (caller write, interface{} `Remove`) propagate over all edges, map mutators
    (`Set`) over identity edges only. -/
def shareEdges (iface : Bool) (d : List (String × SV)) : Op → List (String × String × Bool)
  | .sub r s _ _ => [(r, s, true)]
  | .sfrom r a => [(r, a, true)]
  | .s1 r s (.rmitem vs) => if vs.isEmpty then [(r, s, true)] else []
  | .s1 r s (.remove i) =>
      if iface then [(r, s, true)]
      else match listOf d s with
        | some l => if 0 ≤ i ∧ i < l.length then [] else [(r, s, true)]
        | none => [(r, s, true)]
  | .sminus r s a => match listArg d a with
      | some x => if x.isEmpty then [(r, s, true)] else []
      | none => [(r, s, true)]
  | .extend r s args => if args.isEmpty then [(r, s, true)] else []
  | .concat r s args => if args.isEmpty then [(r, s, true)] else []
  | .tfromMap r kvs => kvs.filterMap (fun kv => kv.2.map (fun n => (r, n, false)))
  | .m1 r m (.add vs) => if vs.isEmpty then [(r, m, true)] else if m.startsWith "t" then [(r, m, false)] else []
  | .m1 r m (.rmkeys vs) => if vs.isEmpty then [(r, m, true)] else if m.startsWith "t" then [(r, m, false)] else []
  | .m1 r m (.rmvals vs) => if vs.isEmpty then [(r, m, true)] else if m.startsWith "t" then [(r, m, false)] else []
  | .m1 r m (.mapkey _) => if m.startsWith "t" then [(r, m, false)] else []
  | .m2 r m a .union =>
      let argEmpty := match mapArg d a with | some x => x.isEmpty | none => true
      if argEmpty then [(r, m, true)]
      else if m.startsWith "t" then (r, m, false) :: (match a with | some x => [(r, x, false)] | none => []) else []
  | .m2 r m _ .inter => if m.startsWith "t" then [(r, m, false)] else []
  | .m2 r m a .minus =>
      let argEmpty := match mapArg d a with | some x => x.isEmpty | none => true
      if argEmpty then [(r, m, true)] else if m.startsWith "t" then [(r, m, false)] else []
  | .tset t _ (some s) => [(t, s, false)]
  | .tget r t _ => [(r, t, false)]
  | _ => []

def receiverOf : Op → Option String
  | .wr a _ _ => some a
  | .mset m _ _ => some m
  | .tset t _ _ => some t
  | .s1 _ s (.remove _) => some s
  | .hadd h _ => some h
  | .hrem h _ => some h
  | .hclear h => some h
  | _ => none

/-- SimpleHTTP bookkeeping replaces the instance's own list persistently: NOTHING else may change, not even
    the caller's slice the instance was built from or another instance built from the same slice -/
def strictMutator : Op → Bool
  | .hadd .. => true | .hrem .. => true | .hclear .. => true
  | _ => false

def dstOf : Op → Option String
  | .arr d .. => some d | .sub d .. => some d | .sfrom d _ => some d | .toArr d _ => some d | .s1 d .. => some d
  | .sinter d .. => some d | .sminus d .. => some d | .extend d .. => some d | .concat d .. => some d
  | .setFrom d _ => some d | .setFromArr d _ => some d | .setFromMap d _ => some d | .tnew d => some d
  | .tfrom d _ => some d | .tfromArr d _ => some d | .tfromMap d _ => some d | .m1 d .. => some d | .m2 d .. => some d
  | .tget d .. => some d | .keys d _ => some d | .vals d _ => some d
  | .mklist d .. => some d | .extendv d .. => some d | .concatv d .. => some d | .s1v d .. => some d | .m1v d .. => some d
  | _ => none

def sameContent : SV → SV → Bool
  | .list a _, .list b _ => a == b     -- hidden capacity of a library result is not part of its contents
  | a, b => a == b

/-- expected new contents of the receiver of a mutator -/
def expectMut (d : List (String × SV)) : Op → Option SV
  | .wr a i v => match get d a with
    | some (.list l h) => if i < l.length then some (.list (l.set i v) h) else none
    | _ => none
  | .mset m k v => (mapOf d m).map (fun mm => .map (Spec.sortByKey (Spec.insert k (SVal.int v) mm)))
  | .s1 _ s (.remove i) => match get d s with
    | some (.list l _) => some (.list (Spec.removeAt l i) [])
    | _ => none
  | .hadd h ids => (listOf d h).map (fun l => .list (l ++ ids) [])
  | .hrem h ids => (listOf d h).map (fun l => .list (Spec.minus l ids) [])
  | .hclear _ => some (.list [] [])
  | _ => none

/-- check one step; `none` = fine -/
def checkStep (iface : Bool) (op : Op) (edges : List (String × String × Bool)) (prev cur : List (String × SV))
    (res : String) : Option String :=
  if (res.splitOn "!arg-disturbed").length > 1 then
    -- harness monitor: the Go map handed to `StreamSetFromMap` (an argument) no longer holds what the caller
    -- put there, although only library operations ran on the stream set
    some "the map passed to StreamSetFromMap was changed by the library (arguments must be left as they were)"
  else if res == "bad-ref" || res == "bad-op" then
    if cur == prev then none else some "a refused operation changed something"
  else if op.isMutator iface then
    let recv := (receiverOf op).getD ""
    -- `Set` writes a map object: only handles that may BE the receiver may change with it
    let mapMut := match op with | .mset .. => true | .tset .. => true | _ => false
    let es := (edges.filter (fun e => !mapMut || e.2.2)).map (fun e => (e.1, e.2.1))
    let may := if strictMutator op then [recv] else reach es (es.length + 1) [recv]
    match prev.find? (fun e => !may.contains e.1 && (get cur e.1) != some e.2) with
    | some e => some s!"{e.1} changed although it cannot share storage with the mutated {recv}"
    | none =>
      if res == "panic" then (if cur == prev then none else some "a panicking mutator changed something") else
      match expectMut prev op, get cur recv with
      | some want, some got =>
        if !sameContent want got then some s!"mutated {recv} does not hold the prescribed elements"
        else match op, dstOf op with
          | .s1 .., some d => if (get cur d).map (sameContent got) == some true then none
                              else some s!"Remove: returned stream {d} differs from the receiver {recv}"
          | _, _ => none
      | _, _ => none
  else
    match prev.find? (fun e => (get cur e.1) != some e.2) with
    | some e => some s!"{e.1} was disturbed by a non-mutating operation"
    | none =>
      match expectObs iface prev op with
      | some want => if res == want then none else some s!"observer answered {res}, the elements prescribe {want}"
      | none =>
        if res == "panic" then some "unexpected panic" else
        match dstOf op, expectNew iface prev op with
        | some d, some want => match get cur d with
          | some got => if sameContent want got then none else some s!"{d} does not hold the prescribed elements"
          | none => some s!"{d} missing"
        | _, _ => none

/-- spread calls are judged as the same call with the operand list written out: the items are what the caller's
    slice printed before the call, the members of an operand list are those it was built from -/
def normOp (all : List Op) (prev : List (String × SV)) : Op → Op
  | .s1v d s a app => match listOf prev a with
    | some items => .s1 d s (if app then .append items else .rmitem items)
    | none => .bad
  | .m1v d m a k => match listOf prev a with
    | some items => .m1 d m (match k with | 0 => .add items | 1 => .rmkeys items | _ => .rmvals items)
    | none => .bad
  | .extendv d s l => match all.findSome? (fun o => match o with | .mklist n ms _ => if n == l then some ms else none | _ => none) with
    | some ms => .extend d s ms
    | none => .bad
  | .concatv d s l => match all.findSome? (fun o => match o with | .mklist n ms _ => if n == l then some ms else none | _ => none) with
    | some ms => .concat d s ms
    | none => .bad
  | o => o

def judgeCase (line impl : String) : String :=
  let (iface, toks) := parseCase line
  let steps := (impl.splitOn " | ").map parseStep
  let allOps := toks.map (fun t => famOp line (parseOp t))
  if steps.length != toks.length then "violation malformed observation (steps missing: crash or hang)" else
  let rec go (ops : List Op) (steps : List (String × List (String × SV))) (edges : List (String × String × Bool))
      (prev : List (String × SV)) (i : Nat) : String :=
    match ops, steps with
    | op :: ops', (res, cur) :: steps' =>
      let op := normOp allOps prev op
      match checkStep iface op edges prev cur res with
      | some why => s!"violation step {i}: {why}"
      | none =>
        let edges' := if res == "ok" then shareEdges iface prev op ++ edges else edges
        go ops' steps' edges' cur (i + 1)
    | _, _ => "allowed every step satisfies persistence and the prescribed contents (model differs)"
  go allOps steps [] [] 0

end Judge
end FpgoVerif.C04
