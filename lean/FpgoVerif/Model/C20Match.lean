import FpgoVerif.Model.C20Comb
/-! C20, part 2 (core-only, executable): the `GoVal` universe of probe values, the slice of `reflect`
    the matching code uses, `SumType/ProductType/NilType.Matches`, `NewCompData`, `MatchCompType`,
    the five `Pattern.Matches` implementations and `MatchFor`/`Either`, mirrored from fp.go as it is
    now (after fix 33c3a0d: only a pointer to `CompData` is dereferenced; the sum-type pattern
    type-asserts `CompData`; and after the regex fix: the text of any string-kind value is matched).

    `regexp.MatchString` is a parameter `rx : pattern → text → Bool` ("matches and no error"). -/

namespace FpgoVerif.C20

/-! ## Values -/

/-- float values that travel exactly: `half n` = n/2, NaN, negative zero -/
inductive FTag where
  | half (n : Int)
  | nan
  | negzero
deriving DecidableEq, Repr

/-- Everything except a `CompData` value.  `k` of `int`/`flt` is the `reflect.Kind` number of the builtin
    type (`int`=2 … `uintptr`=12, `float32`=13, `float64`=14); `ty` numbers the struct types `S0, S1, …`
    of the harness; `ty = 2` of `nilptr`/`ptr` is `*CompData` (opaque non-nil pointer / typed nil). -/
inductive Atom where
  | nil
  | bool (b : Bool)
  | int (k : Nat) (v : Int)
  | flt (k : Nat) (f : FTag)
  | str (named : Bool) (s : String)
  | nilptr (ty : Nat)
  | strct (ty : Nat) (p : Int)
  | ptr (ty : Nat) (addr : Nat)
  | slice (isNil : Bool) (es : List Int)
  | mapv (isNil : Bool)
deriving DecidableEq, Repr

/-- a probe value: an atom, a `CompData` value (its `objects`), or a non-nil `*CompData` (address + objects) -/
inductive GoVal where
  | atom (a : Atom)
  | comp (objs : List Atom)
  | compptr (addr : Nat) (objs : List Atom)
deriving DecidableEq, Repr

/-- dynamic types (what interface `==` and type assertions look at) -/
inductive Ty where
  | bool | int (k : Nat) | flt (k : Nat) | str (named : Bool) | ptrTo (ty : Nat) | strct (ty : Nat)
  | slice | map | comp
deriving DecidableEq, Repr

def Atom.ty : Atom → Option Ty
  | .nil => none
  | .bool _ => some .bool
  | .int k _ => some (.int k)
  | .flt k _ => some (.flt k)
  | .str n _ => some (.str n)
  | .nilptr t => some (.ptrTo t)
  | .strct t _ => some (.strct t)
  | .ptr t _ => some (.ptrTo t)
  | .slice _ _ => some .slice
  | .mapv _ => some .map

def GoVal.ty : GoVal → Option Ty
  | .atom a => a.ty
  | .comp _ => some .comp
  | .compptr _ _ => some (.ptrTo 2)

/-- Go's comparability of a dynamic type (`CompData` contains a slice field) -/
def Ty.comparable : Ty → Bool
  | .slice | .map | .comp => false
  | _ => true

/-! `reflect.Kind` numbers -/
def kInvalid : Nat := 0
def kMap : Nat := 21
def kPtr : Nat := 22
def kSlice : Nat := 23
def kString : Nat := 24
def kStruct : Nat := 25

def Ty.kind : Ty → Nat
  | .bool => 1
  | .int k => if 2 ≤ k ∧ k ≤ 12 then k else 2
  | .flt k => if k = 13 then 13 else 14
  | .str _ => kString
  | .ptrTo _ => kPtr
  | .strct _ => kStruct
  | .slice => kSlice
  | .map => kMap
  | .comp => kStruct

/-- `reflect.ValueOf(v).Kind()` (Invalid for the nil interface) -/
def Atom.valueKind (a : Atom) : Nat := match a.ty with | none => kInvalid | some t => t.kind
def GoVal.valueKind (v : GoVal) : Nat := match v.ty with | none => kInvalid | some t => t.kind

/-- `fpgo.IsNil`: `Kind == Ptr → val.IsNil()`, otherwise `!val.IsValid()` (a nil slice/map is not nil) -/
def Atom.isNil : Atom → Bool
  | .nil => true
  | .nilptr _ => true
  | _ => false
def GoVal.isNil : GoVal → Bool
  | .atom a => a.isNil
  | _ => false

/-- `Maybe.Just(v).Kind()`: `None.Kind() = Invalid` for nil / typed nil pointer, else `ValueOf(ref).Kind()` -/
def Atom.justKind (a : Atom) : Nat := if a.isNil then kInvalid else a.valueKind
/-- `Maybe.Just(v).IsKind(k)`: goes through the promoted `someDef.IsKind`, whose `ref` is nil for `None` -/
def GoVal.justIsKind (v : GoVal) (k : Nat) : Bool := (if v.isNil then kInvalid else v.valueKind) == k

def FTag.eq : FTag → FTag → Bool
  | .nan, _ => false
  | _, .nan => false
  | .half a, .half b => a == b
  | .half a, .negzero => a == 0
  | .negzero, .half b => b == 0
  | .negzero, .negzero => true

/-- `==` on two values of the same comparable dynamic type -/
def Atom.valEq : Atom → Atom → Bool
  | .bool a, .bool b => a == b
  | .int _ a, .int _ b => a == b
  | .flt _ a, .flt _ b => a.eq b
  | .str _ a, .str _ b => a == b
  | .nilptr _, .nilptr _ => true
  | .ptr _ a, .ptr _ b => a == b
  | .strct _ a, .strct _ b => a == b
  | _, _ => false

def GoVal.valEq : GoVal → GoVal → Bool
  | .atom a, .atom b => a.valEq b
  | .compptr a _, .compptr b _ => a == b
  | .compptr a _, .atom (.ptr 2 b) => a == b
  | .atom (.ptr 2 a), .compptr b _ => a == b
  | _, _ => false

/-- Go's `a == b` on two `interface{}` values: different dynamic types → false; same uncomparable type →
    run-time panic; nil == nil. -/
def goEq (a b : GoVal) : Res Bool :=
  match a.ty, b.ty with
  | none, none => .ok true
  | some ta, some tb =>
    if ta ≠ tb then .ok false else if !ta.comparable then .panic else .ok (a.valEq b)
  | _, _ => .ok false

/-! ## Sum / product / nil types -/

inductive CompType where
  | sum (ts : List CompType)
  | prod (ks : List Nat)
  | nilT
deriving Repr

/-- `ProductType.Matches` loop: `for i, v := range value { matches = matches && kinds[i] == Maybe.Just(v).Kind() }` -/
def prodLoop (ks : List Nat) : List Atom → Nat → Bool → Bool
  | [], _, acc => acc
  | v :: vs, i, acc => prodLoop ks vs (i + 1) (acc && (ks[i]? == some v.justKind))

mutual
/-- `CompType.Matches(value...)` for the three implementations -/
def CompType.matches : CompType → List Atom → Bool
  | .sum ts, vs => CompType.matchesAny ts vs
  | .prod ks, vs => if vs.length != ks.length then false else prodLoop ks vs 0 true
  | .nilT, vs =>
    match vs with
    | [v] => v.isNil
    | _ => false
/-- the `for _, compType := range typeSelf.compTypes` loop of `SumType.Matches` (early `return true`) -/
def CompType.matchesAny : List CompType → List Atom → Bool
  | [], _ => false
  | t :: ts, vs => if t.matches vs then true else CompType.matchesAny ts vs
end

/-- `NewCompData(t, vs...)`: a `*CompData` holding `vs` iff `t.Matches(vs...)`, else nil -/
def newCompData (t : CompType) (vs : List Atom) : Option (List Atom) :=
  if t.matches vs then some vs else none

/-- `MatchCompType(t, cd)` / `MatchCompTypeRef(t, &cd)`: `t.Matches(cd.objects...)` -/
def matchCompType (t : CompType) (objs : List Atom) : Bool := t.matches objs

namespace Spec
mutual
/-- what "the arguments match the declared type" means: product = kinds agree position by position,
    nil type = exactly one nil argument, sum = some member matches -/
def typeMatches : CompType → List Atom → Bool
  | .sum ts, vs => anyMatches ts vs
  | .prod ks, vs => vs.map Atom.justKind == ks
  | .nilT, vs => vs.length == 1 && vs.all Atom.isNil
def anyMatches : List CompType → List Atom → Bool
  | [], _ => false
  | t :: ts, vs => typeMatches t vs || anyMatches ts vs
end
end Spec

/-! ## Patterns -/

inductive Pat where
  | kind (k : Nat)
  | equal (v : GoVal)
  | regex (r : String)
  | sumT (t : CompType)
  | otherwise
deriving Repr

/-- a pattern with (the identity of) its effect function -/
structure Pattern where
  pat : Pat
  eff : Nat
deriving Repr

/-- the single-argument view of a value handed to `compType.Matches(value)` -/
def GoVal.asAtom : GoVal → Atom
  | .atom a => a
  | .comp _ => .strct 99 0        -- never used: a `CompData` value takes the type-assertion branch
  | .compptr a _ => .ptr 2 a

/-- the text of a string-kind value (`reflect.ValueOf(value).String()`) -/
def GoVal.text : GoVal → Option String
  | .atom (.str _ s) => some s
  | _ => none

/-- `Pattern.Matches(value)` of the five pattern kinds, statement by statement -/
def Pat.matches (rx : String → String → Bool) : Pat → GoVal → Res Bool
  | .kind k, v =>
    -- if Maybe.Just(value).IsNil() { return false }; return kind == reflect.TypeOf(value).Kind()
    if v.isNil then .ok false else .ok (k == v.valueKind)
  | .sumT t, v =>
    -- if compData, ok := value.(CompData); ok { return MatchCompType(t, compData) }; return t.Matches(value)
    match v with
    | .comp objs => .ok (matchCompType t objs)
    | _ => .ok (t.matches [v.asAtom])
  | .equal pv, v => goEq pv v
  | .regex r, v =>
    -- if IsNil(value) || TypeOf(value).Kind() != String { return false }; matches, err := MatchString(...)
    if v.isNil || v.valueKind != kString then .ok false else
    match v.text with
    | some s => .ok (rx r s)
    | none => .panic
  | .otherwise, _ => .ok true

/-- the per-iteration pre-processing of `MatchFor`: `Maybe.Just(inValue).IsKind(Ptr)` and the pointee's
    type is exactly `CompData` → the pattern sees the pointee -/
def preprocess (inV : GoVal) : GoVal :=
  if inV.justIsKind kPtr then
    match inV with
    | .compptr _ objs => .comp objs
    | v => v
  else inV

/-- `MatchFor`: the `for _, pattern := range patterns` loop with its early return; panic after the loop.
    Result: the effect applied and the value it was applied to. -/
def matchFor (rx : String → String → Bool) : List Pattern → GoVal → Res (Nat × GoVal)
  | [], _ => .panic
  | p :: ps, inV =>
    let value := preprocess inV
    match p.pat.matches rx value with
    | .panic => .panic
    | .ok true => .ok (p.eff, value)
    | .ok false => matchFor rx ps inV

/-- `Either(value, patterns...) = DefPattern(patterns...).MatchFor(value)` -/
def either (rx : String → String → Bool) (v : GoVal) (ps : List Pattern) : Res (Nat × GoVal) := matchFor rx ps v

namespace Spec
/-- the value a pattern is asked about: a pointer to `CompData` stands for the `CompData` -/
def view : GoVal → GoVal
  | .compptr _ objs => .comp objs
  | v => v

/-- Go equality for a comparable pattern value: same dynamic type and equal -/
def equalTo (pv v : GoVal) : Bool := pv.ty == v.ty && (pv.ty.isNone || pv.valEq v)

/-- the property's tests -/
def accepts (rx : String → String → Bool) : Pat → GoVal → Bool
  | .kind k, v => !v.isNil && v.valueKind == k
  | .equal pv, v => equalTo pv v
  | .regex r, v => match v.text with | some s => rx r s | none => false
  | .sumT t, v => match v with | .comp objs => typeMatches t objs | _ => typeMatches t [v.asAtom]
  | .otherwise, _ => true

/-- first pattern in list order that accepts; panic exactly when none does -/
def matchFor (rx : String → String → Bool) (ps : List Pattern) (v : GoVal) : Res (Nat × GoVal) :=
  match ps.find? (fun p => accepts rx p.pat (view v)) with
  | some p => .ok (p.eff, view v)
  | none => .panic
end Spec

/-! ### the pinned (pre-fix) mechanisms, kept only for the refutation theorems -/

/-- before 33c3a0d: `reflect.TypeOf(*ptr).Kind() == reflect.TypeOf(CompData{}).Kind()` — any pointer to a
    struct was dereferenced (the harness' struct `S_ty` at address `a` holds payload `a / 10`) -/
def preprocessPinned (inV : GoVal) : GoVal :=
  if inV.justIsKind kPtr then
    match inV with
    | .compptr _ objs => .comp objs
    | .atom (.ptr ty a) => if ty < 2 then .atom (.strct ty ((a / 10 : Nat) : Int)) else inV
    | v => v
  else inV

/-- before c5a1b66: `(value).(string)` after the kind check — a defined string type panics -/
def regexMatchesPinned (rx : String → String → Bool) (r : String) (v : GoVal) : Res Bool :=
  if v.isNil || v.valueKind != kString then .ok false else
  match v with
  | .atom (.str false s) => .ok (rx r s)
  | _ => .panic

def matchForPinned (rx : String → String → Bool) : List Pattern → GoVal → Res (Nat × GoVal)
  | [], _ => .panic
  | p :: ps, inV =>
    let value := preprocessPinned inV
    let m := match p.pat with
      | .regex r => regexMatchesPinned rx r value
      | q => q.matches rx value
    match m with
    | .panic => .panic
    | .ok true => .ok (p.eff, value)
    | .ok false => matchForPinned rx ps inV

/-- "equality patterns holding comparable values" -/
def Pat.inScope : Pat → Bool
  | .equal pv => match pv.ty with | none => true | some t => t.comparable
  | _ => true

end FpgoVerif.C20
