import FpgoVerif.Model.C17Subst
/-! Executable model for property C17 (core-only): the `APIMake*` constructors of
    network/simpleHTTP.go l.358-506 as they are NOW (after fix commit f67e541).

    * header maps live in a heap (`World.heap`, address = index) so that "a copy of DefaultHeader,
      never the shared map itself" is expressible: `Header.Clone()` allocates.
    * a constructor yields an `ApiDef` (pure data: method, template, content type, kind); calling the
      API function yields a `MonadIO` = `World → Outcome × World`; `World.log` is what reached the
      transport (the stub `http.RoundTripper` of the harness).
    * serializer / transport / body reader / deserializer are parameters (`Env`).
    * `commaOk = true` is the current `tempTarget.(*R)` with the comma-ok form, `false` the pinned
      code (panics when the deserializer returns a nil interface) — kept for the refutation theorem. -/
namespace FpgoVerif.C17

/-! ### small string utilities (bytes as `Char`s) -/

def hexDigit (n : Nat) : Char :=
  if n < 10 then Char.ofNat (48 + n) else Char.ofNat (87 + n)

def hexVal (c : Char) : Option Nat :=
  if '0' ≤ c ∧ c ≤ '9' then some (c.toNat - 48)
  else if 'a' ≤ c ∧ c ≤ 'f' then some (c.toNat - 87)
  else if 'A' ≤ c ∧ c ≤ 'F' then some (c.toNat - 55)
  else none

def hex : Str → Str
  | [] => []
  | c :: s => hexDigit (c.toNat / 16) :: hexDigit (c.toNat % 16) :: hex s

def unhex : Str → Str
  | a :: b :: s => match hexVal a, hexVal b with
    | some x, some y => Char.ofNat (x * 16 + y) :: unhex s
    | _, _ => unhex s
  | _ => []

def strLt : Str → Str → Bool
  | [], [] => false
  | [], _ :: _ => true
  | _ :: _, [] => false
  | a :: as, b :: bs => if a.toNat < b.toNat then true else if b.toNat < a.toNat then false else strLt as bs

def insertBy {α} (lt : α → α → Bool) (x : α) : List α → List α
  | [] => [x]
  | y :: ys => if lt x y then x :: y :: ys else y :: insertBy lt x ys

def sortBy {α} (lt : α → α → Bool) (l : List α) : List α := l.foldr (insertBy lt) []

def joinWith (sep : Str) : List Str → Str
  | [] => []
  | [a] => a
  | a :: b :: r => a ++ sep ++ joinWith sep (b :: r)

/-! ### headers (a Go `map[string][]string` as an association list with unique keys) -/

abbrev Header := List (Str × List Str)

/-- `http.Header.Add` (keys are already canonical in everything the harness generates) -/
def hAdd (h : Header) (k v : Str) : Header :=
  match h with
  | [] => [(k, [v])]
  | (k', vs) :: r => if k' = k then (k', vs ++ [v]) :: r else (k', vs) :: hAdd r k v

def showHeader (h : Header) : Str :=
  if h.isEmpty then "-".toList
  else joinWith "+".toList
    ((sortBy (fun a b => strLt a.1 b.1) h).map (fun kv => hex kv.1 ++ '~' :: joinWith ",".toList (kv.2.map hex)))

def showHeaderOpt : Option Header → Str
  | none => "nil".toList
  | some h => showHeader h

/-! ### requests, world -/

/-- what the transport sees -/
structure SentReq where
  method : Str
  url : Str
  hdrAddr : Nat
  hdr : Header
  body : Str        -- canonical body record ("nil", "raw:<hex>", "mp:<k>=<v>,…")
deriving Repr, DecidableEq

abbrev Target := Str × Int

structure World where
  heap : List Header
  log : List SentReq
  targets : List Target := []     -- the `target *R` cells supplied by the callers (address = index)
deriving Repr, DecidableEq

def World.alloc (w : World) (h : Header) : Nat × World := (w.heap.length, { w with heap := w.heap ++ [h] })
def World.get (w : World) (a : Nat) : Header := (w.heap[a]?).getD []
def World.set (w : World) (a : Nat) (h : Header) : World := { w with heap := w.heap.set a h }

inductive ErrC | ser | tx | read | dec | json | url | method | stream | other
deriving DecidableEq, Repr

def ErrC.show : ErrC → String
  | .ser => "ser" | .tx => "tx" | .read => "read" | .dec => "dec" | .json => "json"
  | .url => "url" | .method => "method" | .stream => "stream" | .other => "other"

def World.target (w : World) (a : Nat) : Target := (w.targets[a]?).getD ([], 0)
def World.setTarget (w : World) (a : Nat) (t : Target) : World := { w with targets := w.targets.set a t }

/-- the `*APIResponse[R]` as observed: `Err` class and `TargetObject`; or a Go panic -/
inductive Outcome
  | resp (err : Option ErrC) (tgt : Option Target)
  | panic
deriving DecidableEq, Repr

inductive Body
  | json (a : Str) (n : Int)            -- a (non-nil pointer to a) struct {A string; N int}
  | lit (text : Str)                    -- any other body VALUE, given by its JSON text: a nil slice / nil map (`null`), an empty
                                        -- slice / map (`[]`, `{}`), a filled one, a struct value.  `fpgo.IsNil` (l.1483-1490 of
                                        -- fp.go) calls only a nil POINTER (or the untyped nil) nil, so all of these are serialized;
                                        -- the nil pointer is the `none` of `Option Body`
  | form (fields : List (Str × Str))
deriving DecidableEq, Repr

/-- external behaviours (parameters of the model; the harness injects failures here) -/
structure Env where
  jsonSer : Body → Except ErrC Str                      -- BodySerializer: canonical body record
  mpSer : Body → Except ErrC (Str × Str)                -- MultipartSerializer: record, content type
  transport : SentReq → Except ErrC (Except ErrC Str)   -- RoundTrip: error, or a body whose read fails/succeeds
  deser : Str → Target → Option Target × Option ErrC    -- ResponseDeserializer given the target's current content:
                                                        -- (new content of the returned *R | nil/other type, err)

/-! ### `net/http` as far as the constructors use it (modelled, not verified) -/

def isTokenChar (c : Char) : Bool :=
  c.isAlphanum || "!#$%&'*+-.^_`|~".toList.contains c

def validMethod (m : Str) : Bool := !m.isEmpty && m.all isTokenChar

def isHex (c : Char) : Bool := (hexVal c).isSome

/-- `net/url` `unescape` succeeds (path / fragment mode) -/
def pctOk : Str → Bool
  | [] => true
  | '%' :: a :: b :: s => isHex a && isHex b && pctOk (b :: s)
  | '%' :: _ => false
  | _ :: s => pctOk s

def cutAt (c : Char) : Str → Str × Option Str
  | [] => ([], none)
  | d :: s => if d = c then ([], some s) else
    let (a, b) := cutAt c s
    (d :: a, b)

def hasCTL (s : Str) : Bool := s.any (fun c => c.toNat < 32 || c.toNat = 127)

/-- `url.Parse` of `scheme://host/…` strings: `none` = parse error; `some u` = the URL the transport
    sees, re-assembled (an empty fragment is dropped by `net/url`) -/
def urlParse (u : Str) : Option Str :=
  if hasCTL u then none else
  let (pre, frag) := cutAt '#' u
  let (path, _) := cutAt '?' pre
  if !pctOk path then none else
  match frag with
  | none => some pre
  | some f => if !pctOk f then none else if f.isEmpty then some pre else some (pre ++ '#' :: f)

/-- `NewRequestWithContext` treats an empty method as GET -/
def normMethod (m : Str) : Str := if m.isEmpty then "GET".toList else m

/-- `http.NewRequestWithContext(ctx, method, url, body)`: fresh header map -/
def newRequest (method url : Str) (body : Str) (w : World) : Except ErrC SentReq × World :=
  let method := normMethod method
  if !validMethod method then (.error .method, w) else
  match urlParse url with
  | none => (.error .url, w)
  | some u =>
    let (a, w) := w.alloc []
    (.ok ⟨method, u, a, [], body⟩, w)

/-- `DoRequest`: `client.Do(request)`; the client's transport sees the request exactly once (the
    interceptor chain in between is property C18) -/
def doRequest (env : Env) (req : SentReq) (w : World) : Except ErrC (Except ErrC Str) × World :=
  let req := { req with hdr := w.get req.hdrAddr }
  (env.transport req, { w with log := w.log ++ [req] })

/-- `DoNewRequest` l.184-198 -/
def doNewRequest (env : Env) (header : Option Nat) (method url : Str) (w : World) :
    Except ErrC (Except ErrC Str) × World :=
  match newRequest method url "nil".toList w with
  | (.error e, w) => (.error e, w)
  | (.ok req, w) =>
    let req := match header with
      | some a => { req with hdrAddr := a }
      | none => req
    doRequest env req w

def contentTypeKey : Str := "Content-Type".toList

/-- `DoNewRequestWithBodyOptions` l.201-218 -/
def doNewRequestWithBodyOptions (env : Env) (header : Option Nat) (method url : Str) (body : Str)
    (contentType : Str) (w : World) : Except ErrC (Except ErrC Str) × World :=
  match newRequest method url body w with
  | (.error e, w) => (.error e, w)
  | (.ok req, w) =>
    let req := match header with
      | some a => { req with hdrAddr := a }
      | none => req
    let w := if contentType ≠ [] then w.set req.hdrAddr (hAdd (w.get req.hdrAddr) contentTypeKey contentType) else w
    doRequest env req w

/-- `http.Header.Clone()`: nil stays nil, otherwise a fresh map with the same content.
    `cloned = false` models passing the shared map itself (for the refutation theorem only). -/
def cloneHeader (cloned : Bool) (h : Option Nat) (w : World) : Option Nat × World :=
  match h with
  | none => (none, w)
  | some a => if cloned then let (b, w) := w.alloc (w.get a); (some b, w) else (some a, w)

/-- `decodeResponseBody` l.485-498 -/
def decodeResponseBody (commaOk : Bool) (env : Env) (raw : Except ErrC Str) (tgt : Nat) (w : World) : Outcome × World :=
  match raw with
  | .error e => (.resp (some e) none, w)
  | .ok bytes =>
    let r := env.deser bytes (w.target tgt)      -- (tempTarget, response.Err)
    match r.1 with
    | some t => (.resp r.2 (some t), w.setTarget tgt t)
    | none => if commaOk then (.resp r.2 none, w) else (.panic, w)

/-! ### the constructors -/

inductive Kind | noBody | body | multipart
deriving DecidableEq, Repr

/-- what a constructor closes over -/
structure ApiDef where
  kind : Kind
  method : Str
  tmpl : Str
  contentType : Str
deriving DecidableEq, Repr

structure Api where
  base : Str
  defaultHeader : Option Nat
deriving Repr

structure Flags where
  commaOk : Bool := true
  cloned : Bool := true
  pinnedURL : Bool := false

def urlOf (fl : Flags) (api : Api) (d : ApiDef) (ps : List (Str × Val)) : Str :=
  api.base ++ '/' :: replaceLoop fl.pinnedURL d.tmpl ps

/-- the effect closure handed to `MonadIONewGenerics` by the three generic constructors
    (l.401-427, l.434-461, l.468-480) -/
def effect (fl : Flags) (api : Api) (d : ApiDef) (env : Env) (ps : List (Str × Val)) (body : Option Body)
    (tgt : Nat) (w : World) : Outcome × World :=
  match d.kind with
  | .noBody =>
    let (h, w) := cloneHeader fl.cloned api.defaultHeader w
    match doNewRequest env h d.method (urlOf fl api d ps) w with
    | (.error e, w) => (.resp (some e) none, w)
    | (.ok raw, w) => decodeResponseBody fl.commaOk env raw tgt w
  | .body =>
    let ser : Except ErrC Str := match body with
      | none => .ok "nil".toList
      | some b => env.jsonSer b
    match ser with
    | .error e => (.resp (some e) none, w)
    | .ok bodyReader =>
      let (h, w) := cloneHeader fl.cloned api.defaultHeader w
      match doNewRequestWithBodyOptions env h d.method (urlOf fl api d ps) bodyReader d.contentType w with
      | (.error e, w) => (.resp (some e) none, w)
      | (.ok raw, w) => decodeResponseBody fl.commaOk env raw tgt w
  | .multipart =>
    let ser : Except ErrC (Str × Str) := match body with
      | none => .ok ("nil".toList, [])
      | some b => env.mpSer b
    match ser with
    | .error e => (.resp (some e) none, w)
    | .ok (bodyReader, contentType) =>
      let (h, w) := cloneHeader fl.cloned api.defaultHeader w
      match doNewRequestWithBodyOptions env h d.method (urlOf fl api d ps) bodyReader contentType w with
      | (.error e, w) => (.resp (some e) none, w)
      | (.ok raw, w) => decodeResponseBody fl.commaOk env raw tgt w

/-- `MonadIO`: a suspended effect; building it touches nothing -/
abbrev MonadIO := Env → World → Outcome × World

/-- the API function returned by a constructor: `func(pathParam, body, target) *MonadIODef` -/
def apiCall (fl : Flags) (api : Api) (d : ApiDef) (ps : List (Str × Val)) (body : Option Body) (tgt : Nat) : MonadIO :=
  fun env w => effect fl api d env ps body tgt w

/-- one row per `APIMake*` constructor: what it passes to which generic constructor -/
structure CtorRow where
  name : String
  delegate : String
  method : String
  contentType : String
  serializer : String
deriving DecidableEq, Repr

/-- facts about a generic constructor body (regenerated by the extractor; see Gen/ApiTable.lean) -/
structure GenericRow where
  name : String
  sendCall : String            -- the DoNewRequest* method called
  sendCalls : Nat              -- number of DoNewRequest*/DoRequest calls in the whole function
  insideEffect : Bool          -- … lexically inside the closure passed to MonadIONewGenerics
  headerArg : String           -- normalised source of the header argument
  headerCloned : Bool
  methodArg : String
  urlArg : String
  contentTypeArg : String
  decodeInside : Bool          -- decodeResponseBody is called inside the closure
deriving DecidableEq, Repr

def expectedCtors : List CtorRow := [
  ⟨"APIMakeDelete", "APIMakeDoNewRequest", "DELETE", "", ""⟩,
  ⟨"APIMakeGet", "APIMakeDoNewRequest", "GET", "", ""⟩,
  ⟨"APIMakePatchJSONBody", "APIMakeDoNewRequestWithBodySerializer", "PATCH", "application/json", "RequestSerializerForJSON"⟩,
  ⟨"APIMakePatchMultipartBody", "APIMakeDoNewRequestWithMultipartSerializer", "PATCH", "", "RequestSerializerForMultipart"⟩,
  ⟨"APIMakePostJSONBody", "APIMakeDoNewRequestWithBodySerializer", "POST", "application/json", "RequestSerializerForJSON"⟩,
  ⟨"APIMakePostMultipartBody", "APIMakeDoNewRequestWithMultipartSerializer", "POST", "", "RequestSerializerForMultipart"⟩,
  ⟨"APIMakePutJSONBody", "APIMakeDoNewRequestWithBodySerializer", "PUT", "application/json", "RequestSerializerForJSON"⟩,
  ⟨"APIMakePutMultipartBody", "APIMakeDoNewRequestWithMultipartSerializer", "PUT", "", "RequestSerializerForMultipart"⟩]

def expectedGenerics : List GenericRow := [
  ⟨"APIMakeDoNewRequest", "DoNewRequest", 1, true, "api.DefaultHeader.Clone()", true, "method",
    "api.replacePathParams(relativeURL, pathParam)", "", true⟩,
  ⟨"APIMakeDoNewRequestWithBodySerializer", "DoNewRequestWithBodyOptions", 1, true, "api.DefaultHeader.Clone()", true, "method",
    "api.replacePathParams(relativeURL, pathParam)", "contentType", true⟩,
  ⟨"APIMakeDoNewRequestWithMultipartSerializer", "DoNewRequestWithBodyOptions", 1, true, "api.DefaultHeader.Clone()", true, "method",
    "api.replacePathParams(relativeURL, pathParam)", "contentType", true⟩]

def kindOfDelegate (s : String) : Option Kind :=
  if s = "APIMakeDoNewRequest" then some .noBody
  else if s = "APIMakeDoNewRequestWithBodySerializer" then some .body
  else if s = "APIMakeDoNewRequestWithMultipartSerializer" then some .multipart
  else none

/-- a named constructor applied to a template = its row interpreted (this is what the driver runs) -/
def ctorOfRow (r : CtorRow) (tmpl : Str) : Option ApiDef :=
  (kindOfDelegate r.delegate).map fun k => ⟨k, r.method.toList, tmpl, r.contentType.toList⟩

def namedCtor (name : String) (tmpl : Str) : Option ApiDef :=
  (expectedCtors.find? (·.name = name)).bind (ctorOfRow · tmpl)

/-- the HTTP method a constructor *names* (specification side) -/
def methodNamedBy (name : String) : Option String :=
  if name = "APIMakeGet" then some "GET"
  else if name = "APIMakeDelete" then some "DELETE"
  else if name = "APIMakePostJSONBody" ∨ name = "APIMakePostMultipartBody" then some "POST"
  else if name = "APIMakePutJSONBody" ∨ name = "APIMakePutMultipartBody" then some "PUT"
  else if name = "APIMakePatchJSONBody" ∨ name = "APIMakePatchMultipartBody" then some "PATCH"
  else none

/-- declared content type (specification side): JSON constructors declare application/json, the
    multipart ones take it from the serializer -/
def contentTypeDeclaredBy (name : String) : Option String :=
  if name = "APIMakePostJSONBody" ∨ name = "APIMakePutJSONBody" ∨ name = "APIMakePatchJSONBody" then some "application/json"
  else if (methodNamedBy name).isSome then some ""
  else none

/-! ### line protocol -/

def jsonText (a : Str) (n : Int) : Str :=
  "{\"A\":\"".toList ++ a ++ "\",\"N\":".toList ++ (toString n).toList ++ "}".toList

def bodyText : Body → Str
  | .json a n => jsonText a n
  | .lit t => t
  | .form _ => []

def bodyRecord : Body → Str
  | .json a n => "raw:".toList ++ hex (jsonText a n)
  | .lit t => "raw:".toList ++ hex t
  | .form fs => "mp:".toList ++ joinWith ",".toList (sortBy strLt (fs.map fun kv => hex kv.1 ++ '=' :: hex kv.2))

def mpContentType : Str := "multipart/form-data; boundary=*".toList

/-- `sstream k`: the serializer returns a STREAMING `io.Reader` (not a `*bytes.Reader`): `none` = it delivers everything,
    `some k` = it fails with a non-EOF error after `k` bytes (0 = at once).  The transport, which reads the body while
    sending, aborts with that error. -/
inductive Fault | none | ser | tx | read | dec | dect | sstream (k : Option Nat)
deriving DecidableEq, Repr

/-- fault tokens: `tx`, `txtemp`, `txtimeout`, `txdl`, … are all transport failures (the error KIND —
    plain, net.Error Temporary/Timeout, context.DeadlineExceeded, ECONNRESET, wrapped — must make no
    difference); `read` / `readmid` are body-read failures (at once / after some bytes) -/
def parseFault (s : String) : Fault :=
  if s = "sstream" then .sstream none else if s = "sstreamk" then .sstream (some 3) else if s = "sstream0" then .sstream (some 0)
  else if s = "ser" then .ser else if s.startsWith "tx" then .tx else if s.startsWith "read" then .read
  else if s = "dec" then .dec else if s = "dect" then .dect else .none

/-- what the default JSON deserializer makes of a response body, given a `*R` target -/
inductive RespKind
  | ok (t : Target)     -- a JSON object with both fields: the target is overwritten
  | keep                -- valid JSON that leaves a struct target as it is (`null`, `{}`), no error
  | fail                -- not decodable (zero bytes, whitespace only, garbage, truncated, wrong JSON type): error, target untouched
deriving DecidableEq, Repr

/-- response spec `<body>[@<status>]`, body = `ok<vhex>:<k>` | `big<k>` | `null` | `obj0` | `bad` | `empty` | `ws` | `garbage` | `arr`;
    the status code (and the response headers the stub adds) must make no difference -/
def parseNat (s : Str) : Nat := s.foldl (fun n c => n * 10 + (c.toNat - 48)) 0

def parseInt : Str → Int
  | '-' :: s => - (parseNat s : Int)
  | s => (parseNat s : Int)

def parseRespL (s : Str) : RespKind :=
  let s := (cutAt '@' s).1
  match s with
  | 'b' :: 'i' :: 'g' :: k => .ok (List.replicate 5000 'a', parseInt k)      -- a 5 kB body
  | 'o' :: 'k' :: rest =>
    match cutAt ':' rest with
    | (v, some k) => .ok (unhex v, parseInt k)
    | _ => .fail
  | _ => if s = "null".toList ∨ s = "obj0".toList then .keep else .fail

def parseResp (s : String) : RespKind := parseRespL s.toList

/-- the body record of a streaming reader that breaks after `k` bytes of a body of `len` bytes: what the transport got -/
def streamFailRecord (k len : Nat) : Str := "sfail:".toList ++ (toString (min k len)).toList

def isStreamFail (rec : Str) : Bool := "sfail:".toList.isPrefixOf rec

/-- the harness environment: `resp` is the response spec; the transport hands it back as the body and the
    deserializer is applied to the bytes it is given -/
def envOf (f : Fault) (resp : Str) : Env where
  jsonSer b := if f = .ser then .error .ser else match b with
    | .form .. => .error .other
    | _ => match f with
      | .sstream (some k) => .ok (streamFailRecord k (bodyText b).length)
      | _ => .ok (bodyRecord b)
  mpSer b := if f = .ser then .error .ser else match b with
    | .form .. => match f with
      | .sstream (some k) => .ok (streamFailRecord k 1000, mpContentType)   -- (a multipart body is longer than any k used)
      | _ => .ok (bodyRecord b, mpContentType)
    | _ => .error .other
  -- the transport reads the request body while sending: a body stream that breaks makes RoundTrip fail
  transport r := if isStreamFail r.body then .error .stream
    else if f = .tx then .error .tx else .ok (if f = .read then .error .read else .ok resp)
  deser bytes cur := if f = .dec then (none, some .dec) else if f = .dect then (none, none) else
    match parseRespL bytes with
    | .ok t => (some t, none)
    | .keep => (some cur, none)
    | .fail => (some cur, some .json)

def parseHeader (s : String) : Option Header :=
  if s = "nil" then none else if s = "-" then some [] else
  some ((s.splitOn "+").filterMap fun e => match e.splitOn "~" with
    | [k, vs] => some (unhex k.toList, (vs.splitOn ",").map (fun v => unhex v.toList))
    | _ => none)

/-- a path-parameter value of the case line: `i<int>` int, `l<int>` int64, `b<0|1>` bool, `s<hex>` string, `t<hex>` a defined
    string type, `g<hex>` a `fmt.Stringer` — `%v` prints the last three as their text and a bool as `true`/`false` -/
def parseVal (s : String) : Val :=
  if s.startsWith "i" ∨ s.startsWith "l" then .int ((s.drop 1).toString.toInt?.getD 0)
  else if s.startsWith "b" then .str (if (s.drop 1).toString = "1" then "true".toList else "false".toList)
  else .str (unhex (s.drop 1).toString.toList)

def parseParams (s : String) : List (Str × Val) :=
  if s = "nil" ∨ s = "-" then [] else
  (s.splitOn ",").filterMap fun e => match e.splitOn "=" with
    | [k, v] => some (unhex k.toList, parseVal v)
    | _ => none

def parseBody (s : String) : Option Body :=
  if s = "nil" then none
  else if s.startsWith "j" then
    match (s.drop 1).toString.splitOn ":" with
    | [a, n] => some (.json (unhex a.toList) (n.toInt?.getD 0))
    | _ => none
  else if s = "vsn" ∨ s = "vmn" then some (.lit "null".toList)            -- nil slice, nil map
  else if s = "vse" then some (.lit "[]".toList)                            -- empty non-nil slice
  else if s = "vsv" then some (.lit "[1,2]".toList)
  else if s = "vme" then some (.lit "{}".toList)                            -- empty non-nil map
  else if s = "vmv" then some (.lit "{\"a\":1}".toList)
  else if s = "vz" then some (.lit (jsonText [] 0))                          -- zero struct VALUE
  else if s = "f-" then some (.form [])
  else if s.startsWith "f" then
    some (.form (((s.drop 1).toString.splitOn ",").filterMap fun e => match e.splitOn "=" with
      | [k, v] => some (unhex k.toList, unhex v.toList)
      | _ => none))
  else none

structure Cfg where
  base : Str
  hdr : Option Header
  ctor : String
  m : Str
  ct : Str
  tmpl : Str
  nest : Bool := false     -- `nest=1`: an interceptor that, before every outer request goes out, makes a JSON POST of its own
                           -- (a different body) through the same SimpleAPI — the outer request's body must stay its own

def kv (toks : List String) (key : String) : String :=
  match toks.find? (·.startsWith (key ++ "=")) with
  | some t => (t.drop (key.length + 1)).toString
  | none => ""

def parseCfg (head : String) : Cfg :=
  let toks := head.splitOn " "
  { base := unhex (kv toks "base").toList, hdr := parseHeader (kv toks "hdr"), ctor := kv toks "ctor",
    m := unhex (kv toks "m").toList, ct := unhex (kv toks "ct").toList, tmpl := unhex (kv toks "tmpl").toList,
    nest := kv toks "nest" = "1" }

/-- the nested request of the `nest=1` interceptor as the transport sees it: `APIMakeDoNewRequestWithBodySerializer(api, POST,
    "nested", application/json, JSONBodySerializer)` with body `{A:"n", N:9}` — DefaultHeader's content plus the content type -/
def nestedRecord (c : Cfg) : SentReq :=
  ⟨"POST".toList, c.base ++ "/nested".toList, 0, hAdd (c.hdr.getD []) "Content-Type".toList "application/json".toList,
   bodyRecord (.json "n".toList 9)⟩

/-- the `ApiDef` the configured constructor produces -/
def Cfg.apiDef (c : Cfg) : Option ApiDef :=
  if c.ctor = "Do" then some ⟨.noBody, c.m, c.tmpl, []⟩
  else if c.ctor = "DoBody" then some ⟨.body, c.m, c.tmpl, c.ct⟩
  else if c.ctor = "DoMP" then some ⟨.multipart, c.m, c.tmpl, []⟩
  else namedCtor ("APIMake" ++ c.ctor) c.tmpl

def showSent (r : SentReq) : Str :=
  '[' :: hex r.method ++ ' ' :: hex r.url ++ ' ' :: showHeader r.hdr ++ ' ' :: r.body ++ [']']

def showOutcome : Outcome → Str
  | .panic => "panic".toList
  | .resp e t =>
    "err=".toList ++ (match e with | none => "nil" | some e => e.show).toList ++ " tgt=".toList ++
      (match t with | none => "nil".toList | some (v, k) => hex v ++ ':' :: (toString k).toList)

/-- driver state: world, the API, the MonadIOs created so far -/
structure St where
  w : World
  api : Api
  ios : List MonadIO

def initSt (c : Cfg) : St :=
  match c.hdr with
  | none => ⟨⟨[], [], []⟩, ⟨c.base, none⟩, []⟩
  | some h => ⟨⟨[h], [], []⟩, ⟨c.base, some 0⟩, []⟩

def splitSpaces (s : String) : List String := (s.splitOn " ").filter (· ≠ "")

/-- the `call` op: invoke the API function — a new `MonadIO` and a fresh target cell, nothing else -/
def callStep (fl : Flags) (d : ApiDef) (st : St) (ps : List (Str × Val)) (body : Option Body) : St :=
  { st with ios := st.ios ++ [apiCall fl st.api d ps body st.w.targets.length],
            w := { st.w with targets := st.w.targets ++ [([], 0)] } }

def runOp (fl : Flags) (c : Cfg) (st : St) (op : String) : St × Str :=
  match splitSpaces op with
  | ["call", ps, body] =>
    match c.apiDef with
    | none => (st, "bad-ctor".toList)
    | some d =>
      (callStep fl d st (parseParams ps) (parseBody body), "io ".toList ++ (toString st.w.log.length).toList)
  | ["eval", idx, f, r] =>
    match st.ios[idx.toNat?.getD 0]? with
    | none => (st, "noio".toList)
    | some io =>
      let (o, w') := io (envOf (parseFault f) r.toList) st.w
      match o with
      | .panic => ({ st with w := w' }, "panic".toList)
      | _ =>
        -- with `nest=1` the interceptor's own request reaches the transport just before every outer one
        let news0 := w'.log.drop st.w.log.length
        let news := if c.nest then news0.flatMap (fun r => [nestedRecord c, r]) else news0
        let w' := { w' with log := st.w.log ++ news }
        ({ st with w := w' }, "n=".toList ++ (toString news.length).toList ++ ' ' ::
          (news.flatMap fun r => showSent r ++ [' ']) ++ showOutcome o)
  | ["mut"] =>
    match st.w.log.getLast? with
    | none => (st, "nomut".toList)
    | some r => ({ st with w := st.w.set r.hdrAddr (hAdd (st.w.get r.hdrAddr) "X-Mut".toList "1".toList) }, "nil".toList)
  | ["dh"] => (st, "hdr ".toList ++ showHeaderOpt (st.api.defaultHeader.map st.w.get))
  | ["sent"] => (st, "sent ".toList ++ (toString st.w.log.length).toList)
  | _ => (st, "bad-op".toList)

def splitCase (line : String) : String × List String :=
  match line.splitOn ": " with
  | head :: rest =>
    (head, ((": ".intercalate rest).splitOn ";").map (fun t => t.trimAscii.toString) |>.filter (· ≠ ""))
  | [] => ("", [])

def runCase (fl : Flags) (line : String) : String :=
  let (head, ops) := splitCase line
  let c := parseCfg head
  let (_, outs) := ops.foldl (fun (acc : St × List String) op =>
    let (st, o) := runOp fl c acc.1 op
    (st, String.ofList o :: acc.2)) (initSt c, [])
  " | ".intercalate outs.reverse

def handle (line : String) : String := runCase {} line

/-! ### specification-level oracle (what the property statement prescribes, independent of the
    mechanism above): used by `judge` when model and implementation disagree -/

def perms {α} : List α → List (List α)
  | [] => [[]]
  | x :: xs => (perms xs).flatMap fun p => (List.range (p.length + 1)).map fun i => p.take i ++ x :: p.drop i

/-- the URL(s) the property allows: simultaneous substitution where the URL law's side conditions
    hold; outside them (where Go's map order decides) any order's result -/
def specURLs (c : Cfg) (ps : List (Str × Val)) : List Str :=
  match tokenize c.tmpl with
  | some ts =>
    if paramsOK ps && decide ((ps.map (·.1)).Nodup) then [c.base ++ '/' :: Spec.subst ts ps]
    else (perms ps).map fun p => c.base ++ '/' :: replaceLoop false c.tmpl p
  | none => (perms ps).map fun p => c.base ++ '/' :: replaceLoop false c.tmpl p

def Cfg.specMethod (c : Cfg) : Option Str :=
  if c.ctor = "Do" ∨ c.ctor = "DoBody" ∨ c.ctor = "DoMP" then some c.m
  else (methodNamedBy ("APIMake" ++ c.ctor)).map String.toList

def Cfg.specKind (c : Cfg) : Kind :=
  if c.ctor = "Do" ∨ c.ctor = "Get" ∨ c.ctor = "Delete" then .noBody
  else if c.ctor = "DoBody" ∨ c.ctor.endsWith "JSONBody" then .body
  else .multipart

def Cfg.specContentType (c : Cfg) (body : Option Body) : Str :=
  match c.specKind with
  | .noBody => []
  | .body => if c.ctor = "DoBody" then c.ct else "application/json".toList
  | .multipart => if body.isSome then mpContentType else []

structure SpecSt where
  sent : Nat
  calls : List (List (Str × Val) × Option Body × Target)

/-- expected observation(s) of one op, given the number of requests sent so far -/
def specOp (c : Cfg) (st : SpecSt) (op : String) : SpecSt × List Str :=
  match splitSpaces op with
  | ["call", ps, body] =>
    ({ st with calls := st.calls ++ [(parseParams ps, parseBody body, ([], 0))] }, ["io ".toList ++ (toString st.sent).toList])
  | ["eval", idx, f, r] =>
    match st.calls[idx.toNat?.getD 0]? with
    | none => (st, ["noio".toList])
    | some (ps, body, cur) =>
      let i := idx.toNat?.getD 0
      let body := if c.specKind = .noBody then none else body
      let f := parseFault f
      let fail (e : String) : List Str := ["n=0 err=".toList ++ e.toList ++ " tgt=nil".toList]
      if f = .ser ∧ body.isSome then (st, fail "ser") else
      match c.specMethod with
      | none => (st, ["bad-ctor".toList])
      | some m =>
        let m := if m.isEmpty then "GET".toList else m
        if !validMethod m then (st, fail "method") else
        let hdr0 : Header := (c.hdr.getD [])
        let ct := c.specContentType body
        let hdr := if ct ≠ [] then hAdd hdr0 "Content-Type".toList ct else hdr0
        -- a serializer whose streaming reader breaks: the failure must surface as Err (the transport saw a broken body)
        let streamFails : Option Nat := match f, body with
          | .sstream (some k), some b => some (match b with | .form _ => min k 1000 | _ => min k (bodyText b).length)
          | _, _ => none
        let bodyRec := match streamFails, body with
          | some n, _ => "sfail:".toList ++ (toString n).toList
          | none, none => "nil".toList
          | none, some b => bodyRecord b
        -- (what TargetObject holds after a decoding FAILURE is not prescribed: the untouched target or nil)
        let tails : List Str := if streamFails.isSome then ["err=stream tgt=nil".toList] else match f with
          | .tx => ["err=tx tgt=nil".toList]
          | .read => ["err=read tgt=nil".toList]
          | .dec => ["err=dec tgt=nil".toList]
          | .dect => ["err=nil tgt=nil".toList]
          -- the deserializer is invoked on whatever body was read (also zero bytes) and its error surfaces
          | _ => match parseResp r with
            | .ok (v, k) => ["err=nil tgt=".toList ++ hex v ++ ':' :: (toString k).toList]
            | .keep => ["err=nil tgt=".toList ++ hex cur.1 ++ ':' :: (toString cur.2).toList]
            | .fail => ["err=json tgt=".toList ++ hex cur.1 ++ ':' :: (toString cur.2).toList, "err=json tgt=nil".toList]
        let outs := (specURLs c ps).flatMap fun u =>
          match urlParse u with
          | none => ["n=0 err=url tgt=nil".toList]
          | some u' => tails.map fun tail =>
            (if c.nest then "n=2 ".toList ++ showSent (nestedRecord c) ++ [' '] else "n=1 ".toList) ++
              showSent ⟨m, u', 0, hdr, bodyRec⟩ ++ ' ' :: tail
        let sentOne := if (specURLs c ps).all (fun u => (urlParse u).isSome) then 1 else 0
        let sentNow := if c.nest then 2 * sentOne else sentOne
        let cur' := match parseResp r with
          | .ok t => if sentOne = 1 ∧ streamFails.isNone ∧ f ≠ .tx ∧ f ≠ .read ∧ f ≠ .dec ∧ f ≠ .dect then t else cur
          | _ => cur
        ({ st with sent := st.sent + sentNow, calls := st.calls.set i (ps, body, cur') }, outs)
  | ["mut"] => (st, [if st.sent = 0 then "nomut".toList else "nil".toList])
  | ["dh"] => (st, ["hdr ".toList ++ showHeaderOpt c.hdr])
  | ["sent"] => (st, ["sent ".toList ++ (toString st.sent).toList])
  | _ => (st, ["bad-op".toList])

def judge (line impl : String) : String :=
  let (head, ops) := splitCase line
  let c := parseCfg head
  let obs := (impl.splitOn " | ")
  if obs.length ≠ ops.length then "violation wrong number of observations" else
  let (_, bad) := (ops.zip obs).foldl (fun (acc : SpecSt × List String) oo =>
    let (st, exp) := specOp c acc.1 oo.1
    if exp.contains oo.2.toList then (st, acc.2)
    else (st, acc.2 ++ [s!"op '{oo.1}': observed '{oo.2}', property demands '{String.ofList (exp.headD [])}'"]))
    (⟨0, []⟩, [])
  match bad with
  | [] => "allowed every observation is what the property statement prescribes (model differs)"
  | b :: _ => "violation " ++ b

end FpgoVerif.C17
