/-! Mailbox transition system of `HandlerDef` (handler.go) and `ActorDef` (actor.go), atom by atom, as the
    code is NOW (after fix fa052a2: atomic `isClosed`, `Post`/`Send` recover a send-on-closed panic).

    One mailbox = one channel `ch` of capacity `cap` (0 = rendez-vous), one consumer goroutine
    (`run`: `for x := range ch { fn() / effect(self, x) }`, started exactly once by `NewByCh` /
    `ActorNewByOptionsGenerics`), any number of senders `i : Nat`, each a sequential thread that posts the
    messages of `pending i` one after the other, and one `Close` call.

    Atoms (`Act`):
    * `check i`  – `Post`/`Send`: `if isClosed.Get() { return }` on the next message of sender `i`
                   (flag set: the message is dropped and the call returns);
    * `send i`   – `ch <- x`: enabled when the buffer has room, or (cap 0) the consumer is waiting in its
                   receive; on a closed channel the send panics, the deferred `recover()` swallows it and
                   the message is dropped (this also covers a sender that was blocked when `Close` ran);
    * `recv`     – the consumer takes the head of the buffer and starts the call;
    * `finish`   – the call returns;
    * `closeFlag`, `closeCh` – the two atoms of `Close`: `isClosed.Set(true)` then `close(ch)`;
    * `exit`     – the `range` loop ends (channel closed and drained).
    Ghost state: `done` (calls completed, in completion order), `dropped`. -/

namespace FpgoVerif.C12

structure Job where
  sender : Nat
  seq : Nat
deriving DecidableEq, Repr

structure MB where
  pending  : Nat → List Job      -- what sender i has not submitted yet
  cur      : Nat → Option Job    -- sender i is between its closed-check and its channel send with this message
  ch       : List Job            -- channel buffer, head = oldest
  running  : List Job            -- calls in progress (the theorem says: at most one)
  done     : List Job
  dropped  : List Job
  flag     : Bool                -- isClosed
  chClosed : Bool                -- close(ch) executed
  exited   : Bool                -- the consumer left its range loop

inductive Act
  | check (i : Nat) | send (i : Nat) | recv | finish | closeFlag | closeCh | exit
deriving DecidableEq, Repr

def upd {β} (f : Nat → β) (i : Nat) (v : β) : Nat → β := fun k => if k = i then v else f k

@[simp] theorem upd_same {β} (f : Nat → β) (i : Nat) (v : β) : upd f i v i = v := by simp [upd]
@[simp] theorem upd_other {β} (f : Nat → β) (i k : Nat) (v : β) (h : k ≠ i) : upd f i v k = f k := by simp [upd, h]

def MB.init (script : Nat → List Job) : MB :=
  { pending := script, cur := fun _ => none, ch := [], running := [], done := [], dropped := [],
    flag := false, chClosed := false, exited := false }

/-- the consumer is parked in its channel receive -/
def MB.idle (s : MB) : Bool := s.running.isEmpty && !s.exited

/-- one atomic action; `none` = not enabled in this state -/
def step (cap : Nat) (s : MB) : Act → Option MB
  | .check i =>
    match s.cur i, s.pending i with
    | none, j :: rest =>
      if s.flag then some { s with pending := upd s.pending i rest, dropped := s.dropped ++ [j] }
      else some { s with pending := upd s.pending i rest, cur := upd s.cur i (some j) }
    | _, _ => none
  | .send i =>
    match s.cur i with
    | none => none
    | some j =>
      if s.chClosed then some { s with cur := upd s.cur i none, dropped := s.dropped ++ [j] }
      else if s.ch.length < cap then some { s with cur := upd s.cur i none, ch := s.ch ++ [j] }
      else if cap = 0 ∧ s.ch = [] ∧ s.idle then some { s with cur := upd s.cur i none, running := [j] }
      else none
  | .recv =>
    if s.idle then
      match s.ch with
      | j :: rest => some { s with ch := rest, running := [j] }
      | [] => none
    else none
  | .finish =>
    match s.running with
    | j :: rest => some { s with running := rest, done := s.done ++ [j] }
    | [] => none
  | .closeFlag => if s.flag then none else some { s with flag := true }
  | .closeCh => if s.flag ∧ ¬ s.chClosed then some { s with chClosed := true } else none
  | .exit => if s.chClosed ∧ s.ch = [] ∧ s.idle then some { s with exited := true } else none

/-- reachable states: any finite sequence of enabled atoms, i.e. every schedule -/
inductive Reach (cap : Nat) (script : Nat → List Job) : MB → Prop
  | init : Reach cap script (MB.init script)
  | step {s t} (a : Act) : Reach cap script s → step cap s a = some t → Reach cap script t

def runActs (cap : Nat) : MB → List Act → Option MB
  | s, [] => some s
  | s, a :: as => match step cap s a with
    | some t => runActs cap t as
    | none => none

def proj (i : Nat) (l : List Job) : List Job := l.filter (fun j => j.sender = i)

def optl (o : Option Job) : List Job := match o with | none => [] | some j => [j]

end FpgoVerif.C12
