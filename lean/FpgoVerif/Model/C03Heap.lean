import FpgoVerif.Model.C03Defs
/-! C03 — storage-level ("slice heap") model of the fp.go helpers.

    A *world* is a heap of backing arrays (each with its full storage, i.e. up to `cap`) and a heap of
    Go map objects; a slice value is a header `(arr, off, len, cap)`, a map value an index.  Elements,
    keys and values live in one universe `γ` (the helpers are value-agnostic: `Map[T,R]` is covered by
    `γ := T ⊕ R`).

    Every helper is expressed by the storage operations its Go text performs:
      * index reads of its inputs            — `w.read s` / `w.mapAt m` (the only way inputs are touched),
      * `make([]T, n)` + stores into THAT array + `[:k]` — `World.makeFill`,
      * `append` onto a nil / literal / zero-capacity slice — `World.appendBuilt` (fresh array; the spare
        capacity is a growth-policy parameter `extra`, theorems hold for every value of it),
      * `make(map…)` + inserts               — `World.allocMap`,
      * a reslice of a parameter             — `Hdr.reslice` (the five views `Drop/DropLast/Take/TakeLast/Tail`,
        and the degenerate branch of `SplitEvery`, which returns `[][]T{list}`).
    WHICH elements are written is computed by the loop-level models `Impl.*` of `C03Defs.lean` applied to the
    contents read from the heap — that is the refinement link: `content of the heap-level result =
    Impl.f (contents of the inputs)` holds by construction and is stated, together with frame / freshness /
    view-containment, in `Props/C03.lean` (`C03_heap_*`).

    Helpers that return a scalar or a boolean (`Reduce, Head, Min, Max, MinMax, Every, Some, Exists, IsEqual,
    IsEqualMap, IsDistinct`) perform index reads only; their heap-level form is `Impl.f (w.read s)` and
    returns no world at all, so the frame clause holds for them by typing.

    `allocClass` records, per helper, which of these shapes the model uses; `Gen.allocOriginsC03`
    (regenerated from fp.go by `extract/c03.go`) records where each helper's returned value comes from in
    the source; `originsCompatible` relates the two and `C03_allocShape` closes it by `decide`. -/

namespace FpgoVerif.C03

/-- slice header -/
structure Hdr where
  arr : Nat
  off : Nat
  len : Nat
  cap : Nat
deriving DecidableEq, Repr

structure World (γ : Type) where
  arrs : List (List γ)
  maps : List (List (γ × γ))

variable {γ : Type}

namespace World

def arrAt (w : World γ) (a : Nat) : List γ := w.arrs.getD a []
def mapAt (w : World γ) (m : Nat) : List (γ × γ) := w.maps.getD m []

/-- the visible elements of a slice -/
def read (w : World γ) (s : Hdr) : List γ := ((w.arrAt s.arr).drop s.off).take s.len
/-- the cells between `len` and `cap` -/
def hidden (w : World γ) (s : Hdr) : List γ := ((w.arrAt s.arr).drop (s.off + s.len)).take (s.cap - s.len)
/-- abstraction to the capacity-tail model of `C03Defs` -/
def sl (w : World γ) (s : Hdr) : Sl γ := ⟨w.read s, w.hidden s⟩

/-- the header denotes existing storage -/
def WF (w : World γ) (s : Hdr) : Prop :=
  s.arr < w.arrs.length ∧ s.len ≤ s.cap ∧ s.off + s.cap ≤ (w.arrAt s.arr).length

/-- `make([]T, n)` -/
def make (w : World γ) (n : Nat) (z : γ) : World γ × Hdr :=
  ({ w with arrs := w.arrs ++ [List.replicate n z] }, ⟨w.arrs.length, 0, n, n⟩)

/-- `s[0] = xs[0]; s[1] = xs[1]; …` — the only write primitive on arrays -/
def store (w : World γ) (s : Hdr) (xs : List γ) : World γ :=
  let old := w.arrAt s.arr
  { w with arrs := w.arrs.set s.arr (old.take s.off ++ xs ++ old.drop (s.off + xs.length)) }

def allocMap (w : World γ) (m : List (γ × γ)) : World γ × Nat :=
  ({ w with maps := w.maps ++ [m] }, w.maps.length)

end World

/-- `s[a:b]` on headers: same array, Go's bounds rule (`cap`, not `len`) -/
def Hdr.reslice (s : Hdr) (a b : Int) : Res Hdr :=
  if 0 ≤ a ∧ a ≤ b ∧ b ≤ (s.cap : Int) then .ok ⟨s.arr, s.off + a.toNat, (b - a).toNat, s.cap - a.toNat⟩
  else .error .bounds

namespace World

/-- `x := make([]T, n)`, stores of `r` into `x[0..]`, `return x[:len r]` -/
def makeFill (w : World γ) (z : γ) (n : Nat) (r : List γ) : Res (World γ × Hdr) :=
  if r.length ≤ n then do
    let mk := w.make n z
    let w2 := mk.1.store mk.2 r
    let h ← mk.2.reslice 0 r.length
    pure (w2, h)
  else .error .index

/-- a slice grown by `append` from nil / a literal / a zero-capacity view: a fresh array holding `r`
    and `extra` spare cells -/
def appendBuilt (w : World γ) (z : γ) (extra : Nat) (r : List γ) : World γ × Hdr :=
  let mk := w.make (r.length + extra) z
  (mk.1.store mk.2 r, ⟨mk.2.arr, 0, r.length, r.length + extra⟩)

/-- several append-built slices, allocated one after the other -/
def appendBuiltMany (w : World γ) (z : γ) (extra : Nat) : List (List γ) → World γ × List Hdr
  | [] => (w, [])
  | r :: rest =>
    let a := w.appendBuilt z extra r
    let b := a.1.appendBuiltMany z extra rest
    (b.1, a.2 :: b.2)

end World

/-! ### the helpers on the heap -/
namespace H

open World

/-- contents of optional operands (`nil` members) -/
def readOpt (w : World γ) : Option Hdr → Option (List γ)
  | none => none
  | some s => some (w.read s)

def mapOpt (w : World γ) : Option Nat → Option (List (γ × γ))
  | none => none
  | some m => some (w.mapAt m)

/-! make + fill -/
def map (z : γ) (fn : γ → γ) (w : World γ) (s : Hdr) : Res (World γ × Hdr) := do
  let r ← Impl.map z fn (w.read s); w.makeFill z (w.read s).length r
def mapIndexed (z : γ) (fn : γ → Nat → γ) (w : World γ) (s : Hdr) : Res (World γ × Hdr) := do
  let r ← Impl.mapIndexed z fn (w.read s); w.makeFill z (w.read s).length r
def filter (z : γ) (fn : γ → Nat → Bool) (w : World γ) (s : Hdr) : Res (World γ × Hdr) := do
  let r ← Impl.filter z fn (w.read s); w.makeFill z (w.read s).length r
def reject (z : γ) (fn : γ → Nat → Bool) (w : World γ) (s : Hdr) : Res (World γ × Hdr) := do
  let r ← Impl.reject z fn (w.read s); w.makeFill z (w.read s).length r
def distinct [DecidableEq γ] (z : γ) (w : World γ) (s : Hdr) : Res (World γ × Hdr) := do
  let r ← Impl.distinct z (w.read s); w.makeFill z (w.read s).length r
def reverse (z : γ) (w : World γ) (s : Hdr) : Res (World γ × Hdr) := do
  let r ← Impl.reverse z (w.read s); w.makeFill z (w.read s).length r
def dropWhile (z : γ) (f : Option (γ → Bool)) (w : World γ) (s : Hdr) : Res (World γ × Hdr) := do
  let r ← Impl.dropWhile z f (w.read s); w.makeFill z r.length r
def concat (z : γ) (w : World γ) (mine : Hdr) (slices : List (Option Hdr)) : Res (World γ × Hdr) := do
  let r ← Impl.concat z (w.read mine) (slices.map (readOpt w)); w.makeFill z r.length r
def flatten (z : γ) (w : World γ) (slices : List (Option Hdr)) : Res (World γ × Hdr) := do
  let r ← Impl.flatten z (slices.map (readOpt w)); w.makeFill z r.length r
def keys (z : γ) (w : World γ) (m : Nat) : Res (World γ × Hdr) := do
  let r ← Impl.keys z (w.mapAt m); w.makeFill z (w.mapAt m).length r
def values (z : γ) (w : World γ) (m : Nat) : Res (World γ × Hdr) := do
  let r ← Impl.values z (w.mapAt m); w.makeFill z (w.mapAt m).length r

/-! append-built -/
def dedupe [DecidableEq γ] (z : γ) (extra : Nat) (w : World γ) (s : Hdr) : Res (World γ × Hdr) := do
  let r ← Impl.dedupe (w.read s); pure (w.appendBuilt z extra r)
def dropEq [DecidableEq γ] (z : γ) (extra : Nat) (num : γ) (w : World γ) (s : Hdr) : World γ × Hdr :=
  w.appendBuilt z extra (Impl.dropEq num (w.read s))
def uniqBy [DecidableEq γ] (z : γ) (extra : Nat) (identify : γ → γ) (w : World γ) (s : Hdr) : World γ × Hdr :=
  w.appendBuilt z extra (Impl.uniqBy identify (w.read s))
def prepend (z : γ) (extra : Nat) (element : γ) (w : World γ) (s : Hdr) : World γ × Hdr :=
  w.appendBuilt z extra (Impl.prepend element (w.read s))
/-- `append(list[:0:0], list...)` / `make([]T, 0)` -/
def duplicateSlice (z : γ) (extra : Nat) (w : World γ) (s : Hdr) : Res (World γ × Hdr) := do
  let r ← Impl.duplicateSlice (w.sl s); pure (w.appendBuilt z extra r)
/-- `[][]T{resultTrue, resultFalse}` (the outer two-cell array holds headers, returned as a value) -/
def partition (z : γ) (extra : Nat) (p : γ → Bool) (w : World γ) (s : Hdr) : World γ × List Hdr :=
  w.appendBuiltMany z extra (Impl.partition p (w.read s))
/-- `[][]T{list}` (the INPUT header itself) when `size ≤ 0` or `len ≤ 1`, otherwise append-built groups -/
def splitEvery (z : γ) (extra : Nat) (size : Int) (w : World γ) (s : Hdr) : World γ × List Hdr :=
  if size ≤ 0 ∨ (w.read s).length ≤ 1 then (w, [s])
  else w.appendBuiltMany z extra (Impl.splitEvery size (w.read s))
/-- one append-built slice per group; the result map (key ↦ header) is returned as a value -/
def groupBy [DecidableEq γ] (z : γ) (extra : Nat) (g : γ → γ) (w : World γ) (s : Hdr) : World γ × List (γ × Hdr) :=
  let groups := Impl.groupBy g (w.read s)
  let a := w.appendBuiltMany z extra (groups.map (·.2))
  (a.1, (groups.map (·.1)).zip a.2)

/-! views of the parameter -/
def drop (z : γ) (count : Int) (w : World γ) (list : Hdr) : Res (World γ × Hdr) :=
  if count ≤ 0 then .ok (w, list)
  else if count ≥ (list.len : Int) then .ok (w.make 0 z)
  else do let h ← list.reslice count list.len; pure (w, h)

def dropLast (z : γ) (count : Int) (w : World γ) (list : Hdr) : Res (World γ × Hdr) :=
  if (list.len : Int) = 0 ∨ count ≥ (list.len : Int) then .ok (w.make 0 z)
  else if count ≤ 0 then .ok (w, list)
  else do let h ← list.reslice 0 ((list.len : Int) - count); pure (w, h)

def take (count : Int) (w : World γ) (list : Hdr) : Res (World γ × Hdr) :=
  if count ≥ (list.len : Int) ∨ count ≤ 0 then .ok (w, list)
  else do let h ← list.reslice 0 count; pure (w, h)

def takeLast (count : Int) (w : World γ) (list : Hdr) : Res (World γ × Hdr) :=
  if count ≥ (list.len : Int) ∨ count ≤ 0 then .ok (w, list)
  else do let h ← list.reslice ((list.len : Int) - count) list.len; pure (w, h)

def tail (z : γ) (w : World γ) (list : Hdr) : Res (World γ × Hdr) := drop z 1 w list

/-- `var l []T; l = append(l, v)` (no slice parameter at all) -/
def range (extra : Nat) (lo hi : Int) (hops : List Int) (w : World Int) : Res (World Int × Hdr) := do
  let r ← Impl.range lo hi hops; pure (w.appendBuilt 0 extra r)

/-! fresh map objects -/
def zip [DecidableEq γ] (w : World γ) (s1 s2 : Hdr) : Res (World γ × Nat) := do
  let m ← Impl.zip (w.read s1) (w.read s2); pure (w.allocMap m)
def merge [DecidableEq γ] (w : World γ) (m1 m2 : Option Nat) : World γ × Nat :=
  w.allocMap (Impl.merge (mapOpt w m1) (mapOpt w m2))
def sliceToMap [DecidableEq γ] (d : γ) (w : World γ) (s : Hdr) : World γ × Nat :=
  w.allocMap (Impl.sliceToMap d (w.read s))
def duplicateMap [DecidableEq γ] (w : World γ) (m : Nat) : World γ × Nat :=
  w.allocMap (Impl.duplicateMap (w.mapAt m))

end H

/-! ### what the theorems say -/

/-- every pre-existing backing array and map object is unchanged (the heaps only grow) -/
structure Frame (w w' : World γ) : Prop where
  arrs : ∀ a, a < w.arrs.length → w'.arrAt a = w.arrAt a
  arrsGrow : w.arrs.length ≤ w'.arrs.length
  maps : ∀ m, m < w.maps.length → w'.mapAt m = w.mapAt m
  mapsGrow : w.maps.length ≤ w'.maps.length

/-- the header points into an array that did not exist before the call: disjoint from every input -/
def FreshHdr (w : World γ) (h : Hdr) : Prop := w.arrs.length ≤ h.arr

/-- `r` is a window of `s`'s storage: same array, inside `[s.off, s.off + s.cap)` -/
def Within (s r : Hdr) : Prop :=
  r.arr = s.arr ∧ s.off ≤ r.off ∧ r.len ≤ r.cap ∧ r.off + r.cap ≤ s.off + s.cap

/-- what `C03_heap_*` state for a helper that returns a fresh list: no panic; frame; the result header is
    fresh; its content is the documented value; and it is what the loop-level model computes from the
    contents of the inputs (refinement to `Impl.f`) -/
def FreshList (w : World γ) (out : Res (World γ × Hdr)) (impl : Res (List γ)) (spec : List γ) : Prop :=
  ∃ w' h, out = .ok (w', h) ∧ Frame w w' ∧ FreshHdr w h ∧ w'.read h = spec ∧ impl = .ok (w'.read h)

/-- … for a view helper: frame; the result header is a window of the parameter's storage (or a fresh
    empty slice — the `make([]T, 0)` branches); content = documented sub-list = `Impl.f` on the `Sl`
    abstraction of the parameter -/
def ViewOf (w : World γ) (s : Hdr) (out : Res (World γ × Hdr)) (impl : Res (Sl γ)) (spec : List γ) : Prop :=
  ∃ w' h, out = .ok (w', h) ∧ Frame w w' ∧ (Within s h ∨ (FreshHdr w h ∧ h.len = 0))
    ∧ w'.read h = spec ∧ impl.map Sl.vis = .ok (w'.read h)

/-- … for a helper that returns a fresh map object -/
def FreshMap (w : World γ) (out : World γ × Nat) (impl : List (γ × γ)) : Prop :=
  Frame w out.1 ∧ w.maps.length ≤ out.2 ∧ out.1.mapAt out.2 = impl

/-! ### tie to the source: allocation shape per helper -/

/-- `fresh`  : the model allocates the result (`makeFill` / `appendBuilt` / `allocMap`);
    `view`   : the model returns a reslice of a parameter (or a fresh empty slice);
    `nested` : slice of slices whose members are fresh, except `SplitEvery`'s degenerate `[][]T{list}`;
    `scalar` : no slice or map is returned -/
inductive AllocClass | fresh | view | nested | scalar
deriving DecidableEq, Repr

def allocClass : List (String × AllocClass) := [
  ("Map", .fresh), ("MapIndexed", .fresh), ("Filter", .fresh), ("Reject", .fresh), ("Reduce", .scalar),
  ("Concat", .fresh), ("Flatten", .fresh), ("Distinct", .fresh), ("Dedupe", .fresh), ("DropEq", .fresh),
  ("Drop", .view), ("DropLast", .view), ("DropWhile", .fresh), ("Take", .view), ("TakeLast", .view),
  ("Head", .scalar), ("Tail", .view), ("Reverse", .fresh), ("Prepend", .fresh), ("Partition", .nested),
  ("SplitEvery", .nested), ("GroupBy", .fresh), ("UniqBy", .fresh), ("Zip", .fresh), ("Range", .fresh),
  ("Keys", .fresh), ("Values", .fresh), ("Merge", .fresh), ("Min", .scalar), ("Max", .scalar),
  ("MinMax", .scalar), ("Every", .scalar), ("Some", .scalar), ("Exists", .scalar), ("IsEqual", .scalar),
  ("IsEqualMap", .scalar), ("IsDistinct", .scalar), ("SliceToMap", .fresh), ("DuplicateSlice", .fresh),
  ("DuplicateMap", .fresh)]

/-- origins of a returned value as the extractor names them: `make`, `append`, `nil`, `lit`, `map`
    (allocation sites), `param` (parameter-derived storage), `scalar`, `unknown`.
    A `fresh` helper must be built from allocation sites only; a `view`/`nested` helper may in addition
    return parameter storage; a `scalar` helper returns no storage; `unknown` is never accepted. -/
def originsCompatible (c : AllocClass) (origins : List String) : Bool :=
  match c with
  | .fresh => !origins.isEmpty && origins.all (fun o => o = "make" ∨ o = "append" ∨ o = "nil" ∨ o = "lit" ∨ o = "map")
  | .view | .nested =>
    !origins.isEmpty && origins.all (fun o => o = "make" ∨ o = "append" ∨ o = "nil" ∨ o = "lit" ∨ o = "param")
  | .scalar => origins.all (fun o => o = "scalar")

end FpgoVerif.C03
