/-! C20, part 1 (core-only, executable): Compose/Pipe, the CurryParam*/MakeVariadic* adapters,
    Trampoline and CurryDef of fp.go, mirrored mechanism by mechanism, each with the Spec the property
    states.  User functions are modelled as `List α → Res (List α)` (a Go function that may panic), so
    a panicking adapter inside a composition is covered. -/

namespace FpgoVerif.C20

/-- result of a Go call that may panic -/
inductive Res (α : Type) where
  | ok (v : α)
  | panic
deriving DecidableEq, Repr

namespace Res
def bind {α β : Type} : Res α → (α → Res β) → Res β
  | .ok v, f => f v
  | .panic, _ => .panic
def map {α β : Type} (f : α → β) : Res α → Res β
  | .ok v => .ok (f v)
  | .panic => .panic
@[simp] theorem bind_ok {α β : Type} (v : α) (f : α → Res β) : (Res.ok v).bind f = f v := rfl
@[simp] theorem bind_panic {α β : Type} (f : α → Res β) : (Res.panic : Res α).bind f = .panic := rfl
@[simp] theorem bind_ok_right {α : Type} (r : Res α) : r.bind .ok = r := by cases r <;> rfl
theorem bind_assoc {α β γ : Type} (r : Res α) (f : α → Res β) (g : β → Res γ) :
    (r.bind f).bind g = r.bind (fun x => (f x).bind g) := by cases r <;> rfl
end Res

/-- a variadic Go function `func(...T) []T` that may panic -/
abbrev Fn (α : Type) := List α → Res (List α)

/-- a Go function that never panics -/
def total {α : Type} (f : List α → List α) : Fn α := fun s => .ok (f s)

/-! ## Compose / Pipe (fp.go `Compose`, `Pipe`; `ComposeInterface`/`PipeInterface` delegate) -/

/-- `Compose`: `f := fnList[0]` (index panic on the empty list); `len == 1` → `f(s...)`; otherwise
    `f(Compose(fnList[1:]...)(s...)...)` — the inner composition is evaluated first. -/
def compose {α : Type} : List (Fn α) → Fn α
  | [], _ => .panic
  | [f], s => f s
  | f :: g :: rest, s => (compose (g :: rest) s).bind f

/-- `Pipe`: `f := fnList[len-1]` (index panic on the empty list); `len == 1` → `f(s...)`; otherwise
    `f(Pipe(fnList[:len-1]...)(s...)...)`. -/
def pipe {α : Type} (fs : List (Fn α)) (s : List α) : Res (List α) :=
  match h : fs.length with
  | 0 => .panic
  | n + 1 =>
    let f := fs[n]'(by omega)
    if n = 0 then f s else (pipe (fs.take n) s).bind f
termination_by fs.length
decreasing_by simp [List.length_take]; omega

namespace Spec
/-- `f1(f2(...fn(x)))`: right fold, innermost = last function -/
def compose {α : Type} (fs : List (Fn α)) (s : List α) : Res (List α) :=
  match fs with
  | [] => .panic
  | _ => fs.foldr (fun f acc => acc.bind f) (.ok s)
/-- `fn(...f1(x))`: left fold, innermost = first function -/
def pipe {α : Type} (fs : List (Fn α)) (s : List α) : Res (List α) :=
  match fs with
  | [] => .panic
  | _ => fs.foldl (fun acc f => acc.bind f) (.ok s)
end Spec

/-! ## Adapters -/

/-- `MakeVariadicParamN(fn)(args...) = fn(args[0], …, args[N-1])`; index panic when fewer are supplied;
    extra arguments are ignored. -/
def makeVariadicParam1 {α β : Type} (fn : α → β) : List α → Res β
  | a0 :: _ => .ok (fn a0)
  | _ => .panic
def makeVariadicParam2 {α β : Type} (fn : α → α → β) : List α → Res β
  | a0 :: a1 :: _ => .ok (fn a0 a1)
  | _ => .panic
def makeVariadicParam3 {α β : Type} (fn : α → α → α → β) : List α → Res β
  | a0 :: a1 :: a2 :: _ => .ok (fn a0 a1 a2)
  | _ => .panic
def makeVariadicParam4 {α β : Type} (fn : α → α → α → α → β) : List α → Res β
  | a0 :: a1 :: a2 :: a3 :: _ => .ok (fn a0 a1 a2 a3)
  | _ => .panic
def makeVariadicParam5 {α β : Type} (fn : α → α → α → α → α → β) : List α → Res β
  | a0 :: a1 :: a2 :: a3 :: a4 :: _ => .ok (fn a0 a1 a2 a3 a4)
  | _ => .panic
def makeVariadicParam6 {α β : Type} (fn : α → α → α → α → α → α → β) : List α → Res β
  | a0 :: a1 :: a2 :: a3 :: a4 :: a5 :: _ => .ok (fn a0 a1 a2 a3 a4 a5)
  | _ => .panic

/-- `MakeVariadicReturnN(fn)(args...) = []R{r1, …, rN}` where `r1, …, rN := fn(args...)` -/
def makeVariadicReturn1 {α β : Type} (fn : List α → β) (args : List α) : List β := [fn args]
def makeVariadicReturn2 {α β : Type} (fn : List α → β × β) (args : List α) : List β :=
  let (r1, r2) := fn args; [r1, r2]
def makeVariadicReturn3 {α β : Type} (fn : List α → β × β × β) (args : List α) : List β :=
  let (r1, r2, r3) := fn args; [r1, r2, r3]
def makeVariadicReturn4 {α β : Type} (fn : List α → β × β × β × β) (args : List α) : List β :=
  let (r1, r2, r3, r4) := fn args; [r1, r2, r3, r4]
def makeVariadicReturn5 {α β : Type} (fn : List α → β × β × β × β × β) (args : List α) : List β :=
  let (r1, r2, r3, r4, r5) := fn args; [r1, r2, r3, r4, r5]
def makeVariadicReturn6 {α β : Type} (fn : List α → β × β × β × β × β × β) (args : List α) : List β :=
  let (r1, r2, r3, r4, r5, r6) := fn args; [r1, r2, r3, r4, r5, r6]

/-- `CurryParamN(fn, a, b, …)(args...) = fn(a, b, …, args...)`; `CurryParam1ForSlice1(fn, a)(args...) = fn(a, args)` -/
def curryParam1ForSlice1 {α β γ : Type} (fn : γ → List α → β) (a : γ) (args : List α) : β := fn a args
def curryParam1 {α β γ : Type} (fn : γ → List α → β) (a : γ) (args : List α) : β := fn a args
def curryParam2 {α β γ : Type} (fn : γ → γ → List α → β) (a b : γ) (args : List α) : β := fn a b args
def curryParam3 {α β γ : Type} (fn : γ → γ → γ → List α → β) (a b c : γ) (args : List α) : β := fn a b c args
def curryParam4 {α β γ : Type} (fn : γ → γ → γ → γ → List α → β) (a b c d : γ) (args : List α) : β :=
  fn a b c d args
def curryParam5 {α β γ : Type} (fn : γ → γ → γ → γ → γ → List α → β) (a b c d e : γ) (args : List α) : β :=
  fn a b c d e args
def curryParam6 {α β γ : Type} (fn : γ → γ → γ → γ → γ → γ → List α → β) (a b c d e f : γ) (args : List α) : β :=
  fn a b c d e f args

/-- `MakeNumericReturnFor…ReturnBool1`: `[1]` when the predicate holds, `[0]` otherwise; the `Param1`
    variant indexes `args[0]` (panic on no argument). -/
def makeNumericReturnForVariadicParamReturnBool1 {α : Type} (fn : List α → Bool) (args : List α) : List Int :=
  if fn args then [1] else [0]
def makeNumericReturnForParam1ReturnBool1 {α : Type} (fn : α → Bool) : List α → Res (List Int)
  | a0 :: _ => .ok (if fn a0 then [1] else [0])
  | _ => .panic

/-! ## Trampoline -/

/-- what one call of the step function returns: `([]T, bool, error)`; the error is an opaque code -/
structure StepOut (α : Type) where
  result : List α
  isDone : Bool
  err : Option Nat

inductive TRes (α : Type) where
  | ok (v : List α)
  | err (code : Nat)
  | hang
deriving DecidableEq, Repr

/-- `Trampoline`: `for { result, isDone, err = fn(result...); if err != nil {return nil, err};
    if isDone {break} }; return result, err` — fuel-bounded (`hang` when it runs out). -/
def trampoline {α : Type} (fn : List α → StepOut α) : Nat → List α → TRes α
  | 0, _ => .hang
  | fuel + 1, s =>
    let out := fn s
    match out.err with
    | some e => .err e
    | none => if out.isDone then .ok out.result else trampoline fn fuel out.result

namespace Spec
/-- the `n`-th iterate of the step's result component -/
def iter {α : Type} (fn : List α → StepOut α) (s : List α) : Nat → List α
  | 0 => s
  | n + 1 => (fn (iter fn s n)).result
/-- the step applied to the `n`-th iterate stops (error or done) -/
def stops {α : Type} (fn : List α → StepOut α) (s : List α) (n : Nat) : Bool :=
  let out := fn (iter fn s n); out.err.isSome || out.isDone
/-- the property's statement: iterate until the first stopping step; error has priority -/
def trampoline {α : Type} (fn : List α → StepOut α) (fuel : Nat) (s : List α) : TRes α :=
  match (List.range fuel).find? (stops fn s) with
  | none => .hang
  | some k => let out := fn (iter fn s k)
    match out.err with
    | some e => .err e
    | none => .ok out.result
end Spec

/-! ## CurryDef as a transition system

    `Call` = `callM.Lock(); if !isDone.Get() { args = append(args, a...); result = fn(self, args...) };
    callM.Unlock()`.  The mutex is modelled by the representation: at most one call is *current*
    (`cur`), every other thread only has pending calls.  `MarkDone` (an atomic store) may be executed
    by the user function inside `Call` (`fn` returns `marks = true`) or by any other goroutine at any
    moment (`Step.markDone`).  Ghost fields: `lockOrder` (calls in lock-acquisition order), `hist`
    (the calls that passed the done-check), `log` (the argument list of every invocation of `fn`). -/

inductive Phase where
  | checking | appending | calling | unlocking
deriving DecidableEq, Repr

/-- the user function: all arguments so far ↦ (result, whether it calls `MarkDone`) -/
abbrev CurryFn := List Int → Int × Bool

structure Curry where
  pending : List (List (List Int))   -- per goroutine: the calls it still has to make
  cur : Option (Phase × List Int)
  args : List Int
  result : Int
  isDone : Bool
  lockOrder : List (List Int)
  hist : List (List Int)
  log : List (List Int)

def Curry.init (scripts : List (List (List Int))) : Curry :=
  ⟨scripts, none, [], 0, false, [], [], []⟩

/-- goroutine `t` acquires `callM` for its next call (enabled only when the mutex is free) -/
def Curry.acquire (c : Curry) (t : Nat) : Option Curry :=
  match c.cur, c.pending[t]? with
  | none, some (a :: rest) =>
    some { c with pending := c.pending.set t rest, cur := some (.checking, a), lockOrder := c.lockOrder ++ [a] }
  | _, _ => none

/-- the holder's next atom -/
def Curry.advance (fn : CurryFn) (c : Curry) : Option Curry :=
  match c.cur with
  | none => none
  | some (.checking, a) => some { c with cur := some (if c.isDone then .unlocking else .appending, a) }
  | some (.appending, a) => some { c with args := c.args ++ a, hist := c.hist ++ [a], cur := some (.calling, a) }
  | some (.calling, a) =>
    let out := fn c.args
    some { c with log := c.log ++ [c.args], result := out.1, isDone := c.isDone || out.2, cur := some (.unlocking, a) }
  | some (.unlocking, _) => some { c with cur := none }

def Curry.markDone (c : Curry) : Curry := { c with isDone := true }

/-- one atomic step of some goroutine -/
inductive CStep (fn : CurryFn) : Curry → Curry → Prop where
  | acquire {c c'} (t : Nat) : c.acquire t = some c' → CStep fn c c'
  | advance {c c'} : c.advance fn = some c' → CStep fn c c'
  | markDone {c} : CStep fn c c.markDone

inductive CReach (fn : CurryFn) : Curry → Curry → Prop where
  | refl (c) : CReach fn c c
  | step {a b c} : CReach fn a b → CStep fn b c → CReach fn a c

/-- run the holder to completion (at most four atoms) -/
def Curry.finish (fn : CurryFn) : Nat → Curry → Curry
  | 0, c => c
  | n + 1, c => match c.advance fn with
    | some c' => Curry.finish fn n c'
    | none => c

/-- a whole sequential `Call(a...)` by a single goroutine: the same atoms, run back to back -/
def Curry.callSeq (fn : CurryFn) (c : Curry) (a : List Int) : Curry :=
  match ({ c with pending := [[a]] } : Curry).acquire 0 with
  | some c' => Curry.finish fn 4 c'
  | none => c

namespace Spec
/-- what the property says about a sequence of Calls in lock order: arguments accumulate, `fn` sees all
    arguments so far, once per Call, until done; afterwards nothing changes. -/
structure CurryS where
  args : List Int
  result : Int
  isDone : Bool
  log : List (List Int)

def CurryS.init : CurryS := ⟨[], 0, false, []⟩

def CurryS.call (fn : CurryFn) (c : CurryS) (a : List Int) : CurryS :=
  if c.isDone then c else
  let all := c.args ++ a
  let out := fn all
  { args := all, result := out.1, isDone := out.2, log := c.log ++ [all] }

def CurryS.markDone (c : CurryS) : CurryS := { c with isDone := true }
end Spec

end FpgoVerif.C20
