/-! Ask / Reply (actor.go: `AskDef`), as the code is NOW (after fix 65cad9c: `AskDef.done`; on a timeout
    `AskOnceWithTimeout` closes `done` and leaves `ch` open; `Reply` selects between sending on `ch` and
    `done`).  `legacy = true` is the pinned code (the timeout path closes `ch`, `Reply` is a plain send), kept
    only for the refutation theorem.

    Askers `i : Nat`, each owning one request object = its private reply channel `ch_i` (capacity `rcap`,
    0 = unbuffered unless `NewByOptions`) and `done_i`.  One actor with a mailbox of capacity `mcap` serves the
    requests serially (C12) and answers `reply i payload` after an arbitrary delay.  Time is
    nondeterminism: the timeout branch may fire whenever the asker is in its `select`.

    Atoms:
    * `call i`      – the asker enters AskOnce / AskOnceWithTimeout / AskChannel;
    * `send i`      – `target.Send(self)` completes (mailbox has room, or hand-off to the idle actor);
    * `take`        – the actor's loop receives the next request;  `compute` – the effect reaches `Reply(v)`;
    * `replySend`   – `case ch <- v`: into the buffer, or hand-off to the asker waiting in its receive;
                      on a closed `ch` this is the panic "send on closed channel";
    * `replyDone`   – `case <-done`: the asker gave up, the reply is discarded;
    * `recv i`      – the asker takes the value out of the buffer;
    * `fire i`      – `case <-time.After(timeout)` (AskOnceWithTimeout only);
    * `giveUp i`    – `close(done)`, return `(zero, ErrActorAskTimeout)`;
    * `read i`      – an AskChannel caller that was only holding the channel starts to receive;
    * `finish i`    – after a received value: `close(ch)` (AskOnce, AskOnceWithTimeout), return it. -/

namespace FpgoVerif.C13

inductive Kind | once | timeout | channel | channelLate
deriving DecidableEq, Repr

inductive Pc
  | idle | sending | waiting | fired
  | got (v : Nat) | retV (v : Nat) | retT
  | holding          -- AskChannel returned the channel, the caller has not started to receive yet
deriving DecidableEq, Repr

/-- where an asker is once its request is in the mailbox: in its receive / select, or (AskChannel whose caller reads
    later) merely holding the channel -/
def afterSend : Kind → Pc
  | .channelLate => .holding
  | _ => .waiting

structure Asker where
  kind : Kind
  payload : Nat
  rcap : Nat
  pc : Pc
  buf : List Nat
  chClosed : Bool
  doneClosed : Bool

inductive APc | idle | computing (i : Nat) | replying (i : Nat) (v : Nat)
deriving DecidableEq, Repr

structure St where
  asker : Nat → Asker
  mbox : List Nat
  actor : APc
  served : List Nat
  panicked : Bool

structure Cfg where
  mcap : Nat
  reply : Nat → Nat → Nat
  legacy : Bool

inductive Act
  | call (i : Nat) | send (i : Nat) | take | compute | replySend | replyDone
  | recv (i : Nat) | fire (i : Nat) | giveUp (i : Nat) | finish (i : Nat) | read (i : Nat)
deriving DecidableEq, Repr

def upd {β} (f : Nat → β) (i : Nat) (v : β) : Nat → β := fun k => if k = i then v else f k

@[simp] theorem upd_same {β} (f : Nat → β) (i : Nat) (v : β) : upd f i v i = v := by simp [upd]
@[simp] theorem upd_other {β} (f : Nat → β) (i k : Nat) (v : β) (h : k ≠ i) : upd f i v k = f k := by simp [upd, h]

def St.setPc (s : St) (i : Nat) (pc : Pc) : St := { s with asker := upd s.asker i { s.asker i with pc := pc } }

def step (c : Cfg) (s : St) : Act → Option St
  | .call i => if (s.asker i).pc = .idle then some (s.setPc i .sending) else none
  | .send i =>
    if (s.asker i).pc = .sending then
      if s.mbox.length < c.mcap then some { s.setPc i (afterSend (s.asker i).kind) with mbox := s.mbox ++ [i] }
      else if c.mcap = 0 ∧ s.mbox = [] ∧ s.actor = .idle then
        some { s.setPc i (afterSend (s.asker i).kind) with actor := .computing i }
      else none
    else none
  | .take =>
    match s.actor, s.mbox with
    | .idle, i :: rest => some { s with actor := .computing i, mbox := rest }
    | _, _ => none
  | .compute =>
    match s.actor with
    | .computing i => some { s with actor := .replying i (c.reply i (s.asker i).payload) }
    | _ => none
  | .replySend =>
    match s.actor with
    | .replying i v =>
      let a := s.asker i
      if a.chClosed then some { s with panicked := true }
      else if a.buf.length < a.rcap then
        some { s with asker := upd s.asker i { a with buf := a.buf ++ [v] }, actor := .idle, served := s.served ++ [i] }
      else if a.rcap = 0 ∧ a.pc = .waiting ∧ a.buf = [] then
        some { s with asker := upd s.asker i { a with pc := .got v }, actor := .idle, served := s.served ++ [i] }
      else none
    | _ => none
  | .replyDone =>
    match s.actor with
    | .replying i _ =>
      if (s.asker i).doneClosed ∧ ¬ c.legacy then some { s with actor := .idle, served := s.served ++ [i] } else none
    | _ => none
  | .recv i =>
    let a := s.asker i
    if a.pc = .waiting then
      match a.buf with
      | v :: rest => some { s with asker := upd s.asker i { a with pc := .got v, buf := rest } }
      | [] => none
    else none
  | .fire i =>
    let a := s.asker i
    if a.pc = .waiting ∧ a.kind = .timeout then some (s.setPc i .fired) else none
  | .giveUp i =>
    let a := s.asker i
    if a.pc = .fired then
      if c.legacy then
        (if a.chClosed then some { s with panicked := true }
         else some { s with asker := upd s.asker i { a with pc := .retT, chClosed := true } })
      else some { s with asker := upd s.asker i { a with pc := .retT, doneClosed := true } }
    else none
  | .finish i =>
    let a := s.asker i
    match a.pc with
    | .got v =>
      if a.kind = .channel ∨ a.kind = .channelLate then some (s.setPc i (.retV v))
      else if a.chClosed then some { s with panicked := true }
      else some { s with asker := upd s.asker i { a with pc := .retV v, chClosed := true } }
    | _ => none
  | .read i => if (s.asker i).pc = .holding then some (s.setPc i .waiting) else none

/-- every asker described by `spec i = (kind, payload, rcap)`, nothing sent yet -/
def St.init (spec : Nat → Kind × Nat × Nat) : St :=
  { asker := fun i => { kind := (spec i).1, payload := (spec i).2.1, rcap := (spec i).2.2, pc := .idle, buf := [],
                        chClosed := false, doneClosed := false },
    mbox := [], actor := .idle, served := [], panicked := false }

inductive Reach (c : Cfg) (spec : Nat → Kind × Nat × Nat) : St → Prop
  | init : Reach c spec (St.init spec)
  | step {s t} (a : Act) : Reach c spec s → step c s a = some t → Reach c spec t

def runActs (c : Cfg) : St → List Act → Option St
  | s, [] => some s
  | s, a :: as => match step c s a with
    | some t => runActs c t as
    | none => none

end FpgoVerif.C13
