/-! Executable pointer-level model of `LinkedListQueue` (queue.go), statement by statement.
    Heap = three functions `Addr → _` (next, prev, val) plus the six struct fields.
    `fixed = true` is the code as it is now (after the `fix:` commit clearing the dangling link in
    Shift/Pop); `fixed = false` is the pinned code, kept only for the refutation theorems.

    `nodeGCPool` (a `sync.Pool`) is modelled by its contract: `gc` is the multiset of nodes that were
    `Put` and not yet handed out again; `Get` returns EITHER one of them (as it is, nothing is cleared
    on the way out) OR a brand-new zeroed node (`New`).  Which one is the runtime's choice (per-P
    caches, GC dropping the pool): the oracle `pick`, indexed by the number of `Get`s so far, chooses
    an index into `gc`; out of range means `New()`.  The theorems hold for every oracle.

    Loops that walk a chain carry fuel (`fresh + 1`, more than the number of nodes that exist); a walk
    that exhausts its fuel is reported as `hang` (the real code would loop forever on a cycle). -/

namespace FpgoVerif.C06

local notation "Addr" => Nat

structure Q where
  next  : Addr → Option Addr
  prev  : Addr → Option Addr
  val   : Addr → Option Int
  fresh : Addr
  first : Option Addr
  last  : Option Addr
  count : Int
  poolFirst : Option Addr
  nodeCount : Int
  gc    : List Addr
  pick  : Nat → Nat
  gets  : Nat

def upd {β} (f : Addr → β) (a : Addr) (b : β) : Addr → β := fun x => if x = a then b else f x

@[simp] theorem upd_same {β} (f : Addr → β) (a : Addr) (b : β) : upd f a b a = b := by simp [upd]
@[simp] theorem upd_other {β} (f : Addr → β) (a x : Addr) (b : β) (h : x ≠ a) : upd f a b x = f x := by simp [upd, h]

/-- `NewLinkedListQueue` under a given `sync.Pool` oracle -/
def initWith (pick : Nat → Nat) : Q :=
  ⟨fun _ => none, fun _ => none, fun _ => none, 0, none, none, 0, none, 0, [], pick, 0⟩

/-- the driver's oracle: `Get` hands back the most recently `Put` node whenever there is one -/
def init : Q := initWith (fun _ => 0)

/-- `q.nodeGCPool.Get()`: a node that was `Put` earlier (unchanged), or `New()` = a fresh zeroed node -/
def poolGet (q : Q) : Q × Addr :=
  match q.gc[q.pick q.gets]? with
  | some a => ({ q with gets := q.gets + 1, gc := q.gc.erase a }, a)
  | none => ({ q with gets := q.gets + 1, fresh := q.fresh + 1,
                      next := upd q.next q.fresh none, prev := upd q.prev q.fresh none,
                      val := upd q.val q.fresh none }, q.fresh)

/-- generateNode: from the free list (unlinking it), else from the sync.Pool -/
def generateNode (q : Q) : Q × Addr :=
  match q.poolFirst with
  | none => poolGet q
  | some n => ({ q with nodeCount := q.nodeCount - 1, poolFirst := q.next n,
                        next := upd q.next n none, prev := upd q.prev n none }, n)

def recycleNode (q : Q) (n : Addr) : Q :=
  { q with nodeCount := q.nodeCount + 1, val := upd q.val n none,
           next := upd q.next n q.poolFirst, prev := upd q.prev n none, poolFirst := some n }

def offer (q : Q) (v : Int) : Q :=
  let (q, n) := generateNode q
  let q := { q with val := upd q.val n (some v), count := q.count + 1 }
  let q := if q.first.isNone then { q with first := some n } else q
  let q := match q.last with
    | some l => { q with next := upd q.next l (some n), prev := upd q.prev n (some l) }
    | none => q
  { q with last := some n }

def unshift (q : Q) (v : Int) : Q :=
  let (q, n) := generateNode q
  let q := { q with val := upd q.val n (some v), count := q.count + 1 }
  let q := if q.last.isNone then { q with last := some n } else q
  let f := q.first
  let q := { q with first := some n, next := upd q.next n f }
  match f with
  | some f => { q with prev := upd q.prev f (some n) }
  | none => q

inductive Out | ok (v : Int) | empty | panic
deriving DecidableEq, Repr

def shift (fixed : Bool) (q : Q) : Q × Out :=
  match q.first with
  | none => (q, .empty)
  | some n =>
    let q1 := { q with count := q.count - 1, first := q.next n }
    let q2 := match q1.first with
      | none => { q1 with last := none }
      | some f => if fixed then { q1 with prev := upd q1.prev f none } else q1
    match q2.val n with
    | none => (q2, .panic)
    | some v => (recycleNode q2 n, .ok v)

def pop (fixed : Bool) (q : Q) : Q × Out :=
  match q.last with
  | none => (q, .empty)
  | some n =>
    let q1 := { q with count := q.count - 1, last := q.prev n }
    let q2 := match q1.last with
      | none => { q1 with first := none }
      | some l => if fixed then { q1 with next := upd q1.next l none } else q1
    match q2.val n with
    | none => (q2, .panic)
    | some v => (recycleNode q2 n, .ok v)

def peek (q : Q) : Out :=
  match q.first with
  | none => .empty
  | some n => match q.val n with | none => .panic | some v => .ok v

/-- putAllIntoPool: walk `next` from `o`; every node is zeroed and `Put` into the sync.Pool.
    `none` = fuel exhausted (the real loop would not terminate) -/
def putAllIntoPool : Nat → Q → Option Addr → Option Q
  | 0, q, o => match o with | none => some q | some _ => none
  | fuel + 1, q, o =>
    match o with
    | none => some q
    | some n =>
      putAllIntoPool fuel { q with val := upd q.val n none, prev := upd q.prev n none,
                                   next := upd q.next n none, gc := n :: q.gc } (q.next n)

def clearNodePool (q : Q) : Option Q :=
  (putAllIntoPool (q.fresh + 1) q q.poolFirst).map fun q => { q with nodeCount := 0, poolFirst := none }

/-- the loop of Clear: Val and Prev are cleared along `next` -/
def clearWalk : Nat → Q → Option Addr → Option Q
  | 0, q, o => match o with | none => some q | some _ => none
  | fuel + 1, q, o =>
    match o with
    | none => some q
    | some n => clearWalk fuel { q with val := upd q.val n none, prev := upd q.prev n none } (q.next n)

/-- Clear: the chain becomes the node pool (the previous free list is dropped) -/
def clear (q : Q) : Option Q :=
  let q := { q with poolFirst := q.first, nodeCount := q.count }
  (clearWalk (q.fresh + 1) q q.poolFirst).map fun q => { q with first := none, last := none, count := 0 }

/-- the `for n > 0` loop of KeepNodePoolCount -/
def keepLoop : Nat → Q → Addr → Q × Addr
  | 0, q, last => (q, last)
  | n + 1, q, last =>
    match q.next last with
    | some nx => keepLoop n q nx
    | none =>
      let (q, f) := poolGet q
      keepLoop n { q with next := upd q.next last (some f) } f

/-- `last := q.nodePoolFirst; if last == nil { last = Get(); q.nodePoolFirst = last }` -/
def keepStart (q : Q) : Q × Addr :=
  match q.poolFirst with
  | some l => (q, l)
  | none => let r := poolGet q; ({ r.1 with poolFirst := some r.2 }, r.2)

def keepNodePoolCount (q : Q) (n : Int) : Option Q :=
  if n ≤ 0 then clearNodePool q else
  let s := keepStart { q with nodeCount := n }
  let r := keepLoop (n - 1).toNat s.1 s.2
  (putAllIntoPool (r.1.fresh + 1) r.1 (r.1.next r.2)).map fun q => { q with next := upd q.next r.2 none }

/-- `VerifNodeCount`: length of the free list by walking it (`none` = the walk does not end) -/
def walkLen : Nat → (Addr → Option Addr) → Option Addr → Option Nat
  | 0, _, o => match o with | none => some 0 | some _ => none
  | fuel + 1, f, o =>
    match o with
    | none => some 0
    | some n => (walkLen fuel f (f n)).map (· + 1)

/-! ### Operations, observations, histories -/

inductive Op
  | offer (v : Int) | unshift (v : Int) | shift | pop | peek | count | clear
  | keep (n : Int) | clearPool | poolInfo | bad
deriving DecidableEq, Repr

inductive Obs
  | nil | ok (v : Int) | empty | n (c : Int) | pool (counter : Int) (walked : Option Nat)
  | panic | hang | bad
deriving DecidableEq, Repr

def obsOfOut : Out → Obs
  | .ok v => .ok v | .empty => .empty | .panic => .panic

/-- one method call on the model; `fixed` selects pinned vs repaired Shift/Pop -/
def stepF (fixed : Bool) (q : Q) : Op → Q × Obs
  | .offer v => (offer q v, .nil)
  | .unshift v => (unshift q v, .nil)
  | .shift => let (q, o) := shift fixed q; (q, obsOfOut o)
  | .pop => let (q, o) := pop fixed q; (q, obsOfOut o)
  | .peek => (q, obsOfOut (peek q))
  | .count => (q, .n q.count)
  | .clear => match clear q with | some q' => (q', .nil) | none => (q, .hang)
  | .keep n => match keepNodePoolCount q n with | some q' => (q', .nil) | none => (q, .hang)
  | .clearPool => match clearNodePool q with | some q' => (q', .nil) | none => (q, .hang)
  | .poolInfo => (q, .pool q.nodeCount (walkLen (q.fresh + 1) q.next q.poolFirst))
  | .bad => (q, .bad)

/-- the code as it is now -/
def step (q : Q) (op : Op) : Q × Obs := stepF true q op

def runF (fixed : Bool) : Q → List Op → List Obs
  | _, [] => []
  | q, op :: ops => (stepF fixed q op).2 :: runF fixed (stepF fixed q op).1 ops

def run (q : Q) (ops : List Op) : List Obs := runF true q ops

/-- the state after a history -/
def stateAfter (q : Q) (ops : List Op) : Q := ops.foldl (fun q op => (step q op).1) q

/-! ### Spec: the ideal double-ended sequence (plus the ideal size of the free list) -/

structure Ideal where
  items : List Int
  spare : Nat          -- number of recycled nodes kept for reuse
deriving DecidableEq, Repr

def specStep (s : Ideal) : Op → Ideal × Obs
  | .offer v => ({ items := s.items ++ [v], spare := s.spare - 1 }, .nil)
  | .unshift v => ({ items := v :: s.items, spare := s.spare - 1 }, .nil)
  | .shift => match s.items with
    | [] => (s, .empty)
    | a :: t => ({ items := t, spare := s.spare + 1 }, .ok a)
  | .pop => match s.items.getLast? with
    | none => (s, .empty)
    | some a => ({ items := s.items.dropLast, spare := s.spare + 1 }, .ok a)
  | .peek => match s.items with
    | [] => (s, .empty)
    | a :: _ => (s, .ok a)
  | .count => (s, .n s.items.length)
  | .clear => ({ items := [], spare := s.items.length }, .nil)
  | .keep n => ({ s with spare := n.toNat }, .nil)
  | .clearPool => ({ s with spare := 0 }, .nil)
  | .poolInfo => (s, .pool s.spare (some s.spare))
  | .bad => (s, .bad)

def specRun : Ideal → List Op → List Obs
  | _, [] => []
  | s, op :: ops => (specStep s op).2 :: specRun (specStep s op).1 ops

def ideal0 : Ideal := ⟨[], 0⟩

/-! ### Line protocol -/

def parseInt (s : String) (k : Int → Op) : Op :=
  match s.toInt? with | some i => k i | none => .bad

/-- `o:<v>` Offer, `O:<v>` Put, `H:<v>` Push, `u:<v>` Unshift, `s` Shift, `P` Poll, `T` Take, `p` Pop,
    `k` Peek, `c` Count, `x` Clear, `n:<k>` KeepNodePoolCount(k), `z` ClearNodePool, `N` VerifNodeCount;
    `*<count> <op>` repeats an op (see `expandTok`) -/
def parseOp (tok : String) : Op :=
  match tok.splitOn ":" with
  | ["o", v] => parseInt v .offer
  | ["O", v] => parseInt v .offer
  | ["H", v] => parseInt v .offer
  | ["u", v] => parseInt v .unshift
  | ["s"] => .shift
  | ["P"] => .shift
  | ["T"] => .shift
  | ["p"] => .pop
  | ["k"] => .peek
  | ["c"] => .count
  | ["x"] => .clear
  | ["n", v] => parseInt v .keep
  | ["z"] => .clearPool
  | ["N"] => .poolInfo
  | _ => .bad

/-- `n` repetitions of one call; repeated insertions insert consecutive values `v, v+1, …` -/
def repeatOp (n : Nat) : Op → List Op
  | .offer v => (List.range n).map fun (i : Nat) => .offer (v + (i : Int))
  | .unshift v => (List.range n).map fun (i : Nat) => .unshift (v + (i : Int))
  | op => List.replicate n op

/-- one token of a case line: a single call, or the repetition token `*<count> <op>` (a compact way to write
    long histories; it is expanded here, so it is just a longer history for `run`) -/
def expandTok (tok : String) : List Op :=
  if tok.startsWith "*" then
    match tok.splitOn " " with
    | [c, t] => match (c.drop 1).toString.toNat? with
      | some n => repeatOp n (parseOp t)
      | none => [.bad]
    | _ => [.bad]
  else [parseOp tok]

def parseLine (line : String) : List Op :=
  (((line.splitOn ";").map (fun t => t.trimAscii.toString)).filter (· ≠ "")).flatMap expandTok

def showObs : Obs → String
  | .nil => "nil"
  | .ok v => s!"ok {v}"
  | .empty => "empty"
  | .n c => s!"n {c}"
  | .pool c (some w) => s!"pool {c} {w}"
  | .pool c none => s!"pool {c} cycle"
  | .panic => "panic"
  | .hang => "hang"
  | .bad => "bad-op"

/-- a case whose real execution does not terminate is reported as the single word `hang` -/
def showCase (outs : List Obs) : String :=
  if outs.contains .hang then "hang" else " | ".intercalate (outs.map showObs)

def runCase (fixed : Bool) (line : String) : String := showCase (runF fixed init (parseLine line))

/-- protocol entry point -/
def handle (line : String) : String := showCase (run init (parseLine line))

def specCase (line : String) : String := showCase (specRun ideal0 (parseLine line))

/-- the property speaks about values, emptiness, counts and panics; the free-list bookkeeping
    (`pool …` observations) is not part of its statement -/
def maskPool (obs : String) : String :=
  " | ".intercalate ((obs.splitOn " | ").map fun t => if t.startsWith "pool " then "pool" else t)

def judge (line impl : String) : String :=
  if impl = specCase line then "allowed implementation agrees with the ideal deque (model differs)"
  else if maskPool impl = maskPool (specCase line) then
    "allowed values agree with the ideal deque; only the free-list bookkeeping (nodeCount / free-list length) deviates from the proved invariant"
  else s!"violation ideal deque gives: {specCase line}"

end FpgoVerif.C06
