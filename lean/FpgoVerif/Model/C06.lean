/-! Executable pointer-level model of `LinkedListQueue` (queue.go), statement by statement.
    Heap = three functions `Addr → _` (next, prev, val) plus the six struct fields.
    `fixed = true` is the code as it is now (after the `fix:` commit clearing the dangling link in
    Shift/Pop); `fixed = false` is the pinned code, kept only for the refutation theorem.
    `sync.Pool.Get` is modelled as "a fresh zeroed node" (assumption, see DESIGN.md). -/

namespace FpgoVerif.C06

local notation "Addr" => Nat

structure Q where
  next  : Addr → Option Addr
  prev  : Addr → Option Addr
  val   : Addr → Option Int
  fresh : Addr
  first : Option Addr
  last  : Option Addr
  count : Int
  poolFirst : Option Addr
  nodeCount : Int

def upd {β} (f : Addr → β) (a : Addr) (b : β) : Addr → β := fun x => if x = a then b else f x

@[simp] theorem upd_same {β} (f : Addr → β) (a : Addr) (b : β) : upd f a b a = b := by simp [upd]
@[simp] theorem upd_other {β} (f : Addr → β) (a x : Addr) (b : β) (h : x ≠ a) : upd f a b x = f x := by simp [upd, h]

def init : Q := ⟨fun _ => none, fun _ => none, fun _ => none, 0, none, none, 0, none, 0⟩

/-- generateNode: from the free list, else a fresh zeroed node (sync.Pool.Get) -/
def generateNode (q : Q) : Q × Addr :=
  match q.poolFirst with
  | none => ({ q with fresh := q.fresh + 1,
                      next := upd q.next q.fresh none, prev := upd q.prev q.fresh none,
                      val := upd q.val q.fresh none }, q.fresh)
  | some n => ({ q with nodeCount := q.nodeCount - 1, poolFirst := q.next n,
                        next := upd q.next n none, prev := upd q.prev n none }, n)

def recycleNode (q : Q) (n : Addr) : Q :=
  { q with nodeCount := q.nodeCount + 1, val := upd q.val n none,
           next := upd q.next n q.poolFirst, prev := upd q.prev n none, poolFirst := some n }

def offer (q : Q) (v : Int) : Q :=
  let (q, n) := generateNode q
  let q := { q with val := upd q.val n (some v), count := q.count + 1 }
  let q := if q.first.isNone then { q with first := some n } else q
  let q := match q.last with
    | some l => { q with next := upd q.next l (some n), prev := upd q.prev n (some l) }
    | none => q
  { q with last := some n }

def unshift (q : Q) (v : Int) : Q :=
  let (q, n) := generateNode q
  let q := { q with val := upd q.val n (some v), count := q.count + 1 }
  let q := if q.last.isNone then { q with last := some n } else q
  let f := q.first
  let q := { q with first := some n, next := upd q.next n f }
  match f with
  | some f => { q with prev := upd q.prev f (some n) }
  | none => q

inductive Out | ok (v : Int) | empty | panic
deriving DecidableEq, Repr

def shift (fixed : Bool) (q : Q) : Q × Out :=
  match q.first with
  | none => (q, .empty)
  | some n =>
    let q1 := { q with count := q.count - 1, first := q.next n }
    let q2 := match q1.first with
      | none => { q1 with last := none }
      | some f => if fixed then { q1 with prev := upd q1.prev f none } else q1
    match q2.val n with
    | none => (q2, .panic)
    | some v => (recycleNode q2 n, .ok v)

def pop (fixed : Bool) (q : Q) : Q × Out :=
  match q.last with
  | none => (q, .empty)
  | some n =>
    let q1 := { q with count := q.count - 1, last := q.prev n }
    let q2 := match q1.last with
      | none => { q1 with first := none }
      | some l => if fixed then { q1 with next := upd q1.next l none } else q1
    match q2.val n with
    | none => (q2, .panic)
    | some v => (recycleNode q2 n, .ok v)



def peek (q : Q) : Out :=
  match q.first with
  | none => .empty
  | some n => match q.val n with | none => .panic | some v => .ok v

/-- putAllIntoPool: walk `next` from `o`, zeroing nodes (fuel-bounded) -/
def zeroWalk : Nat → Q → Option Addr → Q
  | 0, q, _ => q
  | _, q, none => q
  | fuel + 1, q, some n =>
    let nx := q.next n
    zeroWalk fuel { q with val := upd q.val n none, prev := upd q.prev n none, next := upd q.next n none } nx

def clearNodePool (q : Q) : Q :=
  let q := zeroWalk (q.fresh + 1) q q.poolFirst
  { q with nodeCount := 0, poolFirst := none }

/-- Clear: the chain becomes the node pool; Val and Prev are cleared along `next` -/
def clearWalk : Nat → Q → Option Addr → Q
  | 0, q, _ => q
  | _, q, none => q
  | fuel + 1, q, some n =>
    clearWalk fuel { q with val := upd q.val n none, prev := upd q.prev n none } (q.next n)

def clear (q : Q) : Q :=
  let q := { q with poolFirst := q.first, nodeCount := q.count }
  let q := clearWalk (q.fresh + 1) q q.poolFirst
  { q with first := none, last := none, count := 0 }

def freshNode (q : Q) : Q × Addr :=
  ({ q with fresh := q.fresh + 1, next := upd q.next q.fresh none, prev := upd q.prev q.fresh none,
            val := upd q.val q.fresh none }, q.fresh)

/-- the `for n > 0` loop of KeepNodePoolCount -/
def keepLoop : Nat → Q → Addr → Q × Addr
  | 0, q, last => (q, last)
  | n + 1, q, last =>
    match q.next last with
    | some nx => keepLoop n q nx
    | none =>
      let (q, f) := freshNode q
      keepLoop n { q with next := upd q.next last (some f) } f

def keepNodePoolCount (q : Q) (n : Int) : Q :=
  if n ≤ 0 then clearNodePool q else
  let q := { q with nodeCount := n }
  let (q, last) := match q.poolFirst with
    | some l => (q, l)
    | none => let (q, f) := freshNode q; ({ q with poolFirst := some f }, f)
  let (q, last) := keepLoop (n - 1).toNat q last
  let q := zeroWalk (q.fresh + 1) q (q.next last)
  { q with next := upd q.next last none }

def showOut : Out → String
  | .ok v => s!"ok {v}" | .empty => "empty" | .panic => "panic"

/-- one protocol token; `fixed` selects pinned vs repaired Shift/Pop -/
def stepTok (fixed : Bool) (q : Q) (tok : String) : Q × String :=
  match tok.splitOn ":" with
  | ["o", v] => (offer q v.toInt!, "nil")
  | ["u", v] => (unshift q v.toInt!, "nil")
  | ["s"] => let (q, o) := shift fixed q; (q, showOut o)
  | ["p"] => let (q, o) := pop fixed q; (q, showOut o)
  | ["k"] => (q, showOut (peek q))
  | ["c"] => (q, s!"n {q.count}")
  | ["x"] => (clear q, "nil")
  | ["n", v] => (keepNodePoolCount q v.toInt!, "nil")
  | ["z"] => (clearNodePool q, "nil")
  | _ => (q, "bad-op")

def runCase (fixed : Bool) (line : String) : String :=
  let toks := ((line.splitOn ";").map (fun t => t.trimAscii.toString)).filter (· ≠ "")
  let (_, outs) := toks.foldl (fun (acc : Q × List String) t =>
    let (q, o) := stepTok fixed acc.1 t
    (q, o :: acc.2)) (init, [])
  " | ".intercalate outs.reverse



/-- protocol entry point: `o:<v> ; u:<v> ; s ; p ; k ; c ; x ; n:<k> ; z` -/
def handle (line : String) : String := runCase true line

/-- ideal deque, used as the spec-level oracle on a disagreement -/
def specTok (l : List Int) (tok : String) : List Int × String :=
  match tok.splitOn ":" with
  | ["o", v] => (l ++ [v.toInt!], "nil")
  | ["u", v] => (v.toInt! :: l, "nil")
  | ["s"] => match l with | [] => (l, "empty") | a :: t => (t, s!"ok {a}")
  | ["p"] => match l.getLast? with | none => (l, "empty") | some a => (l.dropLast, s!"ok {a}")
  | ["k"] => match l with | [] => (l, "empty") | a :: _ => (l, s!"ok {a}")
  | ["c"] => (l, s!"n {l.length}")
  | ["x"] => ([], "nil")
  | ["n", _] => (l, "nil")
  | ["z"] => (l, "nil")
  | _ => (l, "bad-op")

def specCase (line : String) : String :=
  let toks := ((line.splitOn ";").map (fun t => t.trimAscii.toString)).filter (· ≠ "")
  let (_, outs) := toks.foldl (fun (acc : List Int × List String) t =>
    let (q, o) := specTok acc.1 t
    (q, o :: acc.2)) ([], [])
  " | ".intercalate outs.reverse

def judge (line impl : String) : String :=
  if impl = specCase line then "allowed implementation agrees with the ideal deque (model differs)"
  else s!"violation ideal deque gives: {specCase line}"

end FpgoVerif.C06
