/-! C03 — slice/map helpers of fp.go: implementation models (`Impl.*`, mirroring the Go loops:
    same accumulators, index arithmetic, guards, early returns; every index read/write and every
    reslice is bounds-checked the way the Go runtime does it and yields `panic` as an outcome) and the
    documented definitions (`Spec.*`, written with standard `List` functions from the doc comments;
    cells on which the doc comment is silent are pinned to the current behaviour and marked PINNED).

    Core-only and executable: the driver runs exactly these definitions, `Props/C03.lean` proves
    `Impl.f = Spec.f` about them.

    Modelling conventions
    * a Go slice whose capacity matters (helpers that reslice a parameter) is `Sl α` = visible
      elements + hidden tail up to `cap`; reslicing beyond `cap` panics, beyond `len` does not;
    * other slice parameters are `List α` (nil ≡ empty; where the code tests `== nil` the parameter
      is an `Option`);
    * a Go map is an association list; reads go through `mget` (last binding wins), writes through
      `mset` (never introduces a second binding for a key); the order of the list is the iteration
      order of `range`, so a statement for all lists is a statement for all iteration orders;
    * `make([]T, n)` is `List.replicate n zero` with an explicit zero value;
    * `for i := a; i < a+k; i++` is recursion over the iteration count `k` carrying `i`;
      `for i, v := range xs` is structural recursion over `xs` carrying `i`. -/

namespace FpgoVerif.C03

inductive Panic | index | bounds | makeLen | hang
deriving DecidableEq, Repr

abbrev Res := Except Panic

variable {α β κ ν : Type}

/-! ### substrate: checked indexing, slices with capacity, maps -/

/-- `l[i]` for a non-negative index -/
def getN (l : List α) (i : Nat) : Res α :=
  match l[i]? with
  | some v => .ok v
  | none => .error .index

/-- `l[i]` for a Go `int` index -/
def getI (l : List α) (i : Int) : Res α :=
  if i < 0 then .error .index else getN l i.toNat

/-- `l[i] = v` -/
def setN (l : List α) (i : Nat) (v : α) : Res (List α) :=
  if i < l.length then .ok (l.set i v) else .error .index

def setI (l : List α) (i : Int) (v : α) : Res (List α) :=
  if i < 0 then .error .index else setN l i.toNat v

/-- `make([]T, n)` -/
def mk (n : Nat) (z : α) : List α := List.replicate n z

/-- `make([]T, n)` for a computed Go `int` length -/
def mkI (n : Int) (z : α) : Res (List α) :=
  if n < 0 then .error .makeLen else .ok (List.replicate n.toNat z)

/-- a slice header seen through its backing array: `vis` = elements below `len`,
    `hid` = elements between `len` and `cap` -/
structure Sl (α : Type) where
  vis : List α
  hid : List α := []

def Sl.len (s : Sl α) : Int := s.vis.length
def Sl.cap (s : Sl α) : Int := s.vis.length + s.hid.length

/-- `s[a:b]`: Go panics unless `0 ≤ a ≤ b ≤ cap(s)` (NOT `len`) -/
def Sl.reslice (s : Sl α) (a b : Int) : Res (Sl α) :=
  if 0 ≤ a ∧ a ≤ b ∧ b ≤ s.cap then
    .ok ⟨((s.vis ++ s.hid).take b.toNat).drop a.toNat, (s.vis ++ s.hid).drop b.toNat⟩
  else .error .bounds

/-- `s[a:b:c]` -/
def Sl.reslice3 (s : Sl α) (a b c : Int) : Res (Sl α) :=
  if 0 ≤ a ∧ a ≤ b ∧ b ≤ c ∧ c ≤ s.cap then
    .ok ⟨((s.vis ++ s.hid).take b.toNat).drop a.toNat, ((s.vis ++ s.hid).take c.toNat).drop b.toNat⟩
  else .error .bounds

/-- `append(s, xs...)`: in place when the capacity suffices, otherwise a fresh array (whose spare
    capacity is irrelevant for every caller in fp.go and modelled as none) -/
def Sl.append (s : Sl α) (xs : List α) : Sl α :=
  if xs.length ≤ s.hid.length then ⟨s.vis ++ xs, s.hid.drop xs.length⟩ else ⟨s.vis ++ xs, []⟩

/-- map read `m[k]` (comma-ok form): the last binding wins -/
def mget [DecidableEq κ] (k : κ) : List (κ × ν) → Option ν
  | [] => none
  | (k', v) :: rest =>
    match mget k rest with
    | some w => some w
    | none => if k' = k then some v else none

def mhas [DecidableEq κ] (k : κ) (m : List (κ × ν)) : Bool := m.any (fun p => p.1 = k)

/-- map write `m[k] = v` -/
def mset [DecidableEq κ] (m : List (κ × ν)) (k : κ) (v : ν) : List (κ × ν) :=
  if mhas k m then m.map (fun p => if p.1 = k then (k, v) else p) else m ++ [(k, v)]

/-- `for k, v := range src { dst[k] = v }` -/
def copyInto [DecidableEq κ] (src dst : List (κ × ν)) : List (κ × ν) :=
  src.foldl (fun m p => mset m p.1 p.2) dst

/-- `for j, item := range src { dst[base+j] = g item j }` (started at `j`) -/
def fillLoop (g : α → Nat → β) : List α → Nat → Nat → List β → Res (List β)
  | [], _, _, dst => .ok dst
  | x :: rest, base, j, dst => do
    let dst ← setN dst (base + j) (g x j)
    fillLoop g rest base (j + 1) dst

namespace Impl

/-! ### Map, MapIndexed, Reduce, Filter, Reject -/

/-- `result := make([]R, len(values)); for i, val := range values { result[i] = fn(val) }` -/
def map (z : β) (fn : α → β) (values : List α) : Res (List β) :=
  fillLoop (fun v _ => fn v) values 0 0 (mk values.length z)

def mapIndexed (z : β) (fn : α → Nat → β) (values : List α) : Res (List β) :=
  fillLoop fn values 0 0 (mk values.length z)

/-- `for i := 0; i < len(input); i++ { memo = fn(memo, input[i]) }` -/
def reduceLoop (fn : β → α → β) (input : List α) : Nat → Nat → β → Res β
  | 0, _, memo => .ok memo
  | k + 1, i, memo => do
    let x ← getN input i
    reduceLoop fn input k (i + 1) (fn memo x)

def reduce (fn : β → α → β) (memo : β) (input : List α) : Res β :=
  reduceLoop fn input input.length 0 memo

/-- `for i := range input { if fn(input[i], i) { newLen++; list[newLen-1] = input[i] } }` -/
def filterLoop (fn : α → Nat → Bool) : List α → Nat → Int → List α → Res (Int × List α)
  | [], _, newLen, list => .ok (newLen, list)
  | x :: rest, i, newLen, list =>
    if fn x i then do
      let newLen := newLen + 1
      let list ← setI list (newLen - 1) x
      filterLoop fn rest (i + 1) newLen list
    else filterLoop fn rest (i + 1) newLen list

/-- `list := make([]T, len(input)); …; result := list[:newLen]` -/
def filter (z : α) (fn : α → Nat → Bool) (input : List α) : Res (List α) := do
  let (newLen, list) ← filterLoop fn input 0 0 (mk input.length z)
  let r ← (Sl.mk list []).reslice 0 newLen
  pure r.vis

/-- `Filter(func(val, i) bool { return !fn(val, i) }, input...)` -/
def reject (z : α) (fn : α → Nat → Bool) (input : List α) : Res (List α) :=
  filter z (fun v i => !fn v i) input

/-! ### Concat, Flatten -/

def concatLoop : List (Option (List α)) → Nat → List α → Res (Nat × List α)
  | [], totalIndex, newOne => .ok (totalIndex, newOne)
  | none :: rest, totalIndex, newOne => concatLoop rest totalIndex newOne      -- `if slice == nil { continue }`
  | some target :: rest, totalIndex, newOne => do
    let newOne ← fillLoop (fun x _ => x) target totalIndex 0 newOne
    concatLoop rest (totalIndex + target.length) newOne

/-- `for _, slice := range slices { if slice == nil { continue }; totalLen += len(slice) }` -/
def totalLenLoop : List (Option (List α)) → Nat → Nat
  | [], totalLen => totalLen
  | none :: rest, totalLen => totalLenLoop rest totalLen
  | some slice :: rest, totalLen => totalLenLoop rest (totalLen + slice.length)

def concat (z : α) (mine : List α) (slices : List (Option (List α))) : Res (List α) := do
  let mineLen := mine.length
  let totalLen := totalLenLoop slices mineLen
  let newOne := mk totalLen z
  let newOne ← fillLoop (fun x _ => x) mine 0 0 newOne
  let (_, newOne) ← concatLoop slices mineLen newOne
  pure newOne

/-- `result := make([]T, 0); return Concat(result, list...)` -/
def flatten (z : α) (list : List (Option (List α))) : Res (List α) := concat z (mk 0 z) list

/-! ### Dedupe, Distinct, IsDistinct, DropEq, UniqBy -/

/-- `for i := 0; i < lenList; i++ { if i+1 < lenList && list[i] == list[i+1] { continue }; newList = append(newList, list[i]) }` -/
def dedupeLoop [DecidableEq α] (list : List α) (lenList : Nat) : Nat → Nat → List α → Res (List α)
  | 0, _, newList => .ok newList
  | k + 1, i, newList => do
    let skip ← (if i + 1 < lenList then do
                  let a ← getN list i
                  let b ← getN list (i + 1)
                  pure (decide (a = b))
                else pure false)
    if skip then dedupeLoop list lenList k (i + 1) newList
    else do
      let a ← getN list i
      dedupeLoop list lenList k (i + 1) (newList ++ [a])

def dedupe [DecidableEq α] (list : List α) : Res (List α) :=
  dedupeLoop list list.length list.length 0 []

/-- `for _, v := range list { if !s[v] { result[resultIndex] = v; s[v] = true; resultIndex++ } }`;
    the `map[T]bool` used as a set is the list of its keys -/
def distinctLoop [DecidableEq α] : List α → List α → Nat → List α → Res (Nat × List α)
  | [], _, resultIndex, result => .ok (resultIndex, result)
  | v :: rest, s, resultIndex, result =>
    if !(s.contains v) then do
      let result ← setN result resultIndex v
      distinctLoop rest (v :: s) (resultIndex + 1) result
    else distinctLoop rest s resultIndex result

def distinct [DecidableEq α] (z : α) (list : List α) : Res (List α) :=
  let maxLen := list.length
  let result := mk maxLen z
  if maxLen > 0 then do
    let (resultIndex, result) ← distinctLoop list [] 0 result
    let r ← (Sl.mk result []).reslice 0 resultIndex
    pure r.vis
  else .ok result

def isDistinctLoop [DecidableEq α] : List α → List α → Bool
  | [], _ => true
  | v :: rest, s => if s.contains v then false else isDistinctLoop rest (v :: s)

def isDistinct [DecidableEq α] (list : List α) : Bool :=
  if list.length = 0 then false else isDistinctLoop list []

def dropEqLoop [DecidableEq α] (num : α) : List α → List α → List α
  | [], newList => newList
  | v :: rest, newList => if v ≠ num then dropEqLoop num rest (newList ++ [v]) else dropEqLoop num rest newList

def dropEq [DecidableEq α] (num : α) (list : List α) : List α := dropEqLoop num list []

def uniqByLoop [DecidableEq κ] (identify : α → κ) : List α → List κ → List α → List α
  | [], _, result => result
  | v :: rest, identifiers, result =>
    let id := identify v
    if !(identifiers.contains id) then uniqByLoop identify rest (id :: identifiers) (result ++ [v])
    else uniqByLoop identify rest identifiers result

def uniqBy [DecidableEq κ] (identify : α → κ) (list : List α) : List α := uniqByLoop identify list [] []

/-! ### Drop, DropLast, Take, TakeLast, Tail, Head (views of the parameter) -/

def drop (count : Int) (list : Sl α) : Res (Sl α) :=
  if count ≤ 0 then .ok list
  else if count ≥ list.len then .ok ⟨[], []⟩
  else list.reslice count list.len

def dropLast (count : Int) (list : Sl α) : Res (Sl α) :=
  let listLen := list.len
  if listLen = 0 ∨ count ≥ listLen then .ok ⟨[], []⟩
  else if count ≤ 0 then .ok list
  else list.reslice 0 (listLen - count)

def take (count : Int) (list : Sl α) : Res (Sl α) :=
  if count ≥ list.len ∨ count ≤ 0 then .ok list
  else list.reslice 0 count

def takeLast (count : Int) (list : Sl α) : Res (Sl α) :=
  let listLen := list.len
  if count ≥ listLen ∨ count ≤ 0 then .ok list
  else list.reslice (listLen - count) listLen

def tail (list : Sl α) : Res (Sl α) := drop 1 list

/-- `if len(list) <= 0 { return zero }; result = list[:1][0]` -/
def head (z : α) (list : Sl α) : Res α :=
  if list.len ≤ 0 then .ok z
  else do
    let s ← list.reslice 0 1
    getN s.vis 0

/-! ### DropWhile, Every, Some, Exists, Partition -/

/-- `for i < listLen { newList[j] = list[i]; i++; j++ }` -/
def copyFrom (list : List α) : Nat → Nat → Nat → List α → Res (List α)
  | 0, _, _, newList => .ok newList
  | k + 1, i, j, newList => do
    let x ← getN list i
    let newList ← setN newList j x
    copyFrom list k (i + 1) (j + 1) newList

def dropWhileLoop (z : α) (f : α → Bool) (list : List α) : List α → Nat → Res (List α)
  | [], _ => .ok []
  | v :: rest, i =>
    if !f v then do
      let listLen := list.length
      let newList ← mkI ((listLen : Int) - i) z
      copyFrom list (listLen - i) i 0 newList
    else dropWhileLoop z f list rest (i + 1)

def dropWhile (z : α) (f : Option (α → Bool)) (list : List α) : Res (List α) :=
  match f with
  | none => .ok []
  | some f => dropWhileLoop z f list list 0

def everyLoop (f : α → Bool) : List α → Bool
  | [] => true
  | v :: rest => if !f v then false else everyLoop f rest

def every (f : Option (α → Bool)) (list : List α) : Bool :=
  match f with
  | none => false
  | some f => if list.length = 0 then false else everyLoop f list

def someLoop (f : α → Bool) : List α → Bool
  | [] => false
  | v :: rest => if f v then true else someLoop f rest

def some (f : Option (α → Bool)) (list : List α) : Bool :=
  match f with
  | none => false
  | Option.some f => someLoop f list

def exists_ [DecidableEq α] (input : α) : List α → Bool
  | [] => false
  | v :: rest => if v = input then true else exists_ input rest

def partitionLoop (predicate : α → Bool) : List α → List α → List α → List (List α)
  | [], resultTrue, resultFalse => [resultTrue, resultFalse]
  | v :: rest, resultTrue, resultFalse =>
    if predicate v then partitionLoop predicate rest (resultTrue ++ [v]) resultFalse
    else partitionLoop predicate rest resultTrue (resultFalse ++ [v])

def partition (predicate : α → Bool) (list : List α) : List (List α) := partitionLoop predicate list [] []

/-! ### IsEqual, IsEqualMap -/

def isEqualLoop [DecidableEq α] (list1 list2 : List α) : Nat → Nat → Res Bool
  | 0, _ => .ok true
  | k + 1, i => do
    let a ← getN list1 i
    let b ← getN list2 i
    if a ≠ b then pure false else isEqualLoop list1 list2 k (i + 1)

def isEqual [DecidableEq α] (list1 list2 : List α) : Res Bool :=
  let len1 := list1.length
  let len2 := list2.length
  if len1 = 0 ∨ len2 = 0 ∨ len1 ≠ len2 then .ok false
  else isEqualLoop list1 list2 len1 0

/-- inner loop `for k2, v2 := range map2 { if k1 == k2 && v1 == v2 { found = true; break } }` -/
def findPair [DecidableEq κ] [DecidableEq ν] (k1 : κ) (v1 : ν) : List (κ × ν) → Bool
  | [] => false
  | (k2, v2) :: rest => if k1 = k2 ∧ v1 = v2 then true else findPair k1 v1 rest

def isEqualMapLoop [DecidableEq κ] [DecidableEq ν] (map2 : List (κ × ν)) : List (κ × ν) → Bool
  | [] => true
  | (k1, v1) :: rest => if !findPair k1 v1 map2 then false else isEqualMapLoop map2 rest

def isEqualMap [DecidableEq κ] [DecidableEq ν] (map1 map2 : List (κ × ν)) : Bool :=
  let len1 := map1.length
  let len2 := map2.length
  if len1 = 0 ∨ len2 = 0 ∨ len1 ≠ len2 then false
  else isEqualMapLoop map2 map1

/-! ### Keys, Values, Merge, Zip, GroupBy, SliceToMap, DuplicateSlice, DuplicateMap -/

/-- `keys := make([]T, len(m)); i := 0; for k := range m { keys[i] = k; i++ }` -/
def keys (z : κ) (m : List (κ × ν)) : Res (List κ) :=
  fillLoop (fun p _ => p.1) m 0 0 (mk m.length z)

def values (z : ν) (m : List (κ × ν)) : Res (List ν) :=
  fillLoop (fun p _ => p.2) m 0 0 (mk m.length z)

def merge [DecidableEq κ] (map1 map2 : Option (List (κ × ν))) : List (κ × ν) :=
  match map1, map2 with
  | none, none => []
  | none, Option.some m2 => copyInto m2 []
  | Option.some m1, none => copyInto m1 []
  | Option.some m1, Option.some m2 => copyInto m2 (copyInto m1 [])

def zipLoop [DecidableEq κ] (list1 : List κ) (list2 : List ν) : Nat → Nat → List (κ × ν) → Res (List (κ × ν))
  | 0, _, newMap => .ok newMap
  | k + 1, i, newMap => do
    let a ← getN list1 i
    let b ← getN list2 i
    zipLoop list1 list2 k (i + 1) (mset newMap a b)

def zip [DecidableEq κ] (list1 : List κ) (list2 : List ν) : Res (List (κ × ν)) :=
  let len1 := list1.length
  let len2 := list2.length
  if len1 = 0 ∨ len2 = 0 then .ok []
  else
    let minLen := if len2 < len1 then len2 else len1
    zipLoop list1 list2 minLen 0 []

/-- `id = grouper(v); result[id] = append(result[id], v)` -/
def groupBy [DecidableEq κ] (grouper : α → κ) (list : List α) : List (κ × List α) :=
  list.foldl (fun result v =>
    let id := grouper v
    mset result id ((mget id result).getD [] ++ [v])) []

/-- `if _, ok := resultMap[key]; !ok { resultMap[key] = defaultValue }` -/
def sliceToMap [DecidableEq κ] (defaultValue : ν) (input : List κ) : List (κ × ν) :=
  input.foldl (fun resultMap key => if !(mhas key resultMap) then mset resultMap key defaultValue else resultMap) []

/-- `if len(list) > 0 { return append(list[:0:0], list...) }; return make([]T, 0)` -/
def duplicateSlice (list : Sl α) : Res (List α) :=
  if list.len > 0 then do
    let e ← list.reslice3 0 0 0
    pure (e.append list.vis).vis
  else .ok []

def duplicateMap [DecidableEq κ] (input : List (κ × ν)) : List (κ × ν) :=
  if input.length > 0 then copyInto input [] else []

/-! ### Min, Max, MinMax, Range (Numeric = Int) -/

def maxLoop : List Int → Int → Int
  | [], result => result
  | v :: rest, result => if v > result then maxLoop rest v else maxLoop rest result

def max (list : List Int) : Res Int :=
  if list.length = 0 then .ok 0
  else do
    let result ← getN list 0
    pure (maxLoop list result)

def minLoop : List Int → Int → Int
  | [], result => result
  | v :: rest, result => if v < result then minLoop rest v else minLoop rest result

def min (list : List Int) : Res Int :=
  if list.length = 0 then .ok 0
  else do
    let result ← getN list 0
    pure (minLoop list result)

def minMaxLoop : List Int → Int → Int → Int × Int
  | [], min, max => (min, max)
  | v :: rest, min, max =>
    if v < min then minMaxLoop rest v max
    else if v > max then minMaxLoop rest min v
    else minMaxLoop rest min max

def minMax (list : List Int) : Res (Int × Int) :=
  if list.length = 0 then .ok (0, 0)
  else do
    let min ← getN list 0
    let max ← getN list 0
    pure (minMaxLoop list min max)

/-- two's-complement wrap-around of Go's 64-bit `int` -/
def wrap64 (x : Int) : Int := (x + 9223372036854775808) % 18446744073709551616 - 9223372036854775808

/-- `for v := lower; v < higher; v += hop { l = append(l, v) }` (fuel-bounded: the Go loop can run
    away only when `v += hop` wraps, see `C03_range`) -/
def rangeLoop (higher hop : Int) : Nat → Int → List Int → Res (List Int)
  | 0, _, _ => .error .hang
  | k + 1, v, l => if v < higher then rangeLoop higher hop k (wrap64 (v + hop)) (l ++ [v]) else .ok l

def rangeFrom (lower higher hop : Int) : Res (List Int) :=
  if lower ≥ higher then .ok []
  else rangeLoop higher hop ((higher - lower).toNat + 1) lower []

def range (lower higher : Int) (hops : List Int) : Res (List Int) :=
  if hops.length > 0 then do
    let h ← getN hops 0
    if h ≤ 0 then pure [] else rangeFrom lower higher h
  else rangeFrom lower higher 1

/-! ### Reverse, Prepend, SplitEvery -/

/-- `for i := 0; i < len(list); i++ { newList[i] = list[len(list)-(i+1)] }` -/
def reverseLoop (list : List α) : Nat → Nat → List α → Res (List α)
  | 0, _, newList => .ok newList
  | k + 1, i, newList => do
    let x ← getI list ((list.length : Int) - ((i : Int) + 1))
    let newList ← setN newList i x
    reverseLoop list k (i + 1) newList

def reverse (z : α) (list : List α) : Res (List α) :=
  reverseLoop list list.length 0 (mk list.length z)

/-- `append([]T{element}, list...)` -/
def prepend (element : α) (list : List α) : List α := ((Sl.mk [element] []).append list).vis

def splitLoop (size : Int) (n : Nat) : List α → Nat → List (List α) → List α → List (List α)
  | [], _, result, _ => result
  | v :: rest, i, result, currentGroup =>
    let st : List (List α) × List α :=
      if (currentGroup.length : Int) < size then (result, currentGroup ++ [v])
      else (result ++ [currentGroup], [v])
    let result := if i + 1 ≥ n then st.1 ++ [st.2] else st.1
    splitLoop size n rest (i + 1) result st.2

def splitEvery (size : Int) (list : List α) : List (List α) :=
  if size ≤ 0 ∨ list.length ≤ 1 then [list]
  else splitLoop size list.length list 0 [] []

end Impl

/-! ## The documented definitions -/
namespace Spec

def map (f : α → β) (xs : List α) : List β := xs.map f
def mapIndexed (f : α → Nat → β) (xs : List α) : List β := xs.mapIdx (fun i x => f x i)
def reduce (f : β → α → β) (memo : β) (xs : List α) : β := xs.foldl f memo
/-- the elements for which `p x i` holds (`i` = position in the input), order kept -/
def filter (p : α → Nat → Bool) (xs : List α) : List α := (xs.zipIdx.filter (fun xi => p xi.1 xi.2)).map (·.1)
def reject (p : α → Nat → Bool) (xs : List α) : List α := (xs.zipIdx.filter (fun xi => !p xi.1 xi.2)).map (·.1)
def concat (mine : List α) (slices : List (Option (List α))) : List α := mine ++ (slices.map (·.getD [])).flatten
def flatten (slices : List (Option (List α))) : List α := (slices.map (·.getD [])).flatten
/-- first occurrences, in order (doc example `[8 2 8 0 2 0] ↦ [8 2 0]`) -/
def distinct [DecidableEq α] (xs : List α) : List α := xs.eraseDups
/-- "removing consecutive duplicates": one element per maximal run of equal neighbours -/
def dedupe [DecidableEq α] : List α → List α
  | [] => []
  | [a] => [a]
  | a :: b :: t => if a = b then dedupe (b :: t) else a :: dedupe (b :: t)
def dropEq [DecidableEq α] (x : α) (xs : List α) : List α := xs.filter (fun v => v ≠ x)
/-- PINNED for `count < 0`: the whole list -/
def drop (count : Int) (xs : List α) : List α := if count ≤ 0 then xs else xs.drop count.toNat
/-- PINNED for `count < 0`: the whole list (the property only demands a prefix of `xs`, no panic) -/
def dropLast (count : Int) (xs : List α) : List α := if count ≤ 0 then xs else xs.take (xs.length - count.toNat)
/-- `f = nil` ↦ empty (doc) -/
def dropWhile (f : Option (α → Bool)) (xs : List α) : List α :=
  match f with | none => [] | some f => xs.dropWhile f
/-- PINNED for `count ≤ 0`: the whole list -/
def take (count : Int) (xs : List α) : List α := if count ≤ 0 then xs else xs.take count.toNat
def takeLast (count : Int) (xs : List α) : List α := if count ≤ 0 then xs else xs.drop (xs.length - count.toNat)
/-- PINNED for the empty list: the zero value -/
def head (z : α) (xs : List α) : α := xs.headD z
def tail (xs : List α) : List α := xs.tail
def reverse (xs : List α) : List α := xs.reverse
def prepend (x : α) (xs : List α) : List α := x :: xs
def partition (p : α → Bool) (xs : List α) : List (List α) := [xs.filter p, xs.filter (fun x => !p x)]
/-- consecutive chunks of length `k` (the last one shorter) -/
def chunks (k : Nat) : Nat → List α → List (List α)
  | 0, _ => []
  | fuel + 1, xs => if xs.isEmpty then [] else xs.take k :: chunks k fuel (xs.drop k)
/-- PINNED for `size ≤ 0` and for the empty list: `[xs]` -/
def splitEvery (size : Int) (xs : List α) : List (List α) :=
  if size ≤ 0 ∨ xs.length ≤ 1 then [xs] else chunks size.toNat xs.length xs
/-- key `g x` ↦ the `x`s with that key, in input order (read with `mget`) -/
def groupBy [DecidableEq κ] (g : α → κ) (xs : List α) : List (κ × List α) :=
  xs.map (fun x => (g x, xs.filter (fun y => g y = g x)))
/-- first element per key, in order -/
def uniqBy [DecidableEq κ] (g : α → κ) (xs : List α) : List α := xs.eraseDupsBy (fun a b => g a = g b)
/-- `ks[i] ↦ vs[i]`, later duplicates win (read with `mget`) -/
def zip (ks : List κ) (vs : List ν) : List (κ × ν) := ks.zip vs
/-- `lo, lo+hop, … < hi`; empty for `hop ≤ 0` (doc) or `lo ≥ hi` -/
def range (lo hi : Int) (hops : List Int) : List Int :=
  let hop := hops.headD 1
  if hop ≤ 0 ∨ lo ≥ hi then []
  else ((List.range (hi - lo).toNat).map (fun (i : Nat) => lo + (i : Int) * hop)).filter (fun v => v < hi)
def keys (m : List (κ × ν)) : List κ := m.map (·.1)
def values (m : List (κ × ν)) : List ν := m.map (·.2)
/-- `b` overrides `a`; nil operands as empty (read with `mget`) -/
def merge (a b : Option (List (κ × ν))) : List (κ × ν) := a.getD [] ++ b.getD []
/-- empty ↦ 0 (doc) -/
def max (xs : List Int) : Int := xs.max?.getD 0
def min (xs : List Int) : Int := xs.min?.getD 0
def minMax (xs : List Int) : Int × Int := (min xs, max xs)
/-- empty list or nil predicate ↦ false (doc) -/
def every (f : Option (α → Bool)) (xs : List α) : Bool :=
  match f with | none => false | some f => !xs.isEmpty && xs.all f
def some (f : Option (α → Bool)) (xs : List α) : Bool :=
  match f with | none => false | Option.some f => xs.any f
def exists_ [DecidableEq α] (x : α) (xs : List α) : Bool := decide (x ∈ xs)
/-- PINNED: false when either list is empty -/
def isEqual [DecidableEq α] (xs ys : List α) : Bool := !xs.isEmpty && !ys.isEmpty && decide (xs = ys)
/-- PINNED: false when either map is empty.  For maps (unique keys) `Perm` is equality of maps. -/
def isEqualMap [DecidableEq κ] [DecidableEq ν] (a b : List (κ × ν)) : Bool :=
  !a.isEmpty && !b.isEmpty && a.isPerm b
/-- PINNED: false on the empty list -/
def isDistinct [DecidableEq α] (xs : List α) : Bool := !xs.isEmpty && decide xs.Nodup
def sliceToMap (d : ν) (xs : List κ) : List (κ × ν) := xs.map (fun k => (k, d))
def duplicateSlice (xs : List α) : List α := xs
def duplicateMap (m : List (κ × ν)) : List (κ × ν) := m

end Spec

end FpgoVerif.C03
