/-! C07 — ChannelQueue used on its own by concurrent goroutines: a transition system over a Go channel of
    capacity `c` (rendezvous for c = 0), any number of anonymous producer / consumer threads (a step names the value
    it moves), no close.  Atoms of the six wrappers (queue.go l.122-185):

      Put(v) / PutWithTimeout(v) / Offer(v), the send is ready:
          sendBuf v       room in the buffer, no receiver parked          → buffered, accepted
          sendHandoff v   a receiver is parked (buffer necessarily empty) → handed over, accepted and delivered
      not ready:
          sendBlock v     Put / PutWithTimeout park the sender (FIFO queue of parked senders); not yet accepted
          offerFull v     Offer's `default:` branch → ErrQueueIsFull
          putTimeout v    a parked PutWithTimeout gives up → ErrQueuePutTimeout (time = nondeterminism)
      Take / TakeWithTimeout / Poll, the receive is ready:
          recvBuf         head of the buffer; the first parked sender (if any) completes into the freed slot
          recvFromSender  empty buffer (c = 0), a sender is parked: taken directly from it
      not ready:
          recvWait        Take / TakeWithTimeout park the receiver
          pollEmpty       Poll's `default:` branch → ErrQueueIsEmpty
          takeTimeout     a parked TakeWithTimeout gives up → ErrQueueTakeTimeout

    Ghost history: `accepted` (values whose send completed with nil, in completion order), `delivered`. -/
namespace FpgoVerif.C07.Chq

structure CS where
  c : Nat
  buf : List Nat
  sendq : List Nat       -- values of the parked senders, in parking order
  recvWaiting : Nat      -- parked receivers
  accepted : List Nat
  delivered : List Nat
deriving DecidableEq, Repr

def init (c : Nat) : CS := ⟨c, [], [], 0, [], []⟩

inductive Act
  | sendBuf (v : Nat) | sendHandoff (v : Nat) | sendBlock (v : Nat) | offerFull (v : Nat) | putTimeout (v : Nat)
  | recvBuf | recvFromSender | recvWait | pollEmpty | takeTimeout
deriving DecidableEq, Repr

/-- one atomic action; `none` = not enabled -/
def step (s : CS) : Act → Option CS
  | .sendBuf v =>
    if s.buf.length < s.c ∧ s.recvWaiting = 0 then
      some { s with buf := s.buf ++ [v], accepted := s.accepted ++ [v] } else none
  | .sendHandoff v =>
    if 0 < s.recvWaiting then
      some { s with recvWaiting := s.recvWaiting - 1, accepted := s.accepted ++ [v], delivered := s.delivered ++ [v] }
    else none
  | .sendBlock v =>
    if s.c ≤ s.buf.length ∧ s.recvWaiting = 0 then some { s with sendq := s.sendq ++ [v] } else none
  | .offerFull _ =>
    if s.c ≤ s.buf.length ∧ s.recvWaiting = 0 then some s else none
  | .putTimeout v =>
    if v ∈ s.sendq then some { s with sendq := s.sendq.erase v } else none
  | .recvBuf =>
    match s.buf, s.sendq with
    | x :: rest, [] => some { s with buf := rest, delivered := s.delivered ++ [x] }
    | x :: rest, w :: ws =>
      some { s with buf := rest ++ [w], sendq := ws, accepted := s.accepted ++ [w], delivered := s.delivered ++ [x] }
    | [], _ => none
  | .recvFromSender =>
    match s.buf, s.sendq with
    | [], w :: ws => some { s with sendq := ws, accepted := s.accepted ++ [w], delivered := s.delivered ++ [w] }
    | _, _ => none
  | .recvWait =>
    if s.buf = [] ∧ s.sendq = [] then some { s with recvWaiting := s.recvWaiting + 1 } else none
  | .pollEmpty =>
    if s.buf = [] ∧ s.sendq = [] then some s else none
  | .takeTimeout =>
    if 0 < s.recvWaiting then some { s with recvWaiting := s.recvWaiting - 1 } else none

def run : CS → List Act → Option CS
  | s, [] => some s
  | s, a :: as => match step s a with
    | some s' => run s' as
    | none => none

/-- reachable from the empty channel of capacity `c` by some schedule of any length over any number of threads -/
def Reach (c : Nat) (s : CS) : Prop := ∃ acts, run (init c) acts = some s

end FpgoVerif.C07.Chq
