import FpgoVerif.Model.C09Sys
/-! C09 — line protocol on top of the transition system of `C09Sys.lean`.

    `sched <cfg>: op ; op ; …`   directed schedules.  The harness drives the real pool through the ops (park
        points of the `verif` build hold goroutines at the named windows); here the same ops are executed on
        `step`: an op performs the caller's own steps, then a deterministic scheduler runs every enabled
        internal step (spawn loop, workers, released submitters, closer) until nothing moves — a thread
        reaching a park point with budget stays there.  The generator only emits confluent scenarios (the
        quiescent state does not depend on the order of the internal steps), so one order predicts all.
    `stress <params>`            free-running stress with monitors; the prediction is the summary of a
        sequential run of the same job list on `step`.

    cfg: max sb batch c b cq(1/0) jam(ms, 0 = never).  Submissions: `s` Schedule, `t` ScheduleWithTimeout,
    `i` Invoke (no answer), `it` InvokeWithTimeout, `as` Schedule in its own goroutine.  Job kinds: f fast, g gated, p<v> gated then panics
    with v, q<v> panics at once.  Park points: sched wclosed afterjob exit expiry closeflag tryspawn.
    `nh` = SetPanicHandler(nil), `sh` = SetPanicHandler(recorder), `nhs` = SetDefaultWorkerPoolSettings with a
    nil handler (then all setters again), `hs:<ms>` = the recording handler sleeps first (slow handler; no
    effect on the model). -/
namespace FpgoVerif.C09

inductive Kind | fast | gated | pgated (v : Nat) | pnow (v : Nat)
deriving Repr, DecidableEq

structure Sim where
  c : Cfg
  s : St := {}
  kinds : List Kind := []
  names : List Nat := []             -- the case line's name of each job, in creation order
  opened : List Nat := []            -- jobs whose gate was opened
  budget : List (String × Nat) := [] -- park point ↦ arrivals still to be parked
  parkedW : List (Nat × String) := [] -- (worker, point)
  parkedS : List Nat := []           -- submissions parked at `sched`
  parkedSp : Bool := false           -- spawn loop parked at `tryspawn`
  parkedCl : Bool := false           -- closer parked at `closeflag`
  asyncS : List Nat := []            -- submissions running in their own goroutine
  asyncCl : Bool := false
  jamMs : Nat := 0
  jam : Bool := false                -- the jam duration has elapsed since the last sign of life
  expiryArr : Nat := 0
  hwait : Option Nat := none         -- `hg:<k>`: the panic handler blocks until job (index) k has finished
  hcall : Nat := 0                   -- `hc:<n>`: the panic handler calls VerifCounts and PreAllocWorkerSize(n)
  expOn : Bool := false              -- a short expiry duration is in force (`exp:<ms>`)
  armed : List Nat := []             -- workers that entered their select with the short timer

def budgetOf (m : Sim) (pt : String) : Nat := ((m.budget.find? (·.1 == pt)).map (·.2)).getD 0
def setBudget (m : Sim) (pt : String) (n : Nat) : Sim :=
  { m with budget := (pt, n) :: m.budget.filter (·.1 != pt) }

/-- a thread arrives at `pt`: does it park? (consumes budget) -/
def arrive (m : Sim) (pt : String) : Sim × Bool :=
  let n := budgetOf m pt
  if n > 0 then (setBudget m pt (n - 1), true) else (m, false)

def kindOf (m : Sim) (j : Nat) : Kind := (m.kinds[j]?).getD .fast
def isOpen (m : Sim) (j : Nat) : Bool := m.opened.contains j
def wParked (m : Sim) (w : Nat) : Bool := m.parkedW.any (·.1 == w)

def idxGo (name : Nat) : List Nat → Nat → Option Nat
  | [], _ => none
  | x :: xs, i => if x == name then some i else idxGo name xs (i + 1)

/-- index of the (first) job the case line calls `name` -/
def idxOf (m : Sim) (name : Nat) : Option Nat := idxGo name m.names 0

/-- the queue's Offer answers Full exactly when c+b items are inside (loader settled: the generator keeps
    consumers away from the window) -/
def settledFull (m : Sim) : Bool := m.s.queue.length ≥ m.c.chanCap + m.c.buf

def app (m : Sim) (a : Act) : Option Sim := (step m.c m.s a).map fun t => { m with s := t }

/-- one internal step of worker `w`, if any is enabled and the worker is not parked -/
def workerStep (m : Sim) (w : Nat) : Option Sim :=
  if wParked m w then none else
  match m.s.workers[w]? with
  | some .top =>
    (app m (.wCheck w)).map fun m1 =>
      let m1 := { m1 with jam := false, armed := if m1.expOn then w :: m1.armed.filter (· != w) else m1.armed.filter (· != w) }
      match m1.s.workers[w]? with
      | some WPc.sel => let (m2, p) := arrive m1 "wclosed"; if p then { m2 with parkedW := (w, "wclosed") :: m2.parkedW } else m2
      | _ => m1
  | some .sel =>
    match m.s.queue with
    | _ :: _ => app m (.wRecv w)
    | [] => if m.s.qclosed then app m (.wNil w) else none
  | some (.got _) => app m (.wStart w)
  | some (.run j) =>
    match kindOf m j with
    | .fast =>
      (app m (.wFinish w)).map fun m1 =>
        let (m2, p) := arrive m1 "afterjob"; if p then { m2 with parkedW := (w, "afterjob") :: m2.parkedW } else m2
    | .gated =>
      if isOpen m j then
        (app m (.wFinish w)).map fun m1 =>
          let (m2, p) := arrive m1 "afterjob"; if p then { m2 with parkedW := (w, "afterjob") :: m2.parkedW } else m2
      else none
    | .pgated v => if isOpen m j then app m (.wPanic w v) else none
    | .pnow v => app m (.wPanic w v)
  | some (.aft _) => app m (.wBusyDec w)
  | some (.pan _ _) =>
    -- the handler runs in the dying worker, outside every critical section: it may block on other jobs and
    -- call back into the pool
    let ready := match m.hwait with
      | some k => match idxOf m k with
        | some i => m.s.finished.contains i
        | none => false
      | none => true
    if !ready then none else
    let m1 := (List.range (m.hcall - m.s.count)).foldl (fun acc _ => (app acc (.gen m.hcall)).getD acc) m
    app m1 (.wHandler w)
  | some (.exitDec _) =>
    (app m (.wExitDec w)).map fun m1 =>
      let (m2, p) := arrive m1 "exit"; if p then { m2 with parkedW := (w, "exit") :: m2.parkedW } else m2
  | some .exitTok => app m (.wExitTok w)
  | _ => none

def firstWorkerStep (m : Sim) : Nat → Nat → Option Sim
  | _, 0 => none
  | w, n + 1 => match workerStep m w with
    | some m1 => some m1
    | none => firstWorkerStep m (w + 1) n

def spStep (m : Sim) : Option Sim :=
  match m.s.sp with
  | .wait => app m .spWake
  | .awake => app m .spCheck
  | .cnt1 => app m .spCnt1
  | .cnt2 _ =>
    (app m (.spCnt2 m.jam)).map fun m1 =>
      let (m2, p) := arrive m1 "tryspawn"; if p then { m2 with parkedSp := true } else m2
  | .computed _ => if m.parkedSp then none else app m .spRead
  | .enter _ => app m .spInit
  | .loop _ _ =>
    (app m .spGen).map fun m1 => if m1.s.workers.length > m.s.workers.length then { m1 with jam := false } else m1
  | .sleep => app m .spSleep
  | .exited => none

def subStep (m : Sim) (i : Nat) : Option Sim :=
  if m.parkedS.contains i then none else
  match m.s.subs[i]? with
  | some sb =>
    match sb.pc with
    | .check =>
      (app m (.sCheck i)).map fun m1 =>
        match (m1.s.subs[i]?).map (·.pc) with
        | some SPc.offer => let (m2, p) := arrive m1 "sched"; if p then { m2 with parkedS := i :: m2.parkedS } else m2
        | _ => m1
    | .offer => app m (.sOffer i (settledFull m && !m.s.qclosed))
    | .token _ => app m (.sToken i)
    | .lcheck => app m (.sLoopCheck i)
    | .dcheck => (app m (.deadline i)).bind fun m1 => app m1 (.sDeadline i)
    | .fin _ => none
  | none => none

def firstSubStep (m : Sim) : List Nat → Option Sim
  | [] => none
  | i :: is => match subStep m i with
    | some m1 => some m1
    | none => firstSubStep m is

def closerStep (m : Sim) : Option Sim :=
  if m.asyncCl && !m.parkedCl && m.s.cl == 1 then app m (.closeQueue (min m.s.queue.length m.c.chanCap)) else none

/-- run internal steps until nothing moves -/
def quiesce : Nat → Sim → Sim
  | 0, m => m
  | fuel + 1, m =>
    match closerStep m with
    | some m1 => quiesce fuel m1
    | none =>
      match firstSubStep m m.asyncS with
      | some m1 => quiesce fuel m1
      | none =>
        match spStep m with
        | some m1 => quiesce fuel m1
        | none =>
          match firstWorkerStep m 0 m.s.workers.length with
          | some m1 => quiesce fuel m1
          | none => m

def fuel0 : Nat := 20000

def showRes : Res → String
  | .ok => "ok" | .full => "full" | .poolClosed => "closed" | .queueClosed => "qclosed" | .timeout => "timeout"

def resOf (m : Sim) (i : Nat) : String :=
  match (m.s.subs[i]?).map (·.pc) with
  | some (SPc.fin r) => showRes r
  | _ => "pending"

/-- run submission `i` in the caller's thread until it returns (or parks) -/
def runSub : Nat → Sim → Nat → Sim
  | 0, m, _ => m
  | fuel + 1, m, i => match subStep m i with
    | some m1 => runSub fuel m1 i
    | none => m

def parseKind (s : String) : Kind :=
  if s == "f" then .fast
  else if s == "g" then .gated
  else if s.startsWith "p" then .pgated ((s.drop 1).toString.toNat!)
  else if s.startsWith "q" then .pnow ((s.drop 1).toString.toNat!)
  else .fast

def insertSorted (x : Nat × Nat) : List (Nat × Nat) → List (Nat × Nat)
  | [] => [x]
  | y :: l => if x.1 < y.1 || (x.1 == y.1 && x.2 ≤ y.2) then x :: y :: l else y :: insertSorted x l

def showState (m : Sim) : String :=
  let n := m.s.subs.length
  let runs := String.join ((List.range n).map fun j => toString (min 9 (m.s.started.count j)))
  let han := (m.s.handlerLog.foldl (fun acc x => insertSorted x acc) []).map fun (j, v) => s!"{j}:{v}"
  s!"n={m.s.count}/{m.s.busy} run={runs} fin={m.s.finished.length} han=[{",".intercalate han}] g=ok"

def newSub (m : Sim) (timed : Bool) (name : Nat) (k : Kind) : Sim × Nat :=
  let i := m.s.subs.length
  match app m (.submit timed) with
  | some m1 => ({ m1 with kinds := m1.kinds ++ [k], names := m1.names ++ [name] }, i)
  | none => (m, i)

/-- one op: (new simulator state, observation) -/
def doOp (m : Sim) (tok : String) : Sim × String :=
  match tok.splitOn ":" with
  | ["s", k, kind] =>
    let (m1, i) := newSub m false k.toNat! (parseKind kind)
    let m2 := quiesce fuel0 (runSub 100 m1 i)
    (m2, s!"s{k}={resOf m2 i}")
  | ["t", k, kind] =>
    let (m1, i) := newSub m true k.toNat! (parseKind kind)
    let m2 := quiesce fuel0 (runSub 100 m1 i)
    (m2, s!"t{k}={resOf m2 i}")
  | ["t", k, kind, _] =>
    -- ScheduleWithTimeout with an explicit timeout (0, tiny, negative): to the model the deadline simply passes
    let (m1, i) := newSub m true k.toNat! (parseKind kind)
    let m2 := quiesce fuel0 (runSub 100 m1 i)
    (m2, s!"t{k}={resOf m2 i}")
  | ["it", k, kind, _] =>
    let (m1, i) := newSub m true k.toNat! (parseKind kind)
    let m2 := quiesce fuel0 (runSub 100 m1 i)
    (m2, s!"it{k}={resOf m2 i}")
  | ["it", k, kind] =>
    -- InvokeWithTimeout = ScheduleWithTimeout of the wrapped callee; its answer is the caller's answer
    let (m1, i) := newSub m true k.toNat! (parseKind kind)
    let m2 := quiesce fuel0 (runSub 100 m1 i)
    (m2, s!"it{k}={resOf m2 i}")
  | ["i", k, kind] =>
    let (m1, i) := newSub m false k.toNat! (parseKind kind)
    let m2 := quiesce fuel0 (runSub 100 m1 i)
    (m2, s!"i{k}")
  | ["as", k, kind] =>
    let (m1, i) := newSub m false k.toNat! (parseKind kind)
    let m2 := quiesce fuel0 { m1 with asyncS := m1.asyncS ++ [i] }
    (m2, s!"as{k}=" ++ (if m2.parkedS.contains i then "parked" else "notparked"))
  | ["j", k] =>
    match idxOf m k.toNat! with
    | some i => if m.asyncS.contains i then (m, s!"j{k}={resOf m i}") else (m, s!"j{k}=pending")
    | none => (m, s!"j{k}=pending")
  | ["r", k] =>
    match idxOf m k.toNat! with
    | some i => let m1 := quiesce fuel0 { m with opened := i :: m.opened }; (m1, s!"r{k}")
    | none => (m, s!"r{k}")
  | ["w", _] => let m1 := quiesce fuel0 m; (m1, showState m1)
  | ["park", pt, n] => (setBudget m pt n.toNat!, "park")
  | ["wp", pt, _] =>
    let cnt := (m.parkedW.filter (·.2 == pt)).length + (if pt == "sched" then m.parkedS.length else 0) +
      (if pt == "tryspawn" && m.parkedSp then 1 else 0) + (if pt == "closeflag" && m.parkedCl then 1 else 0)
    (m, s!"wp={cnt}")
  | ["rel", pt] =>
    let m1 := setBudget m pt 0
    let m1 := { m1 with parkedW := m1.parkedW.filter (·.2 != pt) }
    let m1 := if pt == "sched" then { m1 with parkedS := [] } else m1
    let m1 := if pt == "tryspawn" then { m1 with parkedSp := false } else m1
    let m1 := if pt == "closeflag" then { m1 with parkedCl := false } else m1
    (quiesce fuel0 m1, "rel")
  | ["close"] =>
    if m.s.cl != 0 then (m, "close") else
    match app m .closeFlag with
    | some m1 =>
      let (m1, _) := arrive m1 "closeflag"
      match app m1 (.closeQueue (min m1.s.queue.length m1.c.chanCap)) with
      | some m2 => (quiesce fuel0 m2, "close")
      | none => (m1, "close")
    | none => (m, "close")
  | ["aclose"] =>
    match app m .closeFlag with
    | some m1 =>
      let (m2, p) := arrive m1 "closeflag"
      let m3 := quiesce fuel0 { m2 with asyncCl := true, parkedCl := p }
      (m3, "aclose=" ++ (if p then "parked" else "notparked"))
    | none => (m, "aclose=notparked")
  | ["jclose"] => (m, "jclose=" ++ (if m.s.cl == 2 then "done" else "pending"))
  | ["pre", n] =>
    let target := n.toNat!
    let m1 := (List.range (target - m.s.count)).foldl (fun acc _ =>
      match app acc (.gen target) with
      | some a => if a.s.workers.length > acc.s.workers.length then { a with jam := false } else a
      | none => acc) m
    (quiesce fuel0 m1, "pre")
  | ["hg", k] =>
    -- names a job that may be scheduled later: resolved when the handler runs (index = position of the name)
    ({ m with hwait := some k.toNat! }, "hg")
  | ["hc", n] => ({ m with hcall := n.toNat! }, "hc")
  | ["sy"] => (quiesce fuel0 m, "sy")
  | ["jam", ms] => ({ m with jamMs := ms.toNat!, jam := if ms.toNat! == 0 then false else m.jam }, "jam")
  | ["nh"] => ((app m (.setHandler false)).getD m, "nh")
  | ["sh"] => ((app m (.setHandler true)).getD m, "sh")
  | ["nhs"] =>
    -- SetDefaultWorkerPoolSettings with a nil handler, then every setter again (each calls notifyWorkers)
    let m1 := (app m (.setHandler false)).getD m
    (quiesce fuel0 ((app m1 .notify).getD m1), "nhs")
  | ["hs", _] => (m, "hs")
  | ["exp", ms] => ({ m with expOn := ms.toNat! > 0 && ms.toNat! < 1000 }, "exp")
  | ["sleep", ms] =>
    let m1 := if m.jamMs > 0 && ms.toNat! ≥ 2 * m.jamMs then { m with jam := true } else m
    (m1, "sleep")
  | ["expire", _] =>
    -- one expiry round over the idle workers, in index order
    let m1 := (List.range m.s.workers.length).foldl (fun acc w =>
      if wParked acc w || !acc.armed.contains w then acc else
      match acc.s.workers[w]? with
      | some .sel =>
        match app acc (.wExpire w) with
        | some a =>
          if a.s.workers[w]? == some .gone then
            let a := { a with expiryArr := a.expiryArr + 1 }
            let (a1, p) := arrive a "expiry"
            if p then a1 else (arrive a1 "exit").1
          else { a with jam := false }
        | none => acc
      | _ => acc) m
    let m2 := quiesce fuel0 m1
    (m2, s!"expire={m2.expiryArr}")
  | _ => (m, "bad-op")

def cfgVal (toks : List String) (key : String) (dflt : Nat) : Nat :=
  match toks.find? (fun t => t.startsWith (key ++ "=")) with
  | some t => ((t.drop (key.length + 1)).toString.toNat?).getD dflt
  | none => dflt

def cfgList (toks : List String) (key : String) : List Nat :=
  match toks.find? (fun t => t.startsWith (key ++ "=")) with
  | some t => (((t.drop (key.length + 1)).toString.splitOn ",").filterMap (·.toNat?))
  | none => []

def mkCfg (toks : List String) : Cfg :=
  { max := cfgVal toks "max" 1, standby := cfgVal toks "sb" 1, batch := cfgVal toks "batch" 0,
    chanCap := cfgVal toks "c" 1, buf := cfgVal toks "b" 0, closeQueue := cfgVal toks "cq" 1 == 1,
    atomicExpiry := cfgVal toks "fixed" 1 == 1 }

/-- the pool as the harness builds it: the last setter calls notifyWorkers, the spawn loop brings the pool
    to its standby size -/
def startPool (m : Sim) : Sim := quiesce fuel0 ((app m .notify).getD m)

def trimS (s : String) : String := s.trimAscii.toString

def runSched (head body : String) : String :=
  let toks := (head.splitOn " ").filter (· ≠ "")
  let m0 : Sim := startPool { c := mkCfg toks, jamMs := cfgVal toks "jam" 0 }
  let ops := ((body.splitOn ";").map trimS).filter (· ≠ "")
  let (_, outs) := ops.foldl (fun (acc : Sim × List String) t =>
    let (m, o) := doOp acc.1 t
    (m, o :: acc.2)) (m0, [])
  " | ".intercalate outs.reverse

/-- stress prediction: submit the n jobs one after the other on `step` (all gates open), let the pool run to
    quiescence, and summarise the final state -/
def runStress (line : String) : String :=
  let toks := (line.splitOn " ").filter (· ≠ "")
  let n := cfgVal toks "n" 0
  if cfgVal toks "tiny" 0 == 1 then "ok acc=* ran=acc han=pan closed=ok" else
  let pans := cfgList toks "pan"
  let m0 : Sim := startPool { c := mkCfg toks }
  let m := (List.range n).foldl (fun acc j =>
    let k : Kind := if pans.contains j then .pnow (j % 97 + 1) else .fast
    let (m1, i) := newSub acc false j k
    quiesce fuel0 (runSub 100 m1 i)) m0
  let okAll := (List.range n).all fun j => m.s.started.count j == 1
  if okAll then s!"ok acc={m.s.accepted.length} ran={m.s.finished.length} han={m.s.handlerLog.length} closed=ok"
  else "model-incomplete"

/-- two pools alive at once (A: maxA workers, B: maxB workers, each configured through its own setters), then a
    third pool left at the documented defaults (standby 5, maximum 1000, batch 5).  Pools are independent
    instances of the transition system: n gated jobs on A run min(n, maxA) at a time, each pool's panic goes
    to its own handler, the default pool grows to its standby size on the first job. -/
def runTwoPool (line : String) : String :=
  let toks := (line.splitOn " ").filter (· ≠ "")
  let maxA := cfgVal toks "maxA" 2
  let n := cfgVal toks "n" 6
  let mkSim (mx sb batch : Nat) : Sim :=
    startPool { c := { max := mx, standby := sb, batch := batch, chanCap := 16, buf := 0, closeQueue := true, atomicExpiry := true } }
  let a := (List.range n).foldl (fun acc j =>
    let (m1, i) := newSub acc false j .gated
    quiesce fuel0 (runSub 100 m1 i)) (mkSim maxA maxA 0)
  let pan (m : Sim) (name : Nat) : Sim :=
    let (m1, i) := newSub m false name (.pnow 1)
    quiesce fuel0 (runSub 100 m1 i)
  let a2 := pan (quiesce fuel0 { a with opened := List.range n }) n
  let b := pan (mkSim (cfgVal toks "maxB" 6) (cfgVal toks "maxB" 6) 0) 0
  let c := (fun m => let (m1, i) := newSub m false 0 .fast; quiesce fuel0 (runSub 100 m1 i)) (mkSim 1000 5 5)
  s!"ok gaugeA={a.s.busy} ranA={a2.s.finished.length} hanA={a2.s.handlerLog.length} hanB={b.s.handlerLog.length} countC={c.s.count}"

/-- run `n` jobs (those whose index satisfies `pan` panic at once) one after the other on a pool of `mx` standby
    workers and return the final simulator state -/
def runJobs (mx n : Nat) (pan : Nat → Bool) : Sim :=
  (List.range n).foldl (fun acc j =>
    let (m1, i) := newSub acc false j (if pan j then .pnow 1 else .fast)
    quiesce fuel0 (runSub 100 m1 i))
    (startPool { c := { max := mx, standby := mx, batch := 0, chanCap := 64, buf := 0, closeQueue := true, atomicExpiry := true } })

/-- `defhandler kinds=<k>`: a pool with the default panic handler; k jobs panicking with values of different
    kinds, each followed by an ordinary job: whatever the value, the panic is recovered and reported, the worker
    is replaced and the next job runs — all 2k jobs run once. -/
def runDefHandler (line : String) : String :=
  let k := cfgVal ((line.splitOn " ").filter (· ≠ "")) "kinds" 6
  let m := runJobs 2 (2 * k) (fun j => j % 2 == 0)
  if (List.range (2 * k)).all (fun j => m.s.started.count j == 1) then s!"ok ran={m.s.finished.length} panics={m.s.handlerLog.length} survived"
  else "model-incomplete"

/-- `invoke k=<k> max=<m>`: m gated blockers occupy the workers, k values are invoked with the old callee, SetCallee,
    k more with the new one, then the blockers are released: every accepted job is the closure (callee in force,
    value) and runs exactly once — old callee k calls, new callee k calls. -/
def runInvoke (line : String) : String :=
  let toks := (line.splitOn " ").filter (· ≠ "")
  let k := cfgVal toks "k" 3
  let mx := cfgVal toks "max" 2
  let m := runJobs mx (mx + 2 * k) (fun _ => false)
  if (List.range (mx + 2 * k)).all (fun j => m.s.started.count j == 1) then s!"ok old={k} new={k}"
  else "model-incomplete"

/-- protocol entry point -/
def handle (line : String) : String :=
  if line.startsWith "sched " then
    match (line.drop 6).toString.splitOn ": " with
    | [head, body] => runSched head body
    | [head] => runSched head ""
    | _ => "bad-line"
  else if line.startsWith "stress " then runStress (line.drop 7).toString
  else if line.startsWith "twopool " then runTwoPool (line.drop 8).toString
  else if line.startsWith "defhandler " then runDefHandler (line.drop 11).toString
  else if line.startsWith "invoke " then runInvoke (line.drop 7).toString
  else "bad-line"

/-! ### spec-level judge

    Evaluates the property's own statement on the implementation's observation.  A token of the observation
    that differs from the prediction is a violation when it is about something the property fixes: a
    monitor report (`viol …`), a hang or crash, a Schedule* answer, a job that ran twice, a rejected job that
    ran, an accepted job that did not run within the grace period although the pool was never closed, the
    handler log (`han=`), the concurrency gauge (`g=`).  Other differences (the counters workerCount /
    workerBusy, a job running earlier than predicted, park bookkeeping) are not statements of the property:
    `allowed` (the check then reports `no-failing-input-found`). -/
def field (obs key : String) : String :=
  match ((obs.splitOn " ").filter (·.startsWith (key ++ "="))) with
  | t :: _ => (t.drop (key.length + 1)).toString
  | [] => ""

def hasSub (s sub : String) : Bool := (s.splitOn sub).length > 1

/-- answers of the implementation per job position (creation order): true = the call returned an error -/
def rejectedPositions (ops : List String) (imps : List String) : List Bool :=
  ((ops.zip imps).filter (fun (o, _) => o.startsWith "s:" || o.startsWith "t:" || o.startsWith "i:" || o.startsWith "it:" || o.startsWith "as:")).map
    fun (_, i) => match i.splitOn "=" with
      | [_, r] => r != "ok" && r != "parked" && r != "notparked"
      | _ => false

/-- the case leaves nothing held back at its end: every gated job was released, every park point released,
    the pool never closed — only then "an accepted job has not run" is a statement about the pool -/
def caseComplete (ops : List String) : Bool :=
  let gatedNames := ops.filterMap fun o => match o.splitOn ":" with
    | [c, k, kind] => if (c == "s" || c == "t" || c == "i" || c == "it" || c == "as") && (kind == "g" || kind.startsWith "p") then some k else none
    | _ => none
  let released := ops.filterMap fun o => match o.splitOn ":" with
    | ["r", k] => some k
    | _ => none
  let parks := ops.filterMap fun o => match o.splitOn ":" with
    | ["park", pt, _] => some pt
    | _ => none
  let rels := ops.filterMap fun o => match o.splitOn ":" with
    | ["rel", pt] => some pt
    | _ => none
  gatedNames.all released.contains && parks.all rels.contains &&
    !(ops.any fun o => o == "close" || o == "aclose")

def runVerdict (closedCase : Bool) (rej : List Bool) (exp imp : String) : Option String :=
  let es := exp.toList
  let is := imp.toList
  if is.any (fun d => d != '0' && d != '1') then some s!"a job ran more than once (run counts {imp})"
  else
    let bad := ((es.zip is).zip (rej ++ List.replicate es.length false)).filterMap fun ((e, i), r) =>
      if i == '1' && r then some s!"a rejected job ran (run counts {imp})"
      else if e == '1' && i == '0' && !closedCase then
        some s!"an accepted job did not run within the grace period although the pool is open (run counts {imp}, prescribed {exp})"
      else none
    bad.head?

def judgeTok (closedCase overlap : Bool) (rej : List Bool) (exp imp : String) : Option String :=
  if exp == imp then none
  else if imp.startsWith "n=" && exp.startsWith "n=" then
    match runVerdict closedCase rej (field exp "run") (field imp "run") with
    | some why => some why
    | none =>
      if field imp "han" != field exp "han" && !closedCase then
        some s!"panic handler log {field imp "han"}, the property prescribes {field exp "han"}"
      else if field imp "g" != "ok" then some s!"more than workerSizeMaximum jobs executing at once: gauge {field imp "g"}"
      else none
  else if imp.startsWith "s" || imp.startsWith "t" || imp.startsWith "it" || imp.startsWith "j" then
    -- a call overlapping a Close that has not returned may be answered either way
    let r := ((imp.splitOn "=").drop 1).headD ""
    if overlap && (r == "ok" || r == "closed" || r == "qclosed") then none
    else some s!"answer {imp}, the property prescribes {exp}"
  else none

def judge (line impl : String) : String :=
  let exp := handle line
  if impl == exp then "allowed agrees with the model"
  else if hasSub impl "viol" then s!"violation monitor: {impl}"
  else if impl == "hang" || impl == "crash" || impl == "panic" then s!"violation the pool {impl}s (a job or the harness never returns / the process dies)"
  else if line.startsWith "twopool " then s!"violation two-pool summary {impl}, the property prescribes {exp}"
  else if line.startsWith "defhandler " || line.startsWith "invoke " then
    s!"violation summary {impl}, the property prescribes {exp}"
  else if line.startsWith "stress " then
    if impl.startsWith "note" then "allowed worker bookkeeping differs (not a statement of the property): " ++ impl
    else s!"violation stress summary {impl}, the property prescribes {exp}"
  else
    let body := (((line.drop 6).toString.splitOn ": ").drop 1).headD ""
    let ops := ((body.splitOn ";").map trimS).filter (· ≠ "")
    let closedCase := ops.any (fun o => o == "close" || o == "aclose")
    let es := (exp.splitOn " | ")
    let is := (impl.splitOn " | ")
    if es.length != is.length then s!"violation observation has {is.length} entries for {es.length} operations"
    else
      let rej := rejectedPositions ops is
      -- "not run" is decided on the final observation of a case that holds nothing back; earlier
      -- observations and incomplete cases are judged as if the pool were still busy (closedCase = true)
      let lastN := (List.range es.length).foldl (fun acc k => if (es[k]?.getD "").startsWith "n=" then k else acc) es.length
      let strict := caseComplete ops
      let idx (name : String) : Nat := (List.range ops.length).foldl (fun acc k => if (ops[k]?.getD "") == name && acc == ops.length then k else acc) ops.length
      let a := idx "aclose"
      let b := idx "jclose"
      match ((List.range es.length).zip (es.zip is)).filterMap
          (fun (k, (e, i)) => judgeTok (closedCase || !(strict && k == lastN))
            ((a < k && k < b) || (ops[k]?.getD "").startsWith "j:") rej e i) with
      | why :: _ => s!"violation {why}"
      | [] => "allowed differs only in worker / park bookkeeping or timing the property does not fix"

end FpgoVerif.C09
