import FpgoVerif.Model.C09Sys
namespace FpgoVerif.C09
def handle (_line : String) : String := "unimplemented"
def judge (_line _impl : String) : String := "violation model-and-implementation-disagree"
end FpgoVerif.C09
