/-! C01 — executable model of `maybe.go` (`someDef[T]`, `noneDef`, `Maybe.Just`, `JustGenerics`, `CloneTo`)
    and of the pieces of `fp.go` (`IsNil`, `IsPtr`, `Kind`) and of package `reflect` that it calls.

    * `GoVal` is the universe of Go values the property quantifies over (the *dynamic* content of an
      `interface{}`; a value of a non-interface static type is never `GoVal.nil`).
    * `RV` models `reflect.Value`; every operation returns `Except String _` and throws exactly where
      package `reflect` panics (IsNil on a non-nillable kind, Elem/Interface/Type on the zero Value,
      Set on an unaddressable Value or with a different type) — and where a Go type assertion `x.(T)`
      without comma-ok panics.
    * `MaybeV` is a `MaybeDef[T]` value: `some T ref isNil isPresent` for `someDef[T]`, `none` for the
      singleton `None` (a `noneDef`, which embeds `someDef[interface{}]{nil, true, false}`).  Every method
      mirrors the Go method; for `none` it is either the `noneDef` override or — for the methods `noneDef`
      does not override (`noneOverrides` lists those it does) — the method of the embedded `noneBase`.
    Pointers are addresses into a heap (a `List GoVal`); allocation appends. -/

namespace FpgoVerif.C01

inductive IntK | int | int8 | int16 | int32 | int64 | uint | uint8 | uint16 | uint32 | uint64 | uintptr
  deriving DecidableEq, Repr

/-- struct types whose *pointer* type has methods that `fmt` calls: `node` — a nil-tolerant `String()`, `err` — a
    nil-tolerant `Error()`, `bad` — a `String()` that dereferences its (possibly nil) receiver -/
inductive Named | node | err | bad
  deriving DecidableEq, Repr

/-- Go types of the universe (`maybe t` = the interface `MaybeDef[t]`, `someDef t`/`noneDef` the concrete structs) -/
inductive Ty
  | bool | int (k : IntK) | f32 | f64 | c64 | c128 | string | struct | named (n : Named) | array | slice | map | func | chan | unsafePtr
  | ptr (t : Ty) | any | maybe (t : Ty) | someDef (t : Ty) | noneDef
  deriving DecidableEq, Repr

inductive Kind
  | invalid | bool | int (k : IntK) | f32 | f64 | c64 | c128 | string | struct | array | slice | map | func | chan | unsafePtr
  | ptr | iface
  deriving DecidableEq, Repr

inductive SliceC | nil | empty | elems (k : Int)
  deriving DecidableEq, Repr

inductive GoVal
  | nil                                   -- untyped nil (a nil interface value)
  | bool (b : Bool)
  | int (k : IntK) (n : Int)
  | f32 (bits : String) | f64 (bits : String)     -- IEEE bit pattern, opaque here
  | c64 (k : Int) | c128 (k : Int)        -- complex numbers, payload opaque
  | array (k : Int)                       -- a `[2]int`
  | unsafePtr (c : Option Int)            -- `unsafe.Pointer`, `none` = nil
  | str (hex : String)                    -- bytes, hex encoded
  | struct (k : Int)                      -- comparable struct with opaque payload
  | nstruct (n : Named) (k : Int)         -- a struct of one of the `Named` types (methods on the pointer type)
  | slice (c : SliceC) | map (c : Option Int) | func (c : Option Int) | chan (c : Option Int)   -- `none` = nil
  | ptr (t : Ty) (a : Option Nat)         -- typed pointer to a `t`: nil or an address into the heap
  | some (T : Ty) (ref : GoVal) (isNil isPresent : Bool)   -- a `someDef[T]` struct value (nested Maybe)
  | none                                  -- the value `None`
  deriving DecidableEq, Repr

local notation "Heap" => List GoVal

/-- dynamic type (`reflect.TypeOf`); `none` for the nil interface -/
def typeOf? : GoVal → Option Ty
  | .nil => none
  | .bool _ => some .bool
  | .int k _ => some (.int k)
  | .f32 _ => some .f32
  | .f64 _ => some .f64
  | .c64 _ => some .c64
  | .c128 _ => some .c128
  | .array _ => some .array
  | .unsafePtr _ => some .unsafePtr
  | .str _ => some .string
  | .struct _ => some .struct
  | .nstruct n _ => some (.named n)
  | .slice _ => some .slice
  | .map _ => some .map
  | .func _ => some .func
  | .chan _ => some .chan
  | .ptr t _ => some (.ptr t)
  | .some T _ _ _ => some (.someDef T)
  | .none => some .noneDef

def kindOf : GoVal → Kind
  | .nil => .invalid
  | .bool _ => .bool
  | .int k _ => .int k
  | .f32 _ => .f32
  | .f64 _ => .f64
  | .c64 _ => .c64
  | .c128 _ => .c128
  | .array _ => .array
  | .unsafePtr _ => .unsafePtr
  | .str _ => .string
  | .struct _ => .struct
  | .nstruct _ _ => .struct
  | .slice _ => .slice
  | .map _ => .map
  | .func _ => .func
  | .chan _ => .chan
  | .ptr _ _ => .ptr
  | .some _ _ _ _ => .struct
  | .none => .struct

/-- the zero value `*new(T)` (for `noneDef` — never a pointee in the universe — `None` stands in) -/
def zeroOf : Ty → GoVal
  | .bool => .bool false
  | .int k => .int k 0
  | .f32 => .f32 "00000000"
  | .f64 => .f64 "0000000000000000"
  | .c64 => .c64 0
  | .c128 => .c128 0
  | .array => .array 0
  | .unsafePtr => .unsafePtr none
  | .string => .str ""
  | .struct => .struct 0
  | .named n => .nstruct n 0
  | .slice => .slice .nil
  | .map => .map none
  | .func => .func none
  | .chan => .chan none
  | .ptr t => .ptr t none
  | .any => .nil
  | .maybe _ => .nil
  | .someDef t => .some t (zeroOf t) false false
  | .noneDef => .none

/-! ### package reflect -/

abbrev R := Except String

/-- interface types of the universe -/
def isIfaceTy : Ty → Bool
  | .any => true
  | .maybe _ => true
  | _ => false

/-- `reflect.Value`: the zero Value, a value of a concrete kind, or — obtained through a pointer to an
    interface-typed variable — a Value of kind Interface of static type `t` holding `v` (possibly the nil interface);
    addressable when obtained through a pointer -/
inductive RV
  | zero
  | val (v : GoVal) (addr : Option Nat)
  | iface (t : Ty) (v : GoVal) (addr : Option Nat)
  deriving DecidableEq, Repr

/-- `reflect.ValueOf(i interface{})` -/
def valueOf : GoVal → RV
  | .nil => .zero
  | v => .val v none

def RV.kind : RV → Kind
  | .zero => .invalid
  | .val v _ => kindOf v
  | .iface _ _ _ => .iface

def RV.isValid : RV → Bool
  | .zero => false
  | .val _ _ => true
  | .iface _ _ _ => true

/-- `Value.IsNil`: panics unless the kind is chan, func, interface, map, pointer, slice or unsafe pointer -/
def RV.isNil : RV → R Bool
  | .zero => throw "reflect: call of reflect.Value.IsNil on zero Value"
  | .val (.slice c) _ => pure (c == .nil)
  | .val (.map c) _ => pure c.isNone
  | .val (.func c) _ => pure c.isNone
  | .val (.chan c) _ => pure c.isNone
  | .val (.unsafePtr c) _ => pure c.isNone
  | .val (.ptr _ a) _ => pure a.isNone
  | .iface _ v _ => pure (v == .nil)
  | .val _ _ => throw "reflect: call of reflect.Value.IsNil on a non-nillable Value"

/-- `Value.Elem` of a pointer: the zero Value for a nil pointer, else the (addressable) pointee -/
def RV.elem (h : Heap) : RV → R RV
  | .val (.ptr _ none) _ => pure .zero
  | .val (.ptr t (some a)) _ =>
    match h[a]? with
    | some x => pure (if isIfaceTy t then .iface t x (some a) else .val x (some a))
    | none => throw "model: dangling address"
  | .iface _ v _ => pure (valueOf v)
  | .zero => throw "reflect: call of reflect.Value.Elem on zero Value"
  | .val _ _ => throw "reflect: call of reflect.Value.Elem on a non-pointer Value"

def RV.type : RV → R Ty
  | .zero => throw "reflect: call of reflect.Value.Type on zero Value"
  | .val v _ =>
    match typeOf? v with
    | some t => pure t
    | none => throw "model: interface-kinded Value"
  | .iface t _ _ => pure t

/-- `Value.Interface()`: of a Value of kind Interface, the value inside (nil for the nil interface) -/
def RV.interface : RV → R GoVal
  | .zero => throw "reflect: call of reflect.Value.Interface on zero Value"
  | .val v _ => pure v
  | .iface _ v _ => pure v

/-- does the type assertion / type-switch case `x.(T)` succeed -/
def implementsTy (T : Ty) (v : GoVal) : Bool :=
  match T with
  | .any => v != .nil
  | .maybe U =>
    match v with
    | .some U' _ _ _ => U' == U
    | .none => U == .any
    | _ => false
  | T => typeOf? v == some T

/-- `x.(T)` without comma-ok -/
def assertTy (T : Ty) (v : GoVal) : R GoVal :=
  if implementsTy T v then pure v else throw "interface conversion: wrong dynamic type"

/-- `reflect.New(t)`: pointer to a fresh zero `t` -/
def rvNew (h : Heap) (t : Ty) : Heap × RV := (h ++ [zeroOf t], .val (.ptr t (some h.length)) none)

/-- `dst.Set(src)`: `dst` must be addressable and `src` assignable to its type -/
def RV.set (h : Heap) : RV → RV → R Heap
  | .val d (some a), .val s _ =>
    if typeOf? d = typeOf? s then pure (h.set a s)
    else throw "reflect.Set: value is not assignable"
  | .iface t _ (some a), .val s _ =>
    if implementsTy t s then pure (h.set a s) else throw "reflect.Set: value is not assignable"
  | .iface t _ (some a), .iface t' s _ =>
    if t' = t || implementsTy t s then pure (h.set a s) else throw "reflect.Set: value is not assignable"
  | .val _ (some _), .iface _ _ _ => throw "reflect.Set: value is not assignable"
  | .val _ none, _ => throw "reflect: reflect.Value.Set using unaddressable value"
  | .iface _ _ none, _ => throw "reflect: reflect.Value.Set using unaddressable value"
  | .zero, _ => throw "reflect: call of reflect.Value.Set on zero Value"
  | _, .zero => throw "reflect: call of reflect.Value.Set with zero Value"

/-- `reflect.Indirect` -/
def indirect (h : Heap) (v : RV) : R RV :=
  if v.kind = .ptr then v.elem h else pure v

/-! ### fp.go -/

/-- `fpgo.Kind(obj)` -/
def fpKind (v : GoVal) : Kind := (valueOf v).kind

/-- `fpgo.IsNil(obj)`: `val.IsNil()` if the kind is Ptr, else `!val.IsValid()` -/
def fpIsNil (v : GoVal) : R Bool :=
  let val := valueOf v
  if fpKind v = .ptr then val.isNil else pure (!val.isValid)

/-- `fpgo.IsPtr(obj)` -/
def fpIsPtr (v : GoVal) : Bool := fpKind v = .ptr

/-! ### maybe.go -/

inductive MaybeV
  | some (T : Ty) (ref : GoVal) (isNil isPresent : Bool)
  | none
  deriving DecidableEq, Repr

/-- the `someDef[interface{}]` embedded in `None` -/
def noneBase : MaybeV := .some .any .nil true false

def MaybeV.toVal : MaybeV → GoVal
  | .some T r n p => .some T r n p
  | .none => .none

def asMaybe? : GoVal → Option MaybeV
  | .some T r n p => some (.some T r n p)
  | .none => some .none
  | _ => none

/-- the type parameter `T` of the `MaybeDef[T]` -/
def MaybeV.param : MaybeV → Ty
  | .some T _ _ _ => T
  | .none => .any

/-- the `ref` field (for `None`: of the embedded struct) -/
def MaybeV.ref : MaybeV → GoVal
  | .some _ r _ _ => r
  | .none => .nil

/-- `JustGenerics[T](in)` -/
def justGenerics (T : Ty) (v : GoVal) : R MaybeV := do
  let isNil ← fpIsNil v
  pure (.some T v isNil (!isNil))

/-- `someDef.Just(in)` (`Maybe.Just`) -/
def just (v : GoVal) : R MaybeV := do
  if (← fpIsNil v) then pure .none else justGenerics .any v

/-- the methods `noneDef` overrides; all others are promoted from the embedded `someDef[interface{}]` -/
def noneOverrides : List String :=
  ["Or", "CloneTo", "Clone", "ToString", "ToPtr", "ToMaybe", "ToFloat64", "ToFloat32", "ToInt", "ToInt32", "ToInt64",
   "ToBool", "Let", "Unwrap", "UnwrapInterface", "IsPresent", "IsNil", "IsPtr", "Type", "Kind"]

def MaybeV.isNil : MaybeV → Bool
  | .some _ _ n _ => n
  | .none => true

def MaybeV.isPresent : MaybeV → Bool
  | .some _ _ _ p => p
  | .none => false

def MaybeV.or (m : MaybeV) (d : GoVal) : GoVal :=
  match m with
  | .some _ r n _ => if n then d else r
  | .none => d

def MaybeV.unwrap : MaybeV → GoVal
  | .some _ r _ _ => r
  | .none => .nil

def MaybeV.unwrapInterface : MaybeV → GoVal
  | .some _ r n _ => if n then .nil else r
  | .none => .nil

/-- `Let(fn)`: runs the callback iff `IsPresent()`; `run` is the effect of one call of the callback -/
def MaybeV.letRun {σ} (m : MaybeV) (run : σ → σ) (s : σ) : σ :=
  match m with
  | .some _ _ _ p => if p then run s else s
  | .none => s

/-- `FlatMap(fn)`: `fn(ref)`; not overridden by `noneDef`, so `None.FlatMap(fn) = fn(nil)` -/
def MaybeV.flatMap {α} (m : MaybeV) (fn : GoVal → α) : α :=
  match m with
  | .some _ r _ _ => fn r
  | .none => fn noneBase.ref

def MaybeV.isValid : MaybeV → Bool
  | .some _ r _ _ => (valueOf r).isValid
  | .none => (valueOf noneBase.ref).isValid

def MaybeV.isPtr : MaybeV → Bool
  | .some _ r _ _ => fpIsPtr r
  | .none => false

def MaybeV.kind : MaybeV → Kind
  | .some _ r _ _ => (valueOf r).kind
  | .none => .invalid

/-- `Type()`: `reflect.TypeOf(nil)` (the nil Type) when `IsNil()` -/
def MaybeV.type : MaybeV → Option Ty
  | .some _ r n _ => if n then Option.none else typeOf? r
  | .none => Option.none

/-- the `someDef` method `Type()` on the struct embedded in `None` (what the promoted `IsType` calls) -/
def someType (r : GoVal) (n : Bool) : Option Ty := if n then Option.none else typeOf? r

def MaybeV.isType (m : MaybeV) (t : Option Ty) : Bool :=
  match m with
  | .some _ r n _ => someType r n == t
  | .none => someType .nil true == t

def MaybeV.isKind (m : MaybeV) (k : Kind) : Bool :=
  match m with
  | .some _ r _ _ => (valueOf r).kind == k
  | .none => (valueOf noneBase.ref).kind == k

/-- `CloneTo[T](maybeSelf, dest)` -/
def cloneTo (h : Heap) (T : Ty) (m : MaybeV) (dest : GoVal) : R (Heap × MaybeV) := do
  if m.isNil then
    let r ← justGenerics T m.unwrap
    pure (h, r)
  else
    let x := valueOf m.unwrap
    if x.kind = .ptr then
      let starX ← x.elem h
      let t ← starX.type
      let (h1, y) := rvNew h t
      let starY ← y.elem h1
      let h2 ← RV.set h1 starY starX
      let destValue := valueOf dest
      let useDest ← (if destValue.kind = .ptr then do pure (!(← destValue.isNil)) else pure false)
      if useDest then
        let de ← destValue.elem h2
        let ye ← y.elem h2
        let h3 ← RV.set h2 de ye
        let r ← justGenerics T dest
        pure (h3, r)
      else
        let yi ← y.interface
        let yt ← assertTy T yi
        let r ← justGenerics T yt
        pure (h2, r)
    else
      let xi ← x.interface
      let d ← assertTy T xi
      let r ← justGenerics T d
      pure (h, r)

/-- `Clone()`: `CloneTo(maybeSelf, *new(T))`; `None.Clone()` is `None` -/
def MaybeV.clone (h : Heap) (m : MaybeV) : R (Heap × MaybeV) :=
  match m with
  | .some T _ _ _ => cloneTo h T m (zeroOf T)
  | .none => pure (h, .none)

/-- `ToPtr()`: the result is a `*T` -/
def MaybeV.toPtr (h : Heap) (m : MaybeV) : R (Heap × GoVal) :=
  match m with
  | .none => pure (h, .ptr .any Option.none)
  | .some T r n _ =>
    if fpIsPtr r && !n then do
      let ind ← indirect h (valueOf r)
      let val ← ind.interface
      if typeOf? val = Option.some (.ptr T) then pure (h, val)                       -- case *T
      else if implementsTy T val then pure (h ++ [val], .ptr T (Option.some h.length)) -- case T: result := val.(T); &result
      else pure (h ++ [r], .ptr T (Option.some h.length))                              -- &maybeSelf.ref
    else pure (h ++ [r], .ptr T (Option.some h.length))

/-- `ToMaybe()` -/
def MaybeV.toMaybe (m : MaybeV) : MaybeV :=
  match m with
  | .none => .none
  | .some T r n _ =>
    if n then m
    else if typeOf? r = Option.some (.someDef T) then (asMaybe? r).getD m       -- case someDef[T]
    else if implementsTy (.maybe T) r then (asMaybe? r).getD m            -- case MaybeDef[T] (e.g. None)
    else m

/-- outcome classes of a conversion: `(zero, ErrConversionNil)` or anything else -/
inductive ConvRes | errNil | other
  deriving DecidableEq, Repr

def allConversions : List String :=
  ["ToFloat64", "ToFloat32", "ToInt", "ToInt8", "ToInt16", "ToInt32", "ToInt64", "ToByte", "ToUint", "ToUint8",
   "ToUint16", "ToUint32", "ToUint64", "ToUintptr", "ToBool"]

/-- every `To*` starts with `if maybeSelf.IsNil() { return 0, ErrConversionNil }` and no other path yields
    `ErrConversionNil` (abstracted: the non-nil paths belong to C02) -/
def someConv (_c : String) (n : Bool) : ConvRes := if n then .errNil else .other

def MaybeV.conv (m : MaybeV) (c : String) : ConvRes :=
  match m with
  | .some _ _ n _ => someConv c n
  | .none => if noneOverrides.contains c then .errNil else someConv c true   -- promoted: embedded isNil = true

/-! ### fmt.Sprintf("%v") — only as far as the output is address- and float-free; `none` = not modelled -/

def hexDigit (n : Nat) : Char :=
  if n < 10 then Char.ofNat (48 + n) else Char.ofNat (87 + n)

def hexOfAscii (s : String) : String :=
  String.ofList (s.toList.foldr (fun c acc => hexDigit (c.toNat / 16) :: hexDigit (c.toNat % 16) :: acc) [])

def fmtV (h : Heap) : Nat → GoVal → Option String
  | _, .nil => some (hexOfAscii "<nil>")
  | _, .bool b => some (hexOfAscii (if b then "true" else "false"))
  | _, .int _ n => some (hexOfAscii (toString n))
  | _, .f32 _ => Option.none
  | _, .f64 _ => Option.none
  | _, .c64 _ => Option.none
  | _, .c128 _ => Option.none
  | _, .array k => some (hexOfAscii ("[" ++ toString k ++ " " ++ toString (k + 1) ++ "]"))
  | _, .unsafePtr Option.none => some (hexOfAscii "<nil>")
  | _, .unsafePtr (some _) => Option.none
  | _, .str hx => some hx
  | _, .struct k => some (hexOfAscii ("{" ++ toString k ++ "}"))
  | _, .nstruct _ k => some (hexOfAscii ("{" ++ toString k ++ "}"))    -- the value type has no methods
  | _, .slice .nil => some (hexOfAscii "[]")
  | _, .slice .empty => some (hexOfAscii "[]")
  | _, .slice (.elems k) => some (hexOfAscii ("[" ++ toString k ++ " " ++ toString (k + 1) ++ "]"))
  | _, .map Option.none => some (hexOfAscii "map[]")
  | _, .map (some k) => some (hexOfAscii ("map[k:" ++ toString k ++ "]"))
  | _, .func Option.none => some (hexOfAscii "<nil>")
  | _, .func (some _) => Option.none
  | _, .chan Option.none => some (hexOfAscii "<nil>")
  | _, .chan (some _) => Option.none
  -- fmt calls Error()/String() on the operand itself (depth 0) even when it is a nil pointer: a nil-tolerant
  -- method answers with its own text (a method that panics on the nil receiver is caught: "<nil>")
  | 0, .ptr (.named .node) Option.none => some (hexOfAscii "[]")
  | 0, .ptr (.named .err) Option.none => some (hexOfAscii "no error")
  | _, .ptr _ Option.none => some (hexOfAscii "<nil>")
  | d, .ptr t (some a) =>
    if d = 0 && !isIfaceTy t then
      match h[a]? with
      | some (.struct k) => some (hexOfAscii ("&{" ++ toString k ++ "}"))
      -- a non-nil pointer whose type implements error / Stringer: fmt prints Error() / String()
      | some (.nstruct .node k) => some (hexOfAscii ("[" ++ toString k ++ "]"))
      | some (.nstruct .err k) => some (hexOfAscii ("err" ++ toString k))
      | some (.nstruct .bad k) => some (hexOfAscii ("bad" ++ toString k))
      | some (.array k) => some (hexOfAscii ("&[" ++ toString k ++ " " ++ toString (k + 1) ++ "]"))
      | some (.slice .nil) => some (hexOfAscii "&[]")
      | some (.slice .empty) => some (hexOfAscii "&[]")
      | some (.slice (.elems k)) => some (hexOfAscii ("&[" ++ toString k ++ " " ++ toString (k + 1) ++ "]"))
      | some (.map Option.none) => some (hexOfAscii "&map[]")
      | some (.map (some k)) => some (hexOfAscii ("&map[k:" ++ toString k ++ "]"))
      | _ => Option.none
    else Option.none
  | d, .some _ r n p =>
    match fmtV h (d + 1) r with
    | some s => some (hexOfAscii "{" ++ s ++ hexOfAscii (" " ++ toString n ++ " " ++ toString p ++ "}"))
    | Option.none => Option.none
  | _, .none => some (hexOfAscii "{{<nil> true false}}")

/-- `ToString()` (hex of the result, `none` where `%v` is not modelled) -/
def MaybeV.toStr (h : Heap) (m : MaybeV) : Option String :=
  match m with
  | .none => Option.some (hexOfAscii "<nil>")
  | .some _ r n _ =>
    if n then Option.some (hexOfAscii "<nil>")
    else match r with
      | .int .int k => Option.some (hexOfAscii (toString k))     -- strconv.Itoa
      | .str hx => Option.some hx
      | r => fmtV h 0 r

/-! ### inventory the model assumes (closed against the regenerated `Gen/MaybeInventory.lean` in `Props/C01.lean`) -/

/-- every method of `someDef[T]` — each one is modelled above and exercised by the harness -/
def someDefMethodNames : List String :=
  ["Just", "Or", "Clone", "FlatMap", "ToString", "ToPtr", "ToMaybe"] ++ allConversions ++
  ["Let", "Unwrap", "UnwrapInterface", "IsPresent", "IsNil", "IsValid", "IsPtr", "Type", "Kind", "IsType", "IsKind"]

/-- the bodies of the `noneDef` overrides (each is a single `return`), as the `none` branches above assume them -/
def noneBodies : List (String × String) :=
  [("Or", "or"), ("CloneTo", "None"), ("Clone", "None"), ("ToString", "\"<nil>\""), ("ToPtr", "nil"), ("ToMaybe", "self"),
   ("ToFloat64", "zero,ErrConversionNil"), ("ToFloat32", "zero,ErrConversionNil"), ("ToInt", "zero,ErrConversionNil"),
   ("ToInt32", "zero,ErrConversionNil"), ("ToInt64", "zero,ErrConversionNil"), ("ToBool", "zero,ErrConversionNil"),
   ("Let", "empty"), ("Unwrap", "nil"), ("UnwrapInterface", "nil"), ("IsPresent", "zero"), ("IsNil", "true"),
   ("IsPtr", "zero"), ("Type", "reflect.TypeOf(nil)"), ("Kind", "reflect.Invalid")]

/-- a conversion entry of the regenerated inventory is fine when it starts with the nil guard returning
    `(zero, ErrConversionNil)` and mentions `ErrConversionNil` nowhere else, or is a one-line delegation to such a one -/
def convEntryOK (e : String × String × Nat × String) : Bool :=
  (e.2.1 == "zero,ErrConversionNil" && e.2.2.1 == 1) || (e.2.1 == "none" && e.2.2.1 == 0 && allConversions.contains e.2.2.2)

def sameSet (a b : List String) : Bool := a.all b.contains && b.all a.contains

/-! ### every observer, as one function (what `handle` executes and what `C01_total` quantifies over) -/

/-- `Just(in)` as a method: ignores its receiver (promoted unchanged to `None`) -/
def MaybeV.justM (_m : MaybeV) (x : GoVal) : R MaybeV := just x

/-- the methods of `MaybeDef[T]`, the additional exported `To*` methods of the concrete types (`conv`), and the
    package function `CloneTo`; `α` is the result type of a `FlatMap` callback -/
inductive Observer (α : Type)
  | isNil | isPresent | isValid | isPtr | kind | type | isType (t : Option Ty) | isKind (k : Kind)
  | or (d : GoVal) | letRun | unwrap | unwrapInterface | toString | toPtr | toMaybe | clone | cloneTo (dest : GoVal)
  | just (x : GoVal) | flatMap (f : GoVal → R α) | conv (name : String)

inductive Out (α : Type)
  | bool (b : Bool) | kind (k : Kind) | type (t : Option Ty) | val (v : GoVal) | count (n : Nat)
  | str (s : Option String) | ptr (p : GoVal) | maybe (m : MaybeV) | conv (r : ConvRes) | res (a : α)

def observe {α} (h : Heap) (m : MaybeV) : Observer α → R (Heap × Out α)
  | .isNil => pure (h, .bool m.isNil)
  | .isPresent => pure (h, .bool m.isPresent)
  | .isValid => pure (h, .bool m.isValid)
  | .isPtr => pure (h, .bool m.isPtr)
  | .kind => pure (h, .kind m.kind)
  | .type => pure (h, .type m.type)
  | .isType t => pure (h, .bool (m.isType t))
  | .isKind k => pure (h, .bool (m.isKind k))
  | .or d => pure (h, .val (m.or d))
  | .letRun => pure (h, .count (m.letRun (· + 1) 0))
  | .unwrap => pure (h, .val m.unwrap)
  | .unwrapInterface => pure (h, .val m.unwrapInterface)
  | .toString => pure (h, .str (m.toStr h))
  | .toPtr => do let (h', p) ← m.toPtr h; pure (h', .ptr p)
  | .toMaybe => pure (h, .maybe m.toMaybe)
  | .clone => do let (h', r) ← m.clone h; pure (h', .maybe r)
  | .cloneTo dest => do let (h', r) ← cloneTo h m.param m dest; pure (h', .maybe r)
  | .just x => do let r ← m.justM x; pure (h, .maybe r)
  | .flatMap f => do let r ← m.flatMap f; pure (h, .res r)
  | .conv name => pure (h, .conv (m.conv name))

/-! ### Spec — what property C01 demands, stated on the value `v` alone (no reference to the mechanism) -/

namespace Spec

/-- "absent exactly when v is an untyped nil or a nil pointer" -/
def absent : GoVal → Bool
  | .nil => true
  | .ptr _ Option.none => true
  | _ => false

/-- the two constructors: `Maybe.Just(v)` and `JustGenerics[T](v)` -/
inductive Ctor | just | generics (T : Ty)
  deriving DecidableEq, Repr

/-- the type parameter of the Maybe a constructor returns -/
def Ctor.param : Ctor → Ty
  | .just => .any
  | .generics T => T

/-- the value a Maybe built from `v` wraps: `v` itself, except that `Maybe.Just` maps every absent `v` to the
    singleton `None`, which wraps the untyped nil -/
def wrapped (c : Ctor) (v : GoVal) : GoVal :=
  match c with
  | .just => if absent v then .nil else v
  | .generics _ => v

def isNil (v : GoVal) : Bool := absent v
def isPresent (v : GoVal) : Bool := !absent v
def or (v d : GoVal) : GoVal := if absent v then d else v
def letCount (v : GoVal) : Nat := if absent v then 0 else 1
def unwrapInterface (v : GoVal) : GoVal := if absent v then .nil else v
def type (v : GoVal) : Option Ty := if absent v then Option.none else typeOf? v
def conv (v : GoVal) : ConvRes := if absent v then .errNil else .other
def nilString : String := hexOfAscii "<nil>"

/-- is `v` a Maybe of the instantiation `MaybeDef[T]` (the only nesting `ToMaybe() MaybeDef[T]` can flatten) -/
def innerMaybe? (T : Ty) (v : GoVal) : Option MaybeV :=
  match v with
  | .some T' r n p => if T' = T then Option.some (.some T' r n p) else Option.none
  | .none => if T = .any then Option.some .none else Option.none
  | _ => Option.none

end Spec

/-- the Maybe built from `v` by constructor `c` -/
def mk (c : Spec.Ctor) (v : GoVal) : R MaybeV :=
  match c with
  | .just => just v
  | .generics T => justGenerics T v

end FpgoVerif.C01
