/-! C02 — exact numeric substrate (core-only): two's-complement wrap, an exact model of IEEE-754
    binary32/binary64 values as signed dyadic rationals (Lean's `Float` is opaque to the kernel and is
    not used), round-to-nearest-even to a format, `math.Round` (half away from zero), exact comparison.
    Everything here is validated against the Go runtime by the C02 correspondence. -/
namespace FpgoVerif.C02

/-! ### integers -/

/-- Go integer conversion `T(x)` for `T = [lo, hi]`: reduction modulo `hi - lo + 1` into the range. -/
def wrap (lo hi : Int) (x : Int) : Int := (x - lo) % (hi - lo + 1) + lo

theorem wrap_of_mem (lo hi x : Int) (h1 : lo ≤ x) (h2 : x ≤ hi) : wrap lo hi x = x := by
  unfold wrap
  have : (x - lo) % (hi - lo + 1) = x - lo := Int.emod_eq_of_lt (by omega) (by omega)
  omega

theorem wrap_mem (lo hi x : Int) (h : lo ≤ hi) : lo ≤ wrap lo hi x ∧ wrap lo hi x ≤ hi := by
  unfold wrap
  have h0 := Int.emod_nonneg (x - lo) (by omega : hi - lo + 1 ≠ 0)
  have h1 := Int.emod_lt_of_pos (x - lo) (by omega : 0 < hi - lo + 1)
  omega

theorem wrap_ne_of_not_mem (lo hi x : Int) (hw : lo ≤ hi) (h : ¬ (lo ≤ x ∧ x ≤ hi)) : wrap lo hi x ≠ x := by
  intro heq
  have := wrap_mem lo hi x hw
  omega

/-! ### floats -/

/-- An IEEE value: NaN, ±Inf, or the finite number `(-1)^neg · m / 2^k` (the sign is kept for zero). -/
inductive FVal
  | nan | inf (neg : Bool) | fin (neg : Bool) (m : Nat) (k : Nat)
deriving DecidableEq, Repr, Inhabited

/-- a binary format: precision `p` (significand bits including the hidden one) and exponent field width -/
structure Fmt where
  p : Nat
  ebits : Nat
deriving DecidableEq, Repr

def f32 : Fmt := ⟨24, 8⟩
def f64 : Fmt := ⟨53, 11⟩

def Fmt.bias (f : Fmt) : Nat := 2 ^ (f.ebits - 1) - 1
/-- exponent of the smallest quantum (binary32: -149, binary64: -1074) -/
def Fmt.qmin (f : Fmt) : Int := 1 - (f.bias : Int) - ((f.p : Int) - 1)

/-- ⌊log2 n⌋ for `n ≥ 1` (0 for `n = 0`), structurally recursive on fuel so that the kernel can evaluate it -/
def log2Fuel : Nat → Nat → Nat
  | 0, _ => 0
  | fuel + 1, n => if n < 2 then 0 else log2Fuel fuel (n / 2) + 1

def log2 (n : Nat) : Nat := log2Fuel n n

/-- `2^e` scaling of a natural by an integer exponent, split into numerator and denominator factors -/
def scale (num den : Nat) (e : Int) : Nat × Nat :=
  if e ≥ 0 then (num, den * 2 ^ e.toNat) else (num * 2 ^ (-e).toNat, den)

/-- `num / den` rounded to the nearest integer, ties to even (`den > 0`) -/
def divRNE (num den : Nat) : Nat :=
  let q := num / den
  let r := num % den
  if 2 * r > den ∨ (2 * r = den ∧ q % 2 = 1) then q + 1 else q

/-- ⌊log2 (num/den)⌋ for `num, den ≥ 1` -/
def ratLog2 (num den : Nat) : Int :=
  let e0 : Int := (log2 num : Int) - (log2 den : Int)
  -- 2^(e0-1) < num/den < 2^(e0+1)
  let (a, b) := scale num den e0        -- a/b = num/den / 2^e0
  if a ≥ b then e0 else e0 - 1

/-- `± m / 2^k` with common factors of two removed (integers get `k = 0`) -/
def normFin (neg : Bool) : Nat → Nat → FVal
  | m, 0 => .fin neg m 0
  | m, k + 1 => if m % 2 = 0 then normFin neg (m / 2) k else .fin neg m (k + 1)

/-- The value `± num/den` rounded to the nearest value of format `f`, ties to even; overflow gives ±Inf.
    (IEEE-754 roundTiesToEven: what Go does for `float32(x)`, `float64(x)`, for an integer constant
    converted to a float type, and what `strconv.ParseFloat` returns.) -/
def roundRat (f : Fmt) (neg : Bool) (num den : Nat) : FVal :=
  if num = 0 then .fin neg 0 0 else
  let e := ratLog2 num den
  let q : Int := max (e - ((f.p : Int) - 1)) f.qmin      -- exponent of the quantum
  let (a, b) := scale num den q                          -- a/b = (num/den) / 2^q
  let n := divRNE a b
  if q ≥ 0 then
    let v := n * 2 ^ q.toNat
    if v ≥ 2 ^ (f.bias + 1) then .inf neg else .fin neg v 0
  else normFin neg n (-q).toNat

/-- round a finite dyadic `± m / 2^k` to format `f` -/
def roundNE (f : Fmt) (neg : Bool) (m k : Nat) : FVal := roundRat f neg m (2 ^ k)

/-- an integer converted to format `f` -/
def ofInt (f : Fmt) (z : Int) : FVal := roundNE f (decide (z < 0)) z.natAbs 0

/-- `float32(x)` for a float64 `x` / identity on the specials -/
def FVal.roundTo (f : Fmt) : FVal → FVal
  | .nan => .nan
  | .inf s => .inf s
  | .fin s m k => roundNE f s m k

/-- decode an IEEE bit pattern -/
def decode (f : Fmt) (bits : Nat) : FVal :=
  let mb := f.p - 1
  let sign := decide ((bits / 2 ^ (mb + f.ebits)) % 2 = 1)
  let ex := (bits / 2 ^ mb) % 2 ^ f.ebits
  let man := bits % 2 ^ mb
  if ex = 2 ^ f.ebits - 1 then (if man = 0 then .inf sign else .nan)
  else
    let (mant, e) : Nat × Int := if ex = 0 then (man, f.qmin) else (man + 2 ^ mb, (ex : Int) - (f.bias : Int) - (mb : Int))
    if e ≥ 0 then .fin sign (mant * 2 ^ e.toNat) 0 else .fin sign mant (-e).toNat

/-- encode a value that is representable in `f` (results of `roundNE f`, decoded inputs); NaN is canonical -/
def encode (f : Fmt) : FVal → Nat
  | .nan => (2 ^ f.ebits - 1) * 2 ^ (f.p - 1) + 2 ^ (f.p - 2)
  | .inf s => (if s then 2 ^ (f.p - 1 + f.ebits) else 0) + (2 ^ f.ebits - 1) * 2 ^ (f.p - 1)
  | .fin s m k =>
    let sb := if s then 2 ^ (f.p - 1 + f.ebits) else 0
    if m = 0 then sb else
    let e := ratLog2 m (2 ^ k)
    let emin : Int := 1 - (f.bias : Int)
    if e < emin then
      -- subnormal: m/2^k = man · 2^qmin
      let (a, b) := scale m (2 ^ k) f.qmin
      sb + a / b
    else
      let (a, b) := scale m (2 ^ k) (e - ((f.p : Int) - 1))   -- a/b = significand with p bits
      sb + (e - emin + 1).toNat * 2 ^ (f.p - 1) + (a / b - 2 ^ (f.p - 1))

/-- signed numerator of a finite value -/
def sgn (neg : Bool) (m : Nat) : Int := if neg then -(m : Int) else (m : Int)

/-- `x ≤ y` as IEEE comparison (false when either is NaN) -/
def FVal.le : FVal → FVal → Bool
  | .nan, _ => false
  | _, .nan => false
  | .inf s, .inf t => s || !t
  | .inf s, .fin .. => s
  | .fin .., .inf t => !t
  | .fin s m k, .fin t n j => decide (sgn s m * 2 ^ j ≤ sgn t n * 2 ^ k)

/-- `x < y` as IEEE comparison -/
def FVal.lt : FVal → FVal → Bool
  | .nan, _ => false
  | _, .nan => false
  | .inf s, .inf t => s && !t
  | .inf s, .fin .. => s
  | .fin .., .inf t => !t
  | .fin s m k, .fin t n j => decide (sgn s m * 2 ^ j < sgn t n * 2 ^ k)

/-- `x != 0` -/
def FVal.ne0 : FVal → Bool
  | .fin _ m _ => decide (m ≠ 0)
  | _ => true

def FVal.isNaN : FVal → Bool | .nan => true | _ => false
def FVal.isInf : FVal → Bool | .inf _ => true | _ => false

/-- `m / 2^k` rounded to the nearest integer, ties away from zero (magnitude) -/
def rhaNat (m k : Nat) : Nat := (m + 2 ^ k / 2) / 2 ^ k

/-- Go's `math.Round`: nearest integer, halves away from zero; NaN, ±Inf and the sign of zero are kept -/
def FVal.round : FVal → FVal
  | .fin s m k => .fin s (rhaNat m k) 0
  | x => x

/-- the mathematical integer `math.Round` yields for a finite value -/
def roundHalfAway (neg : Bool) (m k : Nat) : Int := sgn neg (rhaNat m k)

/-- truncation toward zero (Go's float→integer conversion) -/
def truncInt (neg : Bool) (m k : Nat) : Int := sgn neg (m / 2 ^ k)

end FpgoVerif.C02
