import FpgoVerif.Model.C02IR
import FpgoVerif.Model.C02Num
/-! C02 — executable model (core-only).

  * `conv` — the evaluator of the *extracted* conversion table (`Gen.convTable`, regenerated from
    `maybe.go` on every run) with Go's exact semantics: integer casts wrap, an integer constant compared
    with a float is first rounded to that float type (ties to even), a float→integer cast is defined
    only when the truncated value is in range (otherwise the distinguished `garbage`), `math.Round`
    is round-half-away-from-zero, `strconv` is the function `goStrconv` written from its documentation.
  * `specOK` — the property's own statement, clause by clause, as a decidable predicate on
    (target, source value, result).  `judge` evaluates `specOK` on the observation of the real code;
    the theorems of `Props/C02.lean` prove `specOK` of `conv`'s result for every input.
  * `handle` / `judge` — the line protocol. -/
namespace FpgoVerif.C02

/-! ### values and results -/

inductive Val
  | i (z : Int)            -- a value of some integer type (always inside that type's range)
  | f32 (x : FVal) | f64 (x : FVal)
  | b (x : Bool) | s (w : String)
  | nil | unsup            -- an absent value / a value of an unsupported kind
  | garbage                -- implementation-defined result (out-of-range float→int cast), untranslatable code
deriving DecidableEq, Repr, Inhabited

/-- the returned error: `ok` is Go's `nil` error -/
inductive ErrK | ok | nilE | unsupported | overflow | other | garbage
deriving DecidableEq, Repr, Inhabited

/-- Go returns both a value and an error -/
structure Res where
  val : Val
  err : ErrK
deriving DecidableEq, Repr, Inhabited

def Res.garbage : Res := ⟨.garbage, .garbage⟩

/-! ### types -/

def p63 : Int := 9223372036854775808
def p64 : Int := 18446744073709551616

/-- actual range of the integer types (64-bit platform: `int`, `uint`, `uintptr` have 64 bits) -/
def Ty.range : Ty → Option (Int × Int)
  | .int => some (-p63, p63 - 1) | .int8 => some (-128, 127) | .int16 => some (-32768, 32767)
  | .int32 => some (-2147483648, 2147483647) | .int64 => some (-p63, p63 - 1)
  | .uint => some (0, p64 - 1) | .uint8 => some (0, 255) | .uint16 => some (0, 65535)
  | .uint32 => some (0, 4294967295) | .uint64 => some (0, p64 - 1) | .uintptr => some (0, p64 - 1)
  | _ => none

/-- range in which the property demands success: the portable 32-bit range for `int` / `uint` -/
def Ty.must : Ty → Option (Int × Int)
  | .int => some (-2147483648, 2147483647)
  | .uint => some (0, 4294967295)
  | t => t.range

def Ty.fmt : Ty → Option Fmt
  | .float32 => some f32 | .float64 => some f64 | _ => none

/-- largest finite value of a format (an integer) -/
def Fmt.maxFinite (f : Fmt) : Nat := (2 ^ f.p - 1) * 2 ^ (f.bias + 1 - f.p)

/-! ### evaluation of the IR -/

def castTo (t : Ty) (v : Val) : Val :=
  match t.range with
  | some (lo, hi) =>
    match v with
    | .i z => .i (wrap lo hi z)
    | .f32 (.fin s m k) | .f64 (.fin s m k) =>
      let z := truncInt s m k
      if lo ≤ z ∧ z ≤ hi then .i z else .garbage
    | _ => .garbage
  | none =>
    match t, v with
    | .float32, .i z => .f32 (ofInt f32 z)
    | .float32, .f32 x => .f32 x
    | .float32, .f64 x => .f32 (x.roundTo f32)
    | .float64, .i z => .f64 (ofInt f64 z)
    | .float64, .f32 x => .f64 x            -- exact: every binary32 value is a binary64 value
    | .float64, .f64 x => .f64 x
    | .bool, .b x => .b x
    | _, _ => .garbage

def evalE (v : Val) : E → Val
  | .v => v
  | .lit z => .i z
  | .blit x => .b x
  | .cast t e => castTo t (evalE v e)
  | .round e => match evalE v e with
    | .f64 x => .f64 x.round
    | _ => .garbage
  | .ne0 e => match evalE v e with
    | .i z => .b (decide (z ≠ 0))
    | .f32 x | .f64 x => .b x.ne0
    | _ => .garbage
  | .untranslatable _ => .garbage

/-- comparison `a ≤ b` / `a < b` of two Go values of the same type; an untyped integer constant takes the
    type of the other operand (so it is first *rounded* to that float type) -/
def cmpV (strict : Bool) (a b : Val) : Option Bool :=
  let c (x y : FVal) := if strict then x.lt y else x.le y
  match a, b with
  | .i x, .i y => some (if strict then decide (x < y) else decide (x ≤ y))
  | .f32 x, .f32 y => some (c x y)
  | .f64 x, .f64 y => some (c x y)
  | .f32 x, .i z => some (c x (ofInt f32 z))
  | .i z, .f32 y => some (c (ofInt f32 z) y)
  | .f64 x, .i z => some (c x (ofInt f64 z))
  | .i z, .f64 y => some (c (ofInt f64 z) y)
  | _, _ => none

def evalC (v : Val) : C → Option Bool
  | .le a b => cmpV false (evalE v a) (evalE v b)
  | .ge a b => cmpV false (evalE v b) (evalE v a)
  | .lt a b => cmpV true (evalE v a) (evalE v b)
  | .gt a b => cmpV true (evalE v b) (evalE v a)
  | .and c d => match evalC v c with
    | some true => evalC v d
    | r => r
  | .or c d => match evalC v c with
    | some false => evalC v d
    | r => r
  | .truth e => match evalE v e with
    | .b x => some x
    | _ => none
  | .isInf e => match evalE v e with
    | .f64 x => some x.isInf
    | _ => none
  | .isNaN e => match evalE v e with
    | .f64 x => some x.isNaN
    | _ => none
  | .untranslatable _ => none

def errOf (e : Err) (fromCall : ErrK) : ErrK :=
  match e with
  | .nil => .ok | .fromCall => fromCall | .overflow => .overflow | .unsupported => .unsupported
  | .nilErr => .nilE | .untranslatable _ => .garbage

def evalR (v : Val) (fromCall : ErrK) (r : R) : Res := ⟨evalE v r.e, errOf r.err fromCall⟩

/-- one `case` body, given the results of the calls it may make -/
def evalBody (call : Src → Res) (x : Val) : Body → Res
  | .ident => ⟨x, .ok⟩
  | .ret r => evalR .garbage .ok r
  | .bind s none t _ => let r0 := call s; evalR r0.val r0.err t
  | .bind s (some g) t (some f) =>
    let r0 := call s
    match evalC r0.val g with
    | some true => evalR r0.val r0.err t
    | some false => evalR r0.val r0.err f
    | none => Res.garbage
  | .bind _ (some _) _ none => Res.garbage
  | .direct s => call s
  | .untranslatable _ => Res.garbage

/-- the clause the type switch selects: the `nil` prelude row for an absent value, the row of the dynamic
    type if there is one, otherwise `default` -/
def lookup (tbl : List Case) (tgt : Ty) (k : Kind) : Body :=
  match tbl.find? (fun c => c.tgt == tgt && c.src == k) with
  | some c => c.body
  | none =>
    match tbl.find? (fun c => c.tgt == tgt && c.src == Kind.dflt) with
    | some c => c.body
    | none => .untranslatable "no default clause"

/-! ### strconv, written from its documentation -/

structure Strconv where
  parseInt : Nat → String → Res
  parseUint : Nat → String → Res
  parseFloat : Nat → String → Res
  atoi : String → Res
  parseBool : String → Res

def digitsVal : List Char → Option Nat
  | [] => none
  | cs => cs.foldl (fun acc c => match acc with
      | none => none
      | some n => if c.isDigit then some (n * 10 + (c.toNat - 48)) else none) (some 0)

/-- base-10 integer syntax of `strconv.ParseInt`: optional sign, at least one digit, nothing else -/
def intSyntax (w : String) : Option Int :=
  match w.toList with
  | '+' :: cs => (digitsVal cs).map fun n => (n : Int)
  | '-' :: cs => (digitsVal cs).map fun n => -(n : Int)
  | cs => (digitsVal cs).map fun n => (n : Int)

/-- `strconv.ParseInt(w, 10, bits)`: the value if it fits `bits`, otherwise an error together with the
    nearest bound (range error) or 0 (syntax error) -/
def goParseInt (bits : Nat) (w : String) : Res :=
  match intSyntax w with
  | none => ⟨.i 0, .other⟩
  | some z =>
    let lo : Int := -(2 ^ (bits - 1) : Nat)
    let hi : Int := (2 ^ (bits - 1) : Nat) - 1
    if z < lo then ⟨.i lo, .other⟩ else if z > hi then ⟨.i hi, .other⟩ else ⟨.i z, .ok⟩

/-- `strconv.ParseUint(w, 10, bits)`: no sign allowed -/
def goParseUint (bits : Nat) (w : String) : Res :=
  match digitsVal w.toList with
  | none => ⟨.i 0, .other⟩
  | some n =>
    let hi : Int := (2 ^ bits : Nat) - 1
    if (n : Int) > hi then ⟨.i hi, .other⟩ else ⟨.i n, .ok⟩

def lower (cs : List Char) : List Char := cs.map Char.toLower

/-- decimal floating-point syntax: `[+-] digits [. digits] [e [+-] digits]` (at least one mantissa digit):
    sign, mantissa `N` (all digits, as a number), number of mantissa digits, decimal exponent -/
def decimalSyntax (w : String) : Option (Bool × Nat × Nat × Int) :=
  let cs := w.toList
  let (neg, cs) := match cs with
    | '-' :: r => (true, r)
    | '+' :: r => (false, r)
    | r => (false, r)
  let ip := cs.takeWhile Char.isDigit
  let r1 := cs.dropWhile Char.isDigit
  let (fp, r2) := match r1 with
    | '.' :: r => (r.takeWhile Char.isDigit, r.dropWhile Char.isDigit)
    | r => ([], r)
  let man := ip ++ fp
  if man.isEmpty then none else
  let n := man.foldl (fun a c => a * 10 + (c.toNat - 48)) 0
  match r2 with
  | [] => some (neg, n, man.length, -(fp.length : Int))
  | e :: r =>
    if e = 'e' ∨ e = 'E' then
      let (eneg, ds) := match r with
        | '-' :: d => (true, d)
        | '+' :: d => (false, d)
        | d => (false, d)
      match digitsVal ds with
      | none => none
      | some x => some (neg, n, man.length, (if eneg then -(x : Int) else (x : Int)) - (fp.length : Int))
    else none

/-- the exact rational `num/den` denoted by a decimal string, if its exponent is moderate -/
def decimalRat (w : String) : Option (Bool × Nat × Nat) :=
  match decimalSyntax w with
  | none => none
  | some (neg, n, _, e) =>
    if e ≥ 0 then (if e ≤ 5000 then some (neg, n * 10 ^ e.toNat, 1) else none)
    else (if e ≥ -5000 then some (neg, n, 10 ^ (-e).toNat) else none)

/-- an optional sign: (negative, a sign was written, the rest) -/
def signSplit (cs : List Char) : Bool × Bool × List Char :=
  match cs with
  | '-' :: r => (true, true, r)
  | '+' :: r => (false, true, r)
  | r => (false, false, r)

/-- the result for a numeral whose exact value is `± num/den`: the nearest value of the format (ties to even);
    ±Inf together with a range error when that overflows -/
def parseRounded (f : Fmt) (neg : Bool) (num den : Nat) : Res :=
  match roundRat f neg num den with
  | .inf s => ⟨.f64 (.inf s), .other⟩
  | x => ⟨.f64 x, .ok⟩

/-- `strconv.ParseFloat(w, bits)`: a decimal numeral is rounded to the nearest value of the format (`parseRounded`
    of its exact rational value `decimalRat w`); numerals with absurd exponents (|e| > 5000, outside `decimalRat`)
    overflow / underflow; "inf", "infinity", "nan" spellings; everything else is a syntax error.  Hexadecimal
    floats and `_` separators are not modelled (reported as syntax errors; the generators do not produce them). -/
def goParseFloat (bits : Nat) (w : String) : Res :=
  let f := if bits = 32 then f32 else f64
  match decimalRat w with
  | some (s, n, d) => parseRounded f s n d
  | none =>
    match decimalSyntax w with
    | some (neg, n, len, e) =>
      -- 10^e ≤ value < 10^(len+e), |e| > 5000
      if n = 0 then ⟨.f64 (.fin neg 0 0), .ok⟩
      else if e > 0 then ⟨.f64 (.inf neg), .other⟩
      else if (len : Int) + e < -400 then ⟨.f64 (.fin neg 0 0), .ok⟩
      else parseRounded f neg n (10 ^ (-e).toNat)
    | none =>
      let t := signSplit w.toList
      let lb := lower t.2.2
      if lb = "inf".toList ∨ lb = "infinity".toList then ⟨.f64 (.inf t.1), .ok⟩
      else if lb = "nan".toList ∧ !t.2.1 then ⟨.f64 .nan, .ok⟩
      else ⟨.f64 (.fin false 0 0), .other⟩

def goParseBool (w : String) : Res :=
  if w = "1" ∨ w = "t" ∨ w = "T" ∨ w = "TRUE" ∨ w = "true" ∨ w = "True" then ⟨.b true, .ok⟩
  else if w = "0" ∨ w = "f" ∨ w = "F" ∨ w = "FALSE" ∨ w = "false" ∨ w = "False" then ⟨.b false, .ok⟩
  else ⟨.b false, .other⟩

def goStrconv : Strconv where
  parseInt := goParseInt
  parseUint := goParseUint
  parseFloat := goParseFloat
  atoi := goParseInt 64
  parseBool := goParseBool

/-! ### the evaluator of the extracted table -/

def strOf : Val → String
  | .s w => w
  | _ => ""

/-- `maybeSelf.To<tgt>()` on a wrapped value `x` whose dynamic type selects clause `k`.  `fuel` bounds the
    depth of sibling calls (the code's call graph has depth ≤ 3; running out of fuel is `garbage`). -/
def conv (sc : Strconv) (tbl : List Case) : Nat → Ty → Kind → Val → Res
  | 0, _, _, _ => Res.garbage
  | fuel + 1, tgt, k, x =>
    evalBody (fun s => match s with
      | .self m => conv sc tbl fuel m k x
      | .parseInt bits => sc.parseInt bits (strOf x)
      | .parseUint bits => sc.parseUint bits (strOf x)
      | .parseFloat bits => sc.parseFloat bits (strOf x)
      | .atoi => sc.atoi (strOf x)
      | .parseBool => sc.parseBool (strOf x)
      | .untranslatable _ => Res.garbage) x (lookup tbl tgt k)

def convFuel : Nat := 6

/-! ### Spec: the property's clauses -/

/-- the mathematical integer a source value denotes for an integer target: itself, 1/0 for a bool,
    a finite float rounded half away from zero; NaN and ±Inf denote none -/
def exactInt : Val → Option Int
  | .i z => some z
  | .b x => some (if x then 1 else 0)
  | .f32 (.fin s m k) | .f64 (.fin s m k) => some (roundHalfAway s m k)
  | _ => none

/-- `lo ≤ x ≤ hi` as real numbers -/
def fitsInt (lo hi : Int) : Val → Bool
  | .i z => decide (lo ≤ z ∧ z ≤ hi)
  | .b _ => decide (lo ≤ 0 ∧ 1 ≤ hi)
  | .f32 (.fin s m k) | .f64 (.fin s m k) => decide (lo * 2 ^ k ≤ sgn s m ∧ sgn s m ≤ hi * 2 ^ k)
  | _ => false

/-- nearest representable value of a float target -/
def exactFloat (f : Fmt) : Val → Option FVal
  | .i z => some (ofInt f z)
  | .b x => some (ofInt f (if x then 1 else 0))
  | .f32 x => some x                 -- every binary32 value is a value of both float types
  | .f64 x => some (if f = f64 then x else x.roundTo f)
  | _ => none

/-- a finite number of magnitude ≤ the largest finite value of the format -/
def fitsFloat (f : Fmt) : Val → Bool
  | .i z => decide (z.natAbs ≤ f.maxFinite)
  | .b _ => true
  | .f32 (.fin _ m k) | .f64 (.fin _ m k) => decide (m ≤ f.maxFinite * 2 ^ k)
  | _ => false

/-- equality of float results as numbers: the sign of zero is ignored -/
def sameFloat : FVal → FVal → Bool
  | .fin s m k, .fin t n j => decide (m * 2 ^ j = n * 2 ^ k) && (decide (m = 0) || s == t)
  | .nan, .nan => true
  | .inf s, .inf t => s == t
  | _, _ => false

def FVal.isFin : FVal → Bool | .fin .. => true | _ => false

def floatOf : Val → Option FVal
  | .f32 x | .f64 x => some x
  | _ => none

/-- is the result value a value of the target type -/
def valOfTy (t : Ty) (v : Val) : Bool :=
  match t, v with
  | .float32, .f32 _ => true
  | .float64, .f64 _ => true
  | .bool, .b _ => true
  | t, .i z => match t.range with
    | some (lo, hi) => decide (lo ≤ z ∧ z ≤ hi)
    | none => false
  | _, _ => false

def isSigned : Ty → Bool
  | .int | .int8 | .int16 | .int32 | .int64 => true
  | _ => false

def allDigits (cs : List Char) : Bool := !cs.isEmpty && cs.all Char.isDigit

/-- canonical decimal integer numerals, for which clause (b) is demanded: digits, or `-`digits for a signed target -/
def canonicalInt (signedTarget : Bool) (w : String) : Bool :=
  match w.toList with
  | '-' :: cs => signedTarget && allDigits cs
  | cs => allDigits cs

def rhaRat (neg : Bool) (num den : Nat) : Int := sgn neg ((2 * num + den) / (2 * den))

/-- The property, clause by clause, for a numeric source value `x` (bool, integer, float) and the result `r`
    of converting it to target `tgt`. -/
def specNum (tgt : Ty) (x : Val) (r : Res) : Bool :=
  match tgt.range, tgt.must, tgt.fmt with
  | some (lo, hi), some (mlo, mhi), _ =>
    -- (a)+(c): a nil error comes with exactly the mathematical integer, which is inside the type's range
    (r.err != .ok || (match exactInt x with
        | some z => r.val == .i z && decide (lo ≤ z ∧ z ≤ hi)
        | none => false)) &&
    -- (b): a value that fits converts successfully
    (!fitsInt mlo mhi x || r.err == .ok)
  | _, _, some f =>
    (r.err != .ok || (match exactFloat f x, floatOf r.val with
        | some e, some y => valOfTy tgt r.val && sameFloat e y &&
            -- (c): a finite source never becomes ±Inf with a nil error
            (!(match floatOf x with | some s => s.isFin | none => true) || y.isFin)
        | _, _ => false)) &&
    (!fitsFloat f x || r.err == .ok)
  | _, _, _ =>
    -- ToBool: exactly (value != 0), never an error
    match tgt, x with
    | .bool, .i z => r == ⟨.b (decide (z ≠ 0)), .ok⟩
    | .bool, .f32 v | .bool, .f64 v => r == ⟨.b v.ne0, .ok⟩
    | .bool, .b v => r.err != .ok || r.val == .b v
    | _, _ => true

/-- clause (b) applies to a string: a canonical decimal numeral whose value lies in the must-succeed range -/
def mustStr (signedTarget : Bool) (mlo mhi : Int) (w : String) : Bool :=
  canonicalInt signedTarget w && (match intSyntax w with
    | some z => decide (mlo ≤ z ∧ z ≤ mhi)
    | none => false)

/-- strings with float syntax whose meaning the Spec leaves open: decimal syntax with an absurd exponent (no
    `decimalRat`), hexadecimal floats and `_` digit separators (not modelled) -/
def leftOpen (w : String) : Bool :=
  (decimalSyntax w).isSome || w.toList.any (fun c => c == 'x' || c == 'X' || c == 'p' || c == 'P' || c == '_')

/-- The property for a string source `w`: the numeric meaning of a string is given by the decimal grammar. -/
def specStr (tgt : Ty) (w : String) (r : Res) : Bool :=
  match tgt.range, tgt.must, tgt.fmt with
  | some (lo, hi), some (mlo, mhi), _ =>
    (r.err != .ok || (match intSyntax w with
        | some z => r.val == .i z && decide (lo ≤ z ∧ z ≤ hi)
        | none => match decimalRat w with      -- e.g. "1e2": not demanded, but not wrong either
          | some (s, n, d) => r.val == .i (rhaRat s n d) && decide (lo ≤ rhaRat s n d ∧ rhaRat s n d ≤ hi)
          | none => false)) &&
    (!mustStr (isSigned tgt) mlo mhi w || r.err == .ok)
  | _, _, some f =>
    match decimalRat w with
    | some (s, n, d) =>
      (r.err != .ok || (match floatOf r.val with
        | some y => valOfTy tgt r.val && sameFloat (roundRat f s n d) y && y.isFin
        | none => false)) &&
      (!decide (n ≤ f.maxFinite * d) || r.err == .ok)
    | none =>
      -- "inf"/"nan" spellings convert to ±Inf/NaN; absurd exponents and the unmodelled hexadecimal / `_` forms are
      -- left open; anything else is not a number at all ("abc", "", "1 2"): it must not come back as a finite value
      -- with a nil error (a swallowed parse error would invent a number)
      leftOpen w || r.err != .ok || (match floatOf r.val with | some y => !y.isFin | none => false)
  | _, _, _ => true       -- ToBool of a string is outside the property

/-- The whole property for one conversion. -/
def specOK (tgt : Ty) (k : Kind) (x : Val) (r : Res) : Bool :=
  match k, x with
  | .dflt, _ => r.err == .unsupported            -- unsupported kinds fail with ErrConversionUnsupported
  | .nil, _ => r.err != .ok                      -- an absent value never converts (C01 demands ErrConversionNil)
  | .ty .string, .s w => specStr tgt w r
  | .ty _, x => specNum tgt x r
  | .other _, _ => true

/-! ### line protocol -/

def tyTok : Ty → String
  | .int => "i" | .int8 => "i8" | .int16 => "i16" | .int32 => "i32" | .int64 => "i64"
  | .uint => "u" | .uint8 => "u8" | .uint16 => "u16" | .uint32 => "u32" | .uint64 => "u64" | .uintptr => "up"
  | .float32 => "f32" | .float64 => "f64" | .bool => "b" | .string => "s"

def tokTy (s : String) : Option Ty :=
  [Ty.int, .int8, .int16, .int32, .int64, .uint, .uint8, .uint16, .uint32, .uint64, .uintptr, .float32, .float64,
   .bool, .string].find? (fun t => tyTok t == s)

def hexDigit (c : Char) : Option Nat :=
  if c.isDigit then some (c.toNat - 48)
  else if 'a' ≤ c ∧ c ≤ 'f' then some (c.toNat - 87)
  else if 'A' ≤ c ∧ c ≤ 'F' then some (c.toNat - 55)
  else none

def hexNat (cs : List Char) : Option Nat :=
  if cs.isEmpty then none else
  cs.foldl (fun acc c => match acc, hexDigit c with
    | some n, some d => some (n * 16 + d)
    | _, _ => none) (some 0)

def hexBytes : List Char → Option (List Char)
  | [] => some []
  | a :: b :: r => match hexDigit a, hexDigit b, hexBytes r with
    | some x, some y, some rest => some (Char.ofNat (x * 16 + y) :: rest)
    | _, _, _ => none
  | _ => none

def toHex (n : Nat) (width : Nat) : String :=
  let ds := (Nat.toDigits 16 n)
  String.ofList (List.replicate (width - ds.length) '0' ++ ds)

/-- a typed value token: `i8:-1`, `u64:18446744073709551615`, `f64:x41e65a0bc0000000`, `f32:nan`, `b:1`,
    `s:<hex bytes>`, `nil`, `unsup:<kind>` -/
def parseTok (tok : String) : Option (Kind × Val) :=
  if tok = "nil" then some (.nil, .nil) else
  match tok.splitOn ":" with
  | [k, p] =>
    if k = "unsup" then some (.dflt, .unsup) else
    if k = "nil" then some (.nil, .nil) else
    match tokTy k with
    | none => none
    | some t =>
      match t with
      | .float32 | .float64 =>
        let f := if t = .float32 then f32 else f64
        let x : Option FVal := if p = "nan" then some .nan else
          match p.toList with
          | 'x' :: h => (hexNat h).map (decode f)
          | _ => none
        x.map fun x => (.ty t, if t = .float32 then .f32 x else .f64 x)
      | .bool => if p = "1" then some (.ty t, .b true) else if p = "0" then some (.ty t, .b false) else none
      | .string => (hexBytes p.toList).map fun cs => (.ty t, .s (String.ofList cs))
      | _ =>
        match p.toInt?, t.range with
        | some z, some (lo, hi) => if lo ≤ z ∧ z ≤ hi then some (.ty t, .i z) else none
        | _, _ => none
  | _ => none

def showVal (t : Ty) (v : Val) : String :=
  match t, v with
  | .float32, .f32 x => if x.isNaN then "f32:nan" else "f32:x" ++ toHex (encode f32 x) 8
  | .float64, .f64 x => if x.isNaN then "f64:nan" else "f64:x" ++ toHex (encode f64 x) 16
  | .bool, .b x => if x then "b:1" else "b:0"
  | t, .i z => if valOfTy t (.i z) then tyTok t ++ ":" ++ toString z else "garbage"
  | _, _ => "garbage"

def showRes (t : Ty) (r : Res) : String :=
  match r.err with
  | .ok => "ok " ++ showVal t r.val
  | .nilE => "err nil"
  | .unsupported => "err unsupported"
  | .overflow => "err overflow"
  | .other => "err other"
  | .garbage => "garbage"

end FpgoVerif.C02
