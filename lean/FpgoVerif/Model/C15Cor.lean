import FpgoVerif.Model.C15Core
/-! C15 — a target coroutine that finishes while callers YieldFrom it (cor.go after 147cf9b).

    caller.YieldFrom(t, x):  t.receive(caller, x) = t.doCloseSafe{ t.opCh <- op }:
                             ⟨r0: t.closedM.Lock(); t.IsDone() → Unlock, return zero⟩
                             ⟨r1: t.opCh <- (caller, x) — blocks while 5 are pending, HOLDING t.closedM; Unlock⟩
                             ⟨w: y := <-caller.resultCh⟩
    t.YieldRef(y):           ⟨g1: op := <-t.opCh⟩ ⟨g2: op.cor.doCloseSafe{ op.cor.resultCh <- y }; return op.val⟩
    effect returns, close(): ⟨gc0: isClosed.Set(true)⟩ ⟨gc1: (repaired code: close(doneCh))⟩
                             ⟨gc2: closedM.Lock(); close(resultCh); close(opCh); Unlock⟩
                             ⟨gc3 (repaired code): for op := range opCh { answer zero }⟩
    `fixed = true` is cor.go as it is now (after cb38847): r1 is `select { case opCh <- op: … case <-doneCh: }`
    (both ready: either, by `choice`) and close() answers what is left in opCh with zero.  `fixed = false` is the code before cb38847 (the send at
    r1 has no way out, accepted-but-unserved requests are never answered), kept for the refutation theorems.
    Callers are coroutine objects that never finish themselves (their resultCh is never closed). -/

namespace FpgoVerif.C15.Co

inductive Kind | r0 | r1 | w | isd | g1 | g2 | gc0 | gc1 | gc2 | gc3
deriving DecidableEq, Repr

inductive PC
  | r0 (id x : Nat) | r1 (id x : Nat) | w (id : Nat) | isd
  | g1 (y : Nat) | g2 (y id x : Nat) | gc0 | gc1 | gc2 | gc3
deriving DecidableEq, Repr

def kind : PC → Kind
  | .r0 _ _ => .r0 | .r1 _ _ => .r1 | .w _ => .w | .isd => .isd
  | .g1 _ => .g1 | .g2 _ _ _ => .g2 | .gc0 => .gc0 | .gc1 => .gc1 | .gc2 => .gc2 | .gc3 => .gc3

structure St where
  cap : Nat
  fixed : Bool
  gflag : Bool := false
  doneClosed : Bool := false
  opClosed : Bool := false
  opCh : List (Nat × Nat) := []
  answers : List (Nat × Nat) := []
  nextId : Nat := 1
  gIdle : Bool := true
  retStarted : Bool := false
  closeDone : Bool := false
  panic : Bool := false
  late : Nat := 0
  cnt : Kind → Nat := fun _ => 0

def init (cap : Nat) (fixed : Bool) : St := { cap := cap, fixed := fixed }

def step (s : St) (choice : Bool) : PC → Option (St × Next PC)
  | .r0 id x =>
    if s.cnt .r1 ≠ 0 then none                                -- closedM held by a sender
    else if s.gflag then some (s, .fin (.okv 0))
    else some ({ s with late := if s.closeDone then s.late + 1 else s.late }, .at (.r1 id x))
  | .r1 id x =>
    if s.opClosed then some ({ s with panic := true }, .fin .panic)
    -- `select`: with doneCh closed the escape is ready; when opCh has room too, Go picks either (`choice`)
    else if s.fixed && s.doneClosed && (choice || !decide (s.opCh.length < s.cap)) then some (s, .fin (.okv 0))
    else if s.opCh.length < s.cap then some ({ s with opCh := s.opCh ++ [(id, x)] }, .at (.w id))
    else none
  | .w id =>
    match s.answers.find? (·.1 == id) with
    | some (_, y) => some ({ s with answers := s.answers.eraseP (·.1 == id) }, .fin (.okv y))
    | none => none
  | .isd => some (s, .fin (.b s.gflag))
  | .g1 y =>
    match s.opCh with
    | (id, x) :: rest => some ({ s with opCh := rest }, .at (.g2 y id x))
    | [] => none
  | .g2 y id x => some ({ s with answers := s.answers ++ [(id, y)], gIdle := true }, .fin (.okv x))
  | .gc0 => some ({ s with gflag := true }, .at .gc1)
  | .gc1 => some ({ s with doneClosed := s.fixed }, .at .gc2)
  | .gc2 =>
    if s.cnt .r1 ≠ 0 then none
    else if s.opClosed then some ({ s with panic := true }, .fin .panic)
    else if s.fixed then some ({ s with opClosed := true }, .at .gc3)
    else some ({ s with opClosed := true, closeDone := true }, .fin .ok)
  | .gc3 =>
    match s.opCh with
    | (id, _) :: rest => some ({ s with opCh := rest, answers := s.answers ++ [(id, 0)] }, .at .gc3)
    | [] => some ({ s with closeDone := true }, .fin .ok)

def move (c : Kind → Nat) (src : Kind) : Next PC → Kind → Nat
  | .at pc' => updK (updK c src (c src - 1)) (kind pc') (updK c src (c src - 1) (kind pc') + 1)
  | .fin _ => updK c src (c src - 1)

def gstep (s : St) (pc : PC) (choice : Bool) : Option (St × Next PC) :=
  if s.cnt (kind pc) = 0 then none else
  match step s choice pc with
  | none => none
  | some (s', nx) => some ({ s' with cnt := move s'.cnt (kind pc) nx }, nx)

def inc (s : St) (k : Kind) : St := { s with cnt := updK s.cnt k (s.cnt k + 1) }

/-- a caller begins YieldFrom (fresh request id), or the target's effect calls YieldRef / returns -/
def spawn (s : St) : PC → Option St
  | .r0 id _ => if id = s.nextId then some { inc s .r0 with nextId := s.nextId + 1 } else none
  | .isd => some (inc s .isd)
  | .g1 _ => if s.gIdle && !s.retStarted then some { inc s .g1 with gIdle := false } else none
  | .gc0 => if s.gIdle && !s.retStarted then some { inc s .gc0 with gIdle := false, retStarted := true } else none
  | _ => none

inductive Reach (cap : Nat) (fixed : Bool) : St → Prop
  | init : Reach cap fixed (init cap fixed)
  | spawn {s s'} (pc : PC) : Reach cap fixed s → spawn s pc = some s' → Reach cap fixed s'
  | step {s s' nx} (pc : PC) (ch : Bool) : Reach cap fixed s → gstep s pc ch = some (s', nx) → Reach cap fixed s'

def point : PC → Option String
  | .r0 _ _ => some "cor.closesafe.beforeLock"
  | .r1 _ _ => some "cor.receive.beforeSend"
  | .w _ => some "cor.yieldfrom.beforeResult"
  | .g2 _ _ _ => some "cor.yieldref.afterRecv"
  | .gc1 => some "cor.close.afterFlag"
  | _ => none

def startOp (s : St) (op : String) : Option PC :=
  match op.splitOn ":" with
  | ["yf", x] => x.toNat?.map (.r0 s.nextId)
  | ["isdone"] => some .isd
  | ["yr", y] => y.toNat?.map .g1
  | ["ret"] => some .gc0
  | _ => none

def kidx : Kind → Nat
  | .r0 => 0
  | .r1 => 1
  | .w => 2
  | .isd => 3
  | .g1 => 4
  | .g2 => 5
  | .gc0 => 6
  | .gc1 => 7
  | .gc2 => 8
  | .gc3 => 9
def allKinds : List Kind := [.r0, .r1, .w, .isd, .g1, .g2, .gc0, .gc1, .gc2, .gc3]
/-- the same state with the counter function re-tabulated (see `compact_eq`) -/
def compact (s : St) : St := { s with cnt := let t := allKinds.map s.cnt; fun k => tblGet t (kidx k) }
theorem compact_eq (s : St) : compact s = s := by
  have : (let t := allKinds.map s.cnt; fun k => tblGet t (kidx k)) = s.cnt := by
    funext k; cases k <;> rfl
  simp only [compact, this]

def ops : Ops St PC where
  gstep := gstep
  spawn := spawn
  point := point
  startOp := startOp
  openGate := id
  summary := fun _ => "fin"
  compact := compact

/-- the thread `G` exists from the start (harness: the coroutine is started when the case begins) -/
def exec0 : Exec St PC := { sh := init 5 true, ths := [{ name := "G" }] }

def handleLine (_params : List String) (steps : List String) : String := Exec.run ops exec0 steps

end FpgoVerif.C15.Co
