import FpgoVerif.Model.C01Maybe
/-! C01 — line protocol over the model of `Model/C01Maybe.lean`: token decoding, canonical rendering, the
    operation interpreter (`handle`) and the spec-level oracle (`judge`).
    Case line:  `<ctor> <ty> <value> <fallback>: <op> ; <op> ; …`   (see harness/c01.go). -/

namespace FpgoVerif.C01

local notation "Heap" => List GoVal

/-! ### names -/

def intKName : IntK → String
  | .int => "i" | .int8 => "i8" | .int16 => "i16" | .int32 => "i32" | .int64 => "i64"
  | .uint => "u" | .uint8 => "u8" | .uint16 => "u16" | .uint32 => "u32" | .uint64 => "u64" | .uintptr => "up"

def intKOfName? : String → Option IntK
  | "i" => some .int | "i8" => some .int8 | "i16" => some .int16 | "i32" => some .int32 | "i64" => some .int64
  | "u" => some .uint | "u8" => some .uint8 | "u16" => some .uint16 | "u32" => some .uint32 | "u64" => some .uint64
  | "up" => some .uintptr | _ => none

def tyName : Ty → String
  | .bool => "b" | .int k => intKName k | .f32 => "f32" | .f64 => "f64" | .string => "s" | .struct => "st"
  | .c64 => "c64" | .c128 => "c128" | .array => "ar" | .unsafePtr => "usp"
  | .named .node => "nd" | .named .err => "er" | .named .bad => "bd"
  | .slice => "sl" | .map => "mp" | .func => "fn" | .chan => "ch" | .ptr t => "p:" ++ tyName t | .any => "any"
  | .maybe t => "M:" ++ tyName t | .someDef t => "some:" ++ tyName t | .noneDef => "noneDef"

/-- type name → type, from the `:`-separated components -/
def tyOfParts : List String → Option Ty
  | [] => none
  | ["nd"] => some (.named .node) | ["er"] => some (.named .err) | ["bd"] => some (.named .bad)
  | ["c64"] => some .c64 | ["c128"] => some .c128 | ["ar"] => some .array | ["usp"] => some .unsafePtr
  | ["b"] => some .bool | ["f32"] => some .f32 | ["f64"] => some .f64 | ["s"] => some .string | ["st"] => some .struct
  | ["sl"] => some .slice | ["mp"] => some .map | ["fn"] => some .func | ["ch"] => some .chan | ["any"] => some .any
  | [x] => (intKOfName? x).map Ty.int
  | "p" :: rest => (tyOfParts rest).map Ty.ptr
  | "M" :: rest => (tyOfParts rest).map Ty.maybe
  | _ => none

def tyOfName? (s : String) : Option Ty := tyOfParts (s.splitOn ":")

def goKindName : Kind → String
  | .invalid => "invalid" | .bool => "bool"
  | .int .int => "int" | .int .int8 => "int8" | .int .int16 => "int16" | .int .int32 => "int32" | .int .int64 => "int64"
  | .int .uint => "uint" | .int .uint8 => "uint8" | .int .uint16 => "uint16" | .int .uint32 => "uint32"
  | .int .uint64 => "uint64" | .int .uintptr => "uintptr"
  | .c64 => "complex64" | .c128 => "complex128" | .array => "array" | .unsafePtr => "unsafe.Pointer"
  | .f32 => "float32" | .f64 => "float64" | .string => "string" | .struct => "struct" | .slice => "slice"
  | .map => "map" | .func => "func" | .chan => "chan" | .ptr => "ptr" | .iface => "interface"

def allKinds : List Kind :=
  [.invalid, .bool, .int .int, .int .int8, .int .int16, .int .int32, .int .int64, .int .uint, .int .uint8, .int .uint16,
   .int .uint32, .int .uint64, .int .uintptr, .f32, .f64, .c64, .c128, .array, .unsafePtr, .string, .struct, .slice, .map, .func, .chan, .ptr, .iface]

def kindOfName? (s : String) : Option Kind := allKinds.find? (fun k => goKindName k == s)

/-! ### decoding value tokens -/

def inner (tok : String) (pre : Nat) : String := ((tok.drop pre).dropEnd 1).toString

/-- static type of a value token -/
def tokTy : Nat → String → Option Ty
  | 0, _ => none
  | f + 1, tok =>
    if tok == "nil" then some .any
    else if tok == "none" || tok.startsWith "just(" || tok.startsWith "ja(" then some (.maybe .any)
    else if tok.startsWith "jg(" then (tokTy f (inner tok 3)).map Ty.maybe
    else if tok.startsWith "pa(" then some (.ptr .any)
    else if tok.startsWith "p(" then (tokTy f (inner tok 2)).map Ty.ptr
    else if tok.startsWith "np:" then (tyOfName? (tok.drop 3).toString).map Ty.ptr
    else match tok.splitOn ":" with
      | x :: _ => tyOfName? x
      | _ => none

def payload (tok : String) : String :=
  match tok.splitOn ":" with
  | _ :: p :: _ => p
  | _ => ""

/-- token → value (allocating pointees); nested Maybe tokens are built with the model's own constructors -/
def decode : Nat → Heap → String → R (Heap × GoVal)
  | 0, _, _ => throw "decode: out of fuel"
  | f + 1, h, tok =>
    if tok == "nil" then pure (h, .nil)
    else if tok == "none" then pure (h, .none)
    else if tok.startsWith "just(" then do
      let (h, v) ← decode f h (inner tok 5)
      let m ← just v
      pure (h, m.toVal)
    else if tok.startsWith "ja(" then do
      let (h, v) ← decode f h (inner tok 3)
      let m ← justGenerics .any v
      pure (h, m.toVal)
    else if tok.startsWith "jg(" then do
      let (h, v) ← decode f h (inner tok 3)
      match tokTy (f + 1) (inner tok 3) with
      | some T =>
        let m ← justGenerics T v
        pure (h, m.toVal)
      | none => throw "decode: bad type"
    else if tok.startsWith "pa(" then do
      let (h, v) ← decode f h (inner tok 3)
      pure (h ++ [v], .ptr .any (some h.length))
    else if tok.startsWith "p(" then do
      let (h, v) ← decode f h (inner tok 2)
      match tokTy (f + 1) (inner tok 2) with
      | some t => pure (h ++ [v], .ptr t (some h.length))
      | none => throw "decode: bad type"
    else if tok.startsWith "np:" then
      match tyOfName? (tok.drop 3).toString with
      | some t => pure (h, .ptr t none)
      | none => throw "decode: bad type"
    else
      let p := payload tok
      match (tok.splitOn ":").head? with
      | some "b" => pure (h, .bool (p == "1"))
      | some "f32" => pure (h, .f32 (p.drop 1).toString)
      | some "f64" => pure (h, .f64 (p.drop 1).toString)
      | some "s" => pure (h, .str (p.drop 1).toString)
      | some "st" => pure (h, .struct p.toInt!)
      | some "nd" => pure (h, .nstruct .node p.toInt!)
      | some "er" => pure (h, .nstruct .err p.toInt!)
      | some "bd" => pure (h, .nstruct .bad p.toInt!)
      | some "c64" => pure (h, .c64 p.toInt!)
      | some "c128" => pure (h, .c128 p.toInt!)
      | some "ar" => pure (h, .array p.toInt!)
      | some "usp" => pure (h, .unsafePtr (if p == "nil" then none else some p.toInt!))
      | some "sl" => pure (h, .slice (if p == "nil" then .nil else if p == "e" then .empty else .elems p.toInt!))
      | some "mp" => pure (h, .map (if p == "nil" then none else some p.toInt!))
      | some "fn" => pure (h, .func (if p == "nil" then none else some p.toInt!))
      | some "ch" => pure (h, .chan (if p == "nil" then none else some p.toInt!))
      | some k =>
        match intKOfName? k with
        | some ik => pure (h, .int ik p.toInt!)
        | none => throw "decode: bad token"
      | none => throw "decode: bad token"

/-! ### canonical rendering (identical to harness/c01.go) -/

def bstr (b : Bool) : String := if b then "t" else "f"

def render (h : Heap) : Nat → GoVal → String
  | 0, _ => "?fuel"
  | f + 1, v =>
    match v with
    | .nil => "nil"
    | .bool b => if b then "b:1" else "b:0"
    | .int k n => intKName k ++ ":" ++ toString n
    | .f32 b => "f32:x" ++ b
    | .f64 b => "f64:x" ++ b
    | .str hx => "s:x" ++ hx
    | .struct k => "st:" ++ toString k
    | .nstruct n k => tyName (.named n) ++ ":" ++ toString k
    | .c64 k => "c64:" ++ toString k
    | .c128 k => "c128:" ++ toString k
    | .array k => "ar:" ++ toString k
    | .unsafePtr none => "usp:nil"
    | .unsafePtr (some k) => "usp:" ++ toString k
    | .slice .nil => "sl:nil"
    | .slice .empty => "sl:e"
    | .slice (.elems k) => "sl:" ++ toString k
    | .map none => "mp:nil"
    | .map (some k) => "mp:" ++ toString k
    | .func none => "fn:nil"
    | .func (some k) => "fn:" ++ toString k
    | .chan none => "ch:nil"
    | .chan (some k) => "ch:" ++ toString k
    | .ptr t none => "np:" ++ tyName t
    | .ptr _ (some a) =>
      match h[a]? with
      | some x => "p(" ++ render h f x ++ ")"
      | none => "p(?dangling)"
    | .some T r n p => "M[" ++ tyName T ++ "](" ++ bstr n ++ bstr p ++ " " ++ render h f r ++ ")"
    | .none => "None"

def rnd (h : Heap) (v : GoVal) : String := render h (h.length + 64) v

/-- identity of a pointer result relative to the constructor argument and the fallback / destination -/
def ident (res v fb : GoVal) : String :=
  match res with
  | .ptr _ (some _) => if res = v then "same" else if res = fb then "fb" else "fresh"
  | _ => "-"

def showVal (h : Heap) (r v fb : GoVal) : String := rnd h r ++ " " ++ ident r v fb

def showMaybe (h : Heap) (m : MaybeV) (v fb : GoVal) : String := rnd h m.toVal ++ " " ++ ident m.unwrap v fb

/-! ### operations -/

structure Env where
  h : Heap
  m : MaybeV
  T : Ty
  v : GoVal
  fb : GoVal
  fbtok : String

abbrev L := StateT (List GoVal) R

/-- the callbacks of the harness: each records its argument, then returns a Maybe -/
def flatFn (T : Ty) (fb : GoVal) (name : String) : Option (GoVal → L MaybeV) :=
  let rec_ (x : GoVal) : L Unit := modify (· ++ [x])
  match name with
  | "ret" => some fun x => do rec_ x; liftM (justGenerics T x)
  | "k" => some fun x => do rec_ x; liftM (justGenerics T fb)
  | "just" => some fun x => do rec_ x; liftM (just x)
  | "none" => some fun x => do rec_ x; pure .none
  | "nest" => some fun x => do
      rec_ x
      let i ← liftM (just x)
      liftM (just i.toVal)
  | _ => none
where liftM {α} (r : R α) : L α := fun s => r.map (·, s)

def convName? (op : String) : Bool := allConversions.contains op

def splitOp (op : String) : String × String :=
  match op.splitOn ":" with
  | [] => ("", "")
  | n :: rest => (n, ":".intercalate rest)

def showArgs (e : Env) (log : List GoVal) : String :=
  ",".intercalate (log.map fun x => showVal e.h x e.v e.fb)

/-- result type of the harness callbacks: the returned Maybe and the log of arguments they were called with -/
abbrev FR := MaybeV × List GoVal

/-- op token → observer (`none`: not a single observer — `Assoc` — or malformed) -/
def parseObserver (e : Env) (name arg : String) : R (Option (Heap × Observer FR)) :=
  match name with
  | "IsNil" => pure (some (e.h, .isNil))
  | "IsPresent" => pure (some (e.h, .isPresent))
  | "IsValid" => pure (some (e.h, .isValid))
  | "IsPtr" => pure (some (e.h, .isPtr))
  | "Kind" => pure (some (e.h, .kind))
  | "Type" => pure (some (e.h, .type))
  | "IsType" =>
    if arg == "own" then pure (some (e.h, .isType (typeOf? e.v)))
    else if arg == "nil" then pure (some (e.h, .isType none))
    else pure ((tyOfName? arg).map fun t => (e.h, .isType (some t)))
  | "IsKind" =>
    if arg == "own" then pure (some (e.h, .isKind (valueOf e.v).kind))
    else pure ((kindOfName? arg).map fun k => (e.h, .isKind k))
  | "Or" => pure (some (e.h, .or e.fb))
  | "Let" => pure (some (e.h, .letRun))
  | "Unwrap" => pure (some (e.h, .unwrap))
  | "UnwrapInterface" => pure (some (e.h, .unwrapInterface))
  | "ToString" => pure (some (e.h, .toString))
  | "ToPtr" => pure (some (e.h, .toPtr))
  | "ToMaybe" => pure (some (e.h, .toMaybe))
  | "Clone" => pure (some (e.h, .clone))
  | "CloneTo" => do
    -- the destination is built afresh for this call (`CloneTo` writes through it)
    let (h0, dest) ← (if arg == "fb" then decode (e.fbtok.length + 1) e.h e.fbtok else pure (e.h, zeroOf e.T))
    pure (some (h0, .cloneTo dest))
  | "Just" => pure (some (e.h, .just (if arg == "v" then e.v else if arg == "fb" then e.fb else .nil)))
  | "FlatMap" => pure ((flatFn e.T e.fb arg).map fun f => (e.h, .flatMap fun x => (f x).run []))
  | _ => pure (if convName? name then some (e.h, .conv name) else none)

def showOut (e : Env) (h : Heap) (o : Observer FR) : Out FR → String
  | .bool b => bstr b
  | .kind k => "K:" ++ goKindName k
  | .type t => "T:" ++ (match t with | some t => tyName t | none => "nil")
  | .val r => showVal h r e.v e.fb
  | .count n => "n=" ++ toString n
  | .str s => (match s with | some s => "S:" ++ s | none => "S:*")
  | .ptr p =>
    match p with
    | .ptr _ (some a) =>
      match h[a]? with
      | some r => "ptr(" ++ rnd h r ++ ") " ++ ident r e.v e.fb
      | none => "ptr(?dangling)"
    | _ => "nilptr"
  | .maybe r =>
    match o with
    | .cloneTo dest => showMaybe h r e.v dest ++ " dest=" ++ rnd h dest
    | _ => showMaybe h r e.v e.fb
  | .conv r => (match r with | .errNil => "errnil" | .other => "other")
  | .res (r, log) => "c=" ++ toString log.length ++ " a=[" ++ showArgs e log ++ "] r=" ++ showMaybe h r e.v e.fb

def runOp (e : Env) (op : String) : R (Env × String) := do
  let (name, arg) := splitOp op
  let m := e.m
  match ← parseObserver e name arg with
  | some (h0, o) =>
    let (h, out) ← observe h0 m o
    pure ({ e with h := h }, showOut e h o out)
  | none =>
    if name == "Assoc" then
      match arg.splitOn ":" with
      | [fn, gn] =>
        match flatFn e.T e.fb fn, flatFn e.T e.fb gn with
        | some f, some g => do
          let (l, la) ← (do let r1 ← m.flatMap f; r1.flatMap g : L MaybeV).run []
          let (r, ra) ← (m.flatMap (fun x => do let r1 ← f x; r1.flatMap g) : L MaybeV).run []
          pure (e, "L=" ++ showMaybe e.h l e.v e.fb ++ " [" ++ showArgs e la ++ "] R=" ++ showMaybe e.h r e.v e.fb
                   ++ " [" ++ showArgs e ra ++ "]")
        | _, _ => pure (e, "bad-op")
      | _ => pure (e, "bad-op")
    else pure (e, "bad-op")

def runOps (e : Env) : List String → List String → List String
  | [], acc => acc.reverse
  | op :: rest, acc =>
    match runOp e op with
    | .ok (e', o) => runOps e' rest (o :: acc)
    | .error _ => runOps e rest ("panic" :: acc)

structure Case where
  ctor : String
  c : Spec.Ctor
  T : Ty              -- type parameter of the Maybe
  vtok : String
  fbtok : String
  ops : List String

def parseCase (line : String) : Option Case :=
  match line.splitOn ": " with
  | head :: rest =>
    let body := ": ".intercalate rest
    match (head.splitOn " ").filter (· ≠ "") with
    | [ctor, ty, vtok, fbtok] =>
      let ops := ((body.splitOn ";").map (fun t => t.trimAscii.toString)).filter (· ≠ "")
      match ctor, tyOfName? ty with
      | "just", some _ => some ⟨ctor, .just, .any, vtok, fbtok, ops⟩
      | "ja", some _ => some ⟨ctor, .generics .any, .any, vtok, fbtok, ops⟩
      | "jg", some T => some ⟨ctor, .generics T, T, vtok, fbtok, ops⟩
      | _, _ => none
    | _ => none
  | _ => none

def buildEnv (cs : Case) : R Env := do
  let (h, v) ← decode (cs.vtok.length + 1) [] cs.vtok
  let m ← mk cs.c v
  let (h, fb) ← decode (cs.fbtok.length + 1) h cs.fbtok
  pure ⟨h, m, cs.T, v, fb, cs.fbtok⟩

/-- protocol entry point -/
def handle (line : String) : String :=
  match parseCase line with
  | none => "bad-case"
  | some cs =>
    match buildEnv cs with
    | .error _ => " | ".intercalate (cs.ops.map fun _ => "panic")
    | .ok e => " | ".intercalate (runOps e cs.ops [])

/-! ### spec-level oracle: the property's own statement evaluated on the decoded value -/

/-- how the Maybe the property describes for `(c, v)` is printed -/
def specShowMaybe (h : Heap) (c : Spec.Ctor) (v fb : GoVal) (identOverride : Option String) : String :=
  let idt := identOverride.getD (ident (Spec.wrapped c v) v fb)
  match c with
  | .just => if Spec.absent v then "None -"
             else "M[any](" ++ bstr false ++ bstr true ++ " " ++ rnd h v ++ ") " ++ idt
  | .generics T => "M[" ++ tyName T ++ "](" ++ bstr (Spec.absent v) ++ bstr (!Spec.absent v) ++ " " ++ rnd h v ++ ") " ++ idt

/-- The property does not fix how an absent Maybe is represented (`None`, `someDef{nil,true,false}` and
    `someDef{(*T)(nil),true,false}` are observationally equal, `C01_absent_obsEq`): before Maybe-valued results are
    compared, every rendering of an absent Maybe (`None`, `M[..](tf ..)`) is replaced by `ABSENT`. -/
def skipBalanced : Nat → Nat → List Char → List Char
  | 0, _, cs => cs
  | _, _, [] => []
  | f + 1, d, c :: cs =>
    if c = '(' then skipBalanced f (d + 1) cs
    else if c = ')' then (if d ≤ 1 then cs else skipBalanced f (d - 1) cs)
    else skipBalanced f d cs

def normAbsentL : Nat → List Char → List Char
  | 0, cs => cs
  | _, [] => []
  | f + 1, 'N' :: 'o' :: 'n' :: 'e' :: cs => "ABSENT".toList ++ normAbsentL f cs
  | f + 1, ']' :: '(' :: 't' :: 'f' :: ' ' :: cs => "]ABSENT".toList ++ normAbsentL f (skipBalanced (cs.length + 1) 1 cs)
  | f + 1, c :: cs => c :: normAbsentL f cs

/-- second pass: `M[<ty>]ABSENT` → `ABSENT` (the type parameter of an absent Maybe is not an observation) -/
def dropTyL : Nat → List Char → List Char
  | 0, cs => cs
  | _, [] => []
  | f + 1, 'M' :: '[' :: cs =>
    let ty := cs.takeWhile (· ≠ ']')
    let rest := cs.dropWhile (· ≠ ']')
    if "]ABSENT".toList.isPrefixOf rest then dropTyL f (rest.drop 1) else 'M' :: '[' :: dropTyL f cs
  | f + 1, c :: cs => c :: dropTyL f cs

def normAbsent (s : String) : String :=
  String.ofList (dropTyL (s.length + 1) (normAbsentL (s.length + 1) s.toList))

/-- observations of an op the property accepts (`none`: the property only demands "no panic");
    the flag says whether Maybe renderings are compared up to the representation of absence -/
def specObs (e : Env) (c : Spec.Ctor) (op : String) : Option (List String × Bool) :=
  let (name, arg) := splitOp op
  let v := e.v
  let ab := Spec.absent v
  match name with
  | "IsNil" => some ([bstr (Spec.isNil v)], false)
  | "IsPresent" => some ([bstr (Spec.isPresent v)], false)
  | "Or" => some ([showVal e.h (Spec.or v e.fb) v e.fb], true)
  | "Let" => some (["n=" ++ toString (Spec.letCount v)], false)
  | "UnwrapInterface" => some ([showVal e.h (Spec.unwrapInterface v) v e.fb], true)
  | "Type" =>
    -- a nested Maybe given as `v` was built by the library itself: its concrete struct type (noneDef / someDef[T])
    -- is a representation choice, only "not the nil Type" is demanded there
    match asMaybe? v with
    | some _ => some (["T:noneDef", "T:some:any", "T:" ++ (match Spec.type v with | some t => tyName t | none => "nil")], false)
    | none => some (["T:" ++ (match Spec.type v with | some t => tyName t | none => "nil")], false)
  | "ToString" => if ab then some (["S:" ++ Spec.nilString], false) else none
  | "ToMaybe" =>
    if ab then some ([specShowMaybe e.h c v e.fb none], true)
    else match Spec.innerMaybe? c.param v with
      | some m' => some ([showMaybe e.h m' v e.fb], true)
      | none => some ([specShowMaybe e.h c v e.fb none], true)
  | "Clone" =>
    match v with
    | .ptr _ (some _) => some ([specShowMaybe e.h c v e.fb (some "fresh")], true)
    | _ => some ([specShowMaybe e.h c v e.fb none], true)
  | "FlatMap" =>
    match flatFn c.param e.fb arg with
    | none => none
    | some f =>
      -- the wrapped value; for `Maybe.Just` of a typed nil pointer the property leaves open whether that is the
      -- typed nil itself or the untyped nil (the code: `None`, i.e. the untyped nil)
      let ws := if Spec.wrapped c v = v then [v] else [Spec.wrapped c v, v]
      some (ws.filterMap (fun w =>
        match (f w).run [] with
        | .ok (r, log) => some ("c=1 a=[" ++ showArgs e log ++ "] r=" ++ showMaybe e.h r v e.fb)
        | .error _ => none), true)
  | _ =>
    if convName? name then some ([match Spec.conv v with | .errNil => "errnil" | .other => "other"], false) else none

def assocAgrees (obs : String) : Bool :=
  match obs.splitOn " R=" with
  | [l, r] => l == "L=" ++ r
  | _ => false

def judgeOps (e : Env) (c : Spec.Ctor) : List String → List String → Option String
  | [], _ => none
  | _ :: _, [] => some "fewer observations than operations"
  | op :: ops, o :: obs =>
    if o == "panic" || o == "hang" || o == "crash" then some (op ++ ": observer panicked (no observer may panic for any v)")
    else
      let bad :=
        if (splitOp op).1 == "Assoc" then
          if assocAgrees o then none else some (op ++ ": m.FlatMap(f).FlatMap(g) and m.FlatMap(x => f(x).FlatMap(g)) differ: " ++ o)
        else match specObs e c op with
          | some (exps, upToAbsent) =>
            let nrm := fun (s : String) => if upToAbsent then normAbsent s else s
            if exps.any (fun exp => nrm exp == nrm o) then none
            else some (op ++ ": property demands '" ++ " or ".intercalate exps ++ "', implementation gave '" ++ o ++ "'")
          | none => none
      match bad with
      | some b => some b
      | none =>
        -- keep the model's heap in step (Clone/ToPtr allocate); the spec itself only reads `v`'s pointees
        match runOp e op with
        | .ok (e', _) => judgeOps e' c ops obs
        | .error _ => judgeOps e c ops obs

def judge (line impl : String) : String :=
  match parseCase line with
  | none => "violation bad-case"
  | some cs =>
    match buildEnv cs with
    | .error _ => "violation model cannot build the value"
    | .ok e =>
      if impl == "hang" || impl == "crash" then "violation the case did not complete: " ++ impl
      else
        match judgeOps e cs.c cs.ops (impl.splitOn " | ") with
        | some why => "violation " ++ why
        | none => "allowed every observer named by the property agrees with absent(v); the difference is outside the property"

end FpgoVerif.C01
