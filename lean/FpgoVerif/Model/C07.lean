/-! Executable model for property C07 (core-only): ChannelQueue and BufferedChannelQueue (queue.go).

    BufferedChannelQueue is a transition system over any number of anonymous producers / consumers (a step
    names the value it moves) and the one loader goroutine.  Atoms (re-derived from the CURRENT code, i.e.
    after fix c8ecf0a: `notifyWorkers` runs under RLock, the loader re-checks `isClosed` under the lock):

      Offer(v):  ⟨Lock; n := pool.Count()⟩                           offerLock v   (lock := producer v (n = 0))
                 [n = 0] ⟨try-send v on chan: buffered⟩               offerChan v   → nil
                 [n = 0] ⟨try-send v on chan: to a waiting receiver⟩  offerHandoff v → nil
                 [try-send failed or n ≠ 0] ⟨n ≥ b⟩                   offerFull v   → ErrQueueIsFull
                 [otherwise] ⟨pool.Offer v; try-send token⟩           offerPool v   → nil     (each ends with Unlock)
      notifyWorkers (first atom of Take / TakeWithTimeout / Poll / GetChannel):
                 ⟨RLock; try-send token; RUnlock⟩                     notify        (needs no writer)
      Take / receive on GetChannel():  ⟨block in receive⟩ recvWait ; ⟨receive head⟩ recvTake
      TakeWithTimeout: notify ; recvWait ; ( recvTake | ⟨timer fires: leave the select without a value⟩ recvTimeout )
                 — a Go `select` commits to exactly one ready case, so a waiter is consumed either by a delivery
                 (recvTake / a handoff) or by the timeout, never by both; time is nondeterminism: recvTimeout is
                 enabled whenever somebody waits
      Poll:      ⟨try-receive⟩  tryRecv (head)  |  pollEmpty → ErrQueueIsEmpty (only when chan = [])
      loader:    ⟨receive token⟩ loaderWake ; ⟨Lock⟩ loaderLock ; loop { ⟨pool.Count() > 0; x := pool.Poll()⟩ loaderPoll ;
                 ⟨try-send x: ok⟩ loaderSend / loaderHandoff  |  ⟨failed: pool.Unshift x; leave⟩ loaderUnshift } ;
                 ⟨pool empty: leave; Unlock⟩ loaderDone            (the sleep is time = nondeterminism)

    Ghost history: `accepted` (values whose Offer returned nil, in lock order), `delivered` (values handed to a
    consumer, in receive order).  The open queue only: `isClosed` is false throughout (shutdown races are C15). -/

namespace FpgoVerif.C07

/-- who holds `q.lock` exclusively -/
inductive Holder | free | producer (v : Nat) (sawPoolEmpty : Bool) | loader
deriving DecidableEq, Repr

/-- loader goroutine: blocked on the token channel / token taken, before `Lock` / inside the locked loop -/
inductive LPc | waiting | woke | inpass
deriving DecidableEq, Repr

structure St where
  c : Nat                 -- channelCapacity
  b : Nat                 -- bufferSizeMaximum
  chan : List Nat         -- blockingQueue buffer
  pool : List Nat         -- overflow list
  inflight : Option Nat   -- loader: polled from the pool, not yet offered to the channel
  token : Bool            -- loadWorkerCh (capacity 1)
  lock : Holder
  lpc : LPc
  waiters : Nat           -- consumers blocked in a receive on the channel
  accepted : List Nat
  delivered : List Nat
deriving DecidableEq, Repr

def init (c b : Nat) : St := ⟨c, b, [], [], none, false, .free, .waiting, 0, [], []⟩

inductive Act
  | offerLock (v : Nat) | offerChan (v : Nat) | offerHandoff (v : Nat) | offerFull (v : Nat) | offerPool (v : Nat)
  | notify | recvWait | recvTake | recvTimeout | tryRecv | pollEmpty
  | loaderWake | loaderLock | loaderPoll | loaderSend | loaderHandoff | loaderUnshift | loaderDone
deriving DecidableEq, Repr

/-- the channel try-send of `Offer` is attempted only when the pool was seen empty; it fails iff the buffer
    is full and no receiver waits -/
def trySendFails (s : St) : Prop := s.c ≤ s.chan.length ∧ (s.waiters = 0 ∨ s.chan ≠ [])

instance (s : St) : Decidable (trySendFails s) := by unfold trySendFails; exact inferInstance

/-- one atomic action; `none` = not enabled -/
def step (s : St) : Act → Option St
  | .offerLock v =>
    if s.lock = .free then some { s with lock := .producer v s.pool.isEmpty } else none
  | .offerChan v =>
    if s.lock = .producer v true ∧ s.chan.length < s.c then
      some { s with chan := s.chan ++ [v], accepted := s.accepted ++ [v], lock := .free } else none
  | .offerHandoff v =>
    if s.lock = .producer v true ∧ s.chan = [] ∧ 0 < s.waiters then
      some { s with waiters := s.waiters - 1, accepted := s.accepted ++ [v], delivered := s.delivered ++ [v], lock := .free }
    else none
  | .offerFull v =>
    if (s.lock = .producer v false ∨ (s.lock = .producer v true ∧ trySendFails s)) ∧ s.b ≤ s.pool.length then
      some { s with lock := .free } else none
  | .offerPool v =>
    if (s.lock = .producer v false ∨ (s.lock = .producer v true ∧ trySendFails s)) ∧ s.pool.length < s.b then
      some { s with pool := s.pool ++ [v], accepted := s.accepted ++ [v], token := true, lock := .free } else none
  | .notify => if s.lock = .free then some { s with token := true } else none
  | .recvWait => some { s with waiters := s.waiters + 1 }
  | .recvTake =>
    match s.chan with
    | x :: rest => if 0 < s.waiters then some { s with chan := rest, waiters := s.waiters - 1, delivered := s.delivered ++ [x] } else none
    | [] => none
  | .recvTimeout =>      -- TakeWithTimeout: the `time.After` branch of the select fires instead of the receive
    if 0 < s.waiters then some { s with waiters := s.waiters - 1 } else none
  | .tryRecv =>
    match s.chan with
    | x :: rest => some { s with chan := rest, delivered := s.delivered ++ [x] }
    | [] => none
  | .pollEmpty => if s.chan = [] then some s else none
  | .loaderWake => if s.token = true ∧ s.lpc = .waiting then some { s with token := false, lpc := .woke } else none
  | .loaderLock => if s.lpc = .woke ∧ s.lock = .free then some { s with lock := .loader, lpc := .inpass } else none
  | .loaderPoll =>
    match s.pool with
    | x :: rest => if s.lock = .loader ∧ s.inflight = none then some { s with pool := rest, inflight := some x } else none
    | [] => none
  | .loaderSend =>
    match s.inflight with
    | some x => if s.lock = .loader ∧ s.chan.length < s.c then some { s with chan := s.chan ++ [x], inflight := none } else none
    | none => none
  | .loaderHandoff =>
    match s.inflight with
    | some x => if s.lock = .loader ∧ s.chan = [] ∧ 0 < s.waiters then
        some { s with waiters := s.waiters - 1, delivered := s.delivered ++ [x], inflight := none } else none
    | none => none
  | .loaderUnshift =>
    match s.inflight with
    | some x => if s.lock = .loader ∧ trySendFails s then
        some { s with pool := x :: s.pool, inflight := none, lock := .free, lpc := .waiting } else none
    | none => none
  | .loaderDone =>
    if s.lock = .loader ∧ s.inflight = none ∧ s.pool = [] then some { s with lock := .free, lpc := .waiting } else none

def run : St → List Act → Option St
  | s, [] => some s
  | s, a :: as => match step s a with
    | some s' => run s' as
    | none => none

/-- reachable from the empty queue with capacities `c`, `b` by some schedule of any length -/
def Reach (c b : Nat) (s : St) : Prop := ∃ acts, run (init c b) acts = some s

/-- `Count()`: len(blockingQueue) + pool.Count() (read under RLock, i.e. with no pass in progress) -/
def count (s : St) : Nat := s.chan.length + s.pool.length

/-! ### composite operations as the code performs them (used by the driver; each is a sequence of `step`s) -/

def stepD (s : St) (a : Act) : St := (step s a).getD s

/-- a complete `Offer(v)` with the lock free: Lock, then the branch the code takes -/
def offerCall (s : St) (v : Nat) : St × String :=
  match step s (.offerLock v) with
  | none => (s, "blocked")
  | some s1 =>
    match step s1 (.offerChan v) with
    | some s2 => (s2, "nil")
    | none =>
      match step s1 (.offerHandoff v) with
      | some s2 => (s2, "nil")
      | none =>
        match step s1 (.offerFull v) with
        | some s2 => (s2, "full")
        | none =>
          match step s1 (.offerPool v) with
          | some s2 => (s2, "nil")
          | none => (s1, "stuck")

/-- `Poll()` with the lock free: notify, then try-receive -/
def pollCall (s : St) : St × String :=
  let s1 := stepD s .notify
  match s1.chan with
  | x :: _ => (stepD s1 .tryRecv, s!"ok {x}")
  | [] => (stepD s1 .pollEmpty, "empty")

/-- after a token: the loader takes it (it then stands before `Lock`) -/
def syncLoader (s : St) : St :=
  if s.lpc = .waiting then stepD (stepD s .notify) .loaderWake else s

/-- the loader continues inside its loop until the next `pool.Poll()` or the end of the pass -/
def loaderNext (s : St) : St × String :=
  match s.pool with
  | [] => (stepD s .loaderDone, "pass-done")
  | _ :: _ => (stepD s .loaderPoll, "polled")

/-! ### directed schedules: `sched c=C b=B: step ; step ; …` -/

structure Sched where
  s : St
  pending : Option Nat     -- an Offer started while the loader holds the lock
  taking : Bool := false   -- a consumer is blocked in Take() (the channel is empty while this holds)

/-- a consumer blocked in `Take` receives as soon as the channel holds a value -/
def serve (m : Sched) (out : String) : Sched × String :=
  if m.taking then
    match m.s.chan with
    | x :: _ => ({ m with s := stepD m.s .recvTake, taking := false }, out ++ s!" take=ok {x}")
    | [] => (m, out)
  else (m, out)

def afterPass (m : Sched) (out : String) : Sched × String :=
  match m.pending with
  | some v =>
    let (s1, r) := offerCall m.s v
    ({ m with s := syncLoader s1, pending := none }, out ++ " offer=" ++ r)
  | none => ({ m with s := syncLoader m.s }, out)

def schedStep (m : Sched) (tok : String) : Sched × String :=
  let inpass := m.s.lpc == .inpass
  match tok.splitOn ":" with
  | ["o", v] =>
    match v.toNat? with
    | none => (m, "bad-op")
    | some v =>
      if inpass then
        if m.pending.isSome || m.taking then (m, "skip") else ({ m with pending := some v }, "pending")
      else
        let (s1, r) := offerCall m.s v
        serve { m with s := s1 } (if r == "full" then s!"full pool={s1.pool.length}" else r)
  | ["B"] =>       -- a consumer thread calls Take() on an empty channel and blocks in the receive
    if inpass || m.taking || m.s.c == 0 || !m.s.chan.isEmpty then (m, "skip")
    else ({ m with s := stepD (stepD m.s .notify) .recvWait, taking := true }, "started")
  | ["p"] => if inpass then (m, "skip") else let (s1, r) := pollCall m.s; ({ m with s := s1 }, r)
  | ["t"] =>
    if inpass then (m, "skip") else
    let s1 := stepD m.s .notify
    match s1.chan with
    | x :: _ => ({ m with s := stepD (stepD s1 .recvWait) .recvTake }, s!"ok {x}")
    | [] => ({ m with s := stepD (stepD s1 .recvWait) .recvTimeout }, "timeout")
  | ["T"] =>
    if inpass then (m, "skip") else
    match m.s.chan with
    | x :: _ => ({ m with s := stepD (stepD (stepD m.s .notify) .recvWait) .recvTake }, s!"ok {x}")
    | [] => (m, "skip")
  | ["r"] =>
    match m.s.chan with
    | x :: _ => ({ m with s := stepD m.s .tryRecv }, s!"ok {x}")
    | [] => (m, "none")
  | ["n"] => if inpass then (m, "skip") else (m, s!"n {count m.s}")
  | ["L"] =>
    if m.s.lpc == .woke then
      let s1 := stepD m.s .loaderLock
      let (s2, r) := loaderNext s1
      if r == "pass-done" then afterPass { m with s := s2 } r else ({ m with s := s2 }, r)
    else (m, "skip")
  | ["S"] =>
    if inpass then
      match step m.s .loaderSend with
      | some s1 =>
        let (m1, suffix) := serve { m with s := s1 } ""
        let (s2, r) := loaderNext m1.s
        if r == "pass-done" then afterPass { m1 with s := s2 } ("moved " ++ r ++ suffix)
        else ({ m1 with s := s2 }, "moved " ++ r ++ suffix)
      | none =>
        match step m.s .loaderUnshift with
        | some s1 => afterPass { m with s := s1 } "unshift pass-done"
        | none => (m, "stuck")
    else (m, "skip")
  | _ => (m, "bad-op")

def splitOps (body : String) : List String :=
  ((body.splitOn ";").map (fun t => t.trimAscii.toString)).filter (· ≠ "")

def splitHead (line : String) : String × String :=
  match line.splitOn ": " with
  | [h] => (h, "")
  | h :: rest => (h, ": ".intercalate rest)
  | [] => ("", "")

def field (toks : List String) (k : String) : Nat :=
  match toks.find? (fun t => t.startsWith (k ++ "=")) with
  | some t => ((t.drop (k.length + 1)).toString.toNat?).getD 0
  | none => 0

def fieldS (toks : List String) (k : String) : String :=
  match toks.find? (fun t => t.startsWith (k ++ "=")) with
  | some t => (t.drop (k.length + 1)).toString
  | none => ""

def schedCase (toks : List String) (body : String) : String :=
  let s0 := syncLoader (init (field toks "c") (field toks "b"))
  let (_, outs) := (splitOps body).foldl (fun (acc : Sched × List String) tok =>
    let (m, o) := schedStep acc.1 tok
    (m, o :: acc.2)) (({ s := s0, pending := none } : Sched), [])
  " | ".intercalate outs.reverse

/-! ### ChannelQueue's own wrappers: `chq cap=K: step ; …` over a Go channel (FIFO buffer, closed flag) -/

structure Ch where
  cap : Nat
  buf : List Nat
  closed : Bool

inductive ChRes | val (v : Nat) | empty | closed
deriving DecidableEq, Repr

/-- `select { case q <- v: … default: … }` on an open channel (no receiver is waiting in these cases) -/
def chTrySend (ch : Ch) (v : Nat) : Ch × Bool :=
  if ch.buf.length < ch.cap then ({ ch with buf := ch.buf ++ [v] }, true) else (ch, false)

/-- `select { case val, ok := <-q: … default: … }`: head of the buffer; on a closed, drained channel the
    receive succeeds with `ok = false`, which the wrappers (after fix 1a3cb23) turn into ErrQueueIsClosed -/
def chTryRecv (ch : Ch) : Ch × ChRes :=
  match ch.buf with
  | x :: rest => ({ ch with buf := rest }, .val x)
  | [] => (ch, if ch.closed then .closed else .empty)

def chqStep (ch : Ch) (tok : String) : Ch × String :=
  match tok.splitOn ":" with
  | ["o", v] =>      -- Offer: select { case q <- v | default }
    if ch.closed then (ch, "skip") else
    let r := chTrySend ch v.toNat!
    (r.1, if r.2 then "nil" else "full")
  | ["w", v] =>      -- PutWithTimeout
    if ch.closed then (ch, "skip") else
    let r := chTrySend ch v.toNat!
    (r.1, if r.2 then "nil" else "timeout")
  | ["U", v] =>      -- Put (only issued when it cannot block)
    if ch.closed ∨ ch.cap ≤ ch.buf.length then (ch, "skip") else ((chTrySend ch v.toNat!).1, "nil")
  | ["p"] =>         -- Poll
    let r := chTryRecv ch
    (r.1, match r.2 with | .val x => s!"ok {x}" | .empty => "empty" | .closed => "closed")
  | ["t"] =>         -- TakeWithTimeout
    let r := chTryRecv ch
    (r.1, match r.2 with | .val x => s!"ok {x}" | .empty => "timeout" | .closed => "closed")
  | ["T"] =>         -- Take (only issued when it cannot block)
    let r := chTryRecv ch
    (r.1, match r.2 with | .val x => s!"ok {x}" | .empty => "skip" | .closed => "closed")
  | ["x"] => if ch.closed then (ch, "skip") else ({ ch with closed := true }, "nil")
  | _ => (ch, "bad-op")

def chqCase (toks : List String) (body : String) : String :=
  let (_, outs) := (splitOps body).foldl (fun (acc : Ch × List String) tok =>
    let (m, o) := chqStep acc.1 tok
    (m, o :: acc.2)) (⟨field toks "cap", [], false⟩, [])
  " | ".intercalate outs.reverse

/-! ### stress: the model runs a scaled-down instance under a seeded scheduler -/

def lcg (x : Nat) : Nat := (x * 6364136223846793005 + 1442695040888963407) % 18446744073709551616

structure Sim where
  s : St
  todo : List (List Nat)    -- per producer: values still to offer
  rng : Nat

/-- one scheduler choice: a producer's whole Offer (if the lock is free), a consumer's Poll, or one loader atom -/
def simStep (m : Sim) : Sim :=
  let rng := lcg m.rng
  let r := (rng / 65536) % 8
  let m := { m with rng := rng }
  if r < 3 then
    -- some producer with work left offers its next value (retries later when full)
    let np := m.todo.length
    if np = 0 then m else
    let i := (rng / 1048576) % np
    match m.todo.getD i [] with
    | [] => m
    | v :: rest =>
      if m.s.lock = .free then
        let (s1, res) := offerCall m.s v
        if res == "nil" then { m with s := s1, todo := m.todo.set i rest } else { m with s := s1 }
      else m
  else if r < 5 then
    if m.s.lock = .free then { m with s := (pollCall m.s).1 } else m
  else
    -- the loader performs its next atom, whichever is enabled
    let try1 := fun (s : St) (a : Act) => step s a
    match try1 m.s .loaderWake with
    | some s1 => { m with s := s1 }
    | none => match try1 m.s .loaderLock with
      | some s1 => { m with s := s1 }
      | none => match try1 m.s .loaderSend with
        | some s1 => { m with s := s1 }
        | none => match try1 m.s .loaderUnshift with
          | some s1 => { m with s := s1 }
          | none => match try1 m.s .loaderPoll with
            | some s1 => { m with s := s1 }
            | none => match try1 m.s .loaderDone with
              | some s1 => { m with s := s1 }
              | none => m

def simLoop : Nat → Sim → Sim
  | 0, m => m
  | fuel + 1, m =>
    if m.todo.all (·.isEmpty) && m.s.delivered.length == m.s.accepted.length && m.s.lock == .free then m
    else simLoop fuel (simStep m)

/-- projection of a list of producer-tagged values to one producer -/
def ofProducer (p : Nat) (l : List Nat) : List Nat := l.filter (fun v => v / 100000 == p)

def stressCase (toks : List String) : String :=
  let c := field toks "c"; let b := field toks "b"; let p := field toks "p"; let n := field toks "n"
  let seed := field toks "seed"
  if p = 0 then "bad-case" else
  if c = 0 then "ok safe" else
  let n' := min n (max 1 (120 / p))
  let todo := (List.range p).map (fun t => (List.range n').map (fun i => t * 100000 + i))
  let m := simLoop (p * n' * 1600 + 16384) ⟨init c b, todo, seed + 1⟩
  let okAll := m.todo.all (·.isEmpty) && m.s.delivered == m.s.accepted && m.s.delivered.length == p * n' &&
    (List.range p).all (fun t => ofProducer t m.s.delivered == (List.range n').map (fun i => t * 100000 + i))
  if okAll then s!"ok accepted={p * n} delivered={p * n}" else "viol model-stranded"

/-! ### ChannelQueue alone under concurrent producers / consumers: `chqstress cap= p= k= n= mode= seed=`

    The model runs a scaled-down instance on the channel substrate `Ch` under a seeded scheduler: a producer's
    send is a `chTrySend` (a blocked `Put` / a retried `Offer` / `PutWithTimeout` = the send happens when there is
    room), a consumer's receive a `chTryRecv`; with capacity 0 a send is a rendezvous with a receiver. -/

structure ChSim where
  ch : Ch
  todo : List (List Nat)
  got : List Nat
  rng : Nat

def chSimStep (m : ChSim) : ChSim :=
  let rng := lcg m.rng
  let m := { m with rng := rng }
  if (rng / 65536) % 2 = 0 then
    let np := m.todo.length
    if np = 0 then m else
    let i := (rng / 1048576) % np
    match m.todo.getD i [] with
    | [] => m
    | v :: rest =>
      if m.ch.cap = 0 then { m with todo := m.todo.set i rest, got := m.got ++ [v] }   -- rendezvous
      else
        let r := chTrySend m.ch v
        if r.2 then { m with ch := r.1, todo := m.todo.set i rest } else m
  else
    match chTryRecv m.ch with
    | (ch', .val x) => { m with ch := ch', got := m.got ++ [x] }
    | _ => m

def chSimLoop : Nat → ChSim → ChSim
  | 0, m => m
  | fuel + 1, m =>
    if m.todo.all (·.isEmpty) && m.ch.buf.isEmpty then m else chSimLoop fuel (chSimStep m)

def chqStressCase (toks : List String) : String :=
  let cap := field toks "cap"; let p := field toks "p"; let n := field toks "n"; let seed := field toks "seed"
  if p = 0 then "bad-case" else
  let n' := min n (max 1 (120 / p))
  let todo := (List.range p).map (fun t => (List.range n').map (fun i => t * 100000 + i))
  let m := chSimLoop (p * n' * 64 + 4096) ⟨⟨cap, [], false⟩, todo, [], seed + 1⟩
  let okAll := m.todo.all (·.isEmpty) && m.ch.buf.isEmpty && m.got.length == p * n' &&
    (List.range p).all (fun t => ofProducer t m.got == (List.range n').map (fun i => t * 100000 + i))
  if okAll then s!"ok accepted={p * n} delivered={p * n}" else "viol model-stranded"

/-- protocol entry point -/
def handle (line : String) : String :=
  let (head, body) := splitHead line
  let toks := (head.splitOn " ").filter (· ≠ "")
  match toks with
  | "sched" :: _ => schedCase toks body
  | "chq" :: _ => chqCase toks body
  | "chqstress" :: _ => chqStressCase toks
  | "stress" :: _ => stressCase toks
  | _ => "bad-case"

/-! ### spec-level oracle: the property's own statement evaluated on the observed outputs -/

structure Track where
  accepted : List Nat := []
  ndelivered : Nat := 0
  pendingV : Option Nat := none
  closed : Bool := false
  verdict : Option String := none

def Track.held (t : Track) : Nat := t.accepted.length - t.ndelivered

def flag (t : Track) (why : String) : Track :=
  match t.verdict with | none => { t with verdict := some why } | some _ => t

/-- one observed result token checked against: FIFO exactly-once delivery in acceptance order, the bound
    `c + b`, `full` only with at least `b` values held, Count = accepted − delivered -/
def trackObs (cap b : Nat) (t : Track) (op obs : String) : Track :=
  let words0 := (obs.splitOn " ").filter (· ≠ "")
  -- `… take=ok v`: the consumer blocked in Take() received v right after this step
  let takeV : Option String := match words0.dropWhile (· ≠ "take=ok") with | _ :: v :: _ => some v | _ => none
  let words := if takeV.isSome then words0.takeWhile (· ≠ "take=ok") else words0
  let accept := fun (t : Track) (v : Nat) =>
    if t.held ≥ cap + b then flag t s!"value {v} accepted although {t.held} values are held (bound {cap + b})"
    else { t with accepted := t.accepted ++ [v] }
  let isFull := fun (t : Track) =>
    if t.held < b then flag t s!"ErrQueueIsFull with only {t.held} values held (buffer maximum {b})" else t
  let opv := match op.splitOn ":" with | [_, v] => v.toNat? | _ => none
  let t := match words with
    | ["ok", v] =>
      (match v.toNat? with
       | some v => if t.accepted[t.ndelivered]? = some v then { t with ndelivered := t.ndelivered + 1 }
                   else flag t s!"delivered {v} but the next accepted value is {t.accepted[t.ndelivered]?}"
       | none => flag t "unparsable value")
    | ["nil"] => (match opv with | some v => accept t v | none => t)
    | ["full"] => isFull t
    | ["full", pk] =>      -- sched: the pool count observed (VerifState) when Offer returned ErrQueueIsFull
      if pk == s!"pool={b}" then isFull t else flag t s!"ErrQueueIsFull with {pk}, buffer maximum {b}"
    | ["pending"] => { t with pendingV := opv }
    | ["n", k] => if k.toNat? = some t.held then t else flag t s!"Count {k} but accepted - delivered = {t.held}"
    | ["panic"] => flag t "panic"
    | ["hang"] => flag t "hang"
    | ["blocked"] => flag t "a non-blocking call blocked"
    | ["lost-loader"] => flag t "loader did not reach its next point"
    | ["err-other"] => flag t "a call failed with an error other than ErrQueueIsFull / ErrQueueIsEmpty / timeout"
    | ["empty"] | ["none"] =>
      -- pool + in-flight ≤ b (C07_bound): with more than b values held the channel is not empty
      if t.held > b ∧ cap > 0 then flag t s!"reported empty although {t.held} values are held (at most {b} can be outside the channel)" else t
    | _ => t
  -- the loader (or a consumer) that never arrives = a lost wake-up / a blocked call, wherever it is reported
  let t := if words0.contains "lost-loader" ∨ words0.contains "lost-consumer" ∨ words0.contains "stuck" then
      flag t "the loader / a consumer did not reach its next point (lost wake-up or blocked call)" else t
  let t := if words0.contains "offer=panic" ∨ words0.contains "take=panic" ∨ words0.contains "offer=err-other" ∨
      words0.contains "offer=closed" ∨ words0.contains "take=closed" ∨ words0.contains "take=err-other" then
      flag t "a joined call panicked or failed with an error the open queue does not permit" else t
  -- a pending Offer completes with the pass
  let t := if words.contains "offer=nil" then
      (match t.pendingV with | some v => { accept t v with pendingV := none } | none => t)
    else if words.contains "offer=full" then { isFull t with pendingV := none }
    else t
  let t := if words0.contains "take=blocked" ∨ words0.contains "offer=blocked" then flag t "a call that could complete stayed blocked" else t
  match takeV with
  | some v =>
    (match v.toNat? with
     | some v => if t.accepted[t.ndelivered]? = some v then { t with ndelivered := t.ndelivered + 1 }
                 else flag t s!"Take delivered {v} but the next accepted value is {t.accepted[t.ndelivered]?}"
     | none => flag t "unparsable value")
  | none => t

/-- the outcomes a step of a directed schedule may have on an OPEN queue (Offer fails only with ErrQueueIsFull, Poll
    only with ErrQueueIsEmpty, TakeWithTimeout only with the timeout, Take not at all, …) -/
def schedResultOk (op obs : String) : Bool :=
  let w := ((obs.splitOn " ").filter (· ≠ "")).headD ""
  let k := (op.splitOn ":").headD ""
  w == "skip" ||
  (match k with
   | "o" => w == "nil" || w == "full" || w == "pending"
   | "p" => w == "ok" || w == "empty"
   | "t" => w == "ok" || w == "timeout"
   | "T" => w == "ok"
   | "r" => w == "ok" || w == "none"
   | "n" => w == "n"
   | "B" => w == "started"
   | "L" => w == "polled" || w == "pass-done"
   | "S" => w == "moved" || w == "unshift"
   | _ => false)

def judgeSeq (cap b : Nat) (body impl : String) : String :=
  let ops := splitOps body
  let obs := (impl.splitOn "|").map (fun t => t.trimAscii.toString)
  if impl == "hang" ∨ impl == "crash" ∨ impl == "panic" then s!"violation {impl}" else
  if ops.length ≠ obs.length then "violation malformed observation" else
  let t := (ops.zip obs).foldl (fun t (p : String × String) =>
    let t := trackObs cap b t p.1 p.2
    if schedResultOk p.1 p.2 then t else flag t s!"'{p.2}' is not a permitted outcome of step '{p.1}' on an open queue") ({} : Track)
  match t.verdict with
  | some why => "violation " ++ why
  | none => "allowed FIFO / exactly-once / bounds / Count hold on this observation"

/-- ChannelQueue: a Go channel is the spec — FIFO, `full` only at capacity, `empty` only when empty,
    `closed` only when closed and drained, never a value nobody offered -/
def judgeChq (cap : Nat) (body impl : String) : String :=
  let ops := splitOps body
  let obs := (impl.splitOn "|").map (fun t => t.trimAscii.toString)
  if ops.length ≠ obs.length then "violation malformed observation" else
  let t := (ops.zip obs).foldl (fun (t : Track) (p : String × String) =>
    let t := trackObs cap 0 t p.1 p.2
    match p.2 with
    | "empty" => if t.held ≠ 0 then flag t "ErrQueueIsEmpty although a value is available" else
                 if t.closed then flag t "ErrQueueIsEmpty on a closed channel" else t
    | "closed" => if t.closed ∧ t.held = 0 then t else flag t "ErrQueueIsClosed but not closed-and-drained"
    | "timeout" => if p.1 == "t" ∧ t.held ≠ 0 then flag t "take timeout although a value is available"
                   else if p.1 ≠ "t" ∧ t.held < cap then flag t "put timeout although the channel has room" else t
    | "full" => if t.held < cap then flag t "ErrQueueIsFull although the channel has room" else t
    | "nil" => if p.1 == "x" then { t with closed := true } else t
    | _ => t) ({} : Track)
  match t.verdict with
  | some why => "violation " ++ why
  | none => "allowed channel semantics hold on this observation"

def judge (line impl : String) : String :=
  let (head, body) := splitHead line
  let toks := (head.splitOn " ").filter (· ≠ "")
  match toks with
  | "sched" :: _ => judgeSeq (field toks "c") (field toks "b") body impl
  | "chq" :: _ => judgeChq (field toks "cap") body impl
  | _ =>
    if impl.startsWith "ok " then "allowed monitors silent"
    else s!"violation {impl}"

end FpgoVerif.C07
