import FpgoVerif.Model.C05Impl
import FpgoVerif.Model.C04Spec
/-! Protocol, spec-level oracle and `handle`/`judge` for property C05 (core-only).

    Case line:   `<kind> <operand>* : <op> ; <op> ; …`   (written `L [0.1] nil: union ; inter`)
      kind `L`  operands are element lists      `nil` | `[]` | `[0.1.2]`
      kind `M`  operands are key→value maps     `nil` | `nilmap` | `{}` | `{0:10,1:11}`
      kind `S`  operands are key→stream maps    `nil` | `{}` | `{0:[0.1],1:[]}`
      long operands are written compactly: `[0.1.2*140]` = the pattern cycled to 140 items; a map entry
      `0-63:5` / `0-63:[0.1*70]` = the keys 0..63 each with that value / stream
      kind `P` / `R`  histories (as kind `Q` below) of Stream resp. MapSet operations on element lists / maps
      kind `Q`  like `S`, but the operands are built ONCE and the ops form a history on the same objects:
                `union:r:a` (receiver = object #r, argument = object #a or `n` for nil) appends its result as a
                new object; after every op ALL objects are printed (`<o0>|<o1>|…|<result>`), so a later
                op that disturbs an operand or an earlier result is visible.  A stream written
                `[0.1+2]` has two spare slots of capacity behind its two items (content `[0.1]`).
    Function arguments (`s.map:k`, `s.filter:k`, `s.sort:k`, `m.mapkey:k`, …) are indices into the
    function family shared with C04 (`C04.Spec.mapFn/predFn/lessFn/keyFn/valFn` = `c04MapFn…` in Go).
    `nil` is a nil slice (kind L, function operands), a nil pointer / nil interface (method
    arguments); a receiver given as `nil` is a non-nil pointer to a nil slice / nil map.
    Observation: one item per op joined by ` | `: `g=<generic result> i=<interface{} twin result>`
    (`g=<…>` alone for functions that have no twin).  Results that come out of a Go map are sorted.
-/
namespace FpgoVerif.C05

/-! ### printing -/

def showList (l : List Nat) : String := "[" ++ ".".intercalate (l.map toString) ++ "]"
def sortNat (l : List Nat) : List Nat := l.mergeSort (· ≤ ·)
def showSorted (l : List Nat) : String := showList (sortNat l)
def sortKeys {ν : Type} (m : GoMap Nat ν) : GoMap Nat ν := m.mergeSort (fun p q => p.1 ≤ q.1)
def showMap (m : GoMap Nat Nat) : String :=
  "{" ++ ",".intercalate ((sortKeys m).map (fun p => s!"{p.1}:{p.2}")) ++ "}"
def showSS (m : GoMap Nat (List Nat)) : String :=
  "{" ++ ",".intercalate ((sortKeys m).map (fun p => s!"{p.1}:{showList p.2}")) ++ "}"
def showBool (b : Bool) : String := if b then "true" else "false"
def showRes {β : Type} (f : β → String) : Res β → String
  | .ok v => f v
  | .panic => "panic"

/-! ### parsing (total: anything malformed is `none`) -/

def inner (s : String) : String := String.ofList (s.toList.drop 1).dropLast

def allSome {β : Type} : List (Option β) → Option (List β)
  | [] => some []
  | none :: _ => none
  | some x :: t => (allSome t).map (x :: ·)

/-- `pattern` cycled to length `n` -/
def cycleTo (pattern : List Nat) (n : Nat) : Option (List Nat) :=
  if n = 0 then some [] else
  if pattern.isEmpty then none else
  some ((List.range n).map (fun i => pattern.getD (i % pattern.length) 0))

/-- `[]`, `[0.1.2]`; `[0.1.2*140]` = the pattern cycled to 140 items (long operands, compactly);
    a trailing `+n` = spare capacity, not content -/
def parseList (s : String) : Option (List Nat) :=
  if s.startsWith "[" && s.endsWith "]" then
    let body := ((inner s).splitOn "+").headD ""
    match body.splitOn "*" with
    | [pat] => if pat = "" then some [] else allSome ((pat.splitOn ".").map String.toNat?)
    | [pat, n] =>
      match (if pat = "" then some [] else allSome ((pat.splitOn ".").map String.toNat?)), n.toNat? with
      | some p, some n => cycleTo p n
      | _, _ => none
    | _ => none
  else none

/-- key part of a map entry: `7` or the range `0-63` -/
def parseKeys (k : String) : Option (List Nat) :=
  match k.splitOn "-" with
  | [a] => a.toNat?.map (fun a => [a])
  | [a, b] => match a.toNat?, b.toNat? with
    | some a, some b => if a ≤ b then some ((List.range (b - a + 1)).map (· + a)) else none
    | _, _ => none
  | _ => none

/-- operand of kind L: `none` = nil -/
def parseListOpd (s : String) : Option (Option (List Nat)) :=
  if s = "nil" then some none else (parseList s).map some

def parseKV (s : String) : Option (Nat × Nat) :=
  match s.splitOn ":" with
  | [k, v] => match k.toNat?, v.toNat? with
    | some k, some v => some (k, v)
    | _, _ => none
  | _ => none

/-- `0-63:5` = the keys 0..63, each with value 5 -/
def parseKVs (s : String) : Option (List (Nat × Nat)) :=
  match s.splitOn ":" with
  | [k, v] => match parseKeys k, v.toNat? with
    | some ks, some v => some (ks.map (fun k => (k, v)))
    | _, _ => none
  | _ => none

def parseMap (s : String) : Option (GoMap Nat Nat) :=
  if s.startsWith "{" && s.endsWith "}" then
    let body := inner s
    if body = "" then some [] else (allSome ((body.splitOn ",").map parseKVs)).map List.flatten
  else none

/-- operand of kind M: `none` = nil pointer/interface, `nilmap` = pointer to a nil map -/
def parseMapOpd (s : String) : Option (Option (GoMap Nat Nat)) :=
  if s = "nil" then some none else if s = "nilmap" then some (some []) else (parseMap s).map some

def parseKS (s : String) : Option (Nat × List Nat) :=
  match s.splitOn ":" with
  | [k, v] => match k.toNat?, parseList v with
    | some k, some v => some (k, v)
    | _, _ => none
  | _ => none

/-- `0-63:[0.1*70]` = the keys 0..63, each with that stream -/
def parseKSs (s : String) : Option (List (Nat × List Nat)) :=
  match s.splitOn ":" with
  | [k, v] => match parseKeys k, parseList v with
    | some ks, some v => some (ks.map (fun k => (k, v)))
    | _, _ => none
  | _ => none

def parseSS (s : String) : Option (GoMap Nat (List Nat)) :=
  if s.startsWith "{" && s.endsWith "}" then
    let body := inner s
    if body = "" then some [] else (allSome ((body.splitOn ",").map parseKSs)).map List.flatten
  else none

def parseSSOpd (s : String) : Option (Option (GoMap Nat (List Nat))) :=
  if s = "nil" then some none else (parseSS s).map some

def parseBool (s : String) : Option Bool :=
  if s = "true" then some true else if s = "false" then some false else none

structure Case where
  kind : String
  opds : List String
  ops  : List String

def parseCase (line : String) : Case :=
  match line.splitOn ": " with
  | head :: rest =>
    let hs := (head.splitOn " ").filter (· ≠ "")
    let body := ": ".intercalate rest
    let ops := ((body.splitOn ";").map (fun t => t.trimAscii.toString)).filter (· ≠ "")
    { kind := hs.headD "", opds := hs.drop 1, ops := ops }
  | [] => { kind := "", opds := [], ops := [] }

/-- `name:arg` -/
def opArg (op : String) : String × String :=
  match op.splitOn ":" with
  | [n] => (n, "")
  | n :: rest => (n, ":".intercalate rest)
  | [] => ("", "")

/-! ### the function family shared with C04 (elements are naturals here; the generator only uses
    indices whose results stay non-negative) -/

def famMap (k : Nat) (x i : Nat) : Nat := (C04.Spec.mapFn k (x : Int) i).toNat
def famPred (k : Nat) (x i : Nat) : Bool := C04.Spec.predFn k (x : Int) i
def famLess (k : Nat) (a b : Nat) : Bool := C04.Spec.lessFn k (a : Int) (b : Int)
def famKey (k : Nat) (x : Nat) : Nat := (C04.Spec.keyFn k (x : Int)).toNat
def famVal (k : Nat) (x : Nat) : Nat := (C04.Spec.valFn k (x : Int)).toNat

/-! ### running one op on the implementation models: `(generic, twin)`; `none` twin = no twin -/

def both (s : String) : String × Option String := (s, some s)
def only (s : String) : String × Option String := (s, none)
def bad : String × Option String := ("bad-op", none)

def lst (o : Option (List Nat)) : List Nat := o.getD []

def runL (opds : List (Option (List Nat))) (op : String) : String × Option String :=
  let (name, arg) := opArg op
  let ls := opds.map lst
  match name, opds with
  | "union", _ => only (showSorted (union ls))
  | "inter", _ => both (showRes showList (intersection (if opds.isEmpty then none else some ls)))
  | "diff", _ => only (showRes showList (difference (if opds.isEmpty then none else some ls)))
  | "inter0", _ => both (showRes showList (intersection (α := Nat) (some [])))
  | "diff0", _ => only (showRes showList (difference (α := Nat) (some [])))
  | "distinct", a :: _ => both (showList (distinct (lst a)))
  | "s.distinct", a :: _ => both (showList (Stream.distinct (lst a)))
  | "s.clone", a :: _ => both (showList (Stream.clone (lst a)))
  | "s.reverse", a :: _ => both (showList (Stream.reverse (lst a)))
  | "has", a :: _ => match arg.toNat? with
    | some x => both (showBool (existsIn x (lst a)))
    | none => bad
  | "s.has", a :: _ => match arg.toNat? with
    | some x => both (showBool (Stream.contains (lst a) x))
    | none => bad
  | "s.map", a :: _ => match arg.toNat? with
    | some k => both (showList (Stream.map (famMap k) (lst a)))
    | none => bad
  | "s.filter", a :: _ => match arg.toNat? with
    | some k => both (showList (Stream.filter (famPred k) (lst a)))
    | none => bad
  | "s.reject", a :: _ => match arg.toNat? with
    | some k => both (showList (Stream.reject (famPred k) (lst a)))
    | none => bad
  | "s.filternotnil", a :: _ => both (showList (Stream.filterNotNil (lst a)))
  | "s.sort", a :: _ => match arg.toNat? with
    | some k => both (showList (Stream.sort (famLess k) (lst a)))
    | none => bad
  | "s.sortidx", a :: _ => match arg.toNat? with
    | some k => both (showList (Stream.sort (famLess k) (lst a)))
    | none => bad
  | "s.get", a :: _ => match arg.toInt? with
    | some i => both (showRes toString (Stream.get (lst a) i))
    | none => bad
  | "s.from", a :: _ => both (showList (lst a))
  | "s.len", a :: _ => both (toString (Stream.len (lst a)))
  | "s.toarray", a :: _ => both (showList (Stream.toArray (lst a)))
  | "s.remove", a :: _ => match arg.toInt? with
    | some k => (showList (G.streamRemove (lst a) k), some (showList (I.streamRemove (lst a) k)))
    | none => bad
  | "minus", a :: b :: _ => both (showList (minus (lst a) (lst b)))
  | "subset", a :: b :: _ => both (showBool (isSubset (lst a) (lst b)))
  | "superset", a :: b :: _ => both (showBool (isSuperset (lst a) (lst b)))
  | "s.inter", a :: b :: _ => both (showList (Stream.intersection (lst a) b))
  | "s.minus", a :: b :: _ => both (showList (Stream.minus (lst a) b))
  | "s.subset", a :: b :: _ => both (showBool (Stream.isSubset (lst a) b))
  | "s.superset", a :: b :: _ => both (showBool (Stream.isSuperset (lst a) b))
  | "s.rmitem", a :: b :: _ => both (showList (Stream.removeItem (lst a) (lst b)))
  | "s.append", a :: b :: _ => both (showList (Stream.concat (lst a) [lst b]))
  | "s.concat", a :: rest => both (showList (Stream.concat (lst a) (rest.map lst)))
  | "s.extend", a :: rest => both (showList (Stream.extend (lst a) rest))
  | _, _ => bad

def mp (o : Option (GoMap Nat Nat)) : GoMap Nat Nat := o.getD []

def runM (raw : List String) (opds : List (Option (GoMap Nat Nat))) (op : String) : String × Option String :=
  let (name, arg) := opArg op
  let nilRecv := raw.headD "" = "nil" || raw.headD "" = "nilmap"
  match name, opds with
  | "m.values", a :: _ => both (showSorted (MapSet.values (mp a)))
  | "m.get", a :: _ => match arg.toNat? with
    | some k => both (toString (MapSet.get 0 (mp a) k))
    | none => bad
  | "m.hasval", a :: _ => match arg.toNat? with
    | some v => both (showBool (MapSet.containsValue (mp a) v))
    | none => bad
  | "m.rmvals", a :: _ => match parseList arg with
    | some l => both (showMap (MapSet.removeValues (mp a) l))
    | none => bad
  | "m.mapkey", a :: _ => match arg.toNat? with
    | some k => both (showMap (MapSet.mapKey (famKey k) (mp a)))
    | none => bad
  | "m.mapval", a :: _ => match arg.toNat? with
    | some k => both (showMap (MapSet.mapValue (famVal k) (mp a)))
    | none => bad
  | "m.set", a :: _ => match parseKV arg with
    | some (k, v) => if nilRecv then both "panic" else both (showMap (MapSet.set (mp a) k v))
    | none => bad
  | "m.union", a :: b :: _ => both (showMap (MapSet.union (mp a) b))
  | "m.inter", a :: b :: _ => both (showMap (MapSet.intersection (mp a) b))
  | "m.minus", a :: b :: _ => both (showMap (MapSet.minus (mp a) b))
  | "m.subset", a :: b :: _ => both (showBool (MapSet.isSubsetByKey (mp a) b))
  | "m.superset", a :: b :: _ => both (showBool (MapSet.isSupersetByKey (mp a) b))
  | "m.add", a :: _ => match parseList arg with
    | some l => both (showMap (MapSet.add 0 (mp a) l))
    | none => bad
  | "m.rmkeys", a :: _ => match parseList arg with
    | some l => both (showMap (MapSet.removeKeys (mp a) l))
    | none => bad
  | "m.has", a :: _ => match arg.toNat? with
    | some k => both (showBool (MapSet.containsKey (mp a) k))
    | none => bad
  | "m.keys", a :: _ => both (showSorted (MapSet.keys (mp a)))
  | "m.size", a :: _ => both (toString (MapSet.size (mp a)))
  | "m.clone", a :: _ => both (showMap (MapSet.clone (mp a)))
  | "m.fromarray", _ | "m.from", _ => match parseList arg with
    | some l => both (showMap (sliceToMap 0 l))
    | none => bad
  | "merge", a :: b :: _ => both (showMap (merge (mp a) (mp b)))
  | "intermap", _ => both (showMap (intersectionMapByKey (opds.map mp)))
  | "minusmap", a :: b :: _ => only (showMap (minusMapByKey (mp a) (mp b)))
  | "subsetmap", a :: b :: _ => both (showBool (isSubsetMapByKey (mp a) (mp b)))
  | "supersetmap", a :: b :: _ => both (showBool (isSupersetMapByKey (mp a) (mp b)))
  | _, _ => bad

def ssv (o : Option (GoMap Nat (List Nat))) : GoMap Nat (List Nat) := o.getD []

/-- a StreamSet whose entries may be nil streams (`Add` stores the zero value = a nil pointer) -/
def showSSO (m : GoMap Nat (Option (List Nat))) : String :=
  "{" ++ ",".intercalate ((sortKeys m).map (fun p => s!"{p.1}:{(p.2.map showList).getD "nil"}")) ++ "}"
def optSS (m : GoMap Nat (List Nat)) : GoMap Nat (Option (List Nat)) := m.map (fun p => (p.1, some p.2))
def sortStr (l : List String) : List String := l.mergeSort (fun a b => decide (a ≤ b))

def runS (opds : List (Option (GoMap Nat (List Nat)))) (op : String) : String × Option String :=
  let (name, arg) := opArg op
  match name, opds with
  | "ss.fromarray", _ | "ss.from", _ => match parseList arg with
    | some l => both (showSS (l.foldl (fun (m : GoMap Nat (List Nat)) k => mset m k []) []))
    | none => bad
  | "ss.union", a :: b :: _ => (showSS (G.ssUnion (ssv a) b), some (showSS (I.ssUnion (ssv a) b)))
  | "ss.inter", a :: b :: _ => (showSS (G.ssIntersection (ssv a) b), some (showSS (I.ssIntersection (ssv a) b)))
  | "ss.minusstreams", a :: b :: _ =>
    (showSS (G.ssMinusStreams (ssv a) b), some (showSS (I.ssMinusStreams (ssv a) b)))
  | "ss.minus", a :: b :: _ => (showSS (G.ssMinus (ssv a) b), some (showSS (I.ssMinus (ssv a) b)))
  | "ss.subset", a :: b :: _ =>
    (showBool (G.ssIsSubsetByKey (ssv a) b), some (showBool (I.ssIsSubsetByKey (ssv a) b)))
  | "ss.superset", a :: b :: _ =>
    (showBool (G.ssIsSupersetByKey (ssv a) b), some (showBool (I.ssIsSupersetByKey (ssv a) b)))
  | "ss.clone", a :: _ => (showSS (G.ssClone (ssv a)), some (showSS (I.ssClone (ssv a))))
  | "ss.frommap", a :: _ => (showSS (G.streamSetFromMap (ssv a)), some (showSS (I.streamSetFromMap (ssv a))))
  -- methods both StreamSet types only have by promotion from the embedded set
  | "ss.size", a :: _ => both (toString (MapSet.size (G.streamSetFromMap (ssv a))))
  | "ss.keys", a :: _ => both (showSorted (MapSet.keys (G.streamSetFromMap (ssv a))))
  | "ss.has", a :: _ => match arg.toNat? with
    | some k => both (showBool (MapSet.containsKey (G.streamSetFromMap (ssv a)) k))
    | none => bad
  | "ss.get", a :: _ => match arg.toNat? with
    | some k => both (((mget (G.streamSetFromMap (ssv a)) k).map showList).getD "nil")
    | none => bad
  | "ss.values", a :: _ =>
    both ("(" ++ "/".intercalate (sortStr ((MapSet.values (G.streamSetFromMap (ssv a))).map showList)) ++ ")")
  | "ss.rmkeys", a :: _ => match parseList arg with
    | some l => both (showSS (MapSet.removeKeys (G.streamSetFromMap (ssv a)) l))
    | none => bad
  | "ss.add", a :: _ => match parseList arg with
    | some l => both (showSSO (MapSet.add none (optSS (G.streamSetFromMap (ssv a))) l))
    | none => bad
  | "ss.set", a :: _ => match parseKS arg with
    | some (k, v) => both (showSS (MapSet.set (G.streamSetFromMap (ssv a)) k v))
    | none => bad
  | "ss.mapkey", a :: _ => match arg.toNat? with
    | some k => both (showSS (MapSet.mapKey (famKey k) (G.streamSetFromMap (ssv a))))
    | none => bad
  | _, _ => bad

/-! ### kind Q: a history of StreamSet operations on the same objects -/

def listGet? {β : Type} (l : List β) (s : String) : Option β := s.toNat?.bind (fun n => l[n]?)

/-- one op of a history: `(new object of the generic family, of the interface{} family)` -/
def stepQ (gobjs iobjs : List (GoMap Nat (List Nat))) (op : String) :
    Option (GoMap Nat (List Nat) × GoMap Nat (List Nat)) :=
  match op.splitOn ":" with
  | [name, r, a] =>
    match listGet? gobjs r, listGet? iobjs r with
    | some gr, some ir =>
      let ga := if a = "n" then some none else (listGet? gobjs a).map some
      let ia := if a = "n" then some none else (listGet? iobjs a).map some
      match ga, ia with
      | some ga, some ia =>
        match name with
        | "union" => some (G.ssUnion gr ga, I.ssUnion ir ia)
        | "inter" => some (G.ssIntersection gr ga, I.ssIntersection ir ia)
        | "minusstreams" => some (G.ssMinusStreams gr ga, I.ssMinusStreams ir ia)
        | "minus" => some (G.ssMinus gr ga, I.ssMinus ir ia)
        | _ => none
      | _, _ => none
    | _, _ => none
  | ["clone", r] =>
    match listGet? gobjs r, listGet? iobjs r with
    | some gr, some ir => some (G.ssClone gr, I.ssClone ir)
    | _, _ => none
  | _ => none

/-- generic history runner: `step gobjs iobjs op` gives the new object of each family -/
def runHist {σ : Type} (showObj : σ → String) (step : List σ → List σ → String → Option (σ × σ))
    (init : List σ) (ops : List String) : List (String × Option String) :=
  let dump (objs : List σ) : String := "|".intercalate (objs.map showObj)
  let rec go (gobjs iobjs : List σ) : List String → List (String × Option String)
    | [] => []
    | op :: rest =>
      match step gobjs iobjs op with
      | some (g, i) =>
        let gobjs := gobjs ++ [g]
        let iobjs := iobjs ++ [i]
        (dump gobjs, some (dump iobjs)) :: go gobjs iobjs rest
      | none => bad :: go gobjs iobjs rest
  go init init ops

def runQ (c : Case) : List (String × Option String) :=
  match allSome (c.opds.map parseSSOpd) with
  | none => c.ops.map (fun _ => bad)
  | some o => runHist showSS stepQ (o.map ssv) c.ops

/-! ### kind P: histories of Stream operations; kind R: histories of MapSet operations -/

def optArg {σ : Type} (objs : List σ) (a : String) : Option (Option σ) :=
  if a = "n" then some none else (listGet? objs a).map some

def stepP1 (objs : List (List Nat)) (op : String) : Option (List Nat) :=
  match op.splitOn ":" with
  | [name, r, a] =>
    match listGet? objs r with
    | some s =>
      match name with
      | "sort" => a.toNat?.map (fun k => Stream.sort (famLess k) s)
      | "filter" => a.toNat?.map (fun k => Stream.filter (famPred k) s)
      | "map" => a.toNat?.map (fun k => Stream.map (famMap k) s)
      | _ =>
        match optArg objs a with
        | some arg =>
          match name with
          | "extend" => some (Stream.extend s [arg])
          | "minus" => some (Stream.minus s arg)
          | "inter" => some (Stream.intersection s arg)
          | "concat" => arg.map (fun b => Stream.concat s [b])
          | "append" => arg.map (fun b => Stream.concat s [b])
          | "rmitem" => arg.map (fun b => Stream.removeItem s b)
          | _ => none
        | none => none
    | none => none
  | [name, r] =>
    match listGet? objs r with
    | some s =>
      match name with
      | "distinct" => some (Stream.distinct s)
      | "reverse" => some (Stream.reverse s)
      | "clone" => some (Stream.clone s)
      | _ => none
    | none => none
  | _ => none

/-- the Stream methods used in histories have ONE model for both families -/
def stepP (gobjs iobjs : List (List Nat)) (op : String) : Option (List Nat × List Nat) :=
  match stepP1 gobjs op, stepP1 iobjs op with
  | some g, some i => some (g, i)
  | _, _ => none

def runP (c : Case) : List (String × Option String) :=
  match allSome (c.opds.map parseListOpd) with
  | none => c.ops.map (fun _ => bad)
  | some o => runHist showList stepP (o.map lst) c.ops

def stepR1 (objs : List (GoMap Nat Nat)) (op : String) : Option (GoMap Nat Nat) :=
  match op.splitOn ":" with
  | [name, r, a] =>
    match listGet? objs r with
    | some m =>
      match name with
      | "add" => (parseList a).map (fun l => MapSet.add 0 m l)
      | "rmkeys" => (parseList a).map (fun l => MapSet.removeKeys m l)
      | "rmvals" => (parseList a).map (fun l => MapSet.removeValues m l)
      | "mapval" => a.toNat?.map (fun k => MapSet.mapValue (famVal k) m)
      | _ =>
        match optArg objs a with
        | some arg =>
          match name with
          | "union" => some (MapSet.union m arg)
          | "inter" => some (MapSet.intersection m arg)
          | "minus" => some (MapSet.minus m arg)
          | _ => none
        | none => none
    | none => none
  | ["clone", r] => (listGet? objs r).map MapSet.clone
  | _ => none

def stepR (gobjs iobjs : List (GoMap Nat Nat)) (op : String) : Option (GoMap Nat Nat × GoMap Nat Nat) :=
  match stepR1 gobjs op, stepR1 iobjs op with
  | some g, some i => some (g, i)
  | _, _ => none

def runR (c : Case) : List (String × Option String) :=
  match allSome (c.opds.map parseMapOpd) with
  | none => c.ops.map (fun _ => bad)
  | some o => runHist showMap stepR (o.map mp) c.ops

def showObs (r : String × Option String) : String :=
  match r.2 with
  | some i => s!"g={r.1} i={i}"
  | none => s!"g={r.1}"

def runOp (c : Case) (op : String) : String × Option String :=
  match c.kind with
  | "L" => match allSome (c.opds.map parseListOpd) with
    | some o => runL o op
    | none => bad
  | "M" => match allSome (c.opds.map parseMapOpd) with
    | some o => runM c.opds o op
    | none => bad
  | "S" => match allSome (c.opds.map parseSSOpd) with
    | some o => runS o op
    | none => bad
  | _ => bad

/-- protocol entry point -/
def handle (line : String) : String :=
  let c := parseCase line
  if c.kind = "Q" then " | ".intercalate ((runQ c).map showObs)
  else if c.kind = "P" then " | ".intercalate ((runP c).map showObs)
  else if c.kind = "R" then " | ".intercalate ((runR c).map showObs)
  else " | ".intercalate (c.ops.map (fun op => showObs (runOp c op)))

/-! ### Spec: what the property demands (membership laws, no duplicates, order of the first operand)
    — stated without reference to the implementation models; evaluated by `judge` on what the real
    code printed. -/

namespace Spec

/-- first occurrences, in order -/
def dedup {α : Type} [DecidableEq α] : List α → List α
  | [] => []
  | x :: xs => x :: (dedup xs).filter (fun y => decide (y ≠ x))

def nodup : List Nat → Bool
  | [] => true
  | x :: xs => !xs.contains x && nodup xs

/-- `r` has exactly the members selected by `p` among the candidates `univ` (and nothing else) -/
def members (univ r : List Nat) (p : Nat → Bool) : Bool := (univ ++ r).all (fun x => r.contains x == p x)

/-- `r` lists its members in the order of their first occurrence in `a` -/
def ordered (a r : List Nat) : Bool := r == (dedup a).filter (r.contains ·)

def unionOK (as : List (List Nat)) (r : List Nat) : Bool :=
  members as.flatten r (fun x => as.any (·.contains x)) && nodup r

def interOK (as : List (List Nat)) (r : List Nat) : Bool :=
  members as.flatten r (fun x => as.all (·.contains x)) && nodup r && ordered (as.headD []) r

def diffOK (as : List (List Nat)) (r : List Nat) : Bool :=
  members as.flatten r (fun x => (as.headD []).contains x && (as.drop 1).all (fun b => !b.contains x))
    && nodup r && ordered (as.headD []) r

def distinctOK (a r : List Nat) : Bool := members a r (a.contains ·) && nodup r && ordered a r

def minusOK (a b r : List Nat) : Bool := members (a ++ b) r (fun x => a.contains x && !b.contains x)

def subsetOK (a b : List Nat) (r : Bool) : Bool := r == a.all (b.contains ·)

/-- per-key comparison of a result stream with a membership predicate -/
def streamOK (univ : List Nat) (r : Option (List Nat)) (p : Nat → Bool) : Bool :=
  match r with
  | some l => members univ l p
  | none => false

end Spec

def nonEmptyAll {β : Type} (l : List (List β)) : Bool := l.all (fun a => a.length > 0)

/-- `none` = the laws hold (or are not demanded); `some why` otherwise -/
def req (ok : Bool) (why : String) : Option String := if ok then none else some why

def specL (opds : List (Option (List Nat))) (op g : String) : Option String :=
  let (name, _) := opArg op
  let ls := opds.map lst
  let inScope (n : Nat) : Bool := ls.length ≥ n && nonEmptyAll ls
  match name, ls with
  | "union", _ => if inScope 1 then
      match parseList g with
      | some r => req (Spec.unionOK ls r) "Union: membership / no-duplicates law"
      | none => some "Union: no result"
    else none
  | "inter", _ => if inScope 1 then
      match parseList g with
      | some r => req (Spec.interOK ls r) "Intersection: membership / no-duplicates / first-operand-order law"
      | none => some "Intersection: no result"
    else none
  | "diff", _ => if inScope 1 then
      match parseList g with
      | some r => req (Spec.diffOK ls r) "Difference: membership / no-duplicates / first-operand-order law"
      | none => some "Difference: no result"
    else none
  | "distinct", a :: _ | "s.distinct", a :: _ => if inScope 1 then
      match parseList g with
      | some r => req (Spec.distinctOK a r) "Distinct: membership / no-duplicates / order law"
      | none => some "Distinct: no result"
    else none
  | "minus", a :: b :: _ | "s.minus", a :: b :: _ | "s.rmitem", a :: b :: _ => if inScope 2 then
      match parseList g with
      | some r => req (Spec.minusOK a b r) "Minus: membership law"
      | none => some "Minus: no result"
    else none
  | "s.inter", a :: b :: _ => if inScope 2 then
      match parseList g with
      | some r => req (Spec.interOK [a, b] r) "Stream.Intersection: membership / no-duplicates / order law"
      | none => some "Stream.Intersection: no result"
    else none
  | "subset", a :: b :: _ | "s.subset", a :: b :: _ => if inScope 2 then
      match parseBool g with
      | some r => req (Spec.subsetOK a b r) "IsSubset law"
      | none => some "IsSubset: no result"
    else none
  | "superset", a :: b :: _ | "s.superset", a :: b :: _ => if inScope 2 then
      match parseBool g with
      | some r => req (Spec.subsetOK b a r) "IsSuperset law"
      | none => some "IsSuperset: no result"
    else none
  | _, _ => none

def keysOK (univ : List Nat) (r : List Nat) (p : Nat → Bool) : Bool := Spec.members univ r p && Spec.nodup r

def specM (opds : List (Option (GoMap Nat Nat))) (op g : String) : Option String :=
  let (name, _) := opArg op
  let ms := opds.map mp
  let ks := ms.map mkeys
  let inScope (n : Nat) : Bool := ks.length ≥ n && nonEmptyAll ks
  let keyLaw (p : Nat → Bool) (what : String) : Option String :=
    match parseMap g with
    | some r => req (keysOK ks.flatten (mkeys r) p) what
    | none => some (what ++ ": no result")
  match name, ks with
  | "m.union", a :: b :: _ | "merge", a :: b :: _ =>
    if inScope 2 then keyLaw (fun k => a.contains k || b.contains k) "Union by key" else none
  | "m.inter", a :: b :: _ =>
    if inScope 2 then keyLaw (fun k => a.contains k && b.contains k) "Intersection by key" else none
  | "intermap", _ =>
    if inScope 1 then keyLaw (fun k => ks.all (·.contains k)) "IntersectionMapByKey" else none
  | "m.minus", a :: b :: _ | "minusmap", a :: b :: _ =>
    if inScope 2 then keyLaw (fun k => a.contains k && !b.contains k) "Minus by key" else none
  | "m.subset", a :: b :: _ | "subsetmap", a :: b :: _ => if inScope 2 then
      match parseBool g with
      | some r => req (Spec.subsetOK a b r) "IsSubsetByKey law"
      | none => some "IsSubsetByKey: no result"
    else none
  | "m.superset", a :: b :: _ | "supersetmap", a :: b :: _ => if inScope 2 then
      match parseBool g with
      | some r => req (Spec.subsetOK b a r) "IsSupersetByKey law"
      | none => some "IsSupersetByKey: no result"
    else none
  | _, _ => none

/-- every key map non-empty and every per-key stream non-empty -/
def ssInScope (ms : List (GoMap Nat (List Nat))) : Bool :=
  ms.all (fun m => m.length > 0 && m.all (fun p => p.2.length > 0))

def specS (opds : List (Option (GoMap Nat (List Nat)))) (op g : String) : Option String :=
  let ms := opds.map ssv
  let strm (m : GoMap Nat (List Nat)) (k : Nat) : List Nat := (mget m k).getD []
  match op, ms with
  | "ss.union", a :: b :: _ => if ssInScope [a, b] then
      match parseSS g with
      | some r =>
        req (keysOK (mkeys a ++ mkeys b) (mkeys r) (fun k => mhas a k || mhas b k)
             && (mkeys a ++ mkeys b).all (fun k =>
                  Spec.streamOK (strm a k ++ strm b k) (mget r k)
                    (fun x => (strm a k).contains x || (strm b k).contains x)))
          "StreamSet.Union: keys / per-key membership law"
      | none => some "StreamSet.Union: no result"
    else none
  | "ss.inter", a :: b :: _ => if ssInScope [a, b] then
      match parseSS g with
      | some r =>
        req (keysOK (mkeys a ++ mkeys b) (mkeys r) (fun k => mhas a k && mhas b k)
             && (mkeys r).all (fun k =>
                  Spec.streamOK (strm a k ++ strm b k) (mget r k)
                    (fun x => (strm a k).contains x && (strm b k).contains x)))
          "StreamSet.Intersection: keys / per-key membership law"
      | none => some "StreamSet.Intersection: no result"
    else none
  | "ss.minusstreams", a :: b :: _ => if ssInScope [a, b] then
      match parseSS g with
      | some r =>
        req (keysOK (mkeys a ++ mkeys b) (mkeys r) (fun k => mhas a k)
             && (mkeys a).all (fun k =>
                  Spec.streamOK (strm a k ++ strm b k) (mget r k)
                    (fun x => (strm a k).contains x && !(strm b k).contains x)))
          "StreamSet.MinusStreams: keys / per-key membership law"
      | none => some "StreamSet.MinusStreams: no result"
    else none
  | "ss.minus", a :: b :: _ => if ssInScope [a, b] then
      match parseSS g with
      | some r =>
        req (keysOK (mkeys a ++ mkeys b) (mkeys r) (fun k => mhas a k && !mhas b k)
             && (mkeys r).all (fun k =>
                  Spec.streamOK (strm a k) (mget r k) (fun x => (strm a k).contains x)))
          "StreamSet.Minus: by-key law"
      | none => some "StreamSet.Minus: no result"
    else none
  | "ss.subset", a :: b :: _ => if ssInScope [a, b] then
      match parseBool g with
      | some r => req (Spec.subsetOK (mkeys a) (mkeys b) r) "StreamSet.IsSubsetByKey law"
      | none => some "StreamSet.IsSubsetByKey: no result"
    else none
  | "ss.superset", a :: b :: _ => if ssInScope [a, b] then
      match parseBool g with
      | some r => req (Spec.subsetOK (mkeys b) (mkeys a) r) "StreamSet.IsSupersetByKey law"
      | none => some "StreamSet.IsSupersetByKey: no result"
    else none
  | _, _ => none

/-- split `g=<x> i=<y>` / `g=<x>` -/
def parseObs (s : String) : Option (String × Option String) :=
  match s.splitOn " " with
  | [g] => if g.startsWith "g=" then some ((g.drop 2).toString, none) else none
  | [g, i] => if g.startsWith "g=" && i.startsWith "i=" then some ((g.drop 2).toString, some (i.drop 2).toString) else none
  | _ => none

def specOp (c : Case) (op g : String) : Option String :=
  match c.kind with
  | "L" => match allSome (c.opds.map parseListOpd) with
    | some o => specL o op g
    | none => none
  | "M" => match allSome (c.opds.map parseMapOpd) with
    | some o => specM o op g
    | none => none
  | "S" => match allSome (c.opds.map parseSSOpd) with
    | some o => specS o op g
    | none => none
  | _ => none

/-- verdict for one op given what the real code printed for it -/
def judgeOp (c : Case) (op obs : String) : Option String :=
  match parseObs obs with
  | none => if obs = "bad-op" then none else some s!"{op}: unreadable observation '{obs}'"
  | some (g, tw) =>
    let modelHasTwin := (runOp c op).2.isSome
    match tw with
    | some i =>
      if g ≠ i then some s!"{op}: twin-mismatch generic={g} interface={i}"
      else (specOp c op g).map (fun w => s!"{op}: {w} (got {g})")
    | none =>
      if modelHasTwin then some s!"{op}: twin result missing"
      else (specOp c op g).map (fun w => s!"{op}: {w} (got {g})")

/-- index of the first object whose printed content differs from what it was -/
def firstChanged : Nat → List String → List String → Option Nat
  | j, a :: as, b :: bs => if a = b then firstChanged (j + 1) as bs else some j
  | _, _, _ => none

/-- histories: the oracle keeps the objects AS THE REAL CODE PRINTED THEM; per op it demands twin agreement,
    that no operand / earlier result changed, and (`law objs op result`) the law of the new result w.r.t.
    the objects it was computed from -/
def judgeHist (law : List String → String → String → Option String) (objs : List String) :
    List (String × String) → Option String
  | [] => none
  | (op, ob) :: rest =>
    match parseObs ob with
    | none => some s!"{op}: unreadable observation '{ob}'"
    | some (g, none) => if g = "bad-op" then judgeHist law objs rest else some s!"{op}: twin result missing"
    | some (g, some i) =>
      if g ≠ i then some s!"{op}: twin-mismatch generic={g} interface={i}" else
      let parts := g.splitOn "|"
      if parts.length ≠ objs.length + 1 then some s!"{op}: unreadable object dump '{g}'" else
      match firstChanged 0 objs parts with
      | some j => some s!"{op}: object #{j} (an operand or an earlier result the caller still holds) changed from {objs.getD j ""} to {parts.getD j ""}"
      | none =>
        let res := parts.getLast?.getD ""
        match law objs op res with
        | some w => some s!"{op}: {w} (got {res})"
        | none => judgeHist law parts rest

def lawQ (objs : List String) (op res : String) : Option String :=
  match op.splitOn ":" with
  | [name, r, a] =>
    match (listGet? objs r).bind parseSS with
    | some recv =>
      let arg : Option (Option (GoMap Nat (List Nat))) :=
        if a = "n" then some none else ((listGet? objs a).bind parseSS).map some
      match arg with
      | some arg => specS [some recv, arg] ("ss." ++ name) res
      | none => none
    | none => none
  | _ => none

def lawP (objs : List String) (op res : String) : Option String :=
  match op.splitOn ":" with
  | [name, r, a] =>
    if name = "minus" || name = "inter" || name = "rmitem" then
      match (listGet? objs r).bind parseList, (listGet? objs a).bind parseList with
      | some recv, some arg => specL [some recv, some arg] ("s." ++ name) res
      | _, _ => none
    else none
  | ["distinct", r] =>
    match (listGet? objs r).bind parseList with
    | some recv => specL [some recv] "s.distinct" res
    | none => none
  | _ => none

def lawR (objs : List String) (op res : String) : Option String :=
  match op.splitOn ":" with
  | [name, r, a] =>
    if name = "union" || name = "inter" || name = "minus" then
      match (listGet? objs r).bind parseMap, (listGet? objs a).bind parseMap with
      | some recv, some arg => specM [some recv, some arg] ("m." ++ name) res
      | _, _ => none
    else none
  | _ => none

def zipOps : List String → List String → List (String × String)
  | o :: os, b :: bs => (o, b) :: zipOps os bs
  | o :: os, [] => (o, "") :: zipOps os []
  | [], _ => []

/-- spec-level oracle: twin agreement for all operands, the set laws within the non-emptiness scope -/
def judge (line impl : String) : String :=
  let c := parseCase line
  let obs := impl.splitOn " | "
  if impl = "hang" || impl = "crash" || impl = "panic" then s!"violation the call did not return normally ({impl})" else
  let verdicts : List String :=
    if c.kind = "Q" then
      match allSome (c.opds.map parseSSOpd) with
      | some o => (judgeHist lawQ ((o.map ssv).map showSS) (zipOps c.ops obs)).toList
      | none => []
    else if c.kind = "P" then
      match allSome (c.opds.map parseListOpd) with
      | some o => (judgeHist lawP ((o.map lst).map showList) (zipOps c.ops obs)).toList
      | none => []
    else if c.kind = "R" then
      match allSome (c.opds.map parseMapOpd) with
      | some o => (judgeHist lawR ((o.map mp).map showMap) (zipOps c.ops obs)).toList
      | none => []
    else (zipOps c.ops obs).filterMap (fun p => judgeOp c p.1 p.2)
  match verdicts with
  | [] => "allowed twins agree and the set laws hold on this case (the model differs outside the demanded scope or in an unordered/undemanded detail)"
  | w :: _ => s!"violation {w}"

end FpgoVerif.C05
