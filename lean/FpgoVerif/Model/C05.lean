import FpgoVerif.Model.C05Impl
/-! Protocol, spec-level oracle and `handle`/`judge` for property C05 (core-only).

    Case line:   `<kind> <operand>* : <op> ; <op> ; …`   (written `L [0.1] nil: union ; inter`)
      kind `L`  operands are element lists      `nil` | `[]` | `[0.1.2]`
      kind `M`  operands are key→value maps     `nil` | `nilmap` | `{}` | `{0:10,1:11}`
      kind `S`  operands are key→stream maps    `nil` | `{}` | `{0:[0.1],1:[]}`
    `nil` is a nil slice (kind L, function operands), a nil pointer / nil interface (method
    arguments); a receiver given as `nil` is a non-nil pointer to a nil slice / nil map.
    Observation: one item per op joined by ` | `: `g=<generic result> i=<interface{} twin result>`
    (`g=<…>` alone for functions that have no twin).  Results that come out of a Go map are sorted.
-/
namespace FpgoVerif.C05

/-! ### printing -/

def showList (l : List Nat) : String := "[" ++ ".".intercalate (l.map toString) ++ "]"
def sortNat (l : List Nat) : List Nat := l.mergeSort (· ≤ ·)
def showSorted (l : List Nat) : String := showList (sortNat l)
def sortKeys {ν : Type} (m : GoMap Nat ν) : GoMap Nat ν := m.mergeSort (fun p q => p.1 ≤ q.1)
def showMap (m : GoMap Nat Nat) : String :=
  "{" ++ ",".intercalate ((sortKeys m).map (fun p => s!"{p.1}:{p.2}")) ++ "}"
def showSS (m : GoMap Nat (List Nat)) : String :=
  "{" ++ ",".intercalate ((sortKeys m).map (fun p => s!"{p.1}:{showList p.2}")) ++ "}"
def showBool (b : Bool) : String := if b then "true" else "false"
def showRes {β : Type} (f : β → String) : Res β → String
  | .ok v => f v
  | .panic => "panic"

/-! ### parsing (total: anything malformed is `none`) -/

def inner (s : String) : String := String.ofList (s.toList.drop 1).dropLast

def allSome {β : Type} : List (Option β) → Option (List β)
  | [] => some []
  | none :: _ => none
  | some x :: t => (allSome t).map (x :: ·)

/-- `[]`, `[0.1.2]` -/
def parseList (s : String) : Option (List Nat) :=
  if s.startsWith "[" && s.endsWith "]" then
    let body := inner s
    if body = "" then some [] else allSome ((body.splitOn ".").map String.toNat?)
  else none

/-- operand of kind L: `none` = nil -/
def parseListOpd (s : String) : Option (Option (List Nat)) :=
  if s = "nil" then some none else (parseList s).map some

def parseKV (s : String) : Option (Nat × Nat) :=
  match s.splitOn ":" with
  | [k, v] => match k.toNat?, v.toNat? with
    | some k, some v => some (k, v)
    | _, _ => none
  | _ => none

def parseMap (s : String) : Option (GoMap Nat Nat) :=
  if s.startsWith "{" && s.endsWith "}" then
    let body := inner s
    if body = "" then some [] else allSome ((body.splitOn ",").map parseKV)
  else none

/-- operand of kind M: `none` = nil pointer/interface, `nilmap` = pointer to a nil map -/
def parseMapOpd (s : String) : Option (Option (GoMap Nat Nat)) :=
  if s = "nil" then some none else if s = "nilmap" then some (some []) else (parseMap s).map some

def parseKS (s : String) : Option (Nat × List Nat) :=
  match s.splitOn ":" with
  | [k, v] => match k.toNat?, parseList v with
    | some k, some v => some (k, v)
    | _, _ => none
  | _ => none

def parseSS (s : String) : Option (GoMap Nat (List Nat)) :=
  if s.startsWith "{" && s.endsWith "}" then
    let body := inner s
    if body = "" then some [] else allSome ((body.splitOn ",").map parseKS)
  else none

def parseSSOpd (s : String) : Option (Option (GoMap Nat (List Nat))) :=
  if s = "nil" then some none else (parseSS s).map some

def parseBool (s : String) : Option Bool :=
  if s = "true" then some true else if s = "false" then some false else none

structure Case where
  kind : String
  opds : List String
  ops  : List String

def parseCase (line : String) : Case :=
  match line.splitOn ": " with
  | head :: rest =>
    let hs := (head.splitOn " ").filter (· ≠ "")
    let body := ": ".intercalate rest
    let ops := ((body.splitOn ";").map (fun t => t.trimAscii.toString)).filter (· ≠ "")
    { kind := hs.headD "", opds := hs.drop 1, ops := ops }
  | [] => { kind := "", opds := [], ops := [] }

/-- `name:arg` -/
def opArg (op : String) : String × String :=
  match op.splitOn ":" with
  | [n] => (n, "")
  | n :: rest => (n, ":".intercalate rest)
  | [] => ("", "")

/-! ### running one op on the implementation models: `(generic, twin)`; `none` twin = no twin -/

def both (s : String) : String × Option String := (s, some s)
def only (s : String) : String × Option String := (s, none)
def bad : String × Option String := ("bad-op", none)

def lst (o : Option (List Nat)) : List Nat := o.getD []

def runL (opds : List (Option (List Nat))) (op : String) : String × Option String :=
  let (name, arg) := opArg op
  let ls := opds.map lst
  match name, opds with
  | "union", _ => only (showSorted (union ls))
  | "inter", _ => both (showRes showList (intersection (if opds.isEmpty then none else some ls)))
  | "diff", _ => only (showRes showList (difference (if opds.isEmpty then none else some ls)))
  | "inter0", _ => both (showRes showList (intersection (α := Nat) (some [])))
  | "diff0", _ => only (showRes showList (difference (α := Nat) (some [])))
  | "distinct", a :: _ => both (showList (distinct (lst a)))
  | "s.distinct", a :: _ => both (showList (Stream.distinct (lst a)))
  | "s.clone", a :: _ => both (showList (Stream.clone (lst a)))
  | "s.reverse", a :: _ => both (showList (Stream.reverse (lst a)))
  | "has", a :: _ => match arg.toNat? with
    | some x => both (showBool (existsIn x (lst a)))
    | none => bad
  | "s.has", a :: _ => match arg.toNat? with
    | some x => both (showBool (Stream.contains (lst a) x))
    | none => bad
  | "s.remove", a :: _ => match arg.toInt? with
    | some k => (showList (G.streamRemove (lst a) k), some (showList (I.streamRemove (lst a) k)))
    | none => bad
  | "minus", a :: b :: _ => both (showList (minus (lst a) (lst b)))
  | "subset", a :: b :: _ => both (showBool (isSubset (lst a) (lst b)))
  | "superset", a :: b :: _ => both (showBool (isSuperset (lst a) (lst b)))
  | "s.inter", a :: b :: _ => both (showList (Stream.intersection (lst a) b))
  | "s.minus", a :: b :: _ => both (showList (Stream.minus (lst a) b))
  | "s.subset", a :: b :: _ => both (showBool (Stream.isSubset (lst a) b))
  | "s.superset", a :: b :: _ => both (showBool (Stream.isSuperset (lst a) b))
  | "s.rmitem", a :: b :: _ => both (showList (Stream.removeItem (lst a) (lst b)))
  | "s.append", a :: b :: _ => both (showList (Stream.concat (lst a) [lst b]))
  | "s.concat", a :: rest => both (showList (Stream.concat (lst a) (rest.map lst)))
  | "s.extend", a :: rest => both (showList (Stream.extend (lst a) rest))
  | _, _ => bad

def mp (o : Option (GoMap Nat Nat)) : GoMap Nat Nat := o.getD []

def runM (opds : List (Option (GoMap Nat Nat))) (op : String) : String × Option String :=
  let (name, arg) := opArg op
  match name, opds with
  | "m.union", a :: b :: _ => both (showMap (MapSet.union (mp a) b))
  | "m.inter", a :: b :: _ => both (showMap (MapSet.intersection (mp a) b))
  | "m.minus", a :: b :: _ => both (showMap (MapSet.minus (mp a) b))
  | "m.subset", a :: b :: _ => both (showBool (MapSet.isSubsetByKey (mp a) b))
  | "m.superset", a :: b :: _ => both (showBool (MapSet.isSupersetByKey (mp a) b))
  | "m.add", a :: _ => match parseList arg with
    | some l => both (showMap (MapSet.add 0 (mp a) l))
    | none => bad
  | "m.rmkeys", a :: _ => match parseList arg with
    | some l => both (showMap (MapSet.removeKeys (mp a) l))
    | none => bad
  | "m.has", a :: _ => match arg.toNat? with
    | some k => both (showBool (MapSet.containsKey (mp a) k))
    | none => bad
  | "m.keys", a :: _ => both (showSorted (MapSet.keys (mp a)))
  | "m.size", a :: _ => both (toString (MapSet.size (mp a)))
  | "m.clone", a :: _ => both (showMap (MapSet.clone (mp a)))
  | "m.fromarray", _ => match parseList arg with
    | some l => both (showMap (sliceToMap 0 l))
    | none => bad
  | "merge", a :: b :: _ => both (showMap (merge (mp a) (mp b)))
  | "intermap", _ => both (showMap (intersectionMapByKey (opds.map mp)))
  | "minusmap", a :: b :: _ => only (showMap (minusMapByKey (mp a) (mp b)))
  | "subsetmap", a :: b :: _ => both (showBool (isSubsetMapByKey (mp a) (mp b)))
  | "supersetmap", a :: b :: _ => both (showBool (isSupersetMapByKey (mp a) (mp b)))
  | _, _ => bad

def ssv (o : Option (GoMap Nat (List Nat))) : GoMap Nat (List Nat) := o.getD []

def runS (opds : List (Option (GoMap Nat (List Nat)))) (op : String) : String × Option String :=
  match op, opds with
  | "ss.union", a :: b :: _ => (showSS (G.ssUnion (ssv a) b), some (showSS (I.ssUnion (ssv a) b)))
  | "ss.inter", a :: b :: _ => (showSS (G.ssIntersection (ssv a) b), some (showSS (I.ssIntersection (ssv a) b)))
  | "ss.minusstreams", a :: b :: _ =>
    (showSS (G.ssMinusStreams (ssv a) b), some (showSS (I.ssMinusStreams (ssv a) b)))
  | "ss.minus", a :: b :: _ => (showSS (G.ssMinus (ssv a) b), some (showSS (I.ssMinus (ssv a) b)))
  | "ss.subset", a :: b :: _ =>
    (showBool (G.ssIsSubsetByKey (ssv a) b), some (showBool (I.ssIsSubsetByKey (ssv a) b)))
  | "ss.superset", a :: b :: _ =>
    (showBool (G.ssIsSupersetByKey (ssv a) b), some (showBool (I.ssIsSupersetByKey (ssv a) b)))
  | "ss.clone", a :: _ => (showSS (G.ssClone (ssv a)), some (showSS (I.ssClone (ssv a))))
  | "ss.frommap", a :: _ => (showSS (G.streamSetFromMap (ssv a)), some (showSS (I.streamSetFromMap (ssv a))))
  | _, _ => bad

def showObs (r : String × Option String) : String :=
  match r.2 with
  | some i => s!"g={r.1} i={i}"
  | none => s!"g={r.1}"

def runOp (c : Case) (op : String) : String × Option String :=
  match c.kind with
  | "L" => match allSome (c.opds.map parseListOpd) with
    | some o => runL o op
    | none => bad
  | "M" => match allSome (c.opds.map parseMapOpd) with
    | some o => runM o op
    | none => bad
  | "S" => match allSome (c.opds.map parseSSOpd) with
    | some o => runS o op
    | none => bad
  | _ => bad

/-- protocol entry point -/
def handle (line : String) : String :=
  let c := parseCase line
  " | ".intercalate (c.ops.map (fun op => showObs (runOp c op)))

/-! ### Spec: what the property demands (membership laws, no duplicates, order of the first operand)
    — stated without reference to the implementation models; evaluated by `judge` on what the real
    code printed. -/

namespace Spec

/-- first occurrences, in order -/
def dedup {α : Type} [DecidableEq α] : List α → List α
  | [] => []
  | x :: xs => x :: (dedup xs).filter (fun y => decide (y ≠ x))

def nodup : List Nat → Bool
  | [] => true
  | x :: xs => !xs.contains x && nodup xs

/-- `r` has exactly the members selected by `p` among the candidates `univ` (and nothing else) -/
def members (univ r : List Nat) (p : Nat → Bool) : Bool := (univ ++ r).all (fun x => r.contains x == p x)

/-- `r` lists its members in the order of their first occurrence in `a` -/
def ordered (a r : List Nat) : Bool := r == (dedup a).filter (r.contains ·)

def unionOK (as : List (List Nat)) (r : List Nat) : Bool :=
  members as.flatten r (fun x => as.any (·.contains x)) && nodup r

def interOK (as : List (List Nat)) (r : List Nat) : Bool :=
  members as.flatten r (fun x => as.all (·.contains x)) && nodup r && ordered (as.headD []) r

def diffOK (as : List (List Nat)) (r : List Nat) : Bool :=
  members as.flatten r (fun x => (as.headD []).contains x && (as.drop 1).all (fun b => !b.contains x))
    && nodup r && ordered (as.headD []) r

def distinctOK (a r : List Nat) : Bool := members a r (a.contains ·) && nodup r && ordered a r

def minusOK (a b r : List Nat) : Bool := members (a ++ b) r (fun x => a.contains x && !b.contains x)

def subsetOK (a b : List Nat) (r : Bool) : Bool := r == a.all (b.contains ·)

/-- per-key comparison of a result stream with a membership predicate -/
def streamOK (univ : List Nat) (r : Option (List Nat)) (p : Nat → Bool) : Bool :=
  match r with
  | some l => members univ l p
  | none => false

end Spec

def nonEmptyAll {β : Type} (l : List (List β)) : Bool := l.all (fun a => a.length > 0)

/-- `none` = the laws hold (or are not demanded); `some why` otherwise -/
def req (ok : Bool) (why : String) : Option String := if ok then none else some why

def specL (opds : List (Option (List Nat))) (op g : String) : Option String :=
  let (name, _) := opArg op
  let ls := opds.map lst
  let inScope (n : Nat) : Bool := ls.length ≥ n && nonEmptyAll ls
  match name, ls with
  | "union", _ => if inScope 1 then
      match parseList g with
      | some r => req (Spec.unionOK ls r) "Union: membership / no-duplicates law"
      | none => some "Union: no result"
    else none
  | "inter", _ => if inScope 1 then
      match parseList g with
      | some r => req (Spec.interOK ls r) "Intersection: membership / no-duplicates / first-operand-order law"
      | none => some "Intersection: no result"
    else none
  | "diff", _ => if inScope 1 then
      match parseList g with
      | some r => req (Spec.diffOK ls r) "Difference: membership / no-duplicates / first-operand-order law"
      | none => some "Difference: no result"
    else none
  | "distinct", a :: _ | "s.distinct", a :: _ => if inScope 1 then
      match parseList g with
      | some r => req (Spec.distinctOK a r) "Distinct: membership / no-duplicates / order law"
      | none => some "Distinct: no result"
    else none
  | "minus", a :: b :: _ | "s.minus", a :: b :: _ | "s.rmitem", a :: b :: _ => if inScope 2 then
      match parseList g with
      | some r => req (Spec.minusOK a b r) "Minus: membership law"
      | none => some "Minus: no result"
    else none
  | "s.inter", a :: b :: _ => if inScope 2 then
      match parseList g with
      | some r => req (Spec.interOK [a, b] r) "Stream.Intersection: membership / no-duplicates / order law"
      | none => some "Stream.Intersection: no result"
    else none
  | "subset", a :: b :: _ | "s.subset", a :: b :: _ => if inScope 2 then
      match parseBool g with
      | some r => req (Spec.subsetOK a b r) "IsSubset law"
      | none => some "IsSubset: no result"
    else none
  | "superset", a :: b :: _ | "s.superset", a :: b :: _ => if inScope 2 then
      match parseBool g with
      | some r => req (Spec.subsetOK b a r) "IsSuperset law"
      | none => some "IsSuperset: no result"
    else none
  | _, _ => none

def keysOK (univ : List Nat) (r : List Nat) (p : Nat → Bool) : Bool := Spec.members univ r p && Spec.nodup r

def specM (opds : List (Option (GoMap Nat Nat))) (op g : String) : Option String :=
  let (name, _) := opArg op
  let ms := opds.map mp
  let ks := ms.map mkeys
  let inScope (n : Nat) : Bool := ks.length ≥ n && nonEmptyAll ks
  let keyLaw (p : Nat → Bool) (what : String) : Option String :=
    match parseMap g with
    | some r => req (keysOK ks.flatten (mkeys r) p) what
    | none => some (what ++ ": no result")
  match name, ks with
  | "m.union", a :: b :: _ | "merge", a :: b :: _ =>
    if inScope 2 then keyLaw (fun k => a.contains k || b.contains k) "Union by key" else none
  | "m.inter", a :: b :: _ =>
    if inScope 2 then keyLaw (fun k => a.contains k && b.contains k) "Intersection by key" else none
  | "intermap", _ =>
    if inScope 1 then keyLaw (fun k => ks.all (·.contains k)) "IntersectionMapByKey" else none
  | "m.minus", a :: b :: _ | "minusmap", a :: b :: _ =>
    if inScope 2 then keyLaw (fun k => a.contains k && !b.contains k) "Minus by key" else none
  | "m.subset", a :: b :: _ | "subsetmap", a :: b :: _ => if inScope 2 then
      match parseBool g with
      | some r => req (Spec.subsetOK a b r) "IsSubsetByKey law"
      | none => some "IsSubsetByKey: no result"
    else none
  | "m.superset", a :: b :: _ | "supersetmap", a :: b :: _ => if inScope 2 then
      match parseBool g with
      | some r => req (Spec.subsetOK b a r) "IsSupersetByKey law"
      | none => some "IsSupersetByKey: no result"
    else none
  | _, _ => none

/-- every key map non-empty and every per-key stream non-empty -/
def ssInScope (ms : List (GoMap Nat (List Nat))) : Bool :=
  ms.all (fun m => m.length > 0 && m.all (fun p => p.2.length > 0))

def specS (opds : List (Option (GoMap Nat (List Nat)))) (op g : String) : Option String :=
  let ms := opds.map ssv
  let strm (m : GoMap Nat (List Nat)) (k : Nat) : List Nat := (mget m k).getD []
  match op, ms with
  | "ss.union", a :: b :: _ => if ssInScope [a, b] then
      match parseSS g with
      | some r =>
        req (keysOK (mkeys a ++ mkeys b) (mkeys r) (fun k => mhas a k || mhas b k)
             && (mkeys a ++ mkeys b).all (fun k =>
                  Spec.streamOK (strm a k ++ strm b k) (mget r k)
                    (fun x => (strm a k).contains x || (strm b k).contains x)))
          "StreamSet.Union: keys / per-key membership law"
      | none => some "StreamSet.Union: no result"
    else none
  | "ss.inter", a :: b :: _ => if ssInScope [a, b] then
      match parseSS g with
      | some r =>
        req (keysOK (mkeys a ++ mkeys b) (mkeys r) (fun k => mhas a k && mhas b k)
             && (mkeys r).all (fun k =>
                  Spec.streamOK (strm a k ++ strm b k) (mget r k)
                    (fun x => (strm a k).contains x && (strm b k).contains x)))
          "StreamSet.Intersection: keys / per-key membership law"
      | none => some "StreamSet.Intersection: no result"
    else none
  | "ss.minusstreams", a :: b :: _ => if ssInScope [a, b] then
      match parseSS g with
      | some r =>
        req (keysOK (mkeys a ++ mkeys b) (mkeys r) (fun k => mhas a k)
             && (mkeys a).all (fun k =>
                  Spec.streamOK (strm a k ++ strm b k) (mget r k)
                    (fun x => (strm a k).contains x && !(strm b k).contains x)))
          "StreamSet.MinusStreams: keys / per-key membership law"
      | none => some "StreamSet.MinusStreams: no result"
    else none
  | "ss.minus", a :: b :: _ => if ssInScope [a, b] then
      match parseSS g with
      | some r =>
        req (keysOK (mkeys a ++ mkeys b) (mkeys r) (fun k => mhas a k && !mhas b k)
             && (mkeys r).all (fun k =>
                  Spec.streamOK (strm a k) (mget r k) (fun x => (strm a k).contains x)))
          "StreamSet.Minus: by-key law"
      | none => some "StreamSet.Minus: no result"
    else none
  | "ss.subset", a :: b :: _ => if ssInScope [a, b] then
      match parseBool g with
      | some r => req (Spec.subsetOK (mkeys a) (mkeys b) r) "StreamSet.IsSubsetByKey law"
      | none => some "StreamSet.IsSubsetByKey: no result"
    else none
  | "ss.superset", a :: b :: _ => if ssInScope [a, b] then
      match parseBool g with
      | some r => req (Spec.subsetOK (mkeys b) (mkeys a) r) "StreamSet.IsSupersetByKey law"
      | none => some "StreamSet.IsSupersetByKey: no result"
    else none
  | _, _ => none

/-- split `g=<x> i=<y>` / `g=<x>` -/
def parseObs (s : String) : Option (String × Option String) :=
  match s.splitOn " " with
  | [g] => if g.startsWith "g=" then some ((g.drop 2).toString, none) else none
  | [g, i] => if g.startsWith "g=" && i.startsWith "i=" then some ((g.drop 2).toString, some (i.drop 2).toString) else none
  | _ => none

def specOp (c : Case) (op g : String) : Option String :=
  match c.kind with
  | "L" => match allSome (c.opds.map parseListOpd) with
    | some o => specL o op g
    | none => none
  | "M" => match allSome (c.opds.map parseMapOpd) with
    | some o => specM o op g
    | none => none
  | "S" => match allSome (c.opds.map parseSSOpd) with
    | some o => specS o op g
    | none => none
  | _ => none

/-- verdict for one op given what the real code printed for it -/
def judgeOp (c : Case) (op obs : String) : Option String :=
  match parseObs obs with
  | none => if obs = "bad-op" then none else some s!"{op}: unreadable observation '{obs}'"
  | some (g, tw) =>
    let modelHasTwin := (runOp c op).2.isSome
    match tw with
    | some i =>
      if g ≠ i then some s!"{op}: twin-mismatch generic={g} interface={i}"
      else (specOp c op g).map (fun w => s!"{op}: {w} (got {g})")
    | none =>
      if modelHasTwin then some s!"{op}: twin result missing"
      else (specOp c op g).map (fun w => s!"{op}: {w} (got {g})")

def zipOps : List String → List String → List (String × String)
  | o :: os, b :: bs => (o, b) :: zipOps os bs
  | o :: os, [] => (o, "") :: zipOps os []
  | [], _ => []

/-- spec-level oracle: twin agreement for all operands, the set laws within the non-emptiness scope -/
def judge (line impl : String) : String :=
  let c := parseCase line
  let obs := impl.splitOn " | "
  if impl = "hang" || impl = "crash" || impl = "panic" then s!"violation the call did not return normally ({impl})" else
  match (zipOps c.ops obs).filterMap (fun p => judgeOp c p.1 p.2) with
  | [] => "allowed twins agree and the set laws hold on this case (the model differs outside the demanded scope or in an unordered/undemanded detail)"
  | w :: _ => s!"violation {w}"

end FpgoVerif.C05
