import FpgoVerif.Model.C20Comb
import FpgoVerif.Model.C20Match
/-! Executable model for property C20 (core-only): the line protocol over the models of
    `Model/C20Comb.lean` (Compose/Pipe, adapters, Trampoline, CurryDef) and `Model/C20Match.lean`
    (pattern matching, sum types).  `handle` answers with the implementation model, `judge` with the Spec.

    Case lines (see harness/c20.go for the same grammar on the Go side):
      cp <C|CI|P|PI> <ints>: f ; f ; …            Compose / ComposeInterface / Pipe / PipeInterface
      cg <C|P> <k> <ints>: f ; f ; …              regrouped at k: X(X(fs[:k]), X(fs[k:]))
      ru <steps> <ints>: f ; f ; …                one slice reused: steps C P I J g<k> h<k> x, comma separated
      rr <steps> <ints A> <ints B>: f ; f ; …     each built function: run on A, on B, re-read result A, run again, re-read B
      ad <adapter> <bound ints>: <ints>           one adapter call
      tr <kd> <ke> <mode>: <ints>                 Trampoline with the step family
      cu <G|I> <n>: c:<ints> ; d ; r ; i ; …      CurryDef script (Call / MarkDone / Result / IsDone)
      cw <G|I> <n>: b:<cap>:<ints> ; A ; B:<ints> ; w:<i>:<v> ; v ; rA ; …   two CurryDefs, one caller buffer
      cs <g> <m> <a> <n> <y>                      concurrent Call stress (monitor)
      m <probe>: pat ; pat ; …   e <probe>: …     MatchFor / Either
      nd <ct> <objs>   tm <ct> <objs>   mc <ct> <ct> <objs>     NewCompData / Matches / MatchCompType -/

namespace FpgoVerif.C20

/-! ## small parsing / rendering helpers -/

def parseInts (s : String) : List Int :=
  if s == "-" || s == "" then [] else (s.splitOn ",").map (fun t => t.toInt?.getD 0)

def showInts (l : List Int) : String :=
  if l.isEmpty then "-" else ",".intercalate (l.map toString)

def toks (body : String) : List String :=
  ((body.splitOn " ; ").map (fun t => t.trimAscii.toString)).filter (fun t => t != "" && t != "-")

def dropS (s : String) (n : Nat) : String := String.ofList (s.toList.drop n)

/-- `head: body` → (words of head, body) -/
def splitCase (line : String) : List String × String :=
  match line.splitOn ": " with
  | [] => ([], "")
  | h :: rest => ((h.splitOn " ").filter (· != ""), ": ".intercalate rest)

/-! ## the function family of the Compose/Pipe correspondence (same definitions in harness/c20.go) -/

def sumL (l : List Int) : Int := l.foldl (· + ·) 0

def fnOfTok (t : String) : Fn Int :=
  -- stages that yield nothing (in Go: a nil slice `nl`, a filter written with `var out []T` that matches nothing
  -- `fg<k>`, an empty non-nil slice `em` — all the empty argument list) and stages that produce a value from zero
  -- arguments (`ct` count, `cn<c>` constant)
  if t == "nl" then total (fun _ => [])
  else if t == "em" then total (fun _ => [])
  else if t == "ct" then total (fun s => [(s.length : Int)])
  else if t.startsWith "cn" then total (fun _ => [(dropS t 2).toInt?.getD 0])
  else if t.startsWith "fg" then total (fun s => s.filter (fun x => decide (x > (dropS t 2).toInt?.getD 0)))
  else if t == "id" then total (fun s => s)                                   -- pass-through stages: in Go they hand back
  else if t == "so" then total (fun s => s.mergeSort (fun a b => decide (a ≤ b)))   -- the slice they were given
  else if t == "sd" then total (fun s => s.mergeSort (fun a b => decide (a ≥ b)))   -- (sorted in place) or a view of it
  else if t.startsWith "tk" then total (fun s => s.take ((dropS t 2).toNat?.getD 0))
  else if t.startsWith "dk" then total (fun s => s.drop ((dropS t 2).toNat?.getD 0))
  else if t == "r" then total List.reverse
  else if t == "t" then total (fun s => s.drop 1)
  else if t == "s" then total (fun s => [sumL s])
  else if t == "d" then total (fun s => s ++ s)
  else if t == "v1" then makeVariadicParam1 (fun a => [3 * a + 1])
  else if t == "v2" then makeVariadicParam2 (fun a b => [a - b, 2 * a + b])
  else if t == "v3" then makeVariadicParam3 (fun a b c => [c, a, b])
  else if t == "w2" then total (makeVariadicReturn2 (fun s => (sumL s, (s.length : Int))))
  else if t.startsWith "a" then
    match (dropS t 1).splitOn "." with
    | [m, i] => let m := m.toInt?.getD 1; let i := i.toInt?.getD 0; total (fun s => s.map (fun x => m * x + i))
    | _ => fun _ => .panic
  else if t.startsWith "p" then
    let k := (dropS t 1).toInt?.getD 0; total (fun s => k :: s)
  else if t.startsWith "c1." then
    let k := (dropS t 3).toInt?.getD 0
    total (curryParam1 (fun (a : Int) rest => rest.map (· + a) ++ [a]) k)
  else if t.startsWith "n" then
    let k := (dropS t 1).toInt?.getD 0
    total (makeNumericReturnForVariadicParamReturnBool1 (fun s => decide (sumL s > k)))
  else fun _ => .panic

def showRes : Res (List Int) → String
  | .ok l => "ok " ++ showInts l
  | .panic => "panic"

def runCP (impl : Bool) (variant : String) (input : List Int) (fs : List (Fn Int)) : String :=
  let isCompose := variant == "C" || variant == "CI"
  showRes (if impl then (if isCompose then compose fs input else pipe fs input)
           else (if isCompose then Spec.compose fs input else Spec.pipe fs input))

def runCG (impl : Bool) (variant : String) (k : Nat) (input : List Int) (fs : List (Fn Int)) : String :=
  let isCompose := variant == "C"
  if !impl then showRes (if isCompose then Spec.compose fs input else Spec.pipe fs input)
  else if 0 < k && k < fs.length then
    let a := fs.take k; let b := fs.drop k
    showRes (if isCompose then compose [compose a, compose b] input else pipe [pipe a, pipe b] input)
  else showRes (if isCompose then compose fs input else pipe fs input)

/-! ## repeated use of one caller-owned function slice (`ru` cases)

    The caller builds the slice `fs` once and spreads it (`X(fs...)`, sub-slices for the regroupings) into
    several combinator calls.  A combinator call is modelled as returning the composed function *and* the
    caller's slice as it is afterwards — the combinators only read it. -/

/-- `X(fs...)`: the composed function and the caller's slice afterwards -/
def applyComb {α : Type} (comb : List (Fn α) → Fn α) (fs : List (Fn α)) : Fn α × List (Fn α) := (comb fs, fs)

/-- `X(X(fs[:k]...), X(fs[k:]...))` for `0 < k < len`, plain `X(fs...)` otherwise -/
def applyRegroup {α : Type} (comb : List (Fn α) → Fn α) (k : Nat) (fs : List (Fn α)) : Fn α × List (Fn α) :=
  if 0 < k && k < fs.length then
    let (a, fs1) := applyComb comb (fs.take k)
    let (b, fs2) := applyComb comb (fs.drop k)
    (comb [a, b], fs1 ++ fs2)
  else applyComb comb fs

structure RuState where
  fs : List (Fn Int)            -- the caller's slice
  built : List (Fn Int)         -- composed functions, in build order
  outs : List String            -- segments printed so far

def showSeg (rs : List (Res (List Int))) : String := " | ".intercalate (rs.map showRes)

/-- one step of a `ru` script: `C`/`I` Compose(Interface), `P`/`J` Pipe(Interface), `g<k>`/`h<k>` regrouped
    Compose/Pipe, `x` run everything built so far -/
def ruStep (cmp pip : List (Fn Int) → Fn Int) (input : List Int) (st : RuState) (tok : String) : RuState :=
  let add (r : Fn Int × List (Fn Int)) : RuState := { st with fs := r.2, built := st.built ++ [r.1] }
  if tok == "C" || tok == "I" then add (applyComb cmp st.fs)
  else if tok == "P" || tok == "J" then add (applyComb pip st.fs)
  else if tok.startsWith "g" then add (applyRegroup cmp ((dropS tok 1).toNat?.getD 0) st.fs)
  else if tok.startsWith "h" then add (applyRegroup pip ((dropS tok 1).toNat?.getD 0) st.fs)
  else if tok == "x" then { st with outs := st.outs ++ [showSeg (st.built.map (fun f => f input))] }
  else st

def ruRun (cmp pip : List (Fn Int) → Fn Int) (script : List String) (input : List Int) (fs : List (Fn Int)) : RuState :=
  script.foldl (ruStep cmp pip input) ⟨fs, [], []⟩

/-- observation: the `x` segments, two passes over all built functions, then every element of the caller's
    slice applied alone (twice: the `[]func(...int)` slice and its boxed `interface{}` twin) -/
def runRU (impl : Bool) (script : String) (input : List Int) (fs : List (Fn Int)) : String :=
  let st := if impl then ruRun compose pipe (script.splitOn ",") input fs
            else ruRun Spec.compose Spec.pipe (script.splitOn ",") input fs
  let pass := showSeg (st.built.map (fun f => f input))
  let own := showSeg ((if impl then st.fs else fs).map (fun f => f input))
  " # ".intercalate (st.outs ++ [pass, pass, own, own])

/-! ## results are values (`rr` cases): every composed function is invoked on input A, then on input B, and
    the result of the first invocation is read again afterwards (and likewise once more) — an invocation must not
    rewrite what an earlier invocation returned, also when every stage hands back the slice it was given. -/

def runRR (impl : Bool) (script : String) (a b : List Int) (fs : List (Fn Int)) : String :=
  let st := if impl then ruRun compose pipe (script.splitOn ",") [] fs
            else ruRun Spec.compose Spec.pipe (script.splitOn ",") [] fs
  " | ".intercalate (st.built.map (fun f =>
    let ra := showRes (f a)
    let rb := showRes (f b)
    -- first result, second result, first result re-read after the second invocation, second re-read after a third
    " > ".intercalate [ra, rb, ra, rb]))

/-! ## adapters -/

def wsum (args : List Int) : Int := ((args.zipIdx).map (fun (x, i) => ((i : Int) + 1) * x)).foldl (· + ·) 0
def rj (j : Int) (args : List Int) : Int := 1000 * j + wsum args

def runAdapterImpl (name : String) (b : List Int) (args : List Int) : Res (List Int) :=
  let g (i : Nat) : Int := b.getD i 0
  match name with
  | "vp1" => makeVariadicParam1 (fun a0 => [a0]) args
  | "vp2" => makeVariadicParam2 (fun a0 a1 => [a0, a1]) args
  | "vp3" => makeVariadicParam3 (fun a0 a1 a2 => [a0, a1, a2]) args
  | "vp4" => makeVariadicParam4 (fun a0 a1 a2 a3 => [a0, a1, a2, a3]) args
  | "vp5" => makeVariadicParam5 (fun a0 a1 a2 a3 a4 => [a0, a1, a2, a3, a4]) args
  | "vp6" => makeVariadicParam6 (fun a0 a1 a2 a3 a4 a5 => [a0, a1, a2, a3, a4, a5]) args
  | "vr1" => .ok (makeVariadicReturn1 (fun s => rj 1 s) args)
  | "vr2" => .ok (makeVariadicReturn2 (fun s => (rj 1 s, rj 2 s)) args)
  | "vr3" => .ok (makeVariadicReturn3 (fun s => (rj 1 s, rj 2 s, rj 3 s)) args)
  | "vr4" => .ok (makeVariadicReturn4 (fun s => (rj 1 s, rj 2 s, rj 3 s, rj 4 s)) args)
  | "vr5" => .ok (makeVariadicReturn5 (fun s => (rj 1 s, rj 2 s, rj 3 s, rj 4 s, rj 5 s)) args)
  | "vr6" => .ok (makeVariadicReturn6 (fun s => (rj 1 s, rj 2 s, rj 3 s, rj 4 s, rj 5 s, rj 6 s)) args)
  | "cs1" => .ok (curryParam1ForSlice1 (fun (a : Int) rest => [a, -1] ++ rest) (g 0) args)
  | "cp1" => .ok (curryParam1 (fun (a : Int) rest => [a, -1] ++ rest) (g 0) args)
  | "cp2" => .ok (curryParam2 (fun (a b : Int) rest => [a, b, -1] ++ rest) (g 0) (g 1) args)
  | "cp3" => .ok (curryParam3 (fun (a b c : Int) rest => [a, b, c, -1] ++ rest) (g 0) (g 1) (g 2) args)
  | "cp4" => .ok (curryParam4 (fun (a b c d : Int) rest => [a, b, c, d, -1] ++ rest) (g 0) (g 1) (g 2) (g 3) args)
  | "cp5" => .ok (curryParam5 (fun (a b c d e : Int) rest => [a, b, c, d, e, -1] ++ rest) (g 0) (g 1) (g 2) (g 3) (g 4) args)
  | "cp6" => .ok (curryParam6 (fun (a b c d e f : Int) rest => [a, b, c, d, e, f, -1] ++ rest)
      (g 0) (g 1) (g 2) (g 3) (g 4) (g 5) args)
  | "nv" => .ok (makeNumericReturnForVariadicParamReturnBool1 (fun s => decide (sumL s > g 0)) args)
  | "ns" => .ok (makeNumericReturnForVariadicParamReturnBool1 (fun s => decide (sumL s > g 0)) args)
  | "np" => makeNumericReturnForParam1ReturnBool1 (fun a => decide (a > g 0)) args
  | _ => .panic

/-- the property's statement about adapters: "pass exactly the bound and supplied arguments in order" -/
def runAdapterSpec (name : String) (b : List Int) (args : List Int) : Res (List Int) :=
  let n := ((dropS name 2).toNat?).getD 0
  if name.startsWith "vp" then (if args.length < n then .panic else .ok (args.take n))
  else if name.startsWith "vr" then .ok ((List.range n).map (fun (j : Nat) => rj ((j : Int) + 1) args))
  else if name.startsWith "cp" then .ok ((List.range n).map (fun (i : Nat) => b.getD i 0) ++ [-1] ++ args)
  else if name == "cs1" then .ok ([b.getD 0 0, -1] ++ args)
  else if name == "nv" || name == "ns" then .ok (if sumL args > b.getD 0 0 then [1] else [0])
  else if name == "np" then
    match args with
    | a :: _ => .ok (if a > b.getD 0 0 then [1] else [0])
    | [] => .panic
  else .panic

/-! ## Trampoline step family -/

def trStep (kd ke mode : Int) (s : List Int) : StepOut Int :=
  let c := s.headD 0
  let isErr := c == ke
  { result := (c + 1) :: (s.drop 1).map (fun x => (3 * x + c) % 1009),
    isDone := decide (c + 1 ≥ kd) || (mode == 1 && isErr),
    err := if isErr then some c.toNat else none }

def trFuel : Nat := 100000

def showT : TRes Int → String
  | .ok l => "ok " ++ showInts l
  | .err e => s!"err {e}"
  | .hang => "hang"

/-! ## CurryDef scripts -/

def curryFn (n : Int) : CurryFn := fun args =>
  (1000 * (args.length : Int) + wsum args, decide (n ≥ 0 ∧ (args.length : Int) ≥ n))

def curryTokImpl (fn : CurryFn) (c : Curry) (tok : String) : Curry × String :=
  if tok.startsWith "c:" then
    let a := parseInts (dropS tok 2)
    let c' := c.callSeq fn a
    (c', if c'.log.length > c.log.length then "f " ++ showInts (c'.log.getLastD []) else "skip")
  else if tok == "d" then (c.markDone, "nil")
  else if tok == "r" then (c, toString c.result)
  else if tok == "i" then (c, toString c.isDone)
  else (c, "bad-op")

def curryTokSpec (fn : CurryFn) (c : Spec.CurryS) (tok : String) : Spec.CurryS × String :=
  if tok.startsWith "c:" then
    let a := parseInts (dropS tok 2)
    let c' := c.call fn a
    (c', if c.isDone then "skip" else "f " ++ showInts (c.args ++ a))
  else if tok == "d" then (c.markDone, "nil")
  else if tok == "r" then (c, toString c.result)
  else if tok == "i" then (c, toString c.isDone)
  else (c, "bad-op")

/-! ### caller-owned argument slices (`cw` cases): two CurryDefs `A`, `B` and one caller buffer `xs` with spare
    capacity that is spread into Calls (`c.Call(xs...)`), overwritten and re-used.  A Call takes the *values*
    of its arguments: nothing the caller does to `xs` afterwards, and nothing the other CurryDef does, can change
    what a CurryDef has accumulated — and a CurryDef never writes into the caller's buffer. -/

inductive CwCmd where
  | buf (cap : Nat) (l : List Int)      -- xs = append(make([]int, 0, cap), l...)
  | callA (l : Option (List Int))       -- none: A.Call(xs...)   some l: A.Call(l...) with fresh arguments
  | callB (l : Option (List Int))
  | write (i : Nat) (v : Int)           -- xs[i] = v (ignored when out of range)
  | view                                -- print xs[:cap]
  | resA | resB
  | bad

structure CwState (σ : Type) where
  a : σ
  b : σ
  xs : List Int
  cap : Nat

def curryCallImpl (fn : CurryFn) (c : Curry) (a : List Int) : Curry × String :=
  let c' := c.callSeq fn a
  (c', if c'.log.length > c.log.length then "f " ++ showInts (c'.log.getLastD []) else "skip")

def curryCallSpec (fn : CurryFn) (c : Spec.CurryS) (a : List Int) : Spec.CurryS × String :=
  (c.call fn a, if c.isDone then "skip" else "f " ++ showInts (c.args ++ a))

def cwExec {σ : Type} (call : σ → List Int → σ × String) (res : σ → Int) (st : CwState σ) :
    CwCmd → CwState σ × String
  | .buf cap l => ({ st with xs := l, cap := max cap l.length }, "nil")
  | .callA l => let r := call st.a (l.getD st.xs); ({ st with a := r.1 }, r.2)
  | .callB l => let r := call st.b (l.getD st.xs); ({ st with b := r.1 }, r.2)
  | .write i v => ({ st with xs := st.xs.set i v }, "nil")
  | .view => (st, "buf " ++ showInts (st.xs ++ List.replicate (st.cap - st.xs.length) 0))
  | .resA => (st, toString (res st.a))
  | .resB => (st, toString (res st.b))
  | .bad => (st, "bad-op")

def parseCw (tok : String) : CwCmd :=
  match tok.splitOn ":" with
  | ["b", cap, l] => .buf (cap.toNat?.getD 0) (parseInts l)
  | ["A"] => .callA none
  | ["B"] => .callB none
  | ["A", l] => .callA (some (parseInts l))
  | ["B", l] => .callB (some (parseInts l))
  | ["w", i, v] => .write (i.toNat?.getD 0) (v.toInt?.getD 0)
  | ["v"] => .view
  | ["rA"] => .resA
  | ["rB"] => .resB
  | _ => .bad

def runCw {σ : Type} (call : σ → List Int → σ × String) (res : σ → Int) (init : σ) (cmds : List CwCmd) : String :=
  let (_, outs) := cmds.foldl (fun (acc : CwState σ × List String) c =>
    let r := cwExec call res acc.1 c
    (r.1, r.2 :: acc.2)) (⟨init, init, [], 0⟩, [])
  " | ".intercalate outs.reverse

def runScript {σ : Type} (step : σ → String → σ × String) (init : σ) (ts : List String) : String :=
  let (_, outs) := ts.foldl (fun (acc : σ × List String) t =>
    let (c, o) := step acc.1 t
    (c, o :: acc.2)) (init, [])
  " | ".intercalate outs.reverse

/-- the stress monitor's deterministic summary: number of accepted Calls and final argument count -/
def runCS (g m a n : Int) : String :=
  if n == -2 then "ok" else
  let total := g * m
  let accepted : Int := if n < 0 then total else if a ≤ 0 then total
    else min total (if n ≤ 0 then 1 else (n + a - 1) / a)
  s!"ok calls={accepted} len={accepted * a}"

/-! ## values, types and patterns: parsing and rendering -/

def parseFTag (s : String) : FTag :=
  if s == "nan" then .nan else if s == "nz" then .negzero else .half ((dropS s 1).toInt?.getD 0)

def showFTag : FTag → String
  | .half n => s!"h{n}"
  | .nan => "nan"
  | .negzero => "nz"

def parseSlice (s : String) : List Int :=
  if s == "" then [] else (s.splitOn "+").map (fun t => t.toInt?.getD 0)

def parseAtom (s : String) : Atom :=
  match s.splitOn ":" with
  | ["nil"] => .nil
  | ["b", v] => .bool (v == "1")
  | ["i", k, v] => .int (k.toNat?.getD 2) (v.toInt?.getD 0)
  | ["f", k, v] => .flt (k.toNat?.getD 14) (parseFTag v)
  | ["s", v] => .str false v
  | ["ns", v] => .str true v
  | ["np", t] => .nilptr (t.toNat?.getD 0)
  | ["st", t, p] => .strct (t.toNat?.getD 0) (p.toInt?.getD 0)
  | ["p", t, a] => .ptr (t.toNat?.getD 0) (a.toNat?.getD 0)
  | ["sl", v] => if v == "n" then .slice true [] else .slice false (parseSlice v)
  | ["mp", v] => .mapv (v == "n")
  | _ => .nil

def showAtom : Atom → String
  | .nil => "nil"
  | .bool b => if b then "b:1" else "b:0"
  | .int k v => s!"i:{k}:{v}"
  | .flt k f => s!"f:{k}:{showFTag f}"
  | .str false s => "s:" ++ s
  | .str true s => "ns:" ++ s
  | .nilptr t => s!"np:{t}"
  | .strct t p => s!"st:{t}:{p}"
  | .ptr t a => s!"p:{t}:{a}"
  | .slice true _ => "sl:n"
  | .slice false es => "sl:" ++ "+".intercalate (es.map toString)
  | .mapv n => if n then "mp:n" else "mp:e"

def parseObjs (s : String) : List Atom :=
  if s == "-" || s == "" then [] else (s.splitOn ",").map parseAtom

def showObjs (l : List Atom) : String := "[" ++ ",".intercalate (l.map showAtom) ++ "]"

/-- Polish notation over `.`: `N` | `P.<n>.<k>…` | `S.<n>.<t>…` -/
def parseCT : Nat → List String → Option (CompType × List String)
  | 0, _ => none
  | fuel + 1, ts =>
    match ts with
    | "N" :: rest => some (.nilT, rest)
    | "P" :: n :: rest =>
      let n := n.toNat?.getD 0
      some (.prod ((rest.take n).map (fun k => k.toNat?.getD 0)), rest.drop n)
    | "S" :: n :: rest =>
      let n := n.toNat?.getD 0
      let rec go : Nat → List String → List CompType → Option (List CompType × List String)
        | 0, r, acc => some (acc.reverse, r)
        | i + 1, r, acc =>
          match parseCT fuel r with
          | some (t, r') => go i r' (t :: acc)
          | none => none
      match go n rest [] with
      | some (tsub, r) => some (.sum tsub, r)
      | none => none
    | _ => none

def parseCompType (s : String) : CompType :=
  match parseCT 64 (s.splitOn ".") with
  | some (t, _) => t
  | none => .sum []

/-- probe syntax: atom | `c/<ct>/<objs>` (a `CompData` value) | `cp:<addr>/<ct>/<objs>` (`NewCompData` result) -/
def parseGoVal (s : String) : GoVal :=
  match s.splitOn "/" with
  | [h, ct, objs] =>
    let t := parseCompType ct
    let os := parseObjs objs
    if h == "c" then (match newCompData t os with | some o => .comp o | none => .comp [])
    else
      let addr := (dropS h 3).toNat?.getD 0
      match newCompData t os with
      | some o => .compptr addr o
      | none => .atom (.nilptr 2)
  | _ => .atom (parseAtom s)

def showGoVal : GoVal → String
  | .atom a => showAtom a
  | .comp objs => "c" ++ showObjs objs
  | .compptr a objs => s!"cp:{a}" ++ showObjs objs

def parsePat (s : String) : Pat :=
  if s == "O" then .otherwise
  else if s.startsWith "K:" then .kind ((dropS s 2).toNat?.getD 0)
  else if s.startsWith "E:" then .equal (parseGoVal (dropS s 2))
  else if s.startsWith "R:" then .regex (dropS s 2)
  else if s.startsWith "T:" then .sumT (parseCompType (dropS s 2))
  else .otherwise

def parsePatterns (ts : List String) : List Pattern :=
  (ts.zipIdx).map (fun (t, i) => ⟨parsePat t, i⟩)

/-! ## the regex family: exact semantics of the patterns the harness builds from these ids
    (`lit:x` ↦ `x`, `pre:x` ↦ `^x`, `suf:x` ↦ `x$`, `full:x` ↦ `^x$`, `dig` ↦ `^[0-9]+$`, `any` ↦ ``,
    `bad` ↦ `(` which does not compile), for texts and `x` over `[a-z0-9]`. -/

def isInfixL : List Char → List Char → Bool
  | p, [] => p.isEmpty
  | p, c :: cs => p.isPrefixOf (c :: cs) || isInfixL p cs

def rxFamily (r : String) (s : String) : Bool :=
  match r.splitOn ":" with
  | ["lit", x] => isInfixL x.toList s.toList
  | ["pre", x] => x.toList.isPrefixOf s.toList
  | ["suf", x] => x.toList.isSuffixOf s.toList
  | ["full", x] => x == s
  | ["dig"] => !s.isEmpty && s.all Char.isDigit
  | ["any"] => true
  | _ => false

def showMatch : Res (Nat × GoVal) → String
  | .ok (e, v) => s!"e{e} " ++ showGoVal v
  | .panic => "panic"

/-! ## protocol -/

def run (impl : Bool) (line : String) : String :=
  let (head, body) := splitCase line
  match head with
  | ["cp", variant, input] =>
    runCP impl variant (parseInts input) ((toks body).map fnOfTok)
  | ["cg", variant, k, input] =>
    runCG impl variant (k.toNat?.getD 0) (parseInts input) ((toks body).map fnOfTok)
  | ["ru", script, input] =>
    runRU impl script (parseInts input) ((toks body).map fnOfTok)
  | ["rr", script, a, b] =>
    runRR impl script (parseInts a) (parseInts b) ((toks body).map fnOfTok)
  | ["ad", name, b] =>
    showRes ((if impl then runAdapterImpl else runAdapterSpec) name (parseInts b) (parseInts body.trimAscii.toString))
  | ["tr", kd, ke, mode] =>
    let fn := trStep (kd.toInt?.getD 1) (ke.toInt?.getD (-1)) (mode.toInt?.getD 0)
    let s := parseInts body.trimAscii.toString
    showT (if impl then trampoline fn trFuel s else Spec.trampoline fn trFuel s)
  | ["cu", _, n] =>
    let fn := curryFn (n.toInt?.getD (-1))
    if impl then runScript (curryTokImpl fn) (Curry.init []) (toks body)
    else runScript (curryTokSpec fn) Spec.CurryS.init (toks body)
  | ["cw", _, n] =>
    let fn := curryFn (n.toInt?.getD (-1))
    let cmds := (toks body).map parseCw
    if impl then runCw (curryCallImpl fn) (fun c => c.result) (Curry.init []) cmds
    else runCw (curryCallSpec fn) (fun c => c.result) Spec.CurryS.init cmds
  | ["cs", g, m, a, n, _] =>
    runCS (g.toInt?.getD 1) (m.toInt?.getD 1) (a.toInt?.getD 1) (n.toInt?.getD (-1))
  | [mode, probe] =>
    if mode == "m" || mode == "e" then
      let ps := parsePatterns (toks body)
      let v := parseGoVal probe
      showMatch (if impl then (if mode == "m" then matchFor rxFamily ps v else either rxFamily v ps)
                 else Spec.matchFor rxFamily ps v)
    else "bad-case"
  | ["nd", ct, objs] =>
    let t := parseCompType ct
    let os := parseObjs objs
    if impl then
      match newCompData t os with
      | none => "nil"
      | some o => s!"cd {showObjs o} {matchCompType t o} {matchCompType t o}"
    else if Spec.typeMatches t os then s!"cd {showObjs os} true true" else "nil"
  | ["tm", ct, objs] =>
    let t := parseCompType ct
    toString (if impl then t.matches (parseObjs objs) else Spec.typeMatches t (parseObjs objs))
  | ["mc", ct1, ct2, objs] =>
    let t1 := parseCompType ct1
    let t2 := parseCompType ct2
    let os := parseObjs objs
    if impl then
      match newCompData t2 os with
      | none => "nil"
      | some o => toString (matchCompType t1 o)
    else if Spec.typeMatches t2 os then toString (Spec.typeMatches t1 os) else "nil"
  | _ => "bad-case"

/-- protocol entry point: the implementation model -/
def handle (line : String) : String := run true line

/-- spec-level oracle: the property's own statement evaluated on the case -/
def judge (line impl : String) : String :=
  let spec := run false line
  if impl = spec then "allowed implementation agrees with the property's statement (model differs)"
  else s!"violation the property prescribes: {spec}"

end FpgoVerif.C20
