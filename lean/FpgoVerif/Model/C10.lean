import FpgoVerif.Model.C10Core
/-! C10 — line protocol on top of the transition system of `Model/C10Core.lean`.

    `handle` is a *scheduler*: it turns a case line (operations, callback scripts, park/advance
    commands of background publisher goroutines) into a sequence of `Act`s and applies `step` — the
    very function the theorems of `Props/C10.lean` quantify over — so every observation it prints is
    read off a `Reach`able state.  The same scheduler, instantiated with the *ideal* publisher
    (`Ideal`: a list of registered ids, immutable snapshots) and guided by the observation the real
    code printed, is the spec-level oracle `judge`: it accepts exactly the behaviours the property
    allows (a subscription added or removed during a Publish may or may not see the value, everyone
    else exactly once, subscription order without a handler).

    Case lines (`<kind>: op ; op ; …`, kinds `seq`, `sched`; `stress: k=v …`):
      s[@q][:a,b,…]  Subscribe on publisher q a subscription whose callback runs the script a,b,… :
                     n = subscribe a new (script-less) one, u0/u-1/u+1/… = Unsubscribe self / the id
                     self-1 / self+1 …, p = nested Publish(v*1000+100*j+self), j = position of the action in the script, (while fewer than 3 publishes of
                     the harness are active on the goroutine and no handler is set)
      a[@q]:<id> / d[@q]:<id>  set / clear OnNext of subscription id through the pointer Subscribe returned
      z[@q]       Subscribe a zero-value Subscription (OnNext = nil): registered, receives nothing
      u[@q]:<id>  Unsubscribe      p[@q]:<v>  Publish      c[@q]  number of subscriptions
      r:g / r:i   a new independent root publisher (PublisherNewGenerics / Publisher.New(), the interface{} twin) → next index
      m[@q]:<f>   Map(f) (a x+1, d 2x, z 0, i x, g -x) → next publisher index      h[@q] / hb[@q]  SubscribeOn(new handler with an unbuffered / buffered channel)
      go<t>[@q]:<v>  goroutine t starts Publish(v) and parks after the snapshot
      adv<t>         goroutine t passes one park point and runs to the next `beforeDelivery`      fin<t>  runs to the end
    Observation per op: `+id`, `-`, `n=k`, `m<q>`, `h`, `[q.sid:v …]` (OnNext invocations during the op, in
    order; suffix `h` when run on the handler goroutine), background ops add `P<q>.<v>` (parked inside Publish(v) on q) / `D` (done). -/

namespace FpgoVerif.C10

inductive SAct
  | new
  | unsub (d : Int)
  | pub
  | fwd (q : Nat) (f : Char)
deriving Repr, Inhabited

structure SubInfo where
  script : List SAct := []
  hidden : Bool := false      -- the forwarding subscription of Map: not observed by the harness
deriving Repr, Inhabited

inductive Ctl
  | script (q self : Nat) (v : Int) (rest : List SAct)
  | pubLoop (q : Nat) (counted : Bool)
  | unsubLoop (q : Nat)
deriving Repr, Inhabited

/-- (publisher, subscription, value, ran on the handler) -/
abbrev Ev := Nat × Nat × Int × Bool

/-- what the scheduler needs from a publisher implementation -/
structure Backend (σ : Type) where
  init : σ
  nextId : σ → Nat
  count : σ → Nat
  handlerFlag : σ → Bool
  posts : σ → Bool
  subscribe : σ → Nat → σ
  subscribeNil : σ → Nat → σ
  silent : σ → Nat → Bool
  setOnNext : σ → Nat → Bool → σ     -- arm (true) / disarm (false) a subscription through the returned pointer
  unsubBegin : σ → Nat → Nat → σ
  unsubStep : σ → Nat → σ
  inUnsub : σ → Nat → Bool
  pubBegin : σ → Nat → Int → σ
  next : σ → Nat → Option Nat → (Nat → Bool) → Option Nat
  curVal : σ → Nat → Int
  more : σ → Nat → Bool      -- (oracle only) the innermost Publish of the goroutine still has snapshot members ahead
  deliver : σ → Nat → Nat → σ
  pubEnd : σ → Nat → σ
  cbReturn : σ → Nat → σ
  setSubOn : σ → Nat → Bool → σ
  mailHead : σ → Option (Nat × Int)
  hrun : σ → Nat → σ
  viols : σ → List String

/-! ### backend 1: the implementation model (`step`) -/

structure MSt where
  s : State
  stuck : Bool := false

def mact (fixed : Bool) (m : MSt) (a : Act) : MSt :=
  match step fixed goGrow m.s a with
  | some s' => { m with s := s' }
  | none => { m with stuck := true }

def topPub (s : State) (t : Nat) : Option PubF :=
  match s.stacks t with
  | .pub f :: _ => some f
  | _ => none

/-- the innermost Publish of goroutine `t` (callback frames above it skipped) -/
def innerPub (s : State) (t : Nat) : Option PubF :=
  (s.stacks t).findSome? (fun fr => match fr with | .pub f => some f | _ => none)

def modelBackend (fixed : Bool) : Backend MSt where
  init := { s := init }
  nextId m := m.s.nextId
  count m := m.s.subs.len
  handlerFlag m := m.s.subOn
  posts m := m.s.subOn
  subscribe m t := mact fixed m (.subscribe t)
  subscribeNil m t := mact fixed m (.subscribeNil t)
  silent m x := m.s.silent x
  -- `sub.OnNext = f` / `= nil` through the pointer Subscribe returned: a plain field write of the caller, outside
  -- the proved transition system (the theorems assume OnNext is fixed at Subscribe; this path is correspondence-only)
  setOnNext m x b := { m with s := { m.s with silent := upd m.s.silent x (!b) } }
  unsubBegin m t x := mact fixed m (.unsubBegin t x)
  unsubStep m t := mact fixed m (.unsubStep t)
  inUnsub m t := match m.s.stacks t with | .unsub _ :: _ => true | _ => false
  pubBegin m t v := mact fixed m (.pubBegin t v)
  next m t _ _ := match topPub m.s t with
    | some f => if f.k < f.h.len then some (readCell m.s.heap f.h f.k) else none
    | none => none
  curVal m t := match innerPub m.s t with | some f => f.val | none => 0
  more _ _ := false
  deliver m t _ := mact fixed m (.deliver t)
  pubEnd m t := mact fixed m (.pubEnd t)
  cbReturn m t := mact fixed m (.cbReturn t)
  setSubOn m t b := mact fixed m (.setSubOn t b)
  mailHead m := match m.s.mailbox with | (_, x, v) :: _ => some (x, v) | [] => none
  hrun m t := mact fixed m (.hrun t)
  viols m := if m.stuck then ["model-stuck"] else []

/-! ### backend 2: the ideal publisher = the property's own statement -/

structure IFrame where
  t0 : Nat := 0     -- length of `touched` when the call began
  v : Int
  snap : List Nat
  n0 : Nat
  dl : List Nat
deriving Inhabited

structure Ideal where
  reg : List Nat := []
  quiet : List Nat := []      -- subscriptions without OnNext
  touched : List Nat := []    -- subscriptions whose OnNext was set / cleared after Subscribe, newest first
  nextId : Nat := 1
  handler : Bool := false
  pend : Nat → List Nat := fun _ => []
  frames : Nat → List IFrame := fun _ => []
  viols : List String := []

def Ideal.deliver (s : Ideal) (t x : Nat) : Ideal :=
  match s.frames t with
  | [] => { s with viols := s!"delivery-outside-publish {x}" :: s.viols }
  | f :: rest =>
    let why : List String :=
      (if f.dl.contains x then [s!"twice sub={x} v={f.v}"] else []) ++
      (if s.quiet.contains x && !(s.touched.take (s.touched.length - f.t0)).contains x
       then [s!"delivery to a subscription without OnNext sub={x}"] else []) ++
      (if x = 0 ∨ x ≥ s.nextId then [s!"phantom sub={x} v={f.v}"]
       else if x < f.n0 ∧ !f.snap.contains x then [s!"after-unsubscribe sub={x} v={f.v}"] else []) ++
      (match f.dl.getLast? with
       | some y => if !s.handler ∧ x ≤ y then [s!"order sub={x} after sub={y} v={f.v}"] else []
       | none => [])
    { s with frames := upd s.frames t ({ f with dl := f.dl ++ [x] } :: rest), viols := why.reverse ++ s.viols }

def Ideal.pubEnd (s : Ideal) (t : Nat) : Ideal :=
  match s.frames t with
  | [] => s
  | f :: rest =>
    -- registered before the call and still registered when it ends ⇒ exactly once
    -- a subscription whose OnNext was set or cleared during the call may or may not see the value
    let during := s.touched.take (s.touched.length - f.t0)
    let must := f.snap.filter (fun x => s.reg.contains x && !s.quiet.contains x && !during.contains x)
    let missed := must.filter (fun x => !f.dl.contains x)
    { s with frames := upd s.frames t rest,
             viols := (missed.map (fun x => s!"skipped sub={x} v={f.v}")).reverse ++ s.viols }

def idealBackend : Backend Ideal where
  init := {}
  nextId s := s.nextId
  count s := s.reg.length
  handlerFlag s := s.handler
  posts _ := false
  subscribe s _ := { s with reg := s.reg ++ [s.nextId], nextId := s.nextId + 1 }
  subscribeNil s _ := { s with reg := s.reg ++ [s.nextId], quiet := s.nextId :: s.quiet, nextId := s.nextId + 1 }
  silent s x := s.quiet.contains x
  setOnNext s x b := { s with quiet := if b then s.quiet.filter (· ≠ x) else x :: s.quiet, touched := x :: s.touched }
  unsubBegin s t x := { s with pend := upd s.pend t (x :: s.pend t) }
  unsubStep s t := match s.pend t with
    | x :: rest => { s with reg := s.reg.filter (· ≠ x), pend := upd s.pend t rest }
    | [] => s
  inUnsub s t := !(s.pend t).isEmpty
  pubBegin s t v := { s with frames := upd s.frames t ({ t0 := s.touched.length, v := v, snap := s.reg, n0 := s.nextId, dl := [] } :: s.frames t) }
  next s t hint hidden := match s.frames t with
    | f :: _ =>
      -- unobserved forwarding subscriptions are assumed to get their turn
      match f.snap.filter (fun y => hidden y && !f.dl.contains y && (match hint with | some x => decide (y < x) | none => true)) with
      | y :: _ => some y
      | [] => hint
    | [] => none
  curVal s t := match s.frames t with | f :: _ => f.v | [] => 0
  more s t := match s.frames t with
    | f :: _ =>
      let ahead := fun (x : Nat) => match f.dl.getLast? with | some y => decide (y < x) | none => true
      -- snapshot members ahead, or subscriptions added during the call (they may or may not see the value)
      f.snap.any (fun x => ahead x && !s.quiet.contains x) ||
        (List.range s.nextId).any (fun x => decide (f.n0 ≤ x) && ahead x && !s.quiet.contains x)
    | [] => false
  deliver := Ideal.deliver
  pubEnd := Ideal.pubEnd
  cbReturn s _ := s
  setSubOn s _ b := { s with handler := b }
  mailHead _ := none
  hrun s _ := s
  viols s := s.viols.reverse

/-! ### the scheduler -/

structure World (σ : Type) where
  pubs : List σ
  infos : List (List SubInfo)
  ctl : Nat → List Ctl := fun _ => []
  ev : List Ev := []
  obs : List Ev := []
  park : Nat → Bool := fun _ => false
  atSnap : Nat → Bool := fun _ => false
  errs : List String := []

inductive Status | cont | parked | done
deriving DecidableEq

section sched
variable {σ : Type} (B : Backend σ)

def getPub (w : World σ) (q : Nat) : σ := w.pubs.getD q B.init
def setPub (w : World σ) (q : Nat) (s : σ) : World σ := { w with pubs := w.pubs.set q s }
def infoOf (w : World σ) (q x : Nat) : SubInfo := if x = 0 then {} else (w.infos.getD q []).getD (x - 1) {}
def addInfo (w : World σ) (q : Nat) (i : SubInfo) : World σ :=
  { w with infos := w.infos.set q (w.infos.getD q [] ++ [i]) }

def depthOf (c : List Ctl) : Nat :=
  (c.filter (fun e => match e with | .pubLoop _ true => true | _ => false)).length

def applyFn (f : Char) (v : Int) : Int :=
  if f = 'a' then v + 1 else if f = 'd' then 2 * v else if f = 'z' then 0 else if f = 'g' then -v else v

/-- does the observed event belong to a Publish that is live further down this goroutine's stack?
    (a callback entry `script q _ v _` sits on top of the loop of the Publish(v) on q that invoked it) -/
def matchesOuter (rest : List Ctl) (e : Ev) : Bool :=
  rest.any (fun c => match c with | .script q _ v _ => q = e.1 ∧ v = e.2.2.1 | _ => false)

/-- one micro-step of goroutine `t`.  `guided` = spec mode driven by the observed events `w.obs` and the
    park status `status` the real code reported for this op; `rel` = the goroutine was just released. -/
def micro (guided : Bool) (status : String) (w : World σ) (t : Nat) (rel : Bool) : World σ × Status :=
  match w.ctl t with
  | [] => (w, .done)
  | .unsubLoop q :: rest =>
    let s := B.unsubStep (getPub B w q) t
    let w := setPub w q s
    if B.inUnsub s t then (w, .cont) else ({ w with ctl := upd w.ctl t rest }, .cont)
  | .pubLoop q counted :: rest =>
    let s := getPub B w q
    let v := B.curVal s t
    -- guided: the next observed delivery if it belongs to this very Publish (publisher, value).  Deliveries run
    -- on a handler goroutine are printed after the direct ones, so with a handler the first matching one is taken.
    let anyH := w.pubs.any B.handlerFlag
    let hint : Option Nat :=
      if !guided then none
      else if anyH then (w.obs.find? (fun e => e.1 = q ∧ e.2.2.1 = v)).map (·.2.1)
      else match w.obs with
        | (q', x, v', _) :: _ => if q' = q ∧ v' = v then some x else none
        | [] => none
    let finish : World σ × Status :=
      let w := setPub w q (B.pubEnd s t)
      ({ w with ctl := upd w.ctl t rest }, .cont)
    match B.next s t hint (fun y => (infoOf w q y).hidden) with
    | some x =>
      if !guided && w.park t && !rel then (w, .parked) else
      -- `if s.OnNext != nil`: a subscription without OnNext is passed over (after the park point)
      if !guided && B.silent s x then (setPub w q (B.deliver s t x), .cont) else
      let info := infoOf w q x
      let onH := B.handlerFlag s
      let s := B.deliver s t x
      let w := setPub w q s
      -- an observed delivery that was used as the hint is consumed (an assumed forwarder delivery consumes nothing)
      let w := if guided && hint == some x then { w with obs := w.obs.eraseP (fun e => e.1 = q ∧ e.2.1 = x ∧ e.2.2.1 = v) } else w
      let w := if info.hidden || B.posts s then w else { w with ev := (q, x, v, onH) :: w.ev }
      if B.posts s then (w, .cont)
      else ({ w with ctl := upd w.ctl t (.script q x v info.script :: .pubLoop q counted :: rest) }, .cont)
    | none =>
      if guided then
        -- no observed delivery left for this Publish.  A goroutine the real code reported as parked (`P<q>.<v>` =
        -- inside Publish(v) on q) stays here iff the op's observed deliveries are used up and this is that
        -- Publish; otherwise this loop is over and the goroutine runs on.
        let here := if counted then status == s!"P{q}.{v}" else status.startsWith "P" && B.more s t
        if w.obs.isEmpty && w.park t && here then (w, .parked) else finish
      else finish
  | .script q _ _ [] :: rest =>
    let w := setPub w q (B.cbReturn (getPub B w q) t)
    ({ w with ctl := upd w.ctl t rest }, .cont)
  | .script q self v (a :: as) :: rest =>
    let base := .script q self v as :: rest
    let w := { w with ctl := upd w.ctl t base }
    let s := getPub B w q
    match a with
    | .new => (addInfo (setPub w q (B.subscribe s t)) q {}, .cont)
    | .unsub d =>
      let tgt : Int := (self : Int) + d
      if 1 ≤ tgt ∧ tgt < (B.nextId s : Int) ∧ !(infoOf w q tgt.toNat).hidden then
        let w := setPub w q (B.unsubBegin s t tgt.toNat)
        ({ w with ctl := upd w.ctl t (.unsubLoop q :: base) }, .cont)
      else (w, .cont)
    | .pub =>
      if depthOf base < 3 ∧ !B.handlerFlag s then
        -- distinct values for distinct nested publishes: position of the action in the script, subscription id
        let j := (infoOf w q self).script.length - as.length - 1
        let w := setPub w q (B.pubBegin s t (v * 1000 + 100 * j + self))
        ({ w with ctl := upd w.ctl t (.pubLoop q true :: base) }, .cont)
      else (w, .cont)
    | .fwd q2 f =>
      let w := setPub w q2 (B.pubBegin (getPub B w q2) t (applyFn f v))
      ({ w with ctl := upd w.ctl t (.pubLoop q2 false :: base) }, .cont)

def runThread (guided : Bool) (status : String) : Nat → World σ → Nat → Bool → World σ × Status
  | 0, w, _, _ => ({ w with errs := "fuel" :: w.errs }, .done)
  | n + 1, w, t, rel =>
    match micro B guided status w t rel with
    | (w, .cont) => runThread guided status n w t false
    | r => r

def fuel : Nat := 200000

/-- run the posted deliveries on the handler goroutines (thread 100+q), oldest first -/
def drain (guided : Bool) : Nat → World σ → World σ
  | 0, w => w
  | n + 1, w =>
    let qs := (List.range w.pubs.length).filter (fun q => (B.mailHead (getPub B w q)).isSome)
    match qs with
    | [] => w
    | q :: _ =>
      match B.mailHead (getPub B w q) with
      | none => w
      | some (x, v) =>
        let t := 100 + q
        let info := infoOf w q x
        let w := setPub w q (B.hrun (getPub B w q) t)
        let w := if info.hidden then w else { w with ev := (q, x, v, true) :: w.ev }
        let w := { w with ctl := upd w.ctl t [.script q x v info.script] }
        let (w, _) := runThread B guided "D" fuel w t false
        drain guided n w

def showEv (e : Ev) : String := s!"{e.1}.{e.2.1}:{e.2.2.1}" ++ (if e.2.2.2 then "h" else "")
/-- canonical form: the deliveries run directly (in order), then those run on the handler goroutine (in order);
    the relative order of the two goroutines is schedule-dependent and not constrained by the property -/
def showEvs (l : List Ev) : String :=
  let l := l.reverse
  "[" ++ " ".intercalate ((l.filter (fun e => !e.2.2.2) ++ l.filter (fun e => e.2.2.2)).map showEv) ++ "]"

def parseScript (s : String) : List SAct :=
  ((s.splitOn ",").filter (· ≠ "")).map (fun a =>
    if a = "n" then .new else if a = "p" then .pub
    else if a.startsWith "u" then .unsub ((a.drop 1).toString.replace "+" "").toInt!
    else .new)

/-- split `name[@q][:arg]` -/
def parseTok (tok : String) : String × Nat × String :=
  let (lhs, arg) := match tok.splitOn ":" with
    | [l] => (l, "")
    | l :: r => (l, ":".intercalate r)
    | [] => ("", "")
  match lhs.splitOn "@" with
  | [n, q] => (n, q.toNat!, arg)
  | _ => (lhs, 0, arg)

/-- one operation of the case line; `impl` = the token the real code printed (guided mode only) -/
def doOp (guided : Bool) (impl : String) (w : World σ) (tok : String) : World σ × String :=
  let (name, q, arg) := parseTok tok
  -- what the real code reported after the events: `D` (done) or `P<q>.<v>` (parked inside Publish(v) on q)
  let status : String := match impl.splitOn "]" with | [_, st] => st | _ => "D"
  -- where goroutine t is parked: its innermost harness-initiated Publish
  let parkedAt (w : World σ) (t : Nat) : String :=
    match (w.ctl t).findSome? (fun c => match c with | .pubLoop q true => some q | _ => none) with
    | some q => s!"P{q}.{B.curVal (getPub B w q) t}"
    | none => "P"
  let w := { w with ev := [] }
  let bad := ({ w with errs := s!"bad-op {tok}" :: w.errs }, "bad-op")
  if q ≥ w.pubs.length then bad else
  let s := getPub B w q
  let finishMain (w : World σ) : World σ :=
    let (w, _) := runThread B guided status fuel w 0 false
    drain B guided 10000 w
  if name = "s" then
    let id := B.nextId s
    let w := addInfo (setPub w q (B.subscribe s 0)) q { script := parseScript arg }
    (w, s!"+{id}")
  else if name = "z" then
    let id := B.nextId s
    (addInfo (setPub w q (B.subscribeNil s 0)) q {}, s!"+{id}")
  else if name = "a" ∨ name = "d" then
    -- a:<id> sets OnNext on the pointer Subscribe returned (arms it), d:<id> clears it; registration is unaffected
    let x := arg.toNat!
    if 1 ≤ x ∧ x < B.nextId s ∧ !(infoOf w q x).hidden then (setPub w q (B.setOnNext s x (name = "a")), name)
    else (w, name)
  else if name = "u" then
    let x := arg.toNat!
    if 1 ≤ x ∧ x < B.nextId s ∧ !(infoOf w q x).hidden then
      let w := setPub w q (B.unsubBegin s 0 x)
      let w := { w with ctl := upd w.ctl 0 [.unsubLoop q] }
      (finishMain w, "-")
    else (w, "-")
  else if name = "p" then
    let w := setPub w q (B.pubBegin s 0 arg.toInt!)
    let w := { w with ctl := upd w.ctl 0 [.pubLoop q true] }
    let w := finishMain w
    (w, showEvs w.ev)
  else if name = "c" then (w, s!"n={B.count s}")
  else if name = "h" ∨ name = "hb" then (setPub w q (B.setSubOn s 0 true), "h")
  else if name = "r" then
    -- a new, independent root publisher (both constructors of the library behave alike)
    let q2 := w.pubs.length
    ({ w with pubs := w.pubs ++ [B.init], infos := w.infos ++ [[]] }, s!"r{q2}")
  else if name = "m" then
    let q2 := w.pubs.length
    let f := arg.front
    let w := addInfo (setPub w q (B.subscribe s 0)) q { script := [.fwd q2 f], hidden := true }
    ({ w with pubs := w.pubs ++ [B.init], infos := w.infos ++ [[]] }, s!"m{q2}")
  else if name.startsWith "go" then
    let t := (name.drop 2).toString.toNat!
    if !(w.ctl t).isEmpty then bad else
    let w := setPub w q (B.pubBegin s t arg.toInt!)
    let w := { w with ctl := upd w.ctl t [.pubLoop q true], park := upd w.park t true, atSnap := upd w.atSnap t true }
    (w, "[]" ++ parkedAt w t)
  else if name.startsWith "adv" then
    let t := (name.drop 3).toString.toNat!
    if (w.ctl t).isEmpty then (w, "[]D") else
    let rel := !w.atSnap t
    let w := { w with atSnap := upd w.atSnap t false }
    let (w, st) := runThread B guided status fuel w t rel
    let w := if st = .done then { w with park := upd w.park t false } else w
    (w, showEvs w.ev ++ (if st = .parked then parkedAt w t else "D"))
  else if name.startsWith "fin" then
    let t := (name.drop 3).toString.toNat!
    let w := { w with park := upd w.park t false, atSnap := upd w.atSnap t false }
    let (w, _) := runThread B guided "D" fuel w t true
    (w, showEvs w.ev ++ "D")
  else bad

def initWorld : World σ := { pubs := [B.init], infos := [[]] }

def splitOps (body : String) : List String :=
  ((body.splitOn ";").map (fun t => t.trimAscii.toString)).filter (· ≠ "")

def runOps (ops : List String) : World σ × List String :=
  let (w, outs) := ops.foldl (fun (acc : World σ × List String) tok =>
    let (w, o) := doOp B false "" acc.1 tok
    (w, o :: acc.2)) (initWorld B, [])
  (w, outs.reverse)

end sched

/-- `kind: body` -/
def splitKind (line : String) : String × String :=
  match line.splitOn ": " with
  | k :: rest => (k, ": ".intercalate rest)
  | [] => ("", "")

def param (body key : String) : Nat :=
  match (body.splitOn " ").filterMap (fun kv => match kv.splitOn "=" with
      | [k, v] => if k = key then v.toNat? else none
      | _ => none) with
  | v :: _ => v
  | [] => 0

/-- what a stress case must print when the property holds: every stable subscriber saw each of the
    `pubs * n` values exactly once, in per-publisher order; no monitor fired -/
def stressExpect (body : String) : String :=
  s!"ok stable={param body "stable"}x{param body "pubs" * param body "n"}"

def runCase (fixed : Bool) (line : String) : String :=
  let (kind, body) := splitKind line
  if kind = "stress" then stressExpect body
  else if kind = "seq" ∨ kind = "sched" then
    let (w, outs) := runOps (modelBackend fixed) (splitOps body)
    let stuck := w.pubs.any (fun m => m.stuck) || w.errs.contains "fuel"
    " | ".intercalate outs ++ (if stuck then " | model-stuck" else "")
  else "bad-kind"

/-- protocol entry point (the code as it is now: copying Unsubscribe) -/
def handle (line : String) : String := runCase true line

/-! ### the oracle -/

def parseEv (s : String) : Option Ev :=
  let onH := s.endsWith "h"
  let s := if onH then (s.dropEnd 1).toString else s
  match s.splitOn ":" with
  | [qs, v] => match qs.splitOn "." with
    | [q, x] => match q.toNat?, x.toNat?, v.toInt? with
      | some q, some x, some v => some (q, x, v, onH)
      | _, _, _ => none
    | _ => none
  | _ => none

/-- `[e e …]` optionally followed by P/D → events -/
def parseEvs (tok : String) : Option (List Ev) :=
  if !tok.startsWith "[" then none else
  let body := (tok.drop 1).toString
  match body.splitOn "]" with
  | [inner, _] =>
    let parts := (inner.splitOn " ").filter (· ≠ "")
    let evs := parts.map parseEv
    if evs.all (·.isSome) then some (evs.filterMap id) else none
  | _ => none

def judgeOps (ops impls : List String) : List String :=
  let B := idealBackend
  let (w, complaints) := (ops.zip impls).foldl (fun (acc : World Ideal × List String) (p : String × String) =>
    let (w, cs) := acc
    let (tok, impl) := p
    let evs := parseEvs impl
    let w := { w with obs := evs.getD [] }
    let (w', out) := doOp B true impl w tok
    let isEvTok := out.startsWith "["
    let cs := if isEvTok then
        (match evs with
         | none => cs ++ [s!"op '{tok}' printed '{impl}'"]
         | some _ =>
           let cs := if w'.obs.isEmpty then cs else cs ++ (w'.obs.map (fun e => s!"unexpected delivery {showEv e} in '{tok}'"))
           -- handler flag of every observed event must agree with SubscribeOn
           let wrongH := (evs.getD []).filter (fun e => e.2.2.2 != (B.handlerFlag (getPub B w' e.1)))
           cs ++ wrongH.map (fun e => s!"wrong goroutine for {showEv e}"))
      else if out = impl || out.startsWith "n=" then cs   -- the count is not part of the property's statement
      else cs ++ [s!"op '{tok}' printed '{impl}', the property's semantics gives '{out}'"]
    ({ w' with obs := [] }, cs)) (initWorld B, [])
  let vs := (w.pubs.map (fun s => B.viols s)).flatten
  -- publishes of background goroutines still open at the end of the line are not judged
  vs ++ complaints ++ w.errs

def judge (line impl : String) : String :=
  let (kind, body) := splitKind line
  if kind = "stress" then
    if impl = stressExpect body then "allowed stress monitors silent"
    else s!"violation stress monitor: {impl}"
  else if kind = "seq" ∨ kind = "sched" then
    let ops := splitOps body
    let impls := (impl.splitOn " | ").map (fun t => t.trimAscii.toString)
    if impls.any (fun t => t = "panic" ∨ t = "hang" ∨ t = "crash" ∨ t.startsWith "viol") then s!"violation {impl}"
    else if impls.length ≠ ops.length then s!"violation malformed observation ({impls.length} tokens for {ops.length} ops)"
    else match judgeOps ops impls with
      | [] => "allowed every delivery is one the property permits (model differs)"
      | vs => "violation " ++ "; ".intercalate (vs.take 4)
  else "violation bad-kind"

end FpgoVerif.C10
