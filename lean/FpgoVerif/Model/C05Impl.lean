/-! Implementation models for property C05 (core-only, executable).

    Mirrors, loop by loop, the set functions of `fp.go` and the `Stream` / `MapSet` / `StreamSet`
    methods of `stream.go` and `streamForInterface.go` as they are NOW (after `fix:` 5976b27 and the
    nil guard of `IsSubsetByKey/IsSupersetByKey`).

    Conventions
    * a Go slice is a `List α`; `nil` and the empty slice have the same content (`[]`) — no modelled
      function distinguishes them except through `len`, and `len nil = 0`;
    * a Go `map[K]V` is an association list with unique keys (`GoMap`); iteration order is not
      modelled: everything that comes out of a `range` over a map is *printed sorted* by both sides,
      and the theorems about such results speak about membership / `Nodup` only;
    * a nil pointer / nil interface operand is `none`; the receiver is never nil;
    * `result[idx] = v; idx++ … return result[:idx]` over a pre-allocated slice is modelled as append;
    * a Go run-time panic is the outcome `Res.panic`.

    One model serves both twins wherever the two Go bodies are identical after type erasure (checked
    on every run by the closing theorem over `Gen/Twins.lean`); where the mechanisms differ
    (`Stream.Remove`, `StreamSet.Minus/IsSubsetByKey/IsSupersetByKey/Clone/Union/Intersection`,
    `StreamSetFromMap`) there are
    separate `G.*` / `I.*` models and an equality theorem in `Props/C05.lean`. -/

namespace FpgoVerif.C05

/-- outcome of a call that may panic -/
inductive Res (β : Type) where
  | ok (v : β)
  | panic
deriving DecidableEq, Repr

/-! ### Go maps -/

abbrev GoMap (κ ν : Type) := List (κ × ν)

section Maps
variable {κ ν : Type} [DecidableEq κ]

/-- `v, ok := m[k]` -/
def mget : GoMap κ ν → κ → Option ν
  | [], _ => none
  | (k', v) :: t, k => if k' = k then some v else mget t k

def mhas (m : GoMap κ ν) (k : κ) : Bool := (mget m k).isSome

/-- `m[k] = v` -/
def mset : GoMap κ ν → κ → ν → GoMap κ ν
  | [], k, v => [(k, v)]
  | (k', v') :: t, k, v => if k' = k then (k, v) :: t else (k', v') :: mset t k v

/-- `delete(m, k)` -/
def mdel : GoMap κ ν → κ → GoMap κ ν
  | [], _ => []
  | (k', v') :: t, k => if k' = k then mdel t k else (k', v') :: mdel t k

def mkeys (m : GoMap κ ν) : List κ := m.map Prod.fst
def mvalues (m : GoMap κ ν) : List ν := m.map Prod.snd

/-- `for k, v := range src { dst[k] = v }` -/
def mcopyInto (dst src : GoMap κ ν) : GoMap κ ν := src.foldl (fun d p => mset d p.1 p.2) dst

/-- DuplicateMap / DuplicateMapForInterface -/
def duplicateMap (input : GoMap κ ν) : GoMap κ ν :=
  if input.length > 0 then mcopyInto [] input else []

/-- Merge / MergeForInterface (a nil map has the same content as an empty one: the three nil
    branches of the Go code produce what the general branch produces) -/
def merge (map1 map2 : GoMap κ ν) : GoMap κ ν := mcopyInto (mcopyInto [] map1) map2

/-- the counting pass of IntersectionMapByKey: `resultMap[k] = v` unless present, `countMap[k]++` -/
def imkCount (acc : GoMap κ ν × GoMap κ Nat) (mapItem : GoMap κ ν) : GoMap κ ν × GoMap κ Nat :=
  mapItem.foldl (fun (a : GoMap κ ν × GoMap κ Nat) p =>
    (if mhas a.1 p.1 then a.1 else mset a.1 p.1 p.2,
     mset a.2 p.1 ((mget a.2 p.1).getD 0 + 1))) acc

/-- IntersectionMapByKey / …ForInterface (variadic) -/
def intersectionMapByKey (inputList : List (GoMap κ ν)) : GoMap κ ν :=
  match inputList with
  | [] => []
  | [m] => mcopyInto [] m
  | _ =>
    let rc := inputList.foldl imkCount ([], [])
    rc.2.foldl (fun r p => if p.2 < inputList.length then mdel r p.1 else r) rc.1

/-- MinusMapByKey -/
def minusMapByKey (set1 set2 : GoMap κ ν) : GoMap κ ν :=
  set1.foldl (fun r p => if mhas set2 p.1 then r else mset r p.1 p.2) []

/-- IsSubsetMapByKey / …ForInterface -/
def isSubsetMapByKey (item1 item2 : GoMap κ ν) : Bool :=
  if item1.length == 0 || item2.length == 0 then false
  else item1.all (fun p => mhas item2 p.1)

def isSupersetMapByKey (item1 item2 : GoMap κ ν) : Bool := isSubsetMapByKey item2 item1

/-- SliceToMap / SliceToMapForInterface -/
def sliceToMap (d : ν) (input : List κ) : GoMap κ ν :=
  input.foldl (fun m key => if mhas m key then m else mset m key d) []

end Maps

/-! ### slice functions of fp.go -/

section Slices
variable {α : Type} [DecidableEq α]

/-- Exists / ExistsForInterface, and every inner `for … { if x == v { …; break } }` loop -/
def existsIn (x : α) : List α → Bool
  | [] => false
  | v :: vs => if v = x then true else existsIn x vs

/-- the outer loop shared by Distinct, Intersection and Difference: walk the first operand in order;
    an item that passes `keep` is appended to `newList` unless the seen-map already has it. -/
def dedupLoop (keep : α → Bool) : List α → List α → List α → List α
  | [], _, newList => newList
  | v :: vs, seen, newList =>
    if keep v then
      if existsIn v seen then dedupLoop keep vs seen newList
      else dedupLoop keep vs (v :: seen) (newList ++ [v])
    else dedupLoop keep vs seen newList

/-- Distinct / DistinctForInterface -/
def distinct (list : List α) : List α :=
  if list.length > 0 then dedupLoop (fun _ => true) list [] [] else []

/-- `matchCount`: one increment per *other* operand that contains `x` (the inner loop `break`s) -/
def matchCount (x : α) : List (List α) → Nat
  | [] => 0
  | l :: ls => (if existsIn x l then 1 else 0) + matchCount x ls

/-- Intersection / IntersectionForInterface.  `none` = the variadic list itself is nil (no argument);
    `some []` = an empty non-nil `[][]T{}...` (indexing `inputList[0]` panics). -/
def intersection : Option (List (List α)) → Res (List α)
  | none => .ok []
  | some [] => .panic
  | some [a] => .ok (dedupLoop (fun _ => true) a [] [])
  | some (a :: rest) => .ok (dedupLoop (fun x => matchCount x rest == rest.length) a [] [])

/-- Difference (generic only) -/
def difference : Option (List (List α)) → Res (List α)
  | none => .ok []
  | some [] => .panic
  | some [a] => .ok (distinct a)
  | some (a :: rest) => .ok (dedupLoop (fun x => matchCount x rest == 0) a [] [])

/-- Union (generic only): keys of `resultMap`, order unspecified (insertion order here) -/
def union (arrList : List (List α)) : List α :=
  mkeys (arrList.foldl (fun (m : GoMap α Bool) arr => arr.foldl (fun m v => mset m v true) m) [])

/-- Minus / MinusForInterface -/
def minus (set1 set2 : List α) : List α :=
  let set2Map : GoMap α Bool := sliceToMap true set2
  set1.filter (fun item => !mhas set2Map item)

/-- the outer loop of IsSubset -/
def isSubsetLoop (list2 : List α) : List α → List α → Bool
  | [], _ => true
  | x :: xs, seen =>
    if existsIn x seen then isSubsetLoop list2 xs seen
    else if existsIn x list2 then isSubsetLoop list2 xs (x :: seen)
    else false

/-- IsSubset / IsSubsetForInterface -/
def isSubset (list1 list2 : List α) : Bool :=
  if list1.length == 0 || list2.length == 0 then false else isSubsetLoop list2 list1 []

/-- IsSuperset / IsSupersetForInterface -/
def isSuperset (list1 list2 : List α) : Bool := isSubset list2 list1

/-- Concat: `nil` slices are skipped (they add nothing) -/
def concat (mine : List α) (slices : List (List α)) : List α := mine ++ slices.flatten

/-- Reverse: `newList[i] = list[len-(i+1)]` -/
def reverse (list : List α) : List α := list.reverse

end Slices

/-! ### Stream methods (receiver `s`, pointer operands `Option`) -/

namespace Stream
variable {α : Type} [DecidableEq α]

def distinct (s : List α) : List α := C05.distinct s
def contains (s : List α) (x : α) : Bool := existsIn x s

def isSubset (s : List α) : Option (List α) → Bool
  | none => false
  | some i => if i.length == 0 then false else C05.isSubset s i

def isSuperset (s : List α) : Option (List α) → Bool
  | none => true
  | some i => if i.length == 0 then true else C05.isSuperset s i

/-- two operands: the general branch of `Intersection` -/
def intersection (s : List α) : Option (List α) → List α
  | none => []
  | some i => if i.length == 0 then [] else dedupLoop (fun x => matchCount x [i] == 1) s [] []

def minus (s : List α) : Option (List α) → List α
  | none => s
  | some i => if i.length == 0 then s else C05.minus s i

def removeItem (s : List α) (input : List α) : List α :=
  if input.length > 0 then C05.minus s input else s

def concat (s : List α) (slices : List (List α)) : List α :=
  if slices.length == 0 then s else C05.concat s slices

/-- Extend: nil streams are skipped -/
def extend (s : List α) (streams : List (Option (List α))) : List α :=
  if streams.length == 0 then s else s ++ (streams.map (fun o => o.getD [])).flatten

def clone (s : List α) : List α := s
def reverse (s : List α) : List α := C05.reverse s

/-- MapIndexed: `result[i] = fn(val, i)` -/
def mapIdxFrom (f : α → Nat → α) : Nat → List α → List α
  | _, [] => []
  | i, x :: t => f x i :: mapIdxFrom f (i + 1) t
def map (f : α → Nat → α) (s : List α) : List α := mapIdxFrom f 0 s

/-- Filter: keep `input[i]` when `fn(input[i], i)` -/
def filterIdxFrom (p : α → Nat → Bool) : Nat → List α → List α
  | _, [] => []
  | i, x :: t => if p x i then x :: filterIdxFrom p (i + 1) t else filterIdxFrom p (i + 1) t
def filter (p : α → Nat → Bool) (s : List α) : List α := filterIdxFrom p 0 s
/-- Reject = Filter with the negated predicate -/
def reject (p : α → Nat → Bool) (s : List α) : List α := filter (fun x i => !p x i) s
/-- FilterNotNil: `Maybe.Just(val).IsPresent()` — an int (boxed or not) is always present -/
def filterNotNil (s : List α) : List α := filter (fun _ _ => true) s

/-- Sort / SortByIndex: `sort.SliceStable` with "a goes before b" = `less a b`, on a clone -/
def sort (less : α → α → Bool) (s : List α) : List α := s.mergeSort (fun a b => !less b a)

/-- Get: `(*s)[i]` (index out of range panics) -/
def get (s : List α) (i : Int) : Res α :=
  if i < 0 then .panic else
  match s[i.toNat]? with
  | some x => .ok x
  | none => .panic

def len (s : List α) : Nat := s.length
def toArray (s : List α) : List α := s

end Stream

namespace G
variable {α : Type}
/-- generic `Remove`: a fresh slice `s[:i] ++ s[i+1:]`, or the receiver when out of range -/
def streamRemove (s : List α) (index : Int) : List α :=
  if index ≥ 0 ∧ index < s.length then s.take index.toNat ++ s.drop (index.toNat + 1) else s
end G

namespace I
variable {α : Type}
/-- in-place shift `append(s[:i], s[i+1:]...)`: every element after `i` moves one slot down -/
def shiftDown : List α → Nat → List α
  | [], _ => []
  | _ :: t, 0 => t
  | x :: t, i + 1 => x :: shiftDown t i
/-- interface{} `Remove`: shifts the receiver in place and returns it -/
def streamRemove (s : List α) (index : Int) : List α :=
  if index ≥ 0 ∧ index < s.length then shiftDown s index.toNat else s
end I

/-! ### MapSet / SetForInterface methods (by key) -/

namespace MapSet
variable {κ ν : Type} [DecidableEq κ]

def containsKey (m : GoMap κ ν) (k : κ) : Bool := mhas m k
def size (m : GoMap κ ν) : Nat := m.length
def keys (m : GoMap κ ν) : List κ := mkeys m
def clone (m : GoMap κ ν) : GoMap κ ν := duplicateMap m

def isSubsetByKey (m : GoMap κ ν) : Option (GoMap κ ν) → Bool
  | none => false
  | some i => isSubsetMapByKey m i

def isSupersetByKey (m : GoMap κ ν) : Option (GoMap κ ν) → Bool
  | none => false
  | some i => isSupersetMapByKey m i

/-- Add: the zero value of the value type is stored for new keys -/
def add (zero : ν) (m : GoMap κ ν) (input : List κ) : GoMap κ ν :=
  if input.length > 0 then
    input.foldl (fun r v => if mhas r v then r else mset r v zero) (clone m)
  else m

def removeKeys (m : GoMap κ ν) (input : List κ) : GoMap κ ν :=
  if input.length > 0 then input.foldl mdel (clone m) else m

def values (m : GoMap κ ν) : List ν := mvalues m
/-- Get: a missing key gives the zero value -/
def get (zero : ν) (m : GoMap κ ν) (k : κ) : ν := (mget m k).getD zero
def containsValue [DecidableEq ν] (m : GoMap κ ν) (v : ν) : Bool := m.any (fun p => p.2 = v)
/-- Set mutates the receiver (a nil map panics) -/
def set (m : GoMap κ ν) (k : κ) (v : ν) : GoMap κ ν := mset m k v

/-- RemoveValues: `valueMap := SliceToMap(0, input...)`; every key of the receiver whose value is in it is deleted from the clone -/
def removeValues [DecidableEq ν] (m : GoMap κ ν) (input : List ν) : GoMap κ ν :=
  if input.length > 0 then
    let valueMap : GoMap ν Nat := sliceToMap 0 input
    m.foldl (fun r p => if mhas valueMap p.2 then mdel r p.1 else r) (clone m)
  else m

/-- MapKey: `result[fn(k)] = v` (only injective `fn` gives an order-independent result) -/
def mapKey (f : κ → κ) (m : GoMap κ ν) : GoMap κ ν := m.foldl (fun r p => mset r (f p.1) p.2) []
/-- MapValue: `result[k] = fn(v)` -/
def mapValue (f : ν → ν) (m : GoMap κ ν) : GoMap κ ν := m.foldl (fun r p => mset r p.1 (f p.2)) []

def union (m : GoMap κ ν) : Option (GoMap κ ν) → GoMap κ ν
  | none => m
  | some i => if i.length == 0 then m else merge m i

def intersection (m : GoMap κ ν) : Option (GoMap κ ν) → GoMap κ ν
  | none => []
  | some i => if i.length == 0 then [] else intersectionMapByKey [m, i]

def minus (m : GoMap κ ν) : Option (GoMap κ ν) → GoMap κ ν
  | none => m
  | some i =>
    if i.length == 0 then m
    else (clone m).foldl (fun r p => if mhas i p.1 then mdel r p.1 else r) (clone m)

end MapSet

/-! ### StreamSet methods (by key, then per-key stream; per-key streams are non-nil)

    The two families build the result object differently: the generic one through
    `StreamSetFromMap(x)` (= `DuplicateMap(x)`), the interface{} one by wrapping `x` directly
    (`&StreamSetForInterfaceDef{SetForInterfaceDef: x}`).  `wrap` is that constructor. -/

namespace StreamSet
variable {κ α : Type} [DecidableEq κ] [DecidableEq α]

abbrev SS (κ α : Type) := GoMap κ (List α)

def cloneW (wrap : SS κ α → SS κ α) (m : SS κ α) : SS κ α :=
  (wrap (duplicateMap m)).map (fun p => (p.1, Stream.clone p.2))

/-- body of the `for k, v := range …` post-pass shared by Union / Intersection / MinusStreams:
    `v2, ok := input[k]; if ok && v2 != nil && v2.Len() > 0 { result[k] = f(v, v2) }` -/
def perKeyStep (f : List α → Option (List α) → List α) (input : SS κ α) (r : SS κ α) (p : κ × List α) : SS κ α :=
  match mget input p.1 with
  | some v2 => if v2.length > 0 then mset r p.1 (f p.2 (some v2)) else r
  | none => r

def perKey (f : List α → Option (List α) → List α) (input : SS κ α) (over result : SS κ α) : SS κ α :=
  over.foldl (perKeyStep f input) result

def unionW (wrap : SS κ α → SS κ α) (m : SS κ α) : Option (SS κ α) → SS κ α
  | none => m
  | some i =>
    if i.length == 0 then m
    else perKey (fun v v2 => Stream.extend v [v2]) i m (wrap (merge m i))

def intersectionW (wrap : SS κ α → SS κ α) (m : SS κ α) : Option (SS κ α) → SS κ α
  | none => []
  | some i =>
    if i.length == 0 then []
    else
      let result := wrap (intersectionMapByKey [m, i])
      perKey Stream.intersection i result result

def minusStreamsW (wrap : SS κ α → SS κ α) (m : SS κ α) : Option (SS κ α) → SS κ α
  | none => []
  | some i =>
    if i.length == 0 then []
    else
      let result := cloneW wrap m
      perKey Stream.minus i result result

end StreamSet

namespace G
variable {κ α : Type} [DecidableEq κ] [DecidableEq α]
def ssClone (m : GoMap κ (List α)) : GoMap κ (List α) := StreamSet.cloneW duplicateMap m
def ssUnion (m : GoMap κ (List α)) (i : Option (GoMap κ (List α))) := StreamSet.unionW duplicateMap m i
def ssIntersection (m : GoMap κ (List α)) (i : Option (GoMap κ (List α))) := StreamSet.intersectionW duplicateMap m i
def ssMinusStreams (m : GoMap κ (List α)) (i : Option (GoMap κ (List α))) := StreamSet.minusStreamsW duplicateMap m i
end G

namespace I
variable {κ α : Type} [DecidableEq κ] [DecidableEq α]
def ssClone (m : GoMap κ (List α)) : GoMap κ (List α) := StreamSet.cloneW id m
def ssUnion (m : GoMap κ (List α)) (i : Option (GoMap κ (List α))) := StreamSet.unionW id m i
def ssIntersection (m : GoMap κ (List α)) (i : Option (GoMap κ (List α))) := StreamSet.intersectionW id m i
def ssMinusStreams (m : GoMap κ (List α)) (i : Option (GoMap κ (List α))) := StreamSet.minusStreamsW id m i
end I

namespace G
variable {κ α : Type} [DecidableEq κ]
/-- generic `StreamSetDef.Minus` is the promoted `MapSetDef.Minus` -/
def ssMinus (m : GoMap κ (List α)) (input : Option (GoMap κ (List α))) : GoMap κ (List α) :=
  MapSet.minus m input
/-- generic `StreamSetDef.IsSubsetByKey` is the promoted `MapSetDef.IsSubsetByKey` -/
def ssIsSubsetByKey (m : GoMap κ (List α)) (input : Option (GoMap κ (List α))) : Bool :=
  MapSet.isSubsetByKey m input
def ssIsSupersetByKey (m : GoMap κ (List α)) (input : Option (GoMap κ (List α))) : Bool :=
  MapSet.isSupersetByKey m input
/-- `StreamSetFromMap`: `DuplicateMap(theMap)` -/
def streamSetFromMap (theMap : GoMap κ (List α)) : GoMap κ (List α) := duplicateMap theMap
end G

namespace I
variable {κ α : Type} [DecidableEq κ]
/-- "DUPLICATED ZONE" `StreamSetForInterfaceDef.Minus`: own guard, then the embedded set's `Minus` -/
def ssMinus (m : GoMap κ (List α)) : Option (GoMap κ (List α)) → GoMap κ (List α)
  | none => m
  | some i => if i.length == 0 then m else MapSet.minus m (some i)
def ssIsSubsetByKey (m : GoMap κ (List α)) : Option (GoMap κ (List α)) → Bool
  | none => false
  | some i => if i.length == 0 then false else MapSet.isSubsetByKey m (some i)
def ssIsSupersetByKey (m : GoMap κ (List α)) : Option (GoMap κ (List α)) → Bool
  | none => false
  | some i => if i.length == 0 then false else MapSet.isSupersetByKey m (some i)
/-- `StreamSetForInterfaceFromMap`: `for k, v := range theMap { resultMap[k] = v }` -/
def streamSetFromMap (theMap : GoMap κ (List α)) : GoMap κ (List α) := mcopyInto [] theMap
end I

end FpgoVerif.C05
