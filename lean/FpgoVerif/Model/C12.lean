import FpgoVerif.Model.C12Sys
/-! Executable model for property C12 (core-only): the line protocol on top of the mailbox transition
    system (`C12MB.step`) and the actor system (`C12Sys.sysStep`).

    Case lines
    * `sched k=H|A cap=<k> n=<n> gate=0|1: op ; op ; …`  directed schedule.  Threads: senders `0..n-1`, one closer.
        `p<i>`  sender i posts its next message (both atoms, runs until it returns or blocks)
        `k<i>`  sender i starts a Post and is parked after the closed-check (`*.afterClosedCheck`)
        `s<i>`  release sender i from the park point (its channel send)
        `c`     Close (both atoms)        `g` Close parked after the flag (`*.close.afterFlag`)    `h` release it
        `f`     let one posted function finish (gate=1: every posted function waits for a permit)
        `F`     open the gate for good
      An op on a thread that cannot take it (busy sender, second Close, nothing parked) is ignored by both
      sides.  Each op may carry `@<hint>` (the generator's expectation, used by the harness only to know what
      to wait for); the model ignores it.  After every op the consumer and blocked senders run as far as
      they can (`settle`), and the observation is `S<started>F<finished>/<sender states><closer state>`
      (`r` returned/idle, `b` blocked in the send, `p` parked; closer `-` not started).  Last observation:
      `end <status> log=<per sender: seqs run, in order> ov=<max overlap> pan=<panics> self=ok|bad`.
    * `stress k=… cap=… n=… m=… jit=… close=0|1 seed=…`  free-running; observation `ok delivered=<n*m>` / `ok closed`.
    * `askmsg cap=… n=… m=… seed=…`  an `ActorDef[interface{}]` whose messages are plain values AND Ask objects (`*AskDef`
      sent by `AskChannel`, buffered reply channels so that a sender can have several requests in flight), slow effect,
      overlap / per-sender order / exactly-once monitors; observation `ok delivered=<n*m>`.
    * `nilmsg t=I|P cap=… n=… m=… seed=…`  an `ActorDef[interface{}]` (I) or `ActorDef[*T]` (P) whose per-sender sequences contain
      untyped nil and typed nil pointer messages between ordinary ones: a nil message is a message like any other (exactly once,
      in order); observation `ok delivered=<n*m>`.
    * `fresh k=… cap=… posters=<k> m=<m> rounds=<R> seed=…`  R fresh mailboxes, on each one k goroutines released by a
      barrier make the very first posts at the same moment (m messages each); observation `ok rounds=<R>`.
    * `tree: new <cap> ; spawn <p> ; close <a> ; send <a> ; parent <c> ; child <p> <c> ; closed <a>`  sequential
      history over a spawn tree (ids = allocation order). -/

namespace FpgoVerif.C12

def scriptOf (i : Nat) : List Job := (List.range 64).map (fun q => ⟨i, q⟩)

structure Sched where
  mb      : MB
  cap     : Nat
  n       : Nat
  gate    : Bool
  permits : Nat
  st      : Nat → Char
  waitQ   : List Nat
  closer  : Char

/-- one internal move: the running call finishes (if permitted), else the consumer receives, else the
    longest-waiting blocked sender completes its send, else the consumer exits -/
def settle1 (x : Sched) : Option Sched :=
  if !x.mb.running.isEmpty && (!x.gate || x.permits > 0) then
    (step x.cap x.mb .finish).map fun m => { x with mb := m, permits := if x.gate then x.permits - 1 else x.permits }
  else match step x.cap x.mb .recv with
  | some m => some { x with mb := m }
  | none =>
    let ex := (step x.cap x.mb .exit).map fun m => { x with mb := m }
    match x.waitQ with
    | i :: rest =>
      match step x.cap x.mb (.send i) with
      | some m => some { x with mb := m, waitQ := rest, st := upd x.st i 'r' }
      | none => ex
    | [] => ex

def settle : Nat → Sched → Sched
  | 0, x => x
  | fuel + 1, x => match settle1 x with
    | some y => settle fuel y
    | none => x

def stripHint (tok : String) : String := (tok.splitOn "@").headD ""

def opArg (tok : String) : Nat := ((tok.drop 1).toString.toNat?).getD 0

def Sched.act (x : Sched) (a : Act) : Sched :=
  match step x.cap x.mb a with
  | some m => { x with mb := m }
  | none => x

def doOp (x : Sched) (tok : String) : Sched :=
  let i := opArg tok
  let x := match tok.front with
    | 'p' =>
      if x.st i == 'r' && i < x.n then
        let y := x.act (.check i)
        if (y.mb.cur i).isSome then { y with st := upd y.st i 'b', waitQ := y.waitQ ++ [i] } else y
      else x
    | 'k' =>
      if x.st i == 'r' && i < x.n then
        let y := x.act (.check i)
        if (y.mb.cur i).isSome then { y with st := upd y.st i 'p' } else y
      else x
    | 's' => if x.st i == 'p' then { x with st := upd x.st i 'b', waitQ := x.waitQ ++ [i] } else x
    | 'c' => if x.closer == '-' then { (x.act .closeFlag).act .closeCh with closer := 'r' } else x
    | 'g' => if x.closer == '-' then { x.act .closeFlag with closer := 'p' } else x
    | 'h' => if x.closer == 'p' then { x.act .closeCh with closer := 'r' } else x
    | 'f' => { x with permits := x.permits + 1 }
    | 'F' => { x with gate := false }
    | _ => x
  settle 4096 x

def Sched.status (x : Sched) : String :=
  let s := x.mb.done.length + x.mb.running.length
  s!"S{s}F{x.mb.done.length}/" ++ String.ofList ((List.range x.n).map x.st) ++ String.singleton x.closer

def Sched.log (x : Sched) : String :=
  "/".intercalate ((List.range x.n).map fun i =>
    s!"{i}:" ++ ",".intercalate ((proj i x.mb.done).map fun j => toString j.seq))

def kv (toks : List String) (key : String) : String :=
  match toks.find? (fun t => t.startsWith (key ++ "=")) with
  | some t => (t.drop (key.length + 1)).toString
  | none => ""

def kvNat (toks : List String) (key : String) : Nat := ((kv toks key).toNat?).getD 0

def splitOps (body : String) : List String :=
  ((body.splitOn ";").map (fun t => t.trimAscii.toString)).filter (· ≠ "")

/-- head (before the first ": ") and body of a case line -/
def headBody (line : String) : String × String :=
  match line.splitOn ": " with
  | h :: rest => (h, ": ".intercalate rest)
  | [] => ("", "")

def schedInit (toks : List String) : Sched :=
  { mb := MB.init scriptOf, cap := kvNat toks "cap", n := kvNat toks "n", gate := kvNat toks "gate" == 1,
    permits := 0, st := fun _ => 'r', waitQ := [], closer := '-' }

def runSched (line : String) : String :=
  let (head, body) := headBody line
  let toks := head.splitOn " "
  let ops := (splitOps body).map stripHint
  let (x, outs) := ops.foldl (fun (acc : Sched × List String) t =>
    let y := doOp acc.1 t
    (y, y.status :: acc.2)) (schedInit toks, [])
  let ov := if x.mb.done.length + x.mb.running.length > 0 then 1 else 0
  " | ".intercalate (outs.reverse ++ [s!"end {x.status} log={x.log} ov={ov} pan=0 self=ok"])

/-! ### stress -/

def runStress (line : String) : String :=
  let toks := line.splitOn " "
  if kvNat toks "close" == 1 then "ok closed"
  else s!"ok delivered={kvNat toks "n" * kvNat toks "m"}"

/-! ### spawn trees: sequential histories on `Sys` -/

def sysScript (_a : Nat) : Nat → List Job := scriptOf

def Sys.act (s : Sys) (a : SAct) : Sys := (sysStep s a).getD s

def Sys.acts (s : Sys) (l : List SAct) : Sys := l.foldl Sys.act s

def showOpt : Option Nat → String
  | some p => s!"a{p}"
  | none => "-"

def treeOp (s : Sys) (tok : String) : Sys × String :=
  match tok.splitOn " " with
  | ["new", k] =>
    let s := s.act (.newRoot (k.toNat?.getD 0))
    (s, s!"a{s.count - 1}")
  | ["spawn", p] =>
    let p := p.toNat?.getD 0
    if p < s.count then
      let c := s.count
      let s := s.acts [.spawnNew p, .spawnCheck c, .spawnSetParent c, .spawnSetChild c]
      (s, s!"a{c} par={showOpt (s.parent c)} kid={if (s.children p).contains c then "y" else "n"}")
    else (s, "bad")
  | ["close", a] =>
    let a := a.toNat?.getD 0
    if a < s.count && !(s.mb a).flag then
      (s.acts [.mb a .closeFlag, .mb a .closeCh, .mb a .exit], "ok")
    else (s, "nop")
  | ["send", a] =>
    let a := a.toNat?.getD 0
    let s := s.acts [.mb a (.check 0), .mb a (.send 0), .mb a .recv, .mb a .finish]
    (s, s!"ran {(s.mb a).done.length}")
  | ["parent", c] => (s, showOpt (s.parent (c.toNat?.getD 0)))
  | ["child", p, c] => (s, if (s.children (p.toNat?.getD 0)).contains (c.toNat?.getD 0) then "y" else "n")
  | ["closed", a] => (s, if (s.mb (a.toNat?.getD 0)).flag then "y" else "n")
  | _ => (s, "bad")

def selfOK (s : Sys) : Bool := s.effLog.all fun e => e.2.1 == e.1

def runTree (line : String) : String :=
  let (_, body) := headBody line
  let (s, outs) := (splitOps body).foldl (fun (acc : Sys × List String) t =>
    let (s, o) := treeOp acc.1 t
    (s, o :: acc.2)) (Sys.init sysScript, [])
  let rans := " ".intercalate ((List.range s.count).map fun a => toString (s.mb a).done.length)
  " | ".intercalate (outs.reverse ++ [s!"end ran={rans} self={if selfOK s then "ok" else "bad"}"])

/-- protocol entry point -/
def handle (line : String) : String :=
  if line.startsWith "sched " then runSched line
  else if line.startsWith "stress " then runStress line
  else if line.startsWith "nilmsg " then s!"ok delivered={kvNat (line.splitOn " ") "n" * kvNat (line.splitOn " ") "m"}"
  else if line.startsWith "askmsg " then s!"ok delivered={kvNat (line.splitOn " ") "n" * kvNat (line.splitOn " ") "m"}"
  else if line.startsWith "fresh " then s!"ok rounds={kvNat (line.splitOn " ") "rounds"}"
  else if line.startsWith "tree" then runTree line
  else "bad-case"

/-! ### Spec-level oracle (`judge`): what the property itself says about an observation -/

structure Snap where
  s : Nat
  f : Nat
  st : List Char       -- senders
  closer : Char

def parseSnap (n : Nat) (o : String) : Option Snap :=
  match o.splitOn "/" with
  | [cnt, sts] =>
    match (cnt.drop 1).toString.splitOn "F" with
    | [a, b] =>
      match a.toNat?, b.toNat? with
      | some a, some b =>
        let cs := sts.toList
        if cs.length == n + 1 then some ⟨a, b, cs.take n, cs.getD n '-'⟩ else none
      | _, _ => none
    | _ => none
  | _ => none

structure JState where
  prev : Snap
  started : Nat → Nat
  outst : Nat → Option Nat
  closeStarted : Bool
  mustRun : List Job
  mustNot : List Job
  bad : Option String

def jStep (n : Nat) (j : JState) (opob : String × String) : JState :=
  let (op, ob) := opob
  if j.bad.isSome then j else
  match parseSnap n ob with
  | none => { j with bad := some s!"unreadable observation '{ob}'" }
  | some cur =>
    let i := opArg op
    let isPost := (op.front == 'p' || op.front == 'k') && i < n && j.prev.st.getD i 'r' == 'r'
    let j := if isPost then
        let q := j.started i
        { j with started := upd j.started i (q + 1), outst := upd j.outst i (some q),
                 mustNot := if j.prev.closer == 'r' then ⟨i, q⟩ :: j.mustNot else j.mustNot }
      else j
    let j := if (op.front == 'c' || op.front == 'g') && j.prev.closer == '-' then { j with closeStarted := true } else j
    let j := (List.range n).foldl (fun (j : JState) k =>
      match j.outst k with
      | some q =>
        if cur.st.getD k 'r' == 'r' then
          { j with outst := upd j.outst k none,
                   mustRun := if j.closeStarted then j.mustRun else ⟨k, q⟩ :: j.mustRun }
        else j
      | none => j) j
    { j with prev := cur }

def parseLog (s : String) : List Job :=
  (s.splitOn "/").flatMap fun part =>
    match part.splitOn ":" with
    | [i, seqs] =>
      match i.toNat? with
      | some i => (seqs.splitOn ",").filterMap fun q => q.toNat?.map fun q => (⟨i, q⟩ : Job)
      | none => []
    | _ => []

def strictlyIncreasing : List Nat → Bool
  | a :: b :: t => a < b && strictlyIncreasing (b :: t)
  | _ => true

def judgeSched (line impl : String) : String :=
  if impl == "hang" then "violation the schedule did not terminate (deadlock or blocked forever)"
  else if impl == "crash" || impl == "panic" then "violation a panic escaped"
  else
  let (head, body) := headBody line
  let toks := head.splitOn " "
  let n := kvNat toks "n"
  let ops := (splitOps body).map stripHint
  let obs := impl.splitOn " | "
  if obs.length != ops.length + 1 then "violation malformed observation (wrong number of steps)" else
  let j0 : JState := ⟨⟨0, 0, List.replicate n 'r', '-'⟩, fun _ => 0, fun _ => none, false, [], [], none⟩
  let j := (ops.zip obs).foldl (jStep n) j0
  match j.bad with
  | some b => s!"violation {b}"
  | none =>
    let last := obs.getLastD ""
    let ltoks := last.splitOn " "
    let log := parseLog (kv ltoks "log")
    if kv ltoks "pan" != "0" then "violation a panic escaped from Post/Send/Close or the posted function"
    else if (kv ltoks "ov").toNat?.getD 99 > 1 then "violation two posted functions ran at the same time on one mailbox"
    else if kv ltoks "self" != "ok" then "violation the effect did not receive the actor itself"
    else if !(List.range n).all (fun i => strictlyIncreasing ((proj i log).map (·.seq))) then
      "violation a message ran twice or out of the order its sender submitted it"
    else if !log.all (fun x => x.sender < n && x.seq < j.started x.sender) then "violation a message ran that nobody submitted"
    else if j.mustNot.any (fun x => log.contains x) then "violation a message submitted after Close returned was run"
    else
      let quiescent := match parseSnap n (ltoks.getD 1 "") with
        | some e => e.s == e.f && e.st.all (· == 'r') && (e.closer == 'r' || e.closer == '-')
        | none => false
      if quiescent && !j.mustRun.all (fun x => log.contains x) then
        "violation a message whose Post/Send returned before Close began was never run"
      else "allowed exactly-once, serial, per-sender order and after-Close dropping all hold in this observation"

/-- independent spec of the spawn-tree histories: (parent, closed, ran) per actor -/
structure TNode where
  parent : Option Nat
  closed : Bool
  ran : Nat

def setNth {α} : List α → Nat → α → List α
  | [], _, _ => []
  | _ :: t, 0, v => v :: t
  | h :: t, k + 1, v => h :: setNth t k v

def treeSpecOp (t : List TNode) (tok : String) : List TNode × String :=
  match tok.splitOn " " with
  | ["new", _] => (t ++ [⟨none, false, 0⟩], s!"a{t.length}")
  | ["spawn", p] =>
    let p := p.toNat?.getD 0
    match t[p]? with
    | some P =>
      if P.closed then (t ++ [⟨none, false, 0⟩], s!"a{t.length} par=- kid=n")
      else (t ++ [⟨some p, false, 0⟩], s!"a{t.length} par=a{p} kid=y")
    | none => (t, "bad")
  | ["close", a] =>
    let a := a.toNat?.getD 0
    match t[a]? with
    | some A => if A.closed then (t, "nop") else (setNth t a { A with closed := true }, "ok")
    | none => (t, "nop")
  | ["send", a] =>
    let a := a.toNat?.getD 0
    match t[a]? with
    | some A =>
      if A.closed then (t, s!"ran {A.ran}") else (setNth t a { A with ran := A.ran + 1 }, s!"ran {A.ran + 1}")
    | none => (t, "ran 0")
  | ["parent", c] => (t, match t[c.toNat?.getD 0]? with | some C => showOpt C.parent | none => "-")
  | ["child", p, c] =>
    (t, match t[c.toNat?.getD 0]? with
        | some C => if C.parent == some (p.toNat?.getD 0) then "y" else "n"
        | none => "n")
  | ["closed", a] => (t, match t[a.toNat?.getD 0]? with | some A => if A.closed then "y" else "n" | none => "n")
  | _ => (t, "bad")

def treeSpec (line : String) : String :=
  let (_, body) := headBody line
  let (t, outs) := (splitOps body).foldl (fun (acc : List TNode × List String) tok =>
    let (t, o) := treeSpecOp acc.1 tok
    (t, o :: acc.2)) ([], [])
  " | ".intercalate (outs.reverse ++ [s!"end ran={" ".intercalate (t.map fun x => toString x.ran)} self=ok"])

def judge (line impl : String) : String :=
  if line.startsWith "sched " then judgeSched line impl
  else if line.startsWith "stress " || line.startsWith "fresh " || line.startsWith "askmsg " || line.startsWith "nilmsg " then
    if impl.startsWith "ok" then "allowed the monitors saw no violation" else s!"violation monitor: {impl}"
  else if line.startsWith "tree" then
    if impl == treeSpec line then "allowed agrees with the spawn-tree spec"
    else s!"violation spawn-tree spec gives: {treeSpec line}"
  else "violation unknown case"

end FpgoVerif.C12
