/-! Executable model for property C19 (core-only): sorting yields an ordered, stable permutation;
    sort descriptors sort by key list.

    Mirrors (code as it is NOW in /repo, i.e. after `fix: 7831443`):
      fp.go            CompareToOrdered, Sort, SortSlice, SortOrdered, SortOrderedAscending/Descending
      sortDescriptor.go ComparableOrdered.CompareTo, ComparableString.CompareTo,
                        _compareBySortDescriptors, SortBySortDescriptors, SortedListBySortDescriptors,
                        SortDescriptorsBuilder.ToSortedList / Sort
      stream.go / streamForInterface.go   Sort, SortByIndex

    ASSUMPTION (modelled, not verified): `sort.SliceStable(data, less)` is modelled by core
    `List.mergeSort` with `le a b := !less b a`.  Contract used: for a comparator that is a strict
    weak order `sort.SliceStable` produces the ordered, stable permutation of its input.  That
    permutation is unique (`C19_sort_unique` in Props/C19.lean), so every correct stable sort agrees
    with `sortBy`.  The harness only uses comparators that are strict weak orders. -/
namespace FpgoVerif.C19

/-! ## `sort.SliceStable` -/

/-- `sort.SliceStable(l, less)` — see the assumption in the file header. -/
def sortBy {α : Type} (less : α → α → Bool) (l : List α) : List α :=
  l.mergeSort (fun a b => !less b a)

/-! ## fp.go -/

/-- `CompareToOrdered(a, b)`: `if b > a {1} else if b < a {-1} else 0`; `lt` is Go's `<` of the
    instantiated `Ordered` type (`b > a` is `lt a b`). -/
def compareToOrdered {κ : Type} (lt : κ → κ → Bool) (a b : κ) : Int :=
  if lt a b then 1 else if lt b a then -1 else 0

/-- `Sort(fn, input)`: `sort.SliceStable(input, func(p, n) { return fn(input[p], input[n]) })`,
    in place: the returned list is the content of `input` afterwards. -/
def sort {α : Type} (fn : α → α → Bool) (input : List α) : List α := sortBy fn input

/-- `SortSlice(fn, input...)`: `Sort(fn, input); return input`. -/
def sortSlice {α : Type} (fn : α → α → Bool) (input : List α) : List α := sort fn input

/-- `SortOrdered(ascending, input...)`: comparator `CompareToOrdered(a, b) > 0` resp. `< 0`. -/
def sortOrdered {κ : Type} (lt : κ → κ → Bool) (ascending : Bool) (input : List κ) : List κ :=
  if ascending then sort (fun a b => decide (compareToOrdered lt a b > 0)) input
  else sort (fun a b => decide (compareToOrdered lt a b < 0)) input

def sortOrderedAscending {κ : Type} (lt : κ → κ → Bool) (input : List κ) : List κ :=
  sortOrdered lt true input

def sortOrderedDescending {κ : Type} (lt : κ → κ → Bool) (input : List κ) : List κ :=
  sortOrdered lt false input

/-! ## keys: the dynamic types a `Comparable[interface{}]` key can have -/

/-- Go's `<` on strings: bytewise lexicographic. -/
def bytesLt : List Nat → List Nat → Bool
  | [], [] => false
  | [], _ :: _ => true
  | _ :: _, [] => false
  | a :: as, b :: bs => decide (a < b) || (a == b && bytesLt as bs)

/-- `strings.Compare(a, b)`: `0` if `a == b`, `-1` if `a < b`, `+1` otherwise. -/
def stringsCompare (a b : List Nat) : Int :=
  if a == b then 0 else if bytesLt a b then -1 else 1

def intLt (a b : Int) : Bool := decide (a < b)

/-- A non-nil sort key with its dynamic type. -/
inductive Key
  | oi (v : Int)        -- ComparableOrdered[int]
  | os (s : List Nat)   -- ComparableOrdered[string]  (bytes)
  | cs (s : List Nat)   -- ComparableString           (bytes)
deriving DecidableEq, Repr

def Key.rank : Key → Nat
  | .oi _ => 0 | .os _ => 1 | .cs _ => 2

/-- `key1.CompareTo(key2)`, dispatched on the dynamic type of the receiver.
    * `ComparableOrdered[T].CompareTo(input)  = CompareToOrdered(input.Val, obj.Val)`
    * `ComparableString.CompareTo(input)      = strings.Compare(obj.Val, input.Val)`
    Keys of different dynamic types make the type assertion in Go panic; one descriptor always yields
    keys of one type (outside the property's quantifier otherwise) — the model stays total by
    ordering different types by rank. -/
def Key.compareTo : Key → Key → Int
  | .oi self, .oi other => compareToOrdered intLt other self
  | .os self, .os other => compareToOrdered bytesLt other self
  | .cs self, .cs other => stringsCompare self other
  | k1, k2 => if k1.rank < k2.rank then -1 else 1

/-! ## sortDescriptor.go -/

/-- What `_compareBySortDescriptors` sees of a `SortDescriptor[T]`: `TransformedBy()` (key extractor,
    `none` = the transformer returned nil) and `IsAscending()`.  A `FieldSortDescriptor` is the
    descriptor whose transformer reads the named field by reflection. -/
structure Desc (α : Type) where
  key : α → Option Key
  asc : Bool

/-- `_compareBySortDescriptors(item1, item2, sortDescriptors, descriptorIndex)` with
    `d = sortDescriptors[descriptorIndex]`, `rest = sortDescriptors[descriptorIndex+1:]`
    (`_hasNextDescriptor` ⇔ `rest ≠ []`). -/
def compareBySortDescriptors {α : Type} (d : Desc α) (rest : List (Desc α)) (item1 item2 : α) : Int :=
  let key1 := d.key item1
  let key2 := d.key item2
  let result : Int :=
    match key1, key2 with
    | some k1, some k2 => if d.asc then k1.compareTo k2 else k2.compareTo k1
    | _, _ => 0
  if key1.isSome && key2.isNone then (if d.asc then 1 else -1)
  else if key1.isNone && key2.isSome then (if d.asc then -1 else 1)
  else
    match rest with
    | d' :: rest' => if result == 0 then compareBySortDescriptors d' rest' item1 item2 else result
    | [] => result

/-- the comparator of `SortBySortDescriptors`: `_compareBySortDescriptors(i1, i2, ds, 0) < 0`.
    (An empty descriptor list makes Go index out of range as soon as the comparator is called; the
    property quantifies over stacks of 1..3 descriptors.  The model answers `false`.) -/
def descLess {α : Type} (ds : List (Desc α)) (item1 item2 : α) : Bool :=
  match ds with
  | [] => false
  | d :: rest => decide (compareBySortDescriptors d rest item1 item2 < 0)

/-- The PINNED commit (c07da28), kept only for the refutation theorem `C19_pinned_refuted`:
    `key1.CompareTo(key2)` was evaluated and its result discarded (`result` stayed 0), and the comparator
    was `_compareBySortDescriptors(…) >= 0`. -/
def compareBySortDescriptorsPinned {α : Type} (d : Desc α) (rest : List (Desc α)) (item1 item2 : α) : Int :=
  let key1 := d.key item1
  let key2 := d.key item2
  let result : Int := 0
  if key1.isSome && key2.isNone then (if d.asc then 1 else -1)
  else if key1.isNone && key2.isSome then (if d.asc then -1 else 1)
  else
    match rest with
    | d' :: rest' => if result == 0 then compareBySortDescriptorsPinned d' rest' item1 item2 else result
    | [] => result

def descLessPinned {α : Type} (ds : List (Desc α)) (item1 item2 : α) : Bool :=
  match ds with
  | [] => false
  | d :: rest => decide (compareBySortDescriptorsPinned d rest item1 item2 ≥ 0)

/-- `SortBySortDescriptors(ds, input)` / `builder.Sort(input)`: in place. -/
def sortBySortDescriptors {α : Type} (ds : List (Desc α)) (input : List α) : List α :=
  sort (descLess ds) input

/-! ### a minimal slice heap, for "without modifying the input" -/

/-- a Go slice header: backing array id, offset, length, capacity -/
structure Slice where
  arr : Nat
  off : Nat
  len : Nat
  cap : Nat

/-- the backing arrays -/
abbrev Heap (α : Type) := List (List α)

/-- the elements a slice denotes -/
def Heap.read {α : Type} (h : Heap α) (s : Slice) : List α :=
  ((h.getD s.arr []).drop s.off).take s.len

/-- overwrite the `s.len` elements of slice `s` by `xs` -/
def Heap.write {α : Type} (h : Heap α) (s : Slice) (xs : List α) : Heap α :=
  let a := h.getD s.arr []
  h.set s.arr (a.take s.off ++ xs ++ a.drop (s.off + s.len))

/-- `s[:0:0]` -/
def Slice.emptyNoCap (s : Slice) : Slice := { s with len := 0, cap := 0 }

/-- `s[:0]` — capacity retained; NOT what the code does, used only to show that the capacity matters -/
def Slice.emptyKeepCap (s : Slice) : Slice := { s with len := 0 }

/-- Go's growth policy for small slices (`runtime.growslice`, < 256 elements): double the old
    capacity, or take what is needed if that is more.  (Size-class rounding does not change capacities
    ≤ 8 for the 16-byte interface values of a `SortDescriptorsBuilder`; modelled, not verified.) -/
def growCap (old needed : Nat) : Nat := if needed > 2 * old then needed else 2 * old

/-- `append(s, xs...)`: in place when the capacity suffices, else a fresh backing array with the
    grown capacity. -/
def Heap.append {α : Type} (h : Heap α) (s : Slice) (xs : List α) : Heap α × Slice :=
  if s.len + xs.length ≤ s.cap then
    (h.write ⟨s.arr, s.off + s.len, xs.length, 0⟩ xs, { s with len := s.len + xs.length })
  else
    (h ++ [h.read s ++ xs], ⟨h.length, 0, s.len + xs.length, growCap s.cap (s.len + xs.length)⟩)

/-- `Sort(fn, s)` on the heap: in place -/
def sortH {α : Type} (fn : α → α → Bool) (h : Heap α) (s : Slice) : Heap α :=
  h.write s (sort fn (h.read s))

/-- `SortedListBySortDescriptors(ds, input...)`:
    `result := append(input[:0:0], input...); SortBySortDescriptors(ds, result); return result` -/
def sortedListH {α : Type} (ds : List (Desc α)) (h : Heap α) (input : Slice) : Heap α × Slice :=
  let (h, result) := h.append input.emptyNoCap (h.read input)
  (sortH (descLess ds) h result, result)

/-- the aliasing variant `append(input[:0], input...)` (for the theorem that it WOULD modify the input) -/
def sortedListAliasH {α : Type} (ds : List (Desc α)) (h : Heap α) (input : Slice) : Heap α × Slice :=
  let (h, result) := h.append input.emptyKeepCap (h.read input)
  (sortH (descLess ds) h result, result)

/-- `SortedListBySortDescriptors(ds, input...)` / `builder.ToSortedList(input...)` on a heap that holds
    just the caller's slice.  Returns (result, content of `input` afterwards). -/
def sortedListBySortDescriptors {α : Type} (ds : List (Desc α)) (input : List α) : List α × List α :=
  let s : Slice := ⟨0, 0, input.length, input.length⟩
  let (h, result) := sortedListH ds [input] s
  (h.read result, h.read s)

/-! ### SortDescriptorsBuilder: a slice VALUE; every `ThenWith…` is `append(builder, d…)` -/

/-- capacity of the slice `NewSortDescriptorsBuilder[T]()` returns: `SortDescriptorsBuilder[T]{}` -/
def builderInitCap : Nat := 0

/-- `NewSortDescriptorsBuilder[T]()` with a given initial capacity (the code: `builderInitCap`) -/
def newBuilderCap {δ : Type} (cap : Nat) (h : Heap δ) : Heap δ × Slice :=
  (h ++ [[]], ⟨h.length, 0, 0, cap⟩)

def newBuilder {δ : Type} (h : Heap δ) : Heap δ × Slice := newBuilderCap builderInitCap h

/-- `builder.ThenWith(ds…)` / `ThenWithFieldName` / `ThenWithTransformerFunctor`:
    `result := append(builder, ds…)` — the receiver is a slice header passed by value -/
def thenWith {δ : Type} (h : Heap δ) (builder : Slice) (ds : List δ) : Heap δ × Slice :=
  h.append builder ds

/-- chain `ThenWith…(d)` for each `d` in turn -/
def thenWithChain {δ : Type} (h : Heap δ) (builder : Slice) : List δ → Heap δ × Slice
  | [] => (h, builder)
  | d :: ds => let (h, b) := thenWith h builder [d]; thenWithChain h b ds

/-- derive one sibling per element of `sibs` from the SAME builder `p`, in order -/
def deriveSiblings {δ : Type} (h : Heap δ) (p : Slice) : List (List δ) → Heap δ × List Slice
  | [] => (h, [])
  | s :: rest =>
    let (h, b) := thenWithChain h p s
    let (h, bs) := deriveSiblings h p rest
    (h, b :: bs)

/-- Build a prefix builder from `New…()` with initial capacity `cap`, fork one sibling per entry of
    `sibs` from it, and read — AFTER all derivations — the descriptor list each builder holds:
    the prefix builder first, then the siblings in derivation order. -/
def forkedBuildersCap {δ : Type} (cap : Nat) (pre : List δ) (sibs : List (List δ)) : List (List δ) :=
  let (h, b0) := newBuilderCap cap []
  let (h, p) := thenWithChain h b0 pre
  let (h, bs) := deriveSiblings h p sibs
  (p :: bs).map h.read

def forkedBuilders {δ : Type} (pre : List δ) (sibs : List (List δ)) : List (List δ) :=
  forkedBuildersCap builderInitCap pre sibs

/-- overwrite the first entries of a slice by `ws`, one index assignment each: `all[j] = ws[j]` -/
def overwritePrefix {δ : Type} (h : Heap δ) (s : Slice) (ws : List δ) : Heap δ :=
  h.write ⟨s.arr, s.off, min ws.length s.len, 0⟩ (ws.take s.len)

/-- A caller-owned descriptor slice `all` (len = cap = |all|) is spread into an EMPTY builder:
    `b := New().ThenWith(all[:k]...)` (`adopt = false`: the code — `append(builder, input...)` copies;
    `adopt = true`: the variant that returns the argument slice itself, NOT the code), then
    `b2 := b.ThenWith…(ext)`, then the caller overwrites `all[j] = ws[j]`.  Returns what the builder `b`,
    the builder `b2` and the caller's slice `all` hold afterwards. -/
def spreadRun {δ : Type} (adopt : Bool) (all : List δ) (k : Nat) (ws : List δ) (ext : δ) : List (List δ) :=
  let h0 : Heap δ := [all]
  let allS : Slice := ⟨0, 0, all.length, all.length⟩
  let sub : Slice := ⟨0, 0, min k all.length, all.length⟩          -- all[:k] keeps the capacity
  let (h, b0) := newBuilder h0
  let (h, b) := if adopt then (h, sub) else thenWith h b0 (h.read sub)
  let (h, b2) := thenWith h b [ext]
  let h := overwritePrefix h allS ws
  [h.read b, h.read b2, h.read allS]

/-! ## stream.go / streamForInterface.go -/

/-- `Stream.Sort(fn)`: `result := Clone(); Sort(fn, *result)`.  (result, receiver afterwards) -/
def streamSort {α : Type} (fn : α → α → Bool) (self : List α) : List α × List α :=
  let result := self
  (sort fn result, self)

/-- `Stream.SortByIndex(fn)`, `fn(i, j)` an index comparator over the receiver (the harness passes
    `fn(i, j) = less((*s)[i], (*s)[j])`, evaluated on the receiver's current storage — the contract of
    `sort.SliceStable`): the receiver is sorted in place, the sorted content is cloned as the result
    and the old content is copied back.  (result, receiver afterwards) -/
def streamSortByIndex {α : Type} (less : α → α → Bool) (self : List α) : List α × List α :=
  let oldValue := self
  let self := sortBy less self
  let result := self
  let self := oldValue
  (result, self)

/-! ## Spec: what the property demands -/

/-- strict weak order (irreflexive, transitive, negatively transitive) -/
def StrictWeak {α : Type} (less : α → α → Bool) : Prop :=
  (∀ a, less a a = false) ∧ (∀ a b c, less a b = true → less b c = true → less a c = true) ∧
  (∀ a b c, less a b = true → less a c = true ∨ less c b = true)

/-- the comparator does not distinguish `a` and `b` -/
def equivBy {α : Type} (less : α → α → Bool) (a b : α) : Bool := !less a b && !less b a

/-- natural order of non-nil keys -/
def Key.lt : Key → Key → Bool
  | .oi a, .oi b => decide (a < b)
  | .os a, .os b => bytesLt a b
  | .cs a, .cs b => bytesLt a b
  | k1, k2 => decide (k1.rank < k2.rank)

/-- natural order of keys, a nil key before every non-nil key -/
def optLt : Option Key → Option Key → Bool
  | none, some _ => true
  | some a, some b => a.lt b
  | _, _ => false

/-- natural order for an ascending descriptor, reversed for a descending one -/
def Desc.keyLt {α : Type} (d : Desc α) (x y : α) : Bool :=
  if d.asc then optLt (d.key x) (d.key y) else optLt (d.key y) (d.key x)

/-- lexicographic order by the descriptors' keys, later descriptors breaking ties of earlier ones -/
def lexLt {α : Type} : List (Desc α) → α → α → Bool
  | [], _, _ => false
  | d :: ds, x, y => d.keyLt x y || (d.key x == d.key y && lexLt ds x y)

def pairwiseB {α : Type} (r : α → α → Bool) : List α → Bool
  | [] => true
  | a :: t => t.all (r a) && pairwiseB r t

/-- `out` (elements tagged with their input position) is a permutation of an input of length `n` -/
def isPermB {α : Type} (n : Nat) (out : List (Nat × α)) : Bool :=
  out.length == n && (List.range n).all (fun i => (out.filter (fun p => p.1 == i)).length == 1)

/-- no element precedes one that the comparator places strictly before it -/
def orderedB {α : Type} (less : α → α → Bool) (out : List (Nat × α)) : Bool :=
  pairwiseB (fun a b => !less b.2 a.2) out

/-- elements the comparator does not distinguish keep their input order -/
def stableB {α : Type} (less : α → α → Bool) (out : List (Nat × α)) : Bool :=
  pairwiseB (fun a b => !(equivBy less a.2 b.2) || decide (a.1 < b.1)) out

/-! ## protocol -/

/-- harness record: four key fields (A int-ordered, B ComparableString, C int-ordered,
    D ComparableOrdered[string]); the payload id is the input position. -/
structure Rec where
  a : Option Int
  b : Option (List Nat)
  c : Option Int
  d : Option (List Nat)
deriving DecidableEq, Repr

def bytesOf (s : String) : List Nat := s.toList.map Char.toNat

def parseIntKey (s : String) : Option (Option Int) :=
  if s = "_" then some none else (s.toInt?).map some

def parseStrKey (s : String) : Option (Option (List Nat)) :=
  if s = "_" then some none
  else if s.startsWith "=" then some (some (bytesOf (s.drop 1).toString))
  else none

def parseRec (s : String) : Option Rec :=
  match s.splitOn "," with
  | [a, b, c, d] =>
    match parseIntKey a, parseStrKey b, parseIntKey c, parseStrKey d with
    | some a, some b, some c, some d => some ⟨a, b, c, d⟩
    | _, _, _, _ => none
  | _ => none

def allSome {β : Type} : List (Option β) → Option (List β)
  | [] => some []
  | none :: _ => none
  | some x :: t => (allSome t).map (x :: ·)

def splitBody (body : String) : List String :=
  ((body.splitOn ";").map (fun t => t.trimAscii.toString)).filter (· ≠ "")

def fieldKey (f : String) (r : Rec) : Option Key :=
  match f with
  | "A" => r.a.map Key.oi
  | "B" => r.b.map Key.cs
  | "C" => r.c.map Key.oi
  | "D" => r.d.map Key.os
  | _ => none

/-- one descriptor token `fA+` / `tB-`: f = field-name descriptor, t = transformer descriptor -/
def parseDesc (tok : String) : Option (Desc Rec) :=
  match tok.toList with
  | [k, f, dir] =>
    if (k = 'f' || k = 't') && (f = 'A' || f = 'B' || f = 'C' || f = 'D') && (dir = '+' || dir = '-') then
      some ⟨fieldKey (String.singleton f), dir = '+'⟩
    else none
  | _ => none

def parseStack (s : String) : Option (List (Desc Rec)) :=
  allSome ((s.splitOn ",").map parseDesc)

def getA (r : Rec) : Int := r.a.getD 0
def getB (r : Rec) : List Nat := r.b.getD []

/-- the harness's comparator family for Sort/SortSlice/Stream.Sort/SortByIndex (all strict weak) -/
def cmpByName (name : String) : Option (Rec → Rec → Bool) :=
  match name with
  | "a<" => some (fun x y => decide (getA x < getA y))
  | "a>" => some (fun x y => decide (getA x > getA y))
  | "am" => some (fun x y => decide (getA x % 2 < getA y % 2))
  | "b<" => some (fun x y => bytesLt (getB x) (getB y))
  | "ab" => some (fun x y => decide (getA x < getA y) || (getA x == getA y && bytesLt (getB y) (getB x)))
  | "no" => some (fun _ _ => false)
  | _ => none

def showIds (l : List (Nat × Rec)) : String :=
  "[" ++ " ".intercalate (l.map (fun p => toString p.1)) ++ "]"

/-- tag every element with its input position (the payload id the harness gives a record) -/
def tag {β : Type} (l : List β) : List (Nat × β) := (l.zipIdx).map (fun p => (p.2, p.1))

/-- a comparator on elements, applied to tagged elements (the tag is invisible to it) -/
def liftLess {β : Type} (less : β → β → Bool) (x y : Nat × β) : Bool := less x.2 y.2

/-- what the model answers for a comparator sort: the input positions in output order -/
def modelIds {β : Type} (less : β → β → Bool) (recs : List β) : List Nat :=
  (sort (liftLess less) (tag recs)).map (·.1)

def liftDesc (d : Desc Rec) : Desc (Nat × Rec) := ⟨fun p => d.key p.2, d.asc⟩

def showVal (v : Key) : String :=
  match v with
  | .oi i => toString i
  | .os s => "=" ++ String.ofList (s.map Char.ofNat)
  | .cs s => "=" ++ String.ofList (s.map Char.ofNat)

/-- values of an `O` case: ints or strings -/
def parseVals (ty : String) (toks : List String) : Option (List Key) :=
  if ty = "i" then allSome (toks.map (fun t => (t.toInt?).map Key.oi))
  else if ty = "s" then
    allSome (toks.map (fun t => if t.startsWith "=" then some (Key.os (bytesOf (t.drop 1).toString)) else none))
  else none

def showVals (l : List Key) : String := "[" ++ " ".intercalate (l.map showVal) ++ "]"

/-- `SortByIndex` cases; the suffix says through what the harness's index comparator reads the
    elements: the receiver (`sidx`/`iidx`), the slice the Stream was made from (`…b`), a second Stream over
    that slice (`…c`), a value copy of the receiver's header (`sidxh`).  On the code as it is they all see
    the storage being sorted, so the model is the same. -/
def isIdxApi (api : String) : Bool :=
  api = "sidx" || api = "sidxb" || api = "sidxc" || api = "sidxh" || api = "iidx" || api = "iidxb" || api = "iidxc"

/-- a user comparator on `interface{}` elements that orders nil entries itself: nil first / nil last,
    non-nil entries by `less` -/
def nilLess {β : Type} (nilFirst : Bool) (less : β → β → Bool) : Option β → Option β → Bool
  | none, none => false
  | none, some _ => nilFirst
  | some _, none => !nilFirst
  | some x, some y => less x y

def parseRecOrNil (s : String) : Option (Option Rec) :=
  if s = "~" then some none else (parseRec s).map some

def showIdsN (l : List (Nat × Option Rec)) : String :=
  "[" ++ " ".intercalate (l.map (fun p => if p.2.isSome then toString p.1 else "~")) ++ "]"

/-- a float value without NaN, as far as `<` and the observation can tell: its numeric value (the
    harness uses integral values) and, for zero, the sign bit (`-0` and `+0` are equal for `<` but
    distinguishable by `math.Signbit`) -/
abbrev Flt := Int × Bool

/-- Go's `<` on floats (no NaN): by numeric value; `-0 < +0` is false both ways -/
def fltLt (a b : Flt) : Bool := decide (a.1 < b.1)

def parseFlt (t : String) : Option Flt :=
  if t = "-0" then some (0, true) else (t.toInt?).map (fun v => (v, false))

def showFlt (v : Flt) : String := if v.1 == 0 && v.2 then "-0" else toString v.1

def showFlts (l : List Flt) : String := "[" ++ " ".intercalate (l.map showFlt) ++ "]"

/-- records of an `L` (long list) case: generated on both sides from (n, m, k): A_i = (i*m) % k,
    C_i = (i / 3) % 2, B and D constant — heavy ties -/
def longRecs (n m k : Nat) : List Rec :=
  (List.range n).map (fun i => ⟨some (Int.ofNat ((i * m) % k)), some [97], some (Int.ofNat ((i / 3) % 2)), some [120]⟩)

inductive Case
  | spread (api : String) (all : List (Desc Rec)) (k : Nat) (ws : List (Desc Rec)) (ext : Desc Rec) (recs : List Rec)
  | ordf (api : String) (vals : List Flt)
  | nilcmp (api : String) (less : Option Rec → Option Rec → Bool) (recs : List (Option Rec))
  | fork (api : String) (pre : List (Desc Rec)) (sibs : List (List (Desc Rec))) (recs : List Rec)
  | types (api : String) (stacks : List (List (Desc Rec))) (recs : List Rec)
  | desc (api : String) (ds : List (Desc Rec)) (recs : List Rec)
  | cmp (api : String) (less : Rec → Rec → Bool) (recs : List Rec)
  | ord (api : String) (vals : List Key)

def parseCase (line : String) : Option Case :=
  match line.splitOn ":" with
  | [head, body] =>
    let toks := splitBody body
    match (head.trimAscii.toString).splitOn " " with
    | ["D", api, stack] =>
      match parseStack stack, allSome (toks.map parseRec) with
      | some ds, some recs =>
        if ds.length ≥ 1 && (api = "sl" || api = "sb" || api = "tl" || api = "bs" || api = "slp" || api = "bsp")
        then some (.desc api ds recs) else none
      | _, _ => none
    | ["S", api, seq] =>
      -- caller-owned descriptor slice spread into an empty builder: <all>/<k>/<overwrites or ->/<ext>
      match seq.splitOn "/", allSome (toks.map parseRec) with
      | [a, k, w, e], some recs =>
        match parseStack a, k.toNat?, (if w = "-" then some [] else parseStack w), parseDesc e with
        | some all, some k, some ws, some ext =>
          if (api = "tl" || api = "bs") && k ≥ 1 && k ≤ all.length && ws.length ≤ all.length then
            some (.spread api all k ws ext recs) else none
        | _, _, _, _ => none
      | _, _ => none
    | ["F", api, seq] =>
      -- forked builders: <prefix>/<sibling>/<sibling>[/…]
      match allSome ((seq.splitOn "/").map parseStack), allSome (toks.map parseRec) with
      | some (pre :: sibs), some recs =>
        if sibs.length ≥ 1 && (api = "tl" || api = "bs") then some (.fork api pre sibs recs) else none
      | _, _ => none
    | ["T", api, seq] =>
      -- same-named record types sorted one after the other: X=<stack>/Y=<stack>[/…]
      let items := seq.splitOn "/"
      let okTy := items.all (fun it => it.startsWith "X=" || it.startsWith "Y=" || it.startsWith "Z=")
      match allSome (items.map (fun it => parseStack (it.drop 2).toString)), allSome (toks.map parseRec) with
      | some stacks, some recs =>
        if okTy && (api = "sl" || api = "tl") then some (.types api stacks recs) else none
      | _, _ => none
    | ["N", api, cmp, mode] =>
      -- interface{} sorts over lists with nil entries (`~`), comparator orders nil first (nf) / last (nl)
      match cmpByName cmp, allSome (toks.map parseRecOrNil) with
      | some less, some recs =>
        if (api = "isort" || api = "iidx" || api = "iidxb" || api = "iidxc" || api = "islice" || api = "isortfn")
            && (mode = "nf" || mode = "nl")
        then some (.nilcmp api (nilLess (mode = "nf") less) recs) else none
      | _, _ => none
    | ["C", api, cmp] =>
      match cmpByName cmp, allSome (toks.map parseRec) with
      | some less, some recs =>
        if api = "sort" || api = "slice" || api = "ssort" || api = "isort" || isIdxApi api
        then some (.cmp api less recs) else none
      | _, _ => none
    | ["L", api, what, n, m, k] =>
      -- long list, compactly encoded; `what` is a comparator name (comparator APIs) or a descriptor stack
      match n.toNat?, m.toNat?, k.toNat? with
      | some n, some m, some k =>
        if k = 0 || n > 20000 then none else
        let recs := longRecs n m k
        if api = "sort" || api = "slice" || api = "ssort" || api = "isort" || isIdxApi api then
          (cmpByName what).map (fun less => .cmp api less recs)
        else if api = "sl" || api = "sb" || api = "tl" || api = "bs" || api = "slp" || api = "bsp" then
          match parseStack what with
          | some ds => if ds.length ≥ 1 then some (.desc api ds recs) else none
          | none => none
        else none
      | _, _, _ => none
    | ["O", api, "f"] | ["O", api, "g"] =>
      -- float64 / float32 instantiations of SortOrdered*: -0 and +0 are ties that can be told apart
      match allSome (toks.map parseFlt) with
      | some vals => if api = "asc" || api = "desc" || api = "so+" || api = "so-" then some (.ordf api vals) else none
      | none => none
    | ["O", api, ty] =>
      match parseVals ty toks with
      | some vals => if api = "asc" || api = "desc" || api = "so+" || api = "so-" then some (.ord api vals) else none
      | none => none
    | _ => none
  | _ => none

/-- the model's answer: the sequence of input positions in output order (`D`, `C`), or the values (`O`);
    `mutated` is appended when an input that must stay intact changed. -/
def runCase : Case → String
  | .spread _ all k ws ext recs =>
    let input := tag recs
    " | ".intercalate ((spreadRun false all k ws ext).map (fun ds =>
      showIds (sortBySortDescriptors (ds.map liftDesc) input)))
  | .ordf api vals =>
    if api = "asc" then showFlts (sortOrderedAscending fltLt vals)
    else if api = "desc" then showFlts (sortOrderedDescending fltLt vals)
    else showFlts (sortOrdered fltLt (api = "so+") vals)
  | .nilcmp api less recs =>
    let input := tag recs
    if api = "isort" then showIdsN (streamSort (liftLess less) input).1
    else if api = "islice" then showIdsN (sortSlice (liftLess less) input)
    else if api = "isortfn" then showIdsN (sort (liftLess less) input)
    else showIdsN (streamSortByIndex (liftLess less) input).1
  | .fork _ pre sibs recs =>
    -- every builder (prefix first, then the siblings) sorts by the descriptor list IT holds
    let input := tag recs
    " | ".intercalate ((forkedBuilders pre sibs).map (fun ds =>
      showIds (sortBySortDescriptors (ds.map liftDesc) input)))
  | .types _ stacks recs =>
    -- the record type is irrelevant: each sort is by its own stack
    let input := tag recs
    " | ".intercalate (stacks.map (fun ds => showIds (sortedListBySortDescriptors (ds.map liftDesc) input).1))
  | .desc api ds recs =>
    let input := tag recs
    let lds := ds.map liftDesc
    if api = "sl" || api = "tl" || api = "slp" then
      let (result, after) := sortedListBySortDescriptors lds input
      showIds result ++ (if after.map (·.1) == input.map (·.1) then "" else " mutated")
    else showIds (sortBySortDescriptors lds input)
  | .cmp api less recs =>
    let input := tag recs
    if api = "sort" then showIds (sort (liftLess less) input)
    else if api = "slice" then showIds (sortSlice (liftLess less) input)
    else if api = "ssort" || api = "isort" then showIds (streamSort (liftLess less) input).1
    else showIds (streamSortByIndex (liftLess less) input).1
  | .ord api vals =>
    if api = "asc" then showVals (sortOrderedAscending Key.lt vals)
    else if api = "desc" then showVals (sortOrderedDescending Key.lt vals)
    else showVals (sortOrdered Key.lt (api = "so+") vals)

def handle (line : String) : String :=
  match parseCase line with
  | some c => runCase c
  | none => "bad-case"

/-! ## judge: the property's own statement, evaluated on the implementation's observation -/

def parseIds (obs : String) : Option (List Nat × Bool) :=
  let (obs, mutated) :=
    if obs.endsWith " mutated" then ((obs.dropEnd 8).toString, true) else (obs, false)
  if obs.startsWith "[" && obs.endsWith "]" then
    let inner := ((obs.drop 1).toString.dropEnd 1).toString
    let toks := (inner.splitOn " ").filter (· ≠ "")
    (allSome (toks.map String.toNat?)).map (fun ids => (ids, mutated))
  else none

def lookupAll {β : Type} (recs : List β) (ids : List Nat) : Option (List (Nat × β)) :=
  allSome (ids.map (fun i => (recs[i]?).map (fun r => (i, r))))

/-- the oracle's three checks as one Boolean -/
def acceptsB {β : Type} (less : β → β → Bool) (recs : List β) (ids : List Nat) : Bool :=
  match lookupAll recs ids with
  | none => false
  | some out => isPermB recs.length out && orderedB less out && stableB less out

def verdict {β : Type} (less : β → β → Bool) (recs : List β) (ids : List Nat) : String :=
  match lookupAll recs ids with
  | none => "violation result is not a permutation of the input (unknown element)"
  | some out =>
    if !isPermB recs.length out then "violation result is not a permutation of the input"
    else if !orderedB less out then "violation result is not ordered by the comparator"
    else if !stableB less out then "violation result is not stable"
    else "allowed ordered stable permutation"

def countKey (l : List Key) (k : Key) : Nat := (l.filter (· == k)).length

/-- several sorts in one case: every segment must satisfy the property for ITS descriptor list -/
def judgeSegments (stacks : List (List (Desc Rec))) (recs : List Rec) (impl : String) : String :=
  let segs := impl.splitOn " | "
  if segs.length != stacks.length then "violation no sorted list returned: " ++ impl else
  let vs := (stacks.zip segs).map (fun (ds, seg) =>
    match parseIds seg with
    | none => "violation no sorted list returned: " ++ seg
    | some (ids, mutated) =>
      if mutated then "violation the input was modified" else verdict (lexLt ds) recs ids)
  match vs.find? (fun v => v.startsWith "violation") with
  | some v => v
  | none => "allowed every sort is an ordered stable permutation by its own descriptor list"

/-- observation with `~` for nil entries (indistinguishable from one another): the k-th `~` of the
    output is taken to be the k-th nil entry of the input -/
def parseIdsN (recs : List (Option Rec)) (obs : String) : Option (List Nat) :=
  if obs.startsWith "[" && obs.endsWith "]" then
    let inner := ((obs.drop 1).toString.dropEnd 1).toString
    let toks := (inner.splitOn " ").filter (· ≠ "")
    let nilIdx := ((tag recs).filter (fun p => p.2.isNone)).map (·.1)
    let step := fun (acc : Option (List Nat × List Nat)) (t : String) =>
      match acc with
      | none => none
      | some (out, nils) =>
        if t = "~" then
          match nils with
          | i :: rest => some (out ++ [i], rest)
          | [] => none
        else (t.toNat?).map (fun i => (out ++ [i], nils))
    (toks.foldl step (some ([], nilIdx))).map (·.1)
  else none

def judgeCase (c : Case) (impl : String) : String :=
  match c with
  | .spread _ all k ws ext recs =>
    -- the builder holds a COPY of all[:k]; its extension adds ext; the caller's slice holds its own writes
    judgeSegments [all.take k, all.take k ++ [ext], ws ++ all.drop ws.length] recs impl
  | .ordf api vals =>
    let want : Flt → Flt → Bool := if api = "asc" || api = "so+" then fltLt else (fun a b => fltLt b a)
    if !(impl.startsWith "[" && impl.endsWith "]") then "violation no sorted list returned: " ++ impl else
    let inner := ((impl.drop 1).toString.dropEnd 1).toString
    match allSome (((inner.splitOn " ").filter (· ≠ "")).map parseFlt) with
    | none => "violation no sorted list returned: " ++ impl
    | some out =>
      if out.length != vals.length || !(vals.all (fun v => (out.filter (· == v)).length == (vals.filter (· == v)).length)) then
        "violation result is not a permutation of the input"
      else if !pairwiseB (fun a b => !want b a) out then "violation result is not ordered"
      -- stable: every class of values the comparator does not distinguish (here: -0 / +0) keeps its input order
      else if !(vals.all (fun v => out.filter (equivBy want v) == vals.filter (equivBy want v))) then
        "violation result is not stable (equal values that can be told apart changed their order)"
      else "allowed ordered stable permutation"
  | .nilcmp _ less recs =>
    match parseIdsN recs impl with
    | none => "violation no sorted list returned (or more nil entries than the input has): " ++ impl
    | some ids =>
      -- an id printed where the input holds nil (or vice versa) is caught by the permutation check
      verdict less recs ids
  | .fork _ pre sibs recs => judgeSegments (pre :: sibs.map (pre ++ ·)) recs impl
  | .types _ stacks recs => judgeSegments stacks recs impl
  | .desc api ds recs =>
    -- harness suffixes (review R2): the same descriptor list / builder used a second time on a fresh copy,
    -- or the same records in a second struct type of the same name, gave a DIFFERENT sequence: the ordered
    -- stable permutation is unique, so one of the two sorts violates the property
    if (impl.splitOn " again=").length > 1 then "violation a second sort with the same descriptors gives a different result: " ++ impl
    else if (impl.splitOn " twin=").length > 1 then "violation the same records in a second record type sort differently: " ++ impl
    else
    match parseIds impl with
    | none => "violation no sorted list returned: " ++ impl
    | some (ids, mutated) =>
      if mutated && (api = "sl" || api = "tl" || api = "slp") then "violation the input was modified"
      else verdict (lexLt ds) recs ids
  | .cmp _ less recs =>
    match parseIds impl with
    | none => "violation no sorted list returned: " ++ impl
    | some (ids, _) => verdict less recs ids
  | .ord api vals =>
    -- plain values: equal values are indistinguishable, stability is not observable
    let want : Key → Key → Bool := if api = "asc" || api = "so+" then Key.lt else (fun a b => Key.lt b a)
    let ty := match vals with | .os _ :: _ => "s" | _ => "i"
    if !(impl.startsWith "[" && impl.endsWith "]") then "violation no sorted list returned: " ++ impl else
    let inner := ((impl.drop 1).toString.dropEnd 1).toString
    match parseVals ty ((inner.splitOn " ").filter (· ≠ "")) with
    | none => "violation no sorted list returned: " ++ impl
    | some out =>
      if out.length != vals.length || !(vals.all (fun k => countKey out k == countKey vals k)) then
        "violation result is not a permutation of the input"
      else if !pairwiseB (fun a b => !want b a) out then "violation result is not ordered"
      else "allowed ordered permutation"

def judge (line impl : String) : String :=
  match parseCase line with
  | some c => judgeCase c impl
  | none => "allowed bad-case"

end FpgoVerif.C19
