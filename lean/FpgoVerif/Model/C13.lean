import FpgoVerif.Model.C13Ask
/-! Executable model for property C13 (core-only): the line protocol on top of `C13Ask.step`.

    Case lines
    * `ask mcap=<k> n=<n> spec=<K><rcap>,…: op ; op ; …`   directed schedule.  Asker `i` is described by the i-th
      spec item: kind `O` AskOnce, `T` AskOnceWithTimeout with a timeout that never fires within the case,
      `S` AskOnceWithTimeout with a short timeout (fires unless the reply arrives first) — likewise `Z` timeout 0,
      `N` a negative timeout, `Y` a tiny one (1 µs): to the model these are all "the timer fires", `C` AskChannel + a
      receive by the caller; `<rcap>` = capacity of the reply channel, optionally followed by the constructor (`n` New, `g` AskNewGenerics,
      `o` NewByOptions, `p` AskNewByOptionsGenerics; `o`/`p` with `rcap` 0 = a caller-made UNBUFFERED channel).
      The actor parks before every reply (`ask.reply.beforeSend`); `S` askers park when their timer fired
      (`ask.timeout.fired`).  Ops:
        `a<i>`  asker i starts its call            `r`     release the actor into the `select` of `Reply`
        `w<i>`  wait until asker i's timer fired   `u<i>`  release asker i: `close(done)`, return the timeout
        `d<i>`  asker i (kind `D`: AskChannel whose caller only holds the channel) starts to read — the harness waits
                `late=<ms>` (head parameter) before it lets the reader go: the value must arrive however late
      Observation after every op (after everything that can move has moved):
        `<asker states>/<actor state>`  askers: `-` not started, `s` inside `target.Send` (request not yet in the mailbox), `w` waiting for
        the reply (possibly parked after its timer
        fired), `V` returned a value, `T` returned the timeout; actor: `i` idle, `p<k>` parked before replying to k,
        `b<k>` blocked in the select of the reply to k.
      Last: `end <status> res=<i:V<value>|T|-,…> srv=<requests served, in order> pan=<panics>`.
    * `fanin mcap=… k=<k> c=<c> late=<ms> seed=…`   k AskChannel requests built with NewByOptions on ONE shared caller-made
      reply channel of capacity c < k, the collector starts to read `late` ms after the requests were sent; every one of the
      k replies must arrive (the actor waits in `Reply` while the buffer is full); observation `ok received=<k>`.
    * `askstress mcap=… n=… m=… rcap=… to=… seed=…`   free-running; observation `ok`. -/

namespace FpgoVerif.C13

def payloadOf (i : Nat) : Nat := 100 + 13 * i
def replyFn (i p : Nat) : Nat := p * 7 + i + 1

structure Sched where
  st : St
  cfg : Cfg
  n : Nat
  short : Nat → Bool         -- asker i is an `S` asker
  sendQ : List Nat           -- askers blocked in Send, oldest first
  released : Bool            -- the actor was released from `ask.reply.beforeSend` for its current reply

def Sched.try (x : Sched) (a : Act) : Option Sched := (step x.cfg x.st a).map fun t => { x with st := t }

def firstSome {α} (l : List Nat) (f : Nat → Option α) : Option α :=
  match l with
  | [] => none
  | i :: rest => match f i with
    | some r => some r
    | none => firstSome rest f

def settle1 (x : Sched) : Option Sched :=
  let ids := List.range x.n
  match firstSome ids (fun i => x.try (.finish i)) with
  | some y => some y
  | none =>
  match firstSome ids (fun i => x.try (.recv i)) with
  | some y => some y
  | none =>
  match x.try .compute with
  | some y => some { y with released := false }
  | none =>
  match (if x.released then (match x.try .replySend with | some y => some y | none => x.try .replyDone) else none) with
  | some y => some { y with released := false }
  | none =>
  match x.try .take with
  | some y => some y
  | none =>
  match x.sendQ with
  | i :: rest => (x.try (.send i)).map fun y => { y with sendQ := rest }
  | [] => none

def settle : Nat → Sched → Sched
  | 0, x => x
  | fuel + 1, x => match settle1 x with
    | some y => settle fuel y
    | none => x

def opArg (tok : String) : Nat := ((tok.drop 1).toString.toNat?).getD 0

def doOp (x : Sched) (tok : String) : Sched :=
  let i := opArg tok
  let x := match tok.front with
    | 'a' =>
      if i < x.n then
        match x.try (.call i) with
        | some y => { y with sendQ := y.sendQ ++ [i] }
        | none => x
      else x
    | 'r' =>
      match x.st.actor with
      | .replying _ _ => { x with released := true }
      | _ => x
    | 'w' => if x.short i then (x.try (.fire i)).getD x else x
    | 'u' => (x.try (.giveUp i)).getD x
    | 'd' => (x.try (.read i)).getD x
    | _ => x
  settle 4096 x

def askerChar (a : Asker) : Char :=
  match a.pc with
  | .idle => '-'
  | .sending => 's'
  | .waiting | .got _ | .fired | .holding => 'w'
  | .retV _ => 'V'
  | .retT => 'T'

def Sched.status (x : Sched) : String :=
  String.ofList ((List.range x.n).map fun i => askerChar (x.st.asker i)) ++ "/" ++
    (match x.st.actor with
     | .idle => "i"
     | .computing k => s!"p{k}"
     | .replying k _ => if x.released then s!"b{k}" else s!"p{k}")

def Sched.results (x : Sched) : String :=
  ",".intercalate ((List.range x.n).map fun i =>
    s!"{i}:" ++ match (x.st.asker i).pc with
      | .retV v => s!"V{v}"
      | .retT => "T"
      | _ => "-")

def kv (toks : List String) (key : String) : String :=
  match toks.find? (fun t => t.startsWith (key ++ "=")) with
  | some t => (t.drop (key.length + 1)).toString
  | none => ""

def kvNat (toks : List String) (key : String) : Nat := ((kv toks key).toNat?).getD 0

def splitOps (body : String) : List String :=
  ((body.splitOn ";").map (fun t => t.trimAscii.toString)).filter (· ≠ "")

def headBody (line : String) : String × String :=
  match line.splitOn ": " with
  | h :: rest => (h, ": ".intercalate rest)
  | [] => ("", "")

/-- spec item `K<rcap>` -/
def parseSpec (item : String) : Kind × Nat × Bool :=
  let k := item.front
  -- `<K><rcap>[ctor]`: the optional trailing letter names the constructor used by the harness (n New, g AskNewGenerics,
  -- o NewByOptions, p AskNewByOptionsGenerics — the last two with a caller-made channel, unbuffered for rcap 0)
  let rc := ((String.ofList ((item.drop 1).toString.toList.takeWhile Char.isDigit)).toNat?).getD 0
  match k with
  | 'O' => (.once, rc, false)
  | 'C' => (.channel, rc, false)
  | 'D' => (.channelLate, rc, false)
  | 'S' | 'Z' | 'N' | 'Y' => (.timeout, rc, true)
  | _ => (.timeout, rc, false)

def schedInit (toks : List String) : Sched :=
  let items := ((kv toks "spec").splitOn ",").map parseSpec
  let spec : Nat → Kind × Nat × Nat := fun i =>
    match items[i]? with
    | some (k, rc, _) => (k, payloadOf i, rc)
    | none => (.once, payloadOf i, 0)
  { st := St.init spec, cfg := { mcap := kvNat toks "mcap", reply := replyFn, legacy := false }, n := kvNat toks "n",
    short := fun i => match items[i]? with | some (_, _, s) => s | none => false,
    sendQ := [], released := false }

def runAsk (line : String) : String :=
  let (head, body) := headBody line
  let toks := head.splitOn " "
  let (x, outs) := (splitOps body).foldl (fun (acc : Sched × List String) t =>
    let y := doOp acc.1 t
    (y, y.status :: acc.2)) (schedInit toks, [])
  let srv := ",".intercalate (x.st.served.map toString)
  " | ".intercalate (outs.reverse ++ [s!"end {x.status} res={x.results} srv={srv} pan=0"])

def handle (line : String) : String :=
  if line.startsWith "ask " then runAsk line
  else if line.startsWith "askstress " then "ok"
  else if line.startsWith "fanin " then s!"ok received={kvNat (line.splitOn " ") "k"}"
  else "bad-case"

/-! ### Spec-level oracle -/

/-- the i-th result `i:V<v>` / `i:T` / `i:-` against what the property prescribes -/
def judgeResult (items : List (Kind × Nat × Bool)) (r : String) : Option String :=
  match r.splitOn ":" with
  | [i, v] =>
    match i.toNat? with
    | none => some s!"unreadable result '{r}'"
    | some i =>
      if v == "-" then none
      else if v == "T" then
        match items[i]? with
        | some (.timeout, _, _) => none
        | _ => some s!"asker {i} got a timeout from a call that has none"
      else if v == "Tearly" then
        some s!"asker {i} got ErrActorAskTimeout before its timeout had elapsed (the actor may still answer in time)"
      else if v.startsWith "V" then
        if (v.drop 1).toString.toNat? == some (replyFn i (payloadOf i)) then none
        else some s!"asker {i} received {v}, not the reply to its own request ({replyFn i (payloadOf i)})"
      else some s!"asker {i}: result {v} is neither (reply, nil) nor (zero, ErrActorAskTimeout)"
  | _ => some s!"unreadable result '{r}'"

def judgeAsk (line impl : String) : String :=
  if impl == "hang" then "violation the schedule did not terminate (an asker or the actor blocked forever)"
  else if impl == "crash" || impl == "panic" then "violation a panic escaped (send on / close of a closed channel)"
  else
  let (head, _) := headBody line
  let toks := head.splitOn " "
  let items := ((kv toks "spec").splitOn ",").map parseSpec
  let last := (impl.splitOn " | ").getLastD ""
  let ltoks := last.splitOn " "
  if ltoks.headD "" != "end" then "violation malformed observation" else
  if kv ltoks "pan" != "0" then "violation a panic in Reply / the asker (late reply hit a closed channel)" else
  match ((kv ltoks "res").splitOn ",").filterMap (judgeResult items) with
  | b :: _ => s!"violation {b}"
  | [] =>
    -- the actor must not sit in the select of a reply whose asker has already returned
    let status := ltoks.getD 1 ""
    let srv := ((kv ltoks "srv").splitOn ",").filterMap (·.toNat?)
    match status.splitOn "/" with
    | [as, act] =>
      -- a reply that the actor has delivered (Reply returned) must have reached its asker, unless that asker is a
      -- short-timeout one (which may be parked between its timer and its return)
      let ops := splitOps (headBody line).2
      let lost := srv.filter fun k =>
        as.toList.getD k '-' == 'w' &&
          (match items[k]? with
           | some (_, _, true) => false
           | some (.channelLate, _, _) => ops.contains s!"d{k}"
           | _ => true)
      if !lost.isEmpty then s!"violation Reply returned for request {lost.headD 0} but its asker never received the value"
      else if act.startsWith "b" then
        let k := ((act.drop 1).toString.toNat?).getD 0
        let c := as.toList.getD k '-'
        if c == 'T' || c == 'V' then s!"violation the actor is blocked in Reply although asker {k} has returned"
        else "allowed"
      else "allowed every returned value is the asker's own reply, timeouts are clean, the actor is not stuck"
    | _ => "violation malformed status"

def judge (line impl : String) : String :=
  if line.startsWith "ask " then judgeAsk line impl
  else if line.startsWith "askstress " || line.startsWith "fanin " then
    if impl.startsWith "ok" then "allowed the monitors saw no violation" else s!"violation monitor: {impl}"
  else "violation unknown case"

end FpgoVerif.C13
