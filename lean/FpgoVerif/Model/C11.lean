/-! Executable model of `MonadIODef` (monadIO.go), closure by closure, plus the composition-tree
    language of the correspondence protocol and the Spec (`run`: in-order traversal) the property
    demands.  Core-only.

    A MonadIO is its deferred `effect` closure plus the two handler fields.  An effect is a function
    of the goroutine that executes it (`Tag`) and the world; the world is the log of every user-visible
    event so far (user effects, continuation invocations, OnNext deliveries — each with the goroutine
    that ran it) and one result cell (the captured `result` variable of `Cor.YieldFromIO`).
    `Handler.Post(fn)` runs `fn` on the handler's goroutine; the protocol waits for quiescence after
    every operation, so a post is modelled as running `fn` with the handler's tag (sequentialised). -/

namespace FpgoVerif.C11

/-- goroutine identity: the caller (`main`) or the run-loop goroutine of one of three handlers -/
inductive Tag | main | h1 | h2 | h3
deriving DecidableEq, Repr

/-- what happened, without the goroutine -/
inductive Kind
  | eff (id : Nat)          -- user effect `id` ran
  | call (c x : Nat)        -- continuation `c` was invoked with `x`
  | next (x : Nat)          -- OnNext received `x`
deriving DecidableEq, Repr

structure Ev where
  kind : Kind
  g : Tag
deriving DecidableEq, Repr

structure World where
  log : List Ev
  cell : Nat
deriving DecidableEq, Repr

def World.emit (w : World) (k : Kind) (g : Tag) : World := { w with log := w.log ++ [⟨k, g⟩] }
def World.emits (w : World) (ks : List Kind) (g : Tag) : World := { w with log := w.log ++ ks.map (⟨·, g⟩) }

/-- `type MonadIODef[T] struct { effect func() T; obOn, subOn *HandlerDef }` -/
structure M (α : Type) where
  effect : Tag → World → α × World
  obOn : Option Tag
  subOn : Option Tag

/-- `type Subscription[T] struct { OnNext func(T) }` (nil = none) -/
structure Subscription (α : Type) where
  onNext : Option (α → Tag → World → World)

variable {α : Type}

/-- MonadIOJustGenerics: `&MonadIODef[T]{effect: func() T { return in }}` -/
def just (x : α) : M α := ⟨fun _ w => (x, w), none, none⟩

/-- MonadIONewGenerics: `&MonadIODef[T]{effect: effect}` -/
def new (effect : Tag → World → α × World) : M α := ⟨effect, none, none⟩

/-- doEffect: `return monadIOSelf.effect()` -/
def doEffect (m : M α) (g : Tag) (w : World) : α × World := m.effect g w

/-- FlatMap: `&MonadIODef[T]{effect: func() T { next := fn(self.doEffect()); return next.doEffect() }}`
    — a fresh struct: the handler fields are not inherited -/
def flatMap (m : M α) (fn : α → M α) : M α :=
  ⟨fun g w => let r := doEffect m g w; doEffect (fn r.1) g r.2, none, none⟩

/-- Eval: `return monadIOSelf.doEffect()` on the calling goroutine -/
def eval (m : M α) (g : Tag) (w : World) : α × World := doEffect m g w

/-- ObserveOn / SubscribeOn: set the field, return the receiver -/
def observeOn (m : M α) (h : Option Tag) : M α := { m with obOn := h }
def subscribeOn (m : M α) (h : Option Tag) : M α := { m with subOn := h }

/-- Handler.Post(fn): fn runs on the handler's goroutine -/
def post (h : Tag) (fn : Tag → World → World) (w : World) : World := fn h w

/-- doSubscribe, statement by statement -/
def doSubscribe (m : M α) (s : Subscription α) (obOn subOn : Option Tag) (g : Tag) (w : World) : World :=
  match s.onNext with
  | none => w
  | some onNext =>
    let doSub := fun (result : α) (g' : Tag) (w' : World) => onNext result g' w'
    let doOb := fun (g' : Tag) (w' : World) =>
      let r := doEffect m g' w'
      match subOn with
      | some h => post h (doSub r.1) r.2
      | none => doSub r.1 g' r.2
    match obOn with
    | some h => post h doOb w
    | none => doOb g w

/-- Subscribe: reads the two fields, then doSubscribe -/
def subscribe (m : M α) (s : Subscription α) (g : Tag) (w : World) : World :=
  doSubscribe m s m.obOn m.subOn g w

/-- doSubscribe with an OnNext, cut at the point where `doOb` has run the effect: the world the effect left, and
    the rest (the delivery) as a resumption.  The handler pair is the pair passed in — fixed when Subscribe was
    called; nothing that happens before the resumption runs can change where it delivers. -/
def doSubscribeSplit (m : M α) (onNext : α → Tag → World → World) (obOn subOn : Option Tag) (g : Tag) (w : World) :
    World × (World → World) :=
  let g1 := obOn.getD g
  let r := doEffect m g1 w
  (r.2, fun w' => onNext r.1 (subOn.getD g1) w')

/-- Cor.YieldFromIO: `target.SubscribeOn(nil).Subscribe({OnNext: func(in){ result = in; wg.Done() }}); wg.Wait(); return result`
    (the receiver is mutated: subOn stays nil afterwards) -/
def yieldFromIO (m : M Nat) (g : Tag) (w : World) : M Nat × Nat × World :=
  let m' := subscribeOn m none
  let w' := subscribe m' ⟨some (fun x _ w => { w with cell := x })⟩ g { w with cell := 0 }
  (m', w'.cell, w')

/-! ## The composition trees of the protocol -/

/-- Finite compositions of Just / New / FlatMap / ObserveOn / SubscribeOn.  Values are naturals below 1000;
    `v` is the value bound by the innermost enclosing continuation (0 outside any). -/
inductive Tree
  | J (c : Nat)                          -- Just(c)
  | V (a : Nat)                          -- Just((v + a) % 1000)
  | N (id : Nat)                         -- New(effect id): logs, returns (7*id + #events so far) % 1000
  | W (id : Nat)                         -- New(effect id): logs, returns (2*v + id + #events so far) % 1000
  | H (id : Nat)                         -- New(func(){ return api.Eval() }) around a SimpleAPI GET built at construction; the
                                         -- stub transport is effect `id` of kind N (network/simpleHTTP.go returns its call as a MonadIO)
  | G (id : Nat)                         -- like N; in the harness the first run after a gated Subscribe blocks at the gate
                                         -- (after logging) until the script opens it
  | JM (id : Nat) (x : Tree)             -- Just(obj): the VALUE is itself the MonadIO object built from x (interface{} API);
                                         -- it is a value like any other (code 1000+id), x is not run
  | Z (t : Tree)                         -- an object built elsewhere (closed: its own bound value is 0), used as a value's monad:
                                         -- what a continuation returns when it hands back an existing object
  | FR (t : Tree)                        -- t.FlatMap(Just)
  | FL (c : Nat) (t b : Tree)            -- t.FlatMap(func(x){ log call c x; return b[x] })
  | FC (c : Nat) (t b1 b2 : Tree)        -- t.FlatMap(func(x){ log call c x; if x even return b1[x] else b2[x] })
  | A (x c : Nat) (b : Tree)             -- New(func(){ return f(x).Eval() })  with f the continuation (c, b)
  | O (h : Option Tag) (t : Tree)        -- t.ObserveOn(h)
  | S (h : Option Tag) (t : Tree)        -- t.SubscribeOn(h)
deriving Repr

def valN (id n : Nat) : Nat := (7 * id + n) % 1000
def valW (v id n : Nat) : Nat := (2 * v + id + n) % 1000
def valV (v a : Nat) : Nat := (v + a) % 1000

/-- the user effect `id`: appends its event, returns a value that depends on the world -/
def userEffect (id : Nat) (val : Nat → Nat) : Tag → World → Nat × World :=
  fun g w => (val w.log.length, w.emit (.eff id) g)

/-- a logging continuation as a pure function into MonadIO: invoking it is logged right before the body runs -/
def kont (c : Nat) (body : Nat → M Nat) : Nat → M Nat :=
  fun x => ⟨fun g w => doEffect (body x) g (w.emit (.call c x) g), none, none⟩

/-- denotation: exactly the constructor calls the harness makes on the real library -/
def den : Tree → Nat → M Nat
  | .J c, _ => just c
  | .V a, v => just (valV v a)
  | .N id, _ => new (userEffect id (valN id))
  | .W id, v => new (userEffect id (valW v id))
  | .H id, _ => new (userEffect id (valN id))
  | .G id, _ => new (userEffect id (valN id))
  | .JM id _, _ => just (1000 + id)
  | .Z t, _ => new (den t 0).effect
  | .FR t, v => flatMap (den t v) just
  | .FL c t b, v => flatMap (den t v) (kont c (fun x => den b x))
  | .FC c t b1 b2, v => flatMap (den t v) (kont c (fun x => if x % 2 = 0 then den b1 x else den b2 x))
  | .A x c b, _ => new (fun g w => eval (kont c (fun y => den b y) x) g w)
  | .O h t, v => observeOn (den t v) h
  | .S h t, v => subscribeOn (den t v) h

/-! ## Spec: what the property demands -/

/-- The chain of a composition, in composition order: value and the events (each once) that one
    evaluation must produce when `n` events are already in the log. -/
def run : Tree → (v n : Nat) → Nat × List Kind
  | .J c, _, _ => (c, [])
  | .V a, v, _ => (valV v a, [])
  | .N id, _, n => (valN id n, [.eff id])
  | .W id, v, n => (valW v id n, [.eff id])
  | .H id, _, n => (valN id n, [.eff id])
  | .G id, _, n => (valN id n, [.eff id])
  | .JM id _, _, _ => (1000 + id, [])
  | .Z t, _, n => run t 0 n
  | .FR t, v, n => run t v n
  | .FL c t b, v, n =>
    let r1 := run t v n
    let r2 := run b r1.1 (n + r1.2.length + 1)
    (r2.1, r1.2 ++ .call c r1.1 :: r2.2)
  | .FC c t b1 b2, v, n =>
    let r1 := run t v n
    let r2 := if r1.1 % 2 = 0 then run b1 r1.1 (n + r1.2.length + 1) else run b2 r1.1 (n + r1.2.length + 1)
    (r2.1, r1.2 ++ .call c r1.1 :: r2.2)
  | .A x c b, _, n =>
    let r2 := run b x (n + 1)
    (r2.1, .call c x :: r2.2)
  | .O _ t, v, n => run t v n
  | .S _ t, v, n => run t v n

/-- static compositions: no data-dependent branch, so the chain is the same for every input -/
def Tree.static : Tree → Bool
  | .FR t => t.static
  | .Z t => t.static
  | .FL _ t b => t.static && b.static
  | .FC .. => false
  | .A _ _ b => b.static
  | .O _ t => t.static
  | .S _ t => t.static
  | _ => true

/-- an event without its data: which effect / which continuation -/
inductive Label | eff (id : Nat) | call (c : Nat)
deriving DecidableEq, Repr

def Kind.label : Kind → Label
  | .eff id => .eff id
  | .call c _ => .call c
  | .next _ => .call 0

/-- composition order, read off the syntax: left operand, the continuation, its body -/
def labels : Tree → List Label
  | .N id => [.eff id]
  | .W id => [.eff id]
  | .H id => [.eff id]
  | .G id => [.eff id]
  | .FR t => labels t
  | .Z t => labels t
  | .FL c t b => labels t ++ .call c :: labels b
  | .FC c t b1 _ => labels t ++ .call c :: labels b1
  | .A _ c b => .call c :: labels b
  | .O _ t => labels t
  | .S _ t => labels t
  | _ => []

/-- handler fields of the composed value: only an outermost ObserveOn/SubscribeOn counts -/
def rootOb : Tree → Option Tag
  | .O h _ => h
  | .S _ t => rootOb t
  | _ => none
def rootSub : Tree → Option Tag
  | .S h _ => h
  | .O _ t => rootSub t
  | _ => none

/-! ## Protocol -/

def showTag : Tag → String
  | .main => "m" | .h1 => "h1" | .h2 => "h2" | .h3 => "h3"

def showEv (e : Ev) : String :=
  match e.kind with
  | .eff id => s!"E{id}@{showTag e.g}"
  | .call c x => s!"K{c}({x})@{showTag e.g}"
  | .next x => s!"D({x})@{showTag e.g}"

def joinEvs (l : List String) : String := if l.isEmpty then "-" else " ".intercalate l
def showEvs (l : List Ev) : String := joinEvs (l.map showEv)

def parseTag (s : String) : Option (Option Tag) :=
  match s with
  | "0" => some none | "1" => some (some .h1) | "2" => some (some .h2) | "3" => some (some .h3)
  | _ => none

/-- prefix notation, fuel = number of tokens -/
def parseTree : Nat → List String → Option (Tree × List String)
  | 0, _ => none
  | _ + 1, [] => none
  | fuel + 1, tok :: rest =>
    match tok, rest with
    | "J", c :: rest => c.toNat?.map (fun c => (.J c, rest))
    | "V", a :: rest => a.toNat?.map (fun a => (.V a, rest))
    | "N", i :: rest => i.toNat?.map (fun i => (.N i, rest))
    | "W", i :: rest => i.toNat?.map (fun i => (.W i, rest))
    | "H", i :: rest => i.toNat?.map (fun i => (.H i, rest))
    | "HD", i :: rest => i.toNat?.map (fun i => (.H i, rest))   -- the same through a DELETE API
    | "HP", i :: rest => i.toNat?.map (fun i => (.H i, rest))   -- the same through a POST API with a JSON body
    | "G", i :: rest => i.toNat?.map (fun i => (.G i, rest))
    | "JM", i :: rest =>
      match i.toNat? with
      | some i => (parseTree fuel rest).map (fun (x, rest) => (.JM i x, rest))
      | none => none
    | "FR", rest => (parseTree fuel rest).map (fun (t, rest) => (.FR t, rest))
    | "FL", c :: rest =>
      match c.toNat?, parseTree fuel rest with
      | some c, some (t, rest) => (parseTree fuel rest).map (fun (b, rest) => (.FL c t b, rest))
      | _, _ => none
    | "FC", c :: rest =>
      match c.toNat?, parseTree fuel rest with
      | some c, some (t, rest) =>
        match parseTree fuel rest with
        | some (b1, rest) => (parseTree fuel rest).map (fun (b2, rest) => (.FC c t b1 b2, rest))
        | none => none
      | _, _ => none
    | "A", x :: c :: rest =>
      match x.toNat?, c.toNat? with
      | some x, some c => (parseTree fuel rest).map (fun (b, rest) => (.A x c b, rest))
      | _, _ => none
    | "O", h :: rest =>
      match parseTag h with
      | some h => (parseTree fuel rest).map (fun (t, rest) => (.O h t, rest))
      | none => none
    | "S", h :: rest =>
      match parseTag h with
      | some h => (parseTree fuel rest).map (fun (t, rest) => (.S h t, rest))
      | none => none
    | _, _ => none

def tokens (s : String) : List String := (s.splitOn " ").filter (· ≠ "")

/-- head = `<g|i> <tree tokens>`; the first token selects the generic / interface{} API on the Go side only -/
def parseHead (head : String) : Option Tree :=
  match tokens head with
  | _ :: toks =>
    match parseTree (toks.length + 1) toks with
    | some (t, []) => some t
    | _ => none
  | [] => none

/-- the harness' OnNext: logs the delivery -/
def logNext : Nat → Tag → World → World := fun x g w => w.emit (.next x) g

/-- the operations on ONE MonadIO object: build-only, Eval, Subscribe with / without OnNext, Cor.YieldFromIO,
    ObserveOn(h), SubscribeOn(h) -/
inductive BOp | build | eval | sub | subNil | yield | ob (h : Option Tag) | so (h : Option Tag)
deriving Repr

/-- the operations of a case.  A case works on up to four MonadIO objects (registers; 0 = the value built from the
    head tree): `sel j` makes register j current, `derive j c b` stores `current.FlatMap(continuation (c, b))` in
    register j (several objects derived from the SAME object), `gsub` = Subscribe with OnNext whose effect blocks at
    the gate (leaf G) until `gopen`; the operations in between run while that subscription is in flight. -/
inductive Op | basic (o : BOp) | gsub | gopen | sel (j : Nat) | derive (j c : Nat) (b : Tree)
  | deriveRet (j c k : Nat)   -- object j := current.FlatMap(func(x){ log call c x; return OBJECT k }) — a continuation handing back an existing object
deriving Repr

def parseBOp (s : String) : Option BOp :=
  match s with
  | "b" => some .build | "w" => some .build   -- `w`: the harness lets 2.1 s pass (nothing may happen)
  | "e" => some .eval | "s" => some .sub | "z" => some .subNil | "y" => some .yield
  | "o0" => some (.ob none) | "o1" => some (.ob (some .h1)) | "o2" => some (.ob (some .h2)) | "o3" => some (.ob (some .h3))
  | "u0" => some (.so none) | "u1" => some (.so (some .h1)) | "u2" => some (.so (some .h2)) | "u3" => some (.so (some .h3))
  | _ => none

def parseReg (s : String) : Option Nat :=
  match s with
  | "0" => some 0 | "1" => some 1 | "2" => some 2 | "3" => some 3 | _ => none

def parseOp (s : String) : Option Op :=
  match tokens s with
  | ["sg"] => some .gsub
  | ["g-"] => some .gopen
  | ["r", j] => (parseReg j).map .sel
  | ["X", j, c, k] =>
    match parseReg j, c.toNat?, parseReg k with
    | some j, some c, some k => some (.deriveRet j c k)
    | _, _, _ => none
  | "D" :: j :: c :: rest =>
    match parseReg j, c.toNat?, parseTree (rest.length + 1) rest with
    | some j, some c, some (b, []) => some (.derive j c b)
    | _, _, _ => none
  | [t] => (parseBOp t).map .basic
  | _ => none

/-- one operation on one object of the implementation model: the MonadIO value and the world -/
def implOp (st : M Nat × World) : BOp → (M Nat × World) × String
  | .build => (st, "-")
  | .eval =>
    let r := eval st.1 .main st.2
    ((st.1, r.2), s!"v={r.1} {showEvs (r.2.log.drop st.2.log.length)}")
  | .sub =>
    let w' := subscribe st.1 ⟨some logNext⟩ .main st.2
    ((st.1, w'), showEvs (w'.log.drop st.2.log.length))
  | .subNil =>
    let w' := subscribe st.1 ⟨none⟩ .main st.2
    ((st.1, w'), showEvs (w'.log.drop st.2.log.length))
  | .yield =>
    let r := yieldFromIO st.1 .main st.2
    ((r.1, r.2.2), s!"v={r.2.1} {showEvs (r.2.2.log.drop st.2.log.length)}")
  | .ob h => ((observeOn st.1 h, st.2), "-")
  | .so h => ((subscribeOn st.1 h, st.2), "-")

/-- While a gated subscription holds handler `hb`'s goroutine, an operation that has to run something on `hb`
    (and wait for it) cannot be part of a script: the protocol answers `bad-op` (both sides) instead of deadlocking. -/
def blocked (hb : Tag) (ob sub : Option Tag) : BOp → Bool
  | .sub => ob == some hb || sub == some hb
  | .yield => ob == some hb
  | _ => false

/-- ObserveOn and SubscribeOn naming the same handler with an unbuffered channel: Post from the handler's own goroutine
    to itself can never be received; the property names two handlers.  Such a Subscribe is not part of a script
    (`bad-op` on both sides) unless the head says the library under test supports it (`gs` / `is`). -/
def sameUnbuffered (ob sub : Option Tag) : Bool :=
  (ob == some .h1 && sub == some .h1) || (ob == some .h2 && sub == some .h2)

/-- the guard as a function of whatever is pending -/
def guarded {γ : Type} (allowSame : Bool) (pend : Option (Tag × γ)) (ob sub : Option Tag) (o : BOp) : Bool :=
  (match o with | .sub => !allowSame && sameUnbuffered ob sub | _ => false) ||
  match pend with
  | some (hb, _) => blocked hb ob sub o
  | none => false

/-- A Subscribe whose SubscribeOn handler is the (buffered) handler h3 that a gated subscription is holding: the effect runs
    now, the delivery waits in h3's mailbox behind the gated subscription (which must deliver directly, `qok`). -/
def queues {γ : Type} (pend : Option (Tag × γ)) (qok : Bool) (qlen : Nat) (ob sub : Option Tag) (o : BOp) : Bool :=
  match o, pend with
  | .sub, some (hb, _) => qok && hb == .h3 && sub == some .h3 && ob != some .h3 && qlen < 3
  | _, _ => false

def setReg {γ : Type} (regs : Nat → Option γ) (j : Nat) (x : γ) : Nat → Option γ :=
  fun k => if k = j then some x else regs k

/-- protocol state of the implementation model -/
structure ISt where
  regs : Nat → Option (M Nat)
  cur : Nat
  w : World
  pend : Option (Tag × (World → World))   -- the handler held by the gated subscription, and what it still has to do
  allowSame : Bool := false
  queue : List (World → World) := []   -- deliveries waiting in the held handler's mailbox, in order
  qok : Bool := false                    -- the gated subscription delivers directly (its subOn is nil)

def implStep (st : ISt) : Op → ISt × String
  | .sel j =>
    match st.regs j with
    | some _ => ({ st with cur := j }, "-")
    | none => (st, "bad-op")
  | .derive j c b =>
    match st.regs st.cur with
    | some m => ({ st with regs := setReg st.regs j (flatMap m (kont c (fun x => den b x))) }, "-")
    | none => (st, "bad-op")
  | .deriveRet j c k =>
    match st.regs st.cur, st.regs k with
    | some m, some mk => ({ st with regs := setReg st.regs j (flatMap m (kont c (fun _ => mk))) }, "-")
    | _, _ => (st, "bad-op")
  | .gopen =>
    match st.pend with
    | some (_, k) =>
      let w2 := st.queue.foldl (fun w f => f w) (k st.w)
      ({ st with w := w2, pend := none, queue := [], qok := false }, showEvs (w2.log.drop st.w.log.length))
    | none => (st, "-")
  | .gsub =>
    match st.regs st.cur, st.pend with
    | some m, none =>
      match (if !st.allowSame && sameUnbuffered m.obOn m.subOn then none else m.obOn) with
      | some hb =>
        let p := doSubscribeSplit m logNext m.obOn m.subOn .main st.w
        ({ st with w := p.1, pend := some (hb, p.2), queue := [], qok := m.subOn == none },
         showEvs (p.1.log.drop st.w.log.length))
      | none => (st, "bad-op")
    | _, _ => (st, "bad-op")
  | .basic o =>
    match st.regs st.cur with
    | some m =>
      if queues st.pend st.qok st.queue.length m.obOn m.subOn o then
        let p := doSubscribeSplit m logNext m.obOn m.subOn .main st.w
        ({ st with w := p.1, queue := st.queue ++ [p.2] }, showEvs (p.1.log.drop st.w.log.length))
      else if guarded st.allowSame st.pend m.obOn m.subOn o then (st, "bad-op")
      else
        let r := implOp (m, st.w) o
        ({ st with regs := setReg st.regs st.cur r.1.1, w := r.1.2 }, r.2)
    | none => (st, "bad-op")

def stepOp (st : ISt) (op : String) : ISt × String :=
  match parseOp op with
  | some o => implStep st o
  | none => (st, "bad-op")

def splitCase (line : String) : String × List String :=
  match line.splitOn ": " with
  | head :: rest =>
    (head, (((": ".intercalate rest).splitOn ";").map (fun t => t.trimAscii.toString)).filter (· ≠ ""))
  | [] => ("", [])

def foldOps {σ : Type} (step : σ → String → σ × String) (init : σ) (ops : List String) : σ × List String :=
  ops.foldl (fun (acc : σ × List String) op =>
    let r := step acc.1 op
    (r.1, r.2 :: acc.2)) (init, [])

def runOps {σ : Type} (step : σ → String → σ × String) (init : σ) (ops : List String) : List String :=
  (foldOps step init ops).2.reverse

def w0 : World := ⟨[], 0⟩

def headAllowsSame (head : String) : Bool :=
  match tokens head with
  | a :: _ => a == "gs" || a == "is"
  | [] => false

def istInit (t : Tree) (allowSame : Bool := false) : ISt := ⟨setReg (fun _ => none) 0 (den t 0), 0, w0, none, allowSame, [], false⟩

/-- protocol entry point of the implementation model -/
def handle (line : String) : String :=
  let (head, ops) := splitCase line
  match parseHead head with
  | none => "bad-case"
  | some t => " | ".intercalate (runOps stepOp (istInit t (headAllowsSame head)) ops)

/-! ### Spec-level oracle: the statement of the property evaluated directly

    State: the tree, the two handler fields as the operations set them, the number of events so far.
    * Eval: value and chain of `run`, every event on the caller's goroutine.
    * Subscribe with OnNext: the chain once on h1 (caller when nil), then one delivery of the value on h2
      (h1's goroutine when nil).
    * Subscribe without OnNext: nothing. -/

structure SpecSt where
  t : Tree
  ob : Option Tag
  sub : Option Tag
  n : Nat

def showKinds (ks : List Kind) (g : Tag) : List String := ks.map (fun k => showEv ⟨k, g⟩)
def specOp' (st : SpecSt) : BOp → SpecSt × String
  | .build => (st, "-")
  | .eval =>
    let r := run st.t 0 st.n
    ({ st with n := st.n + r.2.length }, s!"v={r.1} {joinEvs (showKinds r.2 .main)}")
  | .sub =>
    let r := run st.t 0 st.n
    let g1 := st.ob.getD .main
    let g2 := st.sub.getD g1
    ({ st with n := st.n + r.2.length + 1 }, joinEvs (showKinds r.2 g1 ++ showKinds [.next r.1] g2))
  | .subNil => (st, "-")
  | .yield =>
    let r := run st.t 0 st.n
    let g1 := st.ob.getD .main
    ({ st with n := st.n + r.2.length, sub := none }, s!"v={r.1} {joinEvs (showKinds r.2 g1)}")
  | .ob h => ({ st with ob := h }, "-")
  | .so h => ({ st with sub := h }, "-")

/-- one object as the statement sees it: the composition it denotes and the handler pair set on it -/
structure SReg where
  t : Tree
  ob : Option Tag
  sub : Option Tag

/-- Spec state of a case: the objects, the current one, the number of events so far, and — for a gated subscription
    in flight — the handler it holds, the value it will deliver and the goroutine it must deliver on (fixed when
    Subscribe was called: the pair then in force). -/
structure SSt where
  regs : Nat → Option SReg
  cur : Nat
  n : Nat
  pend : Option (Tag × Nat × Tag)
  allowSame : Bool := false
  queue : List (Nat × Tag) := []   -- value and goroutine of every delivery waiting behind the gated subscription
  qok : Bool := false

def specStep (st : SSt) : Op → SSt × String
  | .sel j =>
    match st.regs j with
    | some _ => ({ st with cur := j }, "-")
    | none => (st, "bad-op")
  | .derive j c b =>
    match st.regs st.cur with
    | some r => ({ st with regs := setReg st.regs j ⟨.FL c r.t b, none, none⟩ }, "-")   -- m.FlatMap(f): a new composition
    | none => (st, "bad-op")
  | .deriveRet j c k =>
    match st.regs st.cur, st.regs k with
    | some r, some rk => ({ st with regs := setReg st.regs j ⟨.FL c r.t (.Z rk.t), none, none⟩ }, "-")
    | _, _ => (st, "bad-op")
  | .gopen =>
    match st.pend with
    | some (_, v, g2) =>
      ({ st with n := st.n + 1 + st.queue.length, pend := none, queue := [], qok := false },
       joinEvs (showKinds [.next v] g2 ++ st.queue.map (fun p => showEv ⟨.next p.1, p.2⟩)))
    | none => (st, "-")
  | .gsub =>
    match st.regs st.cur, st.pend with
    | some r, none =>
      match (if !st.allowSame && sameUnbuffered r.ob r.sub then none else r.ob) with
      | some hb =>
        let q := run r.t 0 st.n
        ({ st with n := st.n + q.2.length, pend := some (hb, q.1, r.sub.getD hb), queue := [], qok := r.sub == none },
         joinEvs (showKinds q.2 hb))
      | none => (st, "bad-op")
    | _, _ => (st, "bad-op")
  | .basic o =>
    match st.regs st.cur with
    | some r =>
      if queues st.pend st.qok st.queue.length r.ob r.sub o then
        let q := run r.t 0 st.n
        ({ st with n := st.n + q.2.length, queue := st.queue ++ [(q.1, .h3)] }, joinEvs (showKinds q.2 (r.ob.getD .main)))
      else if guarded st.allowSame st.pend r.ob r.sub o then (st, "bad-op")
      else
        let q := specOp' ⟨r.t, r.ob, r.sub, st.n⟩ o
        ({ st with regs := setReg st.regs st.cur ⟨q.1.t, q.1.ob, q.1.sub⟩, n := q.1.n }, q.2)
    | none => (st, "bad-op")

def specOp (st : SSt) (op : String) : SSt × String :=
  match parseOp op with
  | some o => specStep st o
  | none => (st, "bad-op")

def sstInit (t : Tree) (allowSame : Bool := false) : SSt := ⟨setReg (fun _ => none) 0 ⟨t, rootOb t, rootSub t⟩, 0, 0, none, allowSame, [], false⟩

def specCase (line : String) : String :=
  let (head, ops) := splitCase line
  match parseHead head with
  | none => "bad-case"
  | some t => " | ".intercalate (runOps specOp (sstInit t (headAllowsSame head)) ops)

def judge (line impl : String) : String :=
  if impl = specCase line then "allowed implementation agrees with the statement (chain once, in order, right goroutines); the model differs"
  else s!"violation the property demands: {specCase line}"

end FpgoVerif.C11
