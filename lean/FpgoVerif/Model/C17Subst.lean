/-! C17, part 1 (core-only): strings as `List Char` (one `Char` per byte), `strings.ReplaceAll`,
    `replacePathParams` (network/simpleHTTP.go l.500-506) and the specification of "every supplied
    {key} replaced by its value" as a simultaneous substitution on a tokenised template. -/
namespace FpgoVerif.C17

abbrev Str := List Char

/-- `strings.ReplaceAll s pat rep` for a NON-EMPTY pattern: leftmost, non-overlapping occurrences,
    left to right.  The `Nat` is the number of characters of a matched occurrence still to skip. -/
def replaceAllAux (pat rep : Str) : Nat → Str → Str
  | _, [] => []
  | k + 1, _ :: s => replaceAllAux pat rep k s
  | 0, c :: s =>
    if pat.isPrefixOf (c :: s) then rep ++ replaceAllAux pat rep (pat.length - 1) s
    else c :: replaceAllAux pat rep 0 s

def replaceAll (s pat rep : Str) : Str := replaceAllAux pat rep 0 s

/-- a `PathParam` value as the harness supplies it; `sprintV` is `fmt.Sprintf("%v", v)` -/
inductive Val | str (s : Str) | int (i : Int)
deriving DecidableEq, Repr

def sprintV : Val → Str
  | .str s => s
  | .int i => (toString i).toList

/-- `fmt.Sprintf("{%s}", k)` -/
def placeholder (k : Str) : Str := '{' :: (k ++ ['}'])

/-- the loop of `replacePathParams`: one `ReplaceAll` per map entry, on the running result (the
    `fix:` commit f67e541; `pinned = true` is the old code that restarted from the template).
    `ps` is the parameter map IN ITERATION ORDER (Go randomises it: theorems hold for every order). -/
def replaceLoop (pinned : Bool) (tmpl : Str) (ps : List (Str × Val)) : Str :=
  ps.foldl (fun finalURL kv => replaceAll (if pinned then tmpl else finalURL) (placeholder kv.1) (sprintV kv.2)) tmpl

def replacePathParams (base tmpl : Str) (ps : List (Str × Val)) : Str :=
  base ++ '/' :: replaceLoop false tmpl ps

/-! ### Specification: templates are literal characters and `{name}` placeholders -/

inductive Tok | lit (c : Char) | hole (name : Str)
deriving DecidableEq, Repr

def renderTok : Tok → Str
  | .lit c => [c]
  | .hole n => placeholder n

def render (ts : List Tok) : Str := ts.flatMap renderTok

/-- a well-formed template: literal text never contains `{`, placeholder names contain no brace -/
def Tok.clean : Tok → Bool
  | .lit c => c != '{'
  | .hole n => !n.contains '{' && !n.contains '}'

def lookupKey (k : Str) : List (Str × Val) → Option Val
  | [] => none
  | (k', v) :: ps => if k' = k then some v else lookupKey k ps

/-- simultaneous substitution: every supplied `{key}` becomes its value, everything else stays -/
def substTokSpec (ps : List (Str × Val)) : Tok → Str
  | .lit c => [c]
  | .hole n => match lookupKey n ps with
    | some v => sprintV v
    | none => placeholder n

def Spec.subst (ts : List Tok) (ps : List (Str × Val)) : Str := ts.flatMap (substTokSpec ps)

/-- the unique well-formed reading of a template string (`none` = not well-formed: a `{` that does
    not start a brace-free `{name}`) -/
def tokenizeAux : Option Str → Str → Option (List Tok)
  | none, [] => some []
  | none, c :: s =>
    if c = '{' then tokenizeAux (some []) s
    else (tokenizeAux none s).map (Tok.lit c :: ·)
  | some _, [] => none
  | some n, c :: s =>
    if c = '}' then (tokenizeAux none s).map (Tok.hole n :: ·)
    else if c = '{' then none
    else tokenizeAux (some (n ++ [c])) s

def tokenize (s : Str) : Option (List Tok) := tokenizeAux none s

/-- the decidable side condition of the URL law (what makes one-key-at-a-time replacement equal to
    simultaneous substitution): no key contains `}`, no printed value contains `{`, keys distinct. -/
def paramsOK (ps : List (Str × Val)) : Bool :=
  ps.all (fun kv => !kv.1.contains '}' && !(sprintV kv.2).contains '{')

def keysDistinct : List (Str × Val) → Bool
  | [] => true
  | (k, _) :: ps => (lookupKey k ps).isNone && keysDistinct ps

end FpgoVerif.C17
