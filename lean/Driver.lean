import Driver.Main
