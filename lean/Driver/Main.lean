import FpgoVerif.Model.C01
import FpgoVerif.Model.C02
import FpgoVerif.Model.C03
import FpgoVerif.Model.C04
import FpgoVerif.Model.C05
import FpgoVerif.Model.C06
import FpgoVerif.Model.C07
import FpgoVerif.Model.C08
import FpgoVerif.Model.C09
import FpgoVerif.Model.C10
import FpgoVerif.Model.C11
import FpgoVerif.Model.C12
import FpgoVerif.Model.C13
import FpgoVerif.Model.C14
import FpgoVerif.Model.C15
import FpgoVerif.Model.C16
import FpgoVerif.Model.C17
import FpgoVerif.Model.C18
import FpgoVerif.Model.C19
import FpgoVerif.Model.C20
/-! Line-protocol driver (core-only).  `driver Cxx` answers one observation line per case line read
    from stdin; `driver Cxx judge` reads `case<TAB>implementation-observation` lines and answers the
    spec-level verdict. -/
open FpgoVerif

def dispatch (prop : String) : Option ((String → String) × (String → String → String)) :=
  match prop with
  | "C01" => some (C01.handle, C01.judge)
  | "C02" => some (C02.handle, C02.judge)
  | "C03" => some (C03.handle, C03.judge)
  | "C04" => some (C04.handle, C04.judge)
  | "C05" => some (C05.handle, C05.judge)
  | "C06" => some (C06.handle, C06.judge)
  | "C07" => some (C07.handle, C07.judge)
  | "C08" => some (C08.handle, C08.judge)
  | "C09" => some (C09.handle, C09.judge)
  | "C10" => some (C10.handle, C10.judge)
  | "C11" => some (C11.handle, C11.judge)
  | "C12" => some (C12.handle, C12.judge)
  | "C13" => some (C13.handle, C13.judge)
  | "C14" => some (C14.handle, C14.judge)
  | "C15" => some (C15.handle, C15.judge)
  | "C16" => some (C16.handle, C16.judge)
  | "C17" => some (C17.handle, C17.judge)
  | "C18" => some (C18.handle, C18.judge)
  | "C19" => some (C19.handle, C19.judge)
  | "C20" => some (C20.handle, C20.judge)
  | _ => none

def chomp (s : String) : String :=
  let s := if s.endsWith "\n" then (s.dropEnd 1).toString else s
  if s.endsWith "\r" then (s.dropEnd 1).toString else s

partial def loop (f : String → String) (h out : IO.FS.Stream) (n : Nat) : IO Unit := do
  let line ← h.getLine
  if line.isEmpty then
    out.flush
    return ()
  out.putStrLn (f (chomp line))
  if n % 256 == 0 then out.flush
  loop f h out (n + 1)

def main (args : List String) : IO UInt32 := do
  let stdin ← IO.getStdin
  let stdout ← IO.getStdout
  match args with
  | [p] =>
    match dispatch p with
    | some (h, _) => loop h stdin stdout 1; return 0
    | none => IO.eprintln s!"unknown property {p}"; return 2
  | [p, "judge"] =>
    match dispatch p with
    | some (_, j) =>
      loop (fun l => match l.splitOn "\t" with
        | [c, i] => j c i
        | _ => "bad-judge-line") stdin stdout 1
      return 0
    | none => IO.eprintln s!"unknown property {p}"; return 2
  | _ => IO.eprintln "usage: driver Cxx [judge]"; return 2
