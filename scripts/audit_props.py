#!/usr/bin/env python3
"""Consistency audit of the Lean side: every `theorem Cxx_*` in Props/Cxx.lean is listed in Audit/Cxx.lean
(and vice versa), Props files contain no helper lemmas named otherwise, Model files import no Mathlib."""
import os, re, sys
root = os.path.join(os.path.dirname(os.path.dirname(os.path.abspath(__file__))), "lean", "FpgoVerif")
bad = 0
for i in range(1, 21):
    c = f"C{i:02d}"
    props = open(os.path.join(root, "Props", c + ".lean")).read()
    audit = open(os.path.join(root, "Audit", c + ".lean")).read()
    thms = re.findall(r"^\s*(?:private |protected )?theorem\s+(\S+)", props, re.M)
    listed = [n.split(".")[-1] for n in re.findall(r"^#print axioms\s+(\S+)", audit, re.M)]
    for t in thms:
        if t.split(".")[-1] not in listed:
            print(f"{c}: theorem {t} not in Audit"); bad += 1
    for l in listed:
        if l not in [t.split(".")[-1] for t in thms]:
            print(f"{c}: audited {l} is not a theorem of Props/{c}.lean (defined elsewhere?)")
    nex = len(re.findall(r"^\s*example", props, re.M))
    print(f"{c}: {len(thms)} theorems, {len(listed)} audited, {nex} examples")
for base, _, files in os.walk(root):
    for fn in files:
        if fn.endswith(".lean") and ("/Model" in base or "/Gen" in base or "/Go" in base or "/Spec" in base):
            if re.search(r"^import Mathlib", open(os.path.join(base, fn)).read(), re.M):
                print(f"core-only violated: {os.path.join(base, fn)} imports Mathlib"); bad += 1
sys.exit(1 if bad else 0)
