#!/usr/bin/env python3
"""Assemble MANIFEST.json from manifest.d/Cxx.json fragments (one per claimed property) and
manifest.d/_base.json.  Properties without a fragment are listed under not_applicable with the reason
given in manifest.d/_unclaimed.json (they are not claimed, which is different from 'cannot apply')."""
import json, os, sys
root = os.path.dirname(os.path.dirname(os.path.abspath(__file__)))
base = json.load(open(os.path.join(root, "manifest.d", "_base.json")))
unclaimed = json.load(open(os.path.join(root, "manifest.d", "_unclaimed.json")))
ids = [json.loads(l)["id"] for l in open(os.path.join(root, "properties.jsonl")) if l.strip()]
checks, na = [], []
for i in ids:
    p = os.path.join(root, "manifest.d", i + ".json")
    if os.path.exists(p):
        f = json.load(open(p))
        checks.append({
            "property_id": i,
            "quick_cmd": f"./check {i} --tier quick",
            "thorough_cmd": f"./check {i} --tier thorough",
            "evidence_file": f"evidence/{i}.json",
            "replay_cmd_template": f"./check {i} --replay {{path}}",
            "engine": "lean4-proof+correspondence",
            "level_claimed": {"category": "proof", "text": f["level_text"], "design_ref": f.get("design_ref", f"DESIGN.md section 6 ({i}) and section 12")},
            "level_note": f["level_note"],
            "technique": f["technique"],
        })
    else:
        na.append({"property_id": i, "reason": unclaimed.get(i, unclaimed["_default"])})
base["checks"] = checks
base["not_applicable"] = na
json.dump(base, open(os.path.join(root, "MANIFEST.json"), "w"), indent=1)
print(f"MANIFEST.json: {len(checks)} claimed, {len(na)} not claimed")
