#!/usr/bin/env python3
"""Confirm a candidate seeded change independently and, if confirmed, keep it under /verif/seeded/<id>/.

    scripts/confirm_mutant.py <candidate dir> <seeded id>

Candidate dir holds patch.diff, meta.json (property, demo_place, demo_cmd, ...), and the demo file.
In a fresh scratch worktree of /repo HEAD (outside /repo and /verif): the demo must PASS without the
patch; with the patch the library must build (with and without -tags verif), the stable baseline
must pass, and the demo must FAIL.  The worktree is removed afterwards."""
import json, os, shutil, subprocess, sys, glob

ROOT = os.path.dirname(os.path.dirname(os.path.abspath(__file__)))
ENV = dict(os.environ, GOFLAGS="-mod=mod", GOPROXY="off", GOSUMDB="off", GOTOOLCHAIN="local")


def sh(cmd, cwd=None, timeout=1800):
    p = subprocess.run(cmd, cwd=cwd, env=ENV, shell=isinstance(cmd, str), stdout=subprocess.PIPE, stderr=subprocess.STDOUT, text=True, timeout=timeout)
    return p.returncode, p.stdout


def main():
    cand, sid = sys.argv[1], sys.argv[2]
    meta = json.load(open(os.path.join(cand, "meta.json")))
    wt = f"/tmp/confirm-{sid}-{os.getpid()}"
    ran = []
    ok = False
    try:
        sh(["git", "-C", "/repo", "worktree", "add", "--detach", "-f", wt, "HEAD"])
        demos = [f for f in os.listdir(cand) if f.endswith(".go")]
        place = (meta.get("demo_place") or "").split()[0] if meta.get("demo_place") else None
        demo_file = meta.get("demo_file") or (demos[0] if demos else None)
        def put_demo():
            if place and demo_file:
                dst = os.path.join(wt, place)
                os.makedirs(os.path.dirname(dst), exist_ok=True)
                shutil.copy(os.path.join(cand, demo_file), dst)
        def run_demo(n=1):
            fails = 0
            out = ""
            for _ in range(n):
                rc, out = sh(meta["demo_cmd"], cwd=wt, timeout=900)
                fails += rc != 0
            return fails, out
        put_demo()
        f0, out0 = run_demo(3)
        ran.append(f"demo without patch x3: {3-f0} pass")
        if f0:
            print("REJECT: demo fails without the patch\n" + out0[-1500:]); return 1
        rc, out = sh(["git", "apply", os.path.join(os.path.abspath(cand), "patch.diff")], cwd=wt)
        if rc:
            print("REJECT: patch does not apply to HEAD\n" + out); return 1
        rc1, o1 = sh("go build ./... && go build -tags verif ./...", cwd=wt)
        ran.append("go build ./... && go build -tags verif ./...: rc=%d" % rc1)
        if rc1:
            print("REJECT: does not build\n" + o1[-1500:]); return 1
        # baseline without the demo file present
        if place:
            os.remove(os.path.join(wt, place))
        blok = False
        for i in range(3):
            rc2 = subprocess.run(["bash", os.path.join(ROOT, "scripts", "baseline_off.sh")], env=dict(ENV, VERIF_REPO=wt),
                                 stdout=subprocess.PIPE, stderr=subprocess.STDOUT, text=True).returncode
            if rc2 == 0:
                blok = True
                break
        ran.append(f"scripts/baseline_off.sh (37 stable tests) with patch: {'pass' if blok else 'FAIL'} (attempt {i+1})")
        if not blok:
            print("REJECT: stable baseline fails with the patch"); return 1
        put_demo()
        f1, out1 = run_demo(5)
        ran.append(f"demo with patch x5: {f1} fail")
        if f1 < 4:
            print(f"REJECT: demo fails only {f1}/5 with the patch\n" + out1[-1500:]); return 1
        ok = True
        dst = os.path.join(ROOT, "seeded", sid)
        os.makedirs(dst, exist_ok=True)
        shutil.copy(os.path.join(cand, "patch.diff"), os.path.join(dst, "patch.diff"))
        if demo_file:
            shutil.copy(os.path.join(cand, demo_file), os.path.join(dst, demo_file))
        meta["demo_file"] = demo_file
        meta["demo_place"] = place
        meta["confirmed"] = ran
        meta["confirmed_at_repo_head"] = subprocess.run(["git", "-C", "/repo", "rev-parse", "--short", "HEAD"], stdout=subprocess.PIPE, text=True).stdout.strip()
        meta["demo_failure_excerpt"] = out1[-800:]
        json.dump(meta, open(os.path.join(dst, "meta.json"), "w"), indent=1)
        print(f"CONFIRMED {sid}: " + "; ".join(ran))
        return 0
    finally:
        sh(["git", "-C", "/repo", "worktree", "remove", "--force", wt])
        shutil.rmtree(wt, ignore_errors=True)


if __name__ == "__main__":
    sys.exit(main())
