#!/bin/bash
# Runs the repository's stable baseline (37 tests of /root/.vp/BASELINE.json) with the verif guard OFF.
# The two baseline-flaky tests and the always-failing one are not selected (TestLinkedListQueue can
# panic the test binary after completion in this sandbox, which would take unrelated tests down).
export GOFLAGS=-mod=mod GOPROXY=off GOSUMDB=off GOTOOLCHAIN=local
REPO=${VERIF_REPO:-/repo}
cd "$REPO" || exit 2
ROOT='^(TestActorAsk|TestActorCommon|TestCast|TestChannelQueue|TestClone|TestCompType|TestCompose|TestCorDoNotation|TestCorYield|TestCurry|TestFPFunctions|TestFilter|TestFilterForInterface|TestFlatMap|TestFromArrayMapReduce|TestFromArrayMapReduceForInterface|TestIsPresent|TestLet|TestMonadIO|TestOr|TestPatternMatching|TestPublisher|TestSetForInterfaceSetOperation|TestSetSetOperation|TestSort|TestSortDescriptor|TestSortForInterface|TestStreamForInterfaceSetOperation|TestStreamSetForInterfaceSetOperation|TestStreamSetOperation|TestStreamSetSetOperation|TestType|TestVariadic)$'
out=$( { go test -vet=off -count=1 -v -run "$ROOT" . ; go test -vet=off -count=1 -v -run '^(TestSimpleAPI|TestSimpleAPIMultipart)$' ./network ; go test -vet=off -count=1 -v -run '^(TestScheduleWithTimeout|TestWorkerPool)$' ./worker ; } 2>&1 )
pass=$(echo "$out" | grep -c '^--- PASS')
fail=$(echo "$out" | grep -c '^--- FAIL')
echo "$out" | grep -E '^(--- FAIL|FAIL|panic|ok)' 
echo "stable baseline: pass=$pass fail=$fail (expected pass=37 fail=0)"
[ "$pass" = 37 ] && [ "$fail" = 0 ]
