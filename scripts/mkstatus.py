#!/usr/bin/env python3
"""Rebuild the per-property status table of DESIGN.md section 12.3 from evidence/*.json, Audit files and manifest.d."""
import json, os, re
root = os.path.dirname(os.path.dirname(os.path.abspath(__file__)))
rows = []
for i in range(1, 21):
    c = f"C{i:02d}"
    ev = {}
    p = os.path.join(root, "evidence", c + ".json")
    if os.path.exists(p):
        ev = json.load(open(p))
    cov = ev.get("coverage", {})
    corr = cov.get("correspondence") or {}
    gens = ", ".join(sorted((cov.get("gen") or {}).keys())) or "-"
    audit = open(os.path.join(root, "lean", "FpgoVerif", "Audit", c + ".lean")).read()
    closing = [n for n in re.findall(r"^#print axioms\s+(\S+)", audit, re.M)]
    md = os.path.join(root, "manifest.d", c + ".json")
    partial = len(json.load(open(md)).get("partial", [])) if os.path.exists(md) else 0
    rows.append(f"| {c} | {cov.get('discharged','?')}/{cov.get('obligations','?')} | {corr.get('cases','?')} ({ev.get('tier','?')}) | {corr.get('mismatches','?')} | {ev.get('wall_s','?')} | {partial} |")
B, E = "<!-- BEGIN status table -->", "<!-- END status table -->"
block = (B + "\n\nLast committed evidence (written by the checks themselves; `partial` = number of clauses / aspects listed in "
         "`manifest.d/Cxx.json` as proved only in part, decided by correspondence only, or resting on a runtime assumption):\n\n"
         "| property | theorems discharged | correspondence cases (tier) | mismatches | wall s | partial notes |\n|---|---|---|---|---|---|\n"
         + "\n".join(rows) + "\n\nThe regenerated `Gen/*.lean` files every check depends on are listed with their hashes in each evidence file (`coverage.gen`).\n\n" + E)
p = os.path.join(root, "DESIGN.md")
s = open(p).read()
if B in s:
    s = s[: s.index(B)] + block + s[s.index(E) + len(E):]
else:
    s = s.replace("### 12.3 Per-property status\n", "### 12.3 Per-property status\n\n" + block + "\n")
open(p, "w").write(s)
print("status table rebuilt")
