#!/usr/bin/env python3
"""Rebuild DESIGN.md section 12.4 (which check catches which seeded change) from seeded/*/meta.json + result.json."""
import json, os
root = os.path.dirname(os.path.dirname(os.path.abspath(__file__)))
rows = []
for sid in sorted(os.listdir(os.path.join(root, "seeded"))):
    d = os.path.join(root, "seeded", sid)
    if not os.path.exists(os.path.join(d, "meta.json")):
        continue
    m = json.load(open(os.path.join(d, "meta.json")))
    r = json.load(open(os.path.join(d, "result.json"))) if os.path.exists(os.path.join(d, "result.json")) else {}
    how = "not run yet"
    if r:
        if r.get("caught"):
            rp = r.get("replay", {})
            if r.get("no_failing_input_found"):
                how = "caught: obligation/correspondence broken, no-failing-input-found (" + "; ".join(rp.get("broken", [])[:1])[:140] + ")"
            else:
                how = "caught with replay `" + str(rp.get("case"))[:90] + "`" + (" + broken obligation" if rp.get("broken") else "")
        else:
            how = "**MISSED**"
    summ = (m.get("summary") or "").replace("\n", " ").replace("|", "/")
    rows.append(f"| {sid} | {m.get('property')} | {summ[:230]} | {how.replace('|','/')} ({r.get('tier','')}, {r.get('wall_s','?')} s) |")
B, E = "<!-- BEGIN seeded table -->", "<!-- END seeded table -->"
block = B + "\n\n| seeded change | property | what was changed | outcome of `./check` |\n|---|---|---|---|\n" + "\n".join(rows) + "\n\n" + E
p = os.path.join(root, "DESIGN.md")
s = open(p).read()
if B in s:
    s = s[: s.index(B)] + block + s[s.index(E) + len(E):]
else:
    s = s.rstrip("\n") + """

### 12.4 Seeded changes (independent breakage) and which check catches them

Each directory `seeded/<id>/` holds a change to fpGo written by a fresh sub-agent that saw only the
property text and a scratch worktree of `/repo` (nothing from `/verif`): `patch.diff`, a demonstration
that fails with the change and passes without it, and `meta.json` (what it needs to manifest, what
was run to confirm it: builds with and without the tag, stable baseline green with the patch, demo
passes without / fails with the patch).  `scripts/seeded.py` applies each one to a scratch worktree of
`/repo`'s HEAD, runs the property's check with `VERIF_REPO` pointing there and records the outcome in
`seeded/<id>/result.json`; this table is rebuilt from those files by `scripts/mkseeded_table.py`.

""" + block + "\n"
open(p, "w").write(s)
print(len(rows), "rows")
