#!/usr/bin/env python3
"""Run the registered checks against the seeded changes kept under /verif/seeded/<id>/.

    scripts/seeded.py [id ...] [--tier quick|thorough] [--demo] [--in-repo]

For every selected seeded/<id>/ (patch.diff, meta.json, demonstration): take a scratch git worktree of
/repo's HEAD outside /repo and /verif, apply the patch, optionally run the demonstration (must fail
with the patch), run `VERIF_REPO=<worktree> ./check <property>` and record whether it reports a
VIOLATION (seeded/<id>/result.json).  The worktree is removed afterwards.  With --in-repo the patch is
applied to /repo itself (git apply), the check run, and the patch undone straight afterwards
(git checkout -- .) — only when nothing else is using /repo.
"""
import json, os, subprocess, sys, shutil, time

ROOT = os.path.dirname(os.path.dirname(os.path.abspath(__file__)))
REPO = "/repo"
ENV = dict(os.environ, GOFLAGS="-mod=mod", GOPROXY="off", GOSUMDB="off", GOTOOLCHAIN="local")


def sh(cmd, cwd=None, env=None, timeout=3600):
    p = subprocess.run(cmd, cwd=cwd, env=env or ENV, stdout=subprocess.PIPE, stderr=subprocess.STDOUT, text=True, timeout=timeout)
    return p.returncode, p.stdout


def main():
    args = sys.argv[1:]
    tier = "quick"
    demo = "--demo" in args
    in_repo = "--in-repo" in args
    if "--tier" in args:
        tier = args[args.index("--tier") + 1]
    ids = [a for a in args if not a.startswith("--") and a not in ("quick", "thorough")]
    sdir = os.path.join(ROOT, "seeded")
    if not ids:
        ids = sorted(d for d in os.listdir(sdir) if os.path.isdir(os.path.join(sdir, d)))
    summary = []
    for sid in ids:
        d = os.path.join(sdir, sid)
        meta = json.load(open(os.path.join(d, "meta.json")))
        prop = meta["property"]
        patch = os.path.join(d, "patch.diff")
        wt = REPO if in_repo else f"/tmp/seedrun-{sid}-{os.getpid()}"
        res = {"id": sid, "property": prop, "tier": tier}
        try:
            if not in_repo:
                sh(["git", "-C", REPO, "worktree", "add", "--detach", "-f", wt, "HEAD"])
            rc, out = sh(["git", "-C", wt, "apply", patch])
            if rc != 0:
                res["error"] = "patch does not apply: " + out[-500:]
                summary.append(res)
                continue
            if demo and meta.get("demo_cmd"):
                place = meta.get("demo_place")
                src = os.path.join(d, meta.get("demo_file", "demo_test.go"))
                if place and os.path.exists(src):
                    os.makedirs(os.path.dirname(os.path.join(wt, place)) or wt, exist_ok=True)
                    shutil.copy(src, os.path.join(wt, place))
                rc, out = sh(["bash", "-c", meta["demo_cmd"]], cwd=wt, timeout=900)
                res["demo_fails_with_patch"] = rc != 0
                if place:
                    try:
                        os.remove(os.path.join(wt, place))
                    except OSError:
                        pass
            t0 = time.time()
            env = dict(ENV, VERIF_REPO=wt, VERIF_TIER=tier, VERIF_EVIDENCE_DIR=f"/tmp/seedrun-evidence-{os.getpid()}")
            rc, out = sh([os.path.join(ROOT, "check"), prop, "--tier", tier], cwd=ROOT, env=env, timeout=7200)
            res["check_rc"] = rc
            res["violation_lines"] = [l for l in out.split("\n") if l.startswith("VIOLATION")]
            res["caught"] = rc == 1 and any(l.startswith(f"VIOLATION property={prop}") for l in res["violation_lines"])
            # a change seeded against one property may really break a clause owned by another property's check
            for other in meta.get("also_properties", []):
                if res["caught"]:
                    break
                rc2, out2 = sh([os.path.join(ROOT, "check"), other, "--tier", tier], cwd=ROOT, env=env, timeout=7200)
                v2 = [l for l in out2.split("\n") if l.startswith("VIOLATION")]
                res.setdefault("other_checks", {})[other] = {"rc": rc2, "violation_lines": v2}
                if rc2 == 1 and any(l.startswith(f"VIOLATION property={other}") for l in v2):
                    res["caught"] = True
                    res["caught_by"] = other
                    res["violation_lines"] = v2
                    out = out2
            res["no_failing_input_found"] = any("no-failing-input-found" in l for l in res["violation_lines"])
            res["wall_s"] = round(time.time() - t0, 1)
            res["tail"] = out[-600:]
            for l in res["violation_lines"]:
                rp = l.split("replay=")[1].split()[0]
                try:
                    res["replay"] = json.load(open(os.path.join(ROOT, rp)))
                except Exception:
                    pass
        finally:
            if in_repo:
                sh(["git", "-C", REPO, "checkout", "--", "."])
                sh(["git", "-C", REPO, "clean", "-fdq"])
            else:
                sh(["git", "-C", REPO, "worktree", "remove", "--force", wt])
                shutil.rmtree(wt, ignore_errors=True)
        with open(os.path.join(d, "result.json"), "w") as f:
            json.dump(res, f, indent=1, sort_keys=True)
            f.write("\n")
        summary.append(res)
        print(f"{sid:28s} {prop} caught={res.get('caught')} nfi={res.get('no_failing_input_found')} "
              f"{res.get('wall_s','')}s {res.get('error','')}")
    missed = [r["id"] for r in summary if not r.get("caught")]
    print(f"{len(summary) - len(missed)}/{len(summary)} seeded changes caught; missed: {missed}")
    # restore Gen/evidence for the unchanged tree is the caller's business (re-run the checks)


if __name__ == "__main__":
    main()
